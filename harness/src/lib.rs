//! Shared pieces of the implementation-side correspondence harness.
//! One binary per property lives in src/bin/cXX.rs and calls `run_cases(run)`.
pub mod sexp;
pub mod bbi;
pub mod bed;
pub use sexp::{a, S};

use std::io::{BufRead, Write};

/// A `Read + Seek` wrapper that delivers at most `MAX` bytes per `read` call.  Short reads are legal for
/// `Read`: code that needs a whole block or node has to loop or use `read_exact`.  The readers the harness
/// opens on in-memory files go through it, so that every answer the checks compare was obtained under short reads.
pub struct ShortReads<R, const MAX: usize = 61>(pub R);
impl<R: std::io::Read, const MAX: usize> std::io::Read for ShortReads<R, MAX> {
    fn read(&mut self, buf: &mut [u8]) -> std::io::Result<usize> {
        let n = buf.len().min(MAX);
        self.0.read(&mut buf[..n])
    }
}
impl<R: std::io::Seek, const MAX: usize> std::io::Seek for ShortReads<R, MAX> {
    fn seek(&mut self, pos: std::io::SeekFrom) -> std::io::Result<u64> {
        self.0.seek(pos)
    }
}

/// Reads one case (S-expression) per line from stdin, applies `f`, prints one result per line.
/// A panic inside a case is reported as `(2)`; hangs are detected by the caller (bin/check kills
/// the process and resumes after the offending case, recording `(3)`).
pub fn run_cases<F: Fn(&S) -> S + std::panic::RefUnwindSafe>(f: F) {
    let stdin = std::io::stdin();
    let stdout = std::io::stdout();
    if std::env::var("VERIF_PANIC_MSG").is_err() {
        std::panic::set_hook(Box::new(|_| {}));
    }
    for line in stdin.lock().lines() {
        let line = line.unwrap();
        if line.trim().is_empty() {
            continue;
        }
        let case = S::parse(&line);
        let r = std::panic::catch_unwind(|| f(&case));
        let out = match r {
            Ok(s) => s.to_string(),
            Err(_) => "(2)".to_string(),
        };
        let mut o = stdout.lock();
        writeln!(o, "{}", out).unwrap();
        o.flush().unwrap();
    }
}
