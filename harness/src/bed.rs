//! bigBed side of the shared "write a file with the real writer, read it back" driver
//! (owned by the C02/C04 work; used by C06, C08, C09, C13, ...).
