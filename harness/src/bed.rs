//! bigBed side of the shared "write a file with the real writer, read it back" driver
//! (owned by the C02/C04 work; used by C06, C08, C09, C13, ...).
//! Case format: see /verif/coq/theories/Model/EntryBed.v (same table).
//!   case = (kind opts sizes input queries autosql flags)
//!   kind 0 BigBedWrite::write | 1 write_multipass; input ((name start end rest) ...);
//!   queries (0 name s e) | (2 name s e res) | (3) | (4) | (5) autosql | (6) item_count
//!           | (7 ((name s e) ...)) history through one fresh caching reader | (8) info without zoom fields
//!   autosql () | ((bytes)); flags bit0 = print file bytes (uncompressed only), bit1 = zero the summary slot
use crate::bbi::{classify, get_opts, get_sizes, info_s, read_err, runtime, write_options, zoom_err, Opts, SharedSink};
use crate::sexp::{a, S};
use crate::sl;
use bigtools::beddata::BedParserStreamingIterator;
use bigtools::{BBIFileRead, BBIProcessError, BedEntry, BigBedRead, BigBedWrite};
use std::collections::HashMap;
use std::io::Cursor;

pub fn bed_items(s: &S) -> Vec<(String, BedEntry)> {
    s.l()
        .iter()
        .map(|x| (x.at(0).string(), BedEntry { start: x.at(1).u32(), end: x.at(2).u32(), rest: x.at(3).string() }))
        .collect()
}
pub fn bed_autosql(c: &S) -> Option<String> {
    c.at(5).l().first().map(|b| b.string())
}

/// error class codes shared with Model/BigBedWrite.v
pub fn classify_bed(msg: &str) -> i128 {
    if msg.starts_with("Invalid autosql") {
        43
    } else if msg.starts_with("Invalid options") {
        80
    } else {
        classify(msg)
    }
}
pub fn classify_bed_err<E: std::error::Error>(e: &BBIProcessError<E>) -> i128 {
    match e {
        BBIProcessError::IoError(_) => 50,
        other => classify_bed(&other.to_string()),
    }
}

/// Writes a bigBed with the real writer into an in-memory sink; Ok(bytes) or Err(class code).
pub fn write_bigbed(
    kind: u32,
    o: &Opts,
    sizes: HashMap<String, u32>,
    autosql: Option<String>,
    items: Vec<(String, BedEntry)>,
    threads: usize,
) -> Result<Vec<u8>, i128> {
    let sink = SharedSink::new();
    let mut w = BigBedWrite::new(sink.clone(), sizes);
    w.options = write_options(o);
    w.autosql = autosql;
    let allow = !o.sort_all;
    let rt = runtime(threads);
    let r = if kind == 0 {
        let src = BedParserStreamingIterator::wrap_infallible_iter(items.into_iter(), allow);
        w.write(src, rt)
    } else {
        w.write_multipass(
            || Ok(BedParserStreamingIterator::wrap_infallible_iter(items.clone().into_iter(), allow)),
            rt,
        )
    };
    match r {
        Ok(()) => Ok(sink.bytes()),
        Err(e) => Err(classify_bed_err(&e)),
    }
}

pub fn entry_s(e: &BedEntry) -> S {
    sl![a(e.start), a(e.end), S::from_str(&e.rest)]
}
fn summary_s(s: &bigtools::Summary) -> S {
    sl![a(s.total_items), a(s.bases_covered), a(s.min_val.to_bits()), a(s.max_val.to_bits()), a(s.sum.to_bits()), a(s.sum_squares.to_bits())]
}
fn zrec_s(z: &bigtools::ZoomRecord) -> S {
    sl![a(z.start), a(z.end), a(z.summary.bases_covered), a(z.summary.min_val.to_bits()), a(z.summary.max_val.to_bits()), a(z.summary.sum.to_bits()), a(z.summary.sum_squares.to_bits())]
}
pub fn info_lite_s(i: &bigtools::BBIFileInfo) -> S {
    let h = &i.header;
    sl![
        S::b(matches!(i.filetype, bigtools::BBIFile::BigWig)),
        a(h.version),
        a(h.field_count),
        a(h.defined_field_count),
        S::L(i.chrom_info.iter().zip(bigtools::verif_hooks::chrom_ids(i)).map(|(c, id)| sl![S::from_str(&c.name), a(id), a(c.length)]).collect())
    ]
}

/// get_interval drained until the first error.
pub fn bb_interval<R: BBIFileRead>(r: &mut BigBedRead<R>, c: &str, s: u32, e: u32) -> S {
    match r.get_interval(c, s, e) {
        Err(e) => read_err(&e),
        Ok(it) => {
            let mut out = vec![];
            for v in it {
                match v {
                    Ok(v) => out.push(entry_s(&v)),
                    Err(e) => return read_err(&e),
                }
            }
            sl![a(0), S::L(out)]
        }
    }
}

/// Answers one query (kinds 0,2,3,4,5,6,8) against a bigBed reader (plain or caching).
pub fn bb_answer<R: BBIFileRead>(r: &mut BigBedRead<R>, q: &S) -> S {
    let k = q.at(0).u32();
    match k {
        0 => bb_interval(r, &q.at(1).string(), q.at(2).u32(), q.at(3).u32()),
        2 => match r.get_zoom_interval(&q.at(1).string(), q.at(2).u32(), q.at(3).u32(), q.at(4).u32()) {
            Err(e) => zoom_err(&e),
            Ok(it) => {
                let mut out = vec![];
                for v in it {
                    match v {
                        Ok(v) => out.push(zrec_s(&v)),
                        Err(e) => return read_err(&e),
                    }
                }
                sl![a(0), S::L(out)]
            }
        },
        3 => match r.get_summary() {
            Ok(s) => sl![a(0), summary_s(&s)],
            Err(_) => sl![a(1), a(1)],
        },
        4 => sl![a(0), info_s(r.info())],
        5 => match r.autosql() {
            Ok(None) => sl![a(0), sl![]],
            Ok(Some(s)) => sl![a(0), sl![S::from_str(&s)]],
            Err(e) => read_err(&e),
        },
        6 => match r.item_count() {
            Ok(n) => sl![a(0), a(n)],
            Err(e) => read_err(&e),
        },
        _ => sl![a(0), info_lite_s(r.info())],
    }
}

/// A whole query history through one fresh caching reader.
pub fn bb_history(bytes: &[u8], qs: &S) -> S {
    let r = BigBedRead::open(crate::ShortReads::<_, 4096>(Cursor::new(bytes.to_vec()))).expect("reopen for the caching reader");
    let mut r = r.cached();
    S::L(qs.l().iter().map(|q| bb_interval(&mut r, &q.at(0).string(), q.at(1).u32(), q.at(2).u32())).collect())
}

pub fn open_err(e: &bigtools::BigBedReadOpenError) -> S {
    let code = match e {
        bigtools::BigBedReadOpenError::NotABigBed => 2,
        bigtools::BigBedReadOpenError::InvalidChroms => 3,
        bigtools::BigBedReadOpenError::IoError(_) => 1,
    };
    sl![a(1), a(code)]
}

/// The read-back half: file bytes (as the flags ask) and the answers.
pub fn read_back(c: &S, o: &Opts, bytes: Vec<u8>) -> S {
    let flags = c.at(6).u32();
    let mut r = match BigBedRead::open(crate::ShortReads::<_, 61>(Cursor::new(bytes.clone()))) {
        Ok(r) => r,
        Err(e) => {
            let file_s = if flags & 1 != 0 && !o.compress { S::from_bytes(&bytes) } else { S::L(vec![]) };
            return sl![a(0), file_s, open_err(&e)];
        }
    };
    let file_s = if flags & 1 != 0 && !o.compress {
        let mut shown = bytes.clone();
        if flags & 2 != 0 {
            let off = bigtools::verif_hooks::header_raw(r.info()).5 as usize;
            for b in shown.iter_mut().skip(off).take(40) {
                *b = 0;
            }
        }
        S::from_bytes(&shown)
    } else {
        S::L(vec![])
    };
    let answers: Vec<S> = c
        .at(4)
        .l()
        .iter()
        .map(|q| if q.at(0).u32() == 7 { bb_history(&bytes, q.at(1)) } else { bb_answer(&mut r, q) })
        .collect();
    sl![a(0), file_s, S::L(answers)]
}

/// The whole case: write, then read back and answer the queries.
pub fn run(c: &S) -> S {
    let kind = c.at(0).u32();
    let o = get_opts(c.at(1));
    let sizes = get_sizes(c.at(2));
    let threads = std::env::var("VERIF_THREADS").ok().and_then(|x| x.parse().ok()).unwrap_or(2usize);
    let bytes = match write_bigbed(kind, &o, sizes, bed_autosql(c), bed_items(c.at(3)), threads) {
        Ok(b) => b,
        Err(code) => return sl![a(1), a(code)],
    };
    read_back(c, &o, bytes)
}
