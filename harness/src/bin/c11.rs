//! C11: the real bigWig / bigBed writers run under many configurations (worker threads, runtime
//! flavour, channel capacity, in-memory vs temporary-file staging, serial vs per-chromosome-parallel
//! source, seeded delays at the hand-off points); every sink must hold the reference run's bytes, and the
//! reference bytes of an uncompressed file (bigWig and bigBed) are printed for comparison with the writer model.
//! Case / output format: /verif/coq/theories/Model/Entry_C11.v.
//! Extra kinds used by the converter checks of tools/vlib/props/C11.py:
//!   (10 opts sizes items path)  write a bigWig to the file `path`   -> (0) | (1 code)
//!   (11 opts sizes items path)  write a bigBed to the file `path`   -> (0) | (1 code)
use bigtools::bed::bedparser::{parse_bed, parse_bedgraph};
use bigtools::bed::indexer::index_chroms;
use bigtools::beddata::{BedParserParallelStreamingIterator, BedParserStreamingIterator};
use bigtools::utils::verif_delay::set_delay_seed;
use bigtools::{BBIDataSource, BBIProcessError, BedEntry, BigBedWrite, BigWigWrite, Value};
use bt_harness::bbi::{bw_items, classify_err, get_opts, get_sizes, runtime, write_options, Opts, SharedSink};
use bt_harness::bed::classify_bed_err;
use bt_harness::{a, sl, S};
use std::collections::HashMap;
use std::fs::File;
use std::io::Write;
use std::path::PathBuf;

struct Cfg {
    threads: usize,
    inmemory: bool,
    chan: usize,
    source: u32,
    seed: u64,
}
fn get_cfg(s: &S) -> Cfg {
    Cfg { threads: s.at(0).usize(), inmemory: s.at(1).bool(), chan: s.at(2).usize(), source: s.at(3).u32(), seed: s.at(4).u64() }
}

#[derive(PartialEq, Clone)]
enum Outcome {
    Written(Vec<u8>),
    Refused(i128),
}

/// The input as a text file (bedGraph / bed) with the offset at which each chromosome's run starts.
struct TextInput {
    _dir: tempfile::TempDir,
    path: PathBuf,
    index: Vec<(u64, String)>,
}
fn text_input(lines: &[(String, String)]) -> TextInput {
    let dir = tempfile::tempdir().unwrap();
    let path = dir.path().join("input.txt");
    let mut f = File::create(&path).unwrap();
    let mut index: Vec<(u64, String)> = vec![];
    let mut off = 0u64;
    for (chrom, line) in lines {
        if index.last().map(|l| &l.1 != chrom).unwrap_or(true) {
            index.push((off, chrom.clone()));
        }
        f.write_all(line.as_bytes()).unwrap();
        off += line.len() as u64;
    }
    f.flush().unwrap();
    TextInput { _dir: dir, path, index }
}

fn finish<E: std::error::Error>(r: Result<(), BBIProcessError<E>>, sink: &SharedSink, bed: bool) -> Outcome {
    match r {
        Ok(()) => Outcome::Written(sink.bytes()),
        // class codes of Model/BigWigWrite.v / Model/BigBedWrite.v (bigBed adds 43 autoSql, 80 options)
        Err(e) => Outcome::Refused(if bed { classify_bed_err(&e) } else { classify_err(&e) }),
    }
}

fn bw_with<V, F>(two_pass: bool, o: &Opts, cfg: &Cfg, sizes: &HashMap<String, u32>, make: F) -> Outcome
where
    V: BBIDataSource<Value = Value>,
    F: Fn() -> Result<V, BBIProcessError<V::Error>>,
{
    let sink = SharedSink::new();
    let mut w = BigWigWrite::new(sink.clone(), sizes.clone());
    w.options = write_options(o);
    w.options.channel_size = cfg.chan;
    w.options.inmemory = cfg.inmemory;
    let rt = runtime(cfg.threads);
    let r = if two_pass {
        w.write_multipass(make, rt)
    } else {
        match make() {
            Ok(v) => w.write(v, rt),
            Err(e) => Err(e),
        }
    };
    finish(r, &sink, false)
}
fn bb_with<V, F>(two_pass: bool, o: &Opts, cfg: &Cfg, sizes: &HashMap<String, u32>, make: F) -> Outcome
where
    V: BBIDataSource<Value = BedEntry>,
    F: Fn() -> Result<V, BBIProcessError<V::Error>>,
{
    let sink = SharedSink::new();
    let mut w = BigBedWrite::new(sink.clone(), sizes.clone());
    w.options = write_options(o);
    w.options.channel_size = cfg.chan;
    w.options.inmemory = cfg.inmemory;
    let rt = runtime(cfg.threads);
    let r = if two_pass {
        w.write_multipass(make, rt)
    } else {
        match make() {
            Ok(v) => w.write(v, rt),
            Err(e) => Err(e),
        }
    };
    finish(r, &sink, true)
}

/// chromosome offsets: computed by the harness (source 2) or by the library's indexer (source 3)
fn chrom_index(t: &TextInput, source: u32) -> Vec<(u64, String)> {
    if source == 3 {
        if let Ok(Some(ix)) = File::open(&t.path).and_then(index_chroms) {
            return ix;
        }
    }
    t.index.clone()
}

fn run_bw(two_pass: bool, o: &Opts, cfg: &Cfg, sizes: &HashMap<String, u32>, items: &Vec<(String, Value)>, t: &TextInput) -> Outcome {
    let allow = !o.sort_all;
    match cfg.source {
        0 => bw_with(two_pass, o, cfg, sizes, || Ok(BedParserStreamingIterator::wrap_infallible_iter(items.clone().into_iter(), allow))),
        1 => bw_with(two_pass, o, cfg, sizes, || {
            let f = File::open(&t.path).map_err(BBIProcessError::IoError)?;
            Ok(BedParserStreamingIterator::from_bedgraph_file(f, allow))
        }),
        s => {
            let ix = chrom_index(t, s);
            bw_with(two_pass, o, cfg, sizes, || Ok(BedParserParallelStreamingIterator::new(ix.clone(), allow, t.path.clone(), parse_bedgraph)))
        }
    }
}
fn run_bb(two_pass: bool, o: &Opts, cfg: &Cfg, sizes: &HashMap<String, u32>, items: &Vec<(String, BedEntry)>, t: &TextInput) -> Outcome {
    let allow = !o.sort_all;
    match cfg.source {
        0 => bb_with(two_pass, o, cfg, sizes, || Ok(BedParserStreamingIterator::wrap_infallible_iter(items.clone().into_iter(), allow))),
        1 => bb_with(two_pass, o, cfg, sizes, || {
            let f = File::open(&t.path).map_err(BBIProcessError::IoError)?;
            Ok(BedParserStreamingIterator::from_bed_file(f, allow))
        }),
        s => {
            let ix = chrom_index(t, s);
            bb_with(two_pass, o, cfg, sizes, || Ok(BedParserParallelStreamingIterator::new(ix.clone(), allow, t.path.clone(), parse_bed)))
        }
    }
}

fn bb_items(s: &S) -> Vec<(String, BedEntry)> {
    s.l()
        .iter()
        .map(|x| (x.at(0).string(), BedEntry { start: x.at(1).u32(), end: x.at(2).u32(), rest: x.at(3).string() }))
        .collect()
}
fn bw_lines(items: &[(String, Value)]) -> Vec<(String, String)> {
    items.iter().map(|(c, v)| (c.clone(), format!("{}\t{}\t{}\t{}\n", c, v.start, v.end, v.value))).collect()
}
fn bb_lines(items: &[(String, BedEntry)]) -> Vec<(String, String)> {
    items
        .iter()
        .map(|(c, e)| {
            let line = if e.rest.is_empty() { format!("{}\t{}\t{}\n", c, e.start, e.end) } else { format!("{}\t{}\t{}\t{}\n", c, e.start, e.end, e.rest) };
            (c.clone(), line)
        })
        .collect()
}

fn first_diff(x: &[u8], y: &[u8]) -> usize {
    x.iter().zip(y.iter()).position(|(p, q)| p != q).unwrap_or(x.len().min(y.len()))
}

fn write_to_path(c: &S) -> S {
    let kind = c.at(0).u32();
    let o = get_opts(c.at(1));
    let sizes = get_sizes(c.at(2));
    let path = c.at(4).string();
    let allow = !o.sort_all;
    let rt = runtime(2);
    let r = if kind == 10 {
        let mut w = BigWigWrite::create_file(&path, sizes).unwrap();
        w.options = write_options(&o);
        w.write(BedParserStreamingIterator::wrap_infallible_iter(bw_items(c.at(3)).into_iter(), allow), rt).map_err(|e| classify_err(&e))
    } else {
        let mut w = BigBedWrite::create_file(&path, sizes).unwrap();
        w.options = write_options(&o);
        w.write(BedParserStreamingIterator::wrap_infallible_iter(bb_items(c.at(3)).into_iter(), allow), rt).map_err(|e| classify_err(&e))
    };
    match r {
        Ok(()) => sl![a(0)],
        Err(code) => sl![a(1), a(code)],
    }
}

/// Runs one configuration on its own thread; `None` when it has not finished within the watchdog time
/// (a deadlocked run: its threads are left behind, blocked).
fn with_watchdog<F: FnOnce() -> Outcome + Send + 'static>(f: F) -> Option<Outcome> {
    let secs = std::env::var("VERIF_C11_WATCHDOG").ok().and_then(|v| v.parse().ok()).unwrap_or(10u64);
    let (tx, rx) = std::sync::mpsc::channel();
    std::thread::spawn(move || {
        let r = std::panic::catch_unwind(std::panic::AssertUnwindSafe(f));
        let _ = tx.send(r.ok());
    });
    match rx.recv_timeout(std::time::Duration::from_secs(secs)) {
        Ok(Some(o)) => Some(o),
        Ok(None) => Some(Outcome::Refused(-2)), // panic inside the run
        Err(_) => None,
    }
}

/// stop running further configurations when the reference run or two others did not finish
fn give_up(results: &[Option<Outcome>]) -> bool {
    (!results.is_empty() && results[0].is_none()) || results.iter().filter(|r| r.is_none()).count() >= 2
}

fn run(c: &S) -> S {
    let kind = c.at(0).u32();
    if kind >= 10 {
        return write_to_path(c);
    }
    let o = std::sync::Arc::new(get_opts(c.at(1)));
    let sizes = std::sync::Arc::new(get_sizes(c.at(2)));
    let cfgs: Vec<Cfg> = c.at(4).l().iter().map(get_cfg).collect();
    let two_pass = kind == 1 || kind == 3;
    let ncfg = cfgs.len();
    let mut results: Vec<Option<Outcome>> = Vec::with_capacity(cfgs.len());
    if kind < 2 {
        let items = std::sync::Arc::new(bw_items(c.at(3)));
        let t = std::sync::Arc::new(text_input(&bw_lines(&items)));
        for cfg in cfgs {
            if give_up(&results) {
                break;
            }
            set_delay_seed(cfg.seed);
            let (o, sizes, items, t) = (o.clone(), sizes.clone(), items.clone(), t.clone());
            results.push(with_watchdog(move || run_bw(two_pass, &o, &cfg, &sizes, &items, &t)));
        }
    } else {
        let items = std::sync::Arc::new(bb_items(c.at(3)));
        let t = std::sync::Arc::new(text_input(&bb_lines(&items)));
        for cfg in cfgs {
            if give_up(&results) {
                break;
            }
            set_delay_seed(cfg.seed);
            let (o, sizes, items, t) = (o.clone(), sizes.clone(), items.clone(), t.clone());
            results.push(with_watchdog(move || run_bb(two_pass, &o, &cfg, &sizes, &items, &t)));
        }
    }
    set_delay_seed(0);
    let Some(reference) = results[0].clone() else {
        return sl![a(3)];
    };
    // configurations not run because earlier ones deadlocked are reported as not finished too
    while results.len() < ncfg {
        results.push(None);
    }
    let ds: Vec<S> = results
        .iter()
        .enumerate()
        .map(|(i, r)| match (&reference, r) {
            (Outcome::Written(x), Some(Outcome::Written(y))) if x == y => S::L(vec![]),
            (Outcome::Refused(_), Some(Outcome::Refused(_))) => S::L(vec![]),
            (Outcome::Written(x), Some(Outcome::Written(y))) => sl![a(i as u32), a(first_diff(x, y) as u64), a(y.len() as u64)],
            (_, Some(Outcome::Refused(code))) => sl![a(i as u32), a(-1), a(*code)],
            (_, Some(Outcome::Written(y))) => sl![a(i as u32), a(-2), a(y.len() as u64)],
            (_, None) => sl![a(i as u32), a(-3), a(0)],
        })
        .collect();
    match reference {
        Outcome::Written(bytes) => {
            // the bytes of an uncompressed file are compared with the writer model's (bigWig: Model/BigWigWrite.v,
            // bigBed: Model/BigBedWrite.v)
            let file_s = if o.compress { S::L(vec![]) } else { S::from_bytes(&bytes) };
            sl![a(0), file_s, S::L(ds)]
        }
        Outcome::Refused(code) => sl![a(1), a(code), S::L(ds)],
    }
}

fn main() {
    bt_harness::run_cases(run);
}
