//! C14: the real bigWig and bigBed writers driven through a recording / fault-injecting `Write + Seek` sink.
//!
//! case   = (kind opts sizes input queries cfg [autosql])
//!          kind 0/1: bigWig single/two pass, opts/sizes/input/queries as in Model/EntryBBI.v
//!          kind 10/11: bigBed single/two pass, input/queries as in Model/EntryBed.v, autosql () | ((bytes))
//!          (trace model: Model/SinkTraceBed.v)
//!          cfg = (threads inmemory nofault [short])
//!          short = N > 0: a SHORT-WRITE case.  The destination accepts at most N bytes per `write` call (legal for
//!          any `Write`; never a failure).  Two runs: the reference run with the sink that takes everything, and the run
//!          with the short-write sink.  Output as below with status = the short-write run's status, trace = () (not
//!          recorded: one operation per N bytes), runs = the short-write run's coalesced writes, faults = (), and
//!          prefixes = ((0 0 0) (nops 0 v)): v = 1 when the writer returned Ok and the destination holds exactly the
//!          reference run's bytes and answers EVERY query (total summary and item count included) as the reference
//!          file; 2 when it returned Ok and the bytes or an answer differ (a partial file reported as written);
//!          when it did not return Ok: 0 = the reader rejects what was written / 1 = it opens.
//! output = (status trace runs prefixes torn faults)
//!   status   (0) accepted | (1 code) refused | (2) panic
//!   trace    every operation that reached the sink, in order:
//!            (0 pos) seek (resulting position) | (1 pos (bytes)) write | (2) flush
//!   runs     the same trace with seeks/flushes dropped and contiguous writes coalesced: ((pos (bytes)) ...)
//!   prefixes one entry per crash point (operation granularity, and byte cuts inside every write other
//!            than the header operation): (k cut verdict) with verdict 0 = rejected by the real reader,
//!            1 = opened and every advertised query answers as on the final file, 2 = opened but some
//!            answer differs (a partial file passing for a complete one)
//!   torn     byte cuts inside the header operation (outside the property: the header write is assumed
//!            atomic): (cuts accepted-and-different)
//!   faults   one entry per injected failure: (kind k outcome) kind 0 seek / 1 write / 2 flush,
//!            outcome 0 = write returned Ok, 1 = Err or panic, 3 = no return within the watchdog time
use bigtools::beddata::BedParserStreamingIterator;
use bigtools::{BedEntry, BigBedRead, BigBedWrite, BigWigRead, BigWigWrite, Value};
use bt_harness::bbi::{bw_answer, bw_items, classify_err, get_opts, get_sizes, runtime, write_options, Opts};
use bt_harness::bed::{bb_answer, bed_items, classify_bed_err};
use bt_harness::{a, sl, S};
use std::collections::HashMap;
use std::io::{self, Cursor, Seek, SeekFrom, Write};
use std::sync::{Arc, Mutex};

#[derive(Clone, Debug, PartialEq)]
enum Op {
    Seek(u64),
    Write(u64, Vec<u8>),
    Flush,
}

struct SinkState {
    data: Vec<u8>,
    pos: u64,
    log: Vec<Op>,
    count: [usize; 3],
    fail: Option<(usize, usize)>, // (kind, k): the k-th (0-based) operation of that kind fails
    fired: bool,
    short: usize, // > 0: at most this many bytes are accepted per `write` call
}

/// An in-memory sink that logs every operation and can fail one of them.
#[derive(Clone)]
struct RecSink(Arc<Mutex<SinkState>>);
impl RecSink {
    fn new(fail: Option<(usize, usize)>) -> Self {
        RecSink(Arc::new(Mutex::new(SinkState { data: vec![], pos: 0, log: vec![], count: [0; 3], fail, fired: false, short: 0 })))
    }
    fn short(n: usize) -> Self {
        let s = Self::new(None);
        s.0.lock().unwrap().short = n;
        s
    }
    fn hit(st: &mut SinkState, kind: usize) -> io::Result<()> {
        let k = st.count[kind];
        st.count[kind] += 1;
        if st.fail == Some((kind, k)) {
            st.fired = true;
            return Err(io::Error::new(io::ErrorKind::Other, "injected failure"));
        }
        Ok(())
    }
}
impl Write for RecSink {
    fn write(&mut self, buf: &[u8]) -> io::Result<usize> {
        let mut st = self.0.lock().unwrap();
        Self::hit(&mut st, 1)?;
        let buf = if st.short > 0 && buf.len() > st.short { &buf[..st.short] } else { buf };
        let pos = st.pos as usize;
        if st.data.len() < pos + buf.len() {
            st.data.resize(pos + buf.len(), 0);
        }
        st.data[pos..pos + buf.len()].copy_from_slice(buf);
        st.log.push(Op::Write(pos as u64, buf.to_vec()));
        st.pos += buf.len() as u64;
        Ok(buf.len())
    }
    fn flush(&mut self) -> io::Result<()> {
        let mut st = self.0.lock().unwrap();
        Self::hit(&mut st, 2)?;
        st.log.push(Op::Flush);
        Ok(())
    }
}
impl Seek for RecSink {
    fn seek(&mut self, to: SeekFrom) -> io::Result<u64> {
        let mut st = self.0.lock().unwrap();
        Self::hit(&mut st, 0)?;
        let np: i128 = match to {
            SeekFrom::Start(p) => p as i128,
            SeekFrom::Current(d) => st.pos as i128 + d as i128,
            SeekFrom::End(d) => st.data.len() as i128 + d as i128,
        };
        if np < 0 {
            return Err(io::Error::new(io::ErrorKind::InvalidInput, "seek before start"));
        }
        st.pos = np as u64;
        st.log.push(Op::Seek(np as u64));
        Ok(np as u64)
    }
}

/// status of one run of the real writer: Ok / Err(code)
fn run_writer(kind: u32, o: &Opts, sizes: &HashMap<String, u32>, items: &[(String, Value)], threads: usize, inmemory: bool, sink: RecSink) -> Result<(), i128> {
    let mut w = BigWigWrite::new(sink, sizes.clone());
    w.options = write_options(o);
    w.options.inmemory = inmemory;
    let allow = !o.sort_all;
    let rt = runtime(threads);
    let r = if kind == 0 {
        let src = BedParserStreamingIterator::wrap_infallible_iter(items.to_vec().into_iter(), allow);
        w.write(src, rt)
    } else {
        let items = items.to_vec();
        w.write_multipass(|| Ok(BedParserStreamingIterator::wrap_infallible_iter(items.clone().into_iter(), allow)), rt)
    };
    r.map_err(|e| classify_err(&e))
}

fn run_writer_bed(kind: u32, o: &Opts, sizes: &HashMap<String, u32>, autosql: &Option<String>, items: &[(String, BedEntry)], threads: usize, inmemory: bool, sink: RecSink) -> Result<(), i128> {
    let mut w = BigBedWrite::new(sink, sizes.clone());
    w.options = write_options(o);
    w.options.inmemory = inmemory;
    w.autosql = autosql.clone();
    let allow = !o.sort_all;
    let rt = runtime(threads);
    let r = if kind == 10 {
        let src = BedParserStreamingIterator::wrap_infallible_iter(items.to_vec().into_iter(), allow);
        w.write(src, rt)
    } else {
        let items = items.to_vec();
        w.write_multipass(|| Ok(BedParserStreamingIterator::wrap_infallible_iter(items.clone().into_iter(), allow)), rt)
    };
    r.map_err(|e| classify_bed_err(&e))
}

/// the input of one case, for either file type
#[derive(Clone)]
enum Input {
    Wig(Vec<(String, Value)>),
    Bed(Vec<(String, BedEntry)>, Option<String>),
}
fn run_any(kind: u32, o: &Opts, sizes: &HashMap<String, u32>, input: &Input, threads: usize, inmemory: bool, sink: RecSink) -> Result<(), i128> {
    match input {
        Input::Wig(items) => run_writer(kind, o, sizes, items, threads, inmemory, sink),
        Input::Bed(items, asql) => run_writer_bed(kind, o, sizes, asql, items, threads, inmemory, sink),
    }
}

fn op_s(op: &Op) -> S {
    match op {
        Op::Seek(p) => sl![a(0), a(*p)],
        Op::Write(p, b) => sl![a(1), a(*p), S::from_bytes(b)],
        Op::Flush => sl![a(2)],
    }
}

fn coalesce(log: &[Op]) -> Vec<(u64, Vec<u8>)> {
    let mut runs: Vec<(u64, Vec<u8>)> = vec![];
    for op in log {
        if let Op::Write(p, b) = op {
            if b.is_empty() {
                continue;
            }
            if let Some(last) = runs.last_mut() {
                if last.0 + last.1.len() as u64 == *p {
                    last.1.extend_from_slice(b);
                    continue;
                }
            }
            runs.push((*p, b.clone()));
        }
    }
    runs
}

fn apply(buf: &mut Vec<u8>, pos: u64, b: &[u8]) {
    let pos = pos as usize;
    if buf.len() < pos + b.len() {
        buf.resize(pos + b.len(), 0);
    }
    buf[pos..pos + b.len()].copy_from_slice(b);
}

/// None = rejected by the reader; Some(answers) otherwise.  The total summary (query kind 3) is what
/// may still be missing after the header operation: it is not compared.
fn serve(bed: bool, bytes: &[u8], queries: &[S]) -> Option<Vec<S>> {
    let r = std::panic::catch_unwind(|| {
        if bed {
            // the total summary (3) and the item count (6) live in the slots written after the header
            // operation; a query history (7) needs a second reader
            let mut r = match BigBedRead::open(Cursor::new(bytes.to_vec())) {
                Ok(r) => r,
                Err(_) => return None,
            };
            return Some(queries.iter().filter(|q| ![3, 6, 7].contains(&q.at(0).u32())).map(|q| bb_answer(&mut r, q)).collect::<Vec<S>>());
        }
        let mut r = match BigWigRead::open(Cursor::new(bytes.to_vec())) {
            Ok(r) => r,
            Err(_) => return None,
        };
        Some(queries.iter().filter(|q| q.at(0).u32() != 3).map(|q| bw_answer(&mut r, q)).collect::<Vec<S>>())
    });
    match r {
        Ok(x) => x,
        Err(_) => Some(vec![sl![a(2)]]), // a panic while serving: never equal to the final answers
    }
}

fn run(c: &S) -> S {
    let kind = c.at(0).u32();
    let o = get_opts(c.at(1));
    let sizes = get_sizes(c.at(2));
    let bed = kind >= 10;
    let input = if bed {
        Input::Bed(bed_items(c.at(3)), c.at(6).l().first().map(|b| b.string()))
    } else {
        Input::Wig(bw_items(c.at(3)))
    };
    let queries: Vec<S> = c.at(4).l().to_vec();
    let threads = c.at(5).at(0).usize();
    let inmemory = c.at(5).at(1).bool();
    let nofault = c.at(5).at(2).bool();

    // 1. the recorded trace of the undisturbed run
    let sink = RecSink::new(None);
    let res = std::panic::catch_unwind(std::panic::AssertUnwindSafe(|| run_any(kind, &o, &sizes, &input, threads, inmemory, sink.clone())));
    let status = match &res {
        Ok(Ok(())) => sl![a(0)],
        Ok(Err(code)) => sl![a(1), a(*code)],
        Err(_) => sl![a(2)],
    };
    let (log, final_bytes) = {
        let st = sink.0.lock().unwrap();
        (st.log.clone(), st.data.clone())
    };
    let trace = S::L(log.iter().map(op_s).collect());
    let runs = S::L(coalesce(&log).iter().map(|(p, b)| sl![a(*p), S::from_bytes(b)]).collect());

    // short-write case: the same call once more into a destination that takes at most `short` bytes per write
    let short = c.at(5).l().get(3).map(|x| x.usize()).unwrap_or(0);
    if short > 0 {
        let ssink = RecSink::short(short);
        let sres = std::panic::catch_unwind(std::panic::AssertUnwindSafe(|| run_any(kind, &o, &sizes, &input, threads, inmemory, ssink.clone())));
        let sstatus = match &sres {
            Ok(Ok(())) => sl![a(0)],
            Ok(Err(code)) => sl![a(1), a(*code)],
            Err(_) => sl![a(2)],
        };
        let (slog, sbytes) = {
            let st = ssink.0.lock().unwrap();
            (st.log.clone(), st.data.clone())
        };
        let all = |bytes: &[u8]| -> Option<Vec<S>> {
            std::panic::catch_unwind(|| {
                if bed {
                    let mut r = BigBedRead::open(Cursor::new(bytes.to_vec())).ok()?;
                    Some(queries.iter().filter(|q| q.at(0).u32() != 7).map(|q| bb_answer(&mut r, q)).collect::<Vec<S>>())
                } else {
                    let mut r = BigWigRead::open(Cursor::new(bytes.to_vec())).ok()?;
                    Some(queries.iter().map(|q| bw_answer(&mut r, q)).collect::<Vec<S>>())
                }
            })
            .unwrap_or_else(|_| Some(vec![sl![a(2)]]))
        };
        let sans = all(&sbytes);
        let v = if matches!(sres, Ok(Ok(()))) {
            if matches!(res, Ok(Ok(()))) && sbytes == final_bytes && sans.is_some() && sans == all(&final_bytes) {
                1
            } else {
                2
            }
        } else if sans.is_none() {
            0
        } else {
            1
        };
        let sruns = S::L(coalesce(&slog).iter().map(|(p, b)| sl![a(*p), S::from_bytes(b)]).collect());
        let prefixes = sl![sl![a(0), a(0), a(0)], sl![a(slog.len() as u64), a(0), a(v)]];
        return sl![sstatus, sl![], sruns, prefixes, sl![a(0), a(0)], sl![]];
    }

    // 2. every crash point
    let final_answers = serve(bed, &final_bytes, &queries);
    // the header operation: the first write at position 0 whose first four bytes are not all zero
    let hdr_ix = log.iter().position(|op| matches!(op, Op::Write(0, b) if b.len() >= 4 && b[..4] != [0, 0, 0, 0]));
    let mut prefixes = vec![];
    let mut torn = (0usize, 0usize);
    let mut buf: Vec<u8> = vec![];
    let verdict = |b: &[u8]| -> i128 {
        match serve(bed, b, &queries) {
            None => 0,
            Some(ans) => {
                if Some(&ans) == final_answers.as_ref() {
                    1
                } else {
                    2
                }
            }
        }
    };
    prefixes.push(sl![a(0), a(0), a(verdict(&buf))]);
    for (k, op) in log.iter().enumerate() {
        if let Op::Write(p, b) = op {
            // byte cuts strictly inside the write
            let cuts: Vec<usize> = if b.len() <= 96 {
                (1..b.len()).collect()
            } else {
                let mut v: Vec<usize> = (1..9).collect();
                v.extend([b.len() / 2, b.len() - 2, b.len() - 1]);
                v
            };
            for cut in cuts {
                let mut part = buf.clone();
                apply(&mut part, *p, &b[..cut]);
                let v = verdict(&part);
                if Some(k) == hdr_ix {
                    torn.0 += 1;
                    if v == 2 {
                        torn.1 += 1;
                    }
                } else {
                    prefixes.push(sl![a(k as u64 + 1), a(cut as u64), a(v)]);
                }
            }
            apply(&mut buf, *p, b);
        }
        prefixes.push(sl![a(k as u64 + 1), a(0), a(verdict(&buf))]);
    }

    // 3. a failure injected at every operation of every kind
    let mut faults = vec![];
    if !nofault {
        let counts = {
            let st = sink.0.lock().unwrap();
            st.count
        };
        for kindk in 0..3usize {
            // one more than was seen, so that an operation appearing only on a failure path is still hit
            for k in 0..counts[kindk] {
                let fs = RecSink::new(Some((kindk, k)));
                let (tx, rx) = std::sync::mpsc::channel();
                let (o2, sizes2, input2, fs2) = (get_opts(c.at(1)), sizes.clone(), input.clone(), fs.clone());
                std::thread::spawn(move || {
                    let r = std::panic::catch_unwind(std::panic::AssertUnwindSafe(|| run_any(kind, &o2, &sizes2, &input2, threads, inmemory, fs2)));
                    let _ = tx.send(match r {
                        Ok(Ok(())) => 0,
                        Ok(Err(_)) => 1,
                        Err(_) => 1,
                    });
                });
                let outcome = match rx.recv_timeout(std::time::Duration::from_secs(10)) {
                    Ok(x) => x,
                    Err(_) => 3,
                };
                let fired = fs.0.lock().unwrap().fired;
                // a run in which the chosen operation never happened tells nothing
                faults.push(sl![a(kindk as u64), a(k as u64), a(if fired { outcome } else { 4 })]);
            }
        }
    }
    sl![status, trace, runs, S::L(prefixes), sl![a(torn.0 as u64), a(torn.1 as u64)], S::L(faults)]
}

fn main() {
    bt_harness::run_cases(run);
}
