//! C10: arbitrary file bytes (produced by the independent encoder Spec/FormatEmit.v) read by the
//! real readers.  case = (kind cached bytes queries)
//!   kind    0 BigWigRead::open | 1 BigBedRead::open | 2 GenericBBIRead::open (then whichever it is)
//!   cached  0 plain reader | 1 `.cached()`
//!   queries bigWig: as bt_harness::bbi::bw_answer ((0 name s e) | (1 name s e) | (2 name s e res) | (3) | (4))
//!           bigBed: (0 name s e) entries | (2 name s e res) zoom records | (3) summary | (4) info
//! output = (1 code) when the file cannot be opened, else (0 (answer ...)); every answer is
//! (0 value) | (1 code) ; a panic anywhere is (2) (run_cases).
use bigtools::{BBIFileRead, BBIRead, BigBedRead, BigWigRead, GenericBBIRead};
use bt_harness::bbi::{bw_answer, info_s, read_err, zoom_err};
use bt_harness::{a, sl, S};
use std::io::Cursor;

fn summary_s(s: &bigtools::Summary) -> S {
    sl![a(s.total_items), a(s.bases_covered), a(s.min_val.to_bits()), a(s.max_val.to_bits()), a(s.sum.to_bits()), a(s.sum_squares.to_bits())]
}
fn zrec_s(z: &bigtools::ZoomRecord) -> S {
    sl![a(z.start), a(z.end), a(z.summary.bases_covered), a(z.summary.min_val.to_bits()), a(z.summary.max_val.to_bits()), a(z.summary.sum.to_bits()), a(z.summary.sum_squares.to_bits())]
}

fn bb_answer<R: BBIFileRead>(r: &mut BigBedRead<R>, q: &S) -> S {
    let k = q.at(0).u32();
    let c = q.at(1).string();
    let (s, e) = (q.at(2).u32(), q.at(3).u32());
    match k {
        0 => match r.get_interval(&c, s, e) {
            Err(e) => read_err(&e),
            Ok(it) => {
                let mut out = vec![];
                for v in it {
                    match v {
                        Ok(v) => out.push(sl![a(v.start), a(v.end), S::from_str(&v.rest)]),
                        Err(e) => return read_err(&e),
                    }
                }
                sl![a(0), S::L(out)]
            }
        },
        2 => match r.get_zoom_interval(&c, s, e, q.at(4).u32()) {
            Err(e) => zoom_err(&e),
            Ok(it) => {
                let mut out = vec![];
                for v in it {
                    match v {
                        Ok(v) => out.push(zrec_s(&v)),
                        Err(e) => return read_err(&e),
                    }
                }
                sl![a(0), S::L(out)]
            }
        },
        3 => match r.get_summary() {
            Ok(s) => sl![a(0), summary_s(&s)],
            Err(_) => sl![a(1), a(1)],
        },
        _ => sl![a(0), info_s(r.info())],
    }
}

fn answers_bw<R: BBIFileRead>(mut r: BigWigRead<R>, qs: &S) -> S {
    sl![a(0), S::L(qs.l().iter().map(|q| bw_answer(&mut r, q)).collect())]
}
fn answers_bb<R: BBIFileRead>(mut r: BigBedRead<R>, qs: &S) -> S {
    sl![a(0), S::L(qs.l().iter().map(|q| bb_answer(&mut r, q)).collect())]
}

fn run(c: &S) -> S {
    let kind = c.at(0).u32();
    let cached = c.at(1).bool();
    let bytes = c.at(2).bytes();
    let qs = c.at(3);
    let cur = Cursor::new(bytes);
    match kind {
        0 => match BigWigRead::open(cur) {
            Err(e) => {
                let code = match e {
                    bigtools::BigWigReadOpenError::NotABigWig => 2,
                    bigtools::BigWigReadOpenError::InvalidChroms => 3,
                    bigtools::BigWigReadOpenError::IoError(_) => 1,
                };
                sl![a(1), a(code)]
            }
            Ok(r) => {
                if cached {
                    answers_bw(r.cached(), qs)
                } else {
                    answers_bw(r, qs)
                }
            }
        },
        1 => match BigBedRead::open(cur) {
            Err(e) => {
                let code = match e {
                    bigtools::BigBedReadOpenError::NotABigBed => 2,
                    bigtools::BigBedReadOpenError::InvalidChroms => 3,
                    bigtools::BigBedReadOpenError::IoError(_) => 1,
                };
                sl![a(1), a(code)]
            }
            Ok(r) => {
                if cached {
                    answers_bb(r.cached(), qs)
                } else {
                    answers_bb(r, qs)
                }
            }
        },
        _ => match GenericBBIRead::open(cur) {
            Err(e) => {
                let code = match e {
                    bigtools::GenericBBIFileOpenError::NotABBIFile => 2,
                    bigtools::GenericBBIFileOpenError::InvalidChroms => 3,
                    bigtools::GenericBBIFileOpenError::IoError(_) => 1,
                };
                sl![a(1), a(code)]
            }
            Ok(g) => {
                // the generic reader's own view of the chromosome table must be that of the typed reader
                let _ = g.chroms().len();
                match g {
                    GenericBBIRead::BigWig(r) => {
                        if cached {
                            answers_bw(r.cached(), qs)
                        } else {
                            answers_bw(r, qs)
                        }
                    }
                    GenericBBIRead::BigBed(r) => {
                        if cached {
                            answers_bb(r.cached(), qs)
                        } else {
                            answers_bb(r, qs)
                        }
                    }
                }
            }
        },
    }
}

fn main() {
    bt_harness::run_cases(run);
}
