//! C06: summary statistics / zoom records of files written by the real writers, read back with the real readers.
//!
//! Additional case kinds for the info-tool stage (tools/vlib/props/C06.py `info_tool_runs`):
//!   (20 opts sizes items path)  write a bigWig to the file `path` (BigWigWrite::create_file, single pass), open it with
//!                               BigWigRead::open_file            -> (0 summary) | (1 code)
//!   (21 opts sizes items path)  the same for a bigBed            -> (0 summary item_count) | (1 code)
//!   summary = (total_items bases min max sum sumsq), f64 fields as bit patterns (what `get_summary` returns).
#[path = "../c0608_bed.rs"]
mod bedw;
use bigtools::beddata::BedParserStreamingIterator;
use bigtools::{BigBedRead, BigBedWrite, BigWigRead, BigWigWrite};
use bt_harness::bbi::{bw_items, classify_err, get_opts, get_sizes, runtime, write_options};
use bt_harness::{a, sl, S};

fn summary_s(s: &bigtools::Summary) -> S {
    sl![a(s.total_items), a(s.bases_covered), a(s.min_val.to_bits()), a(s.max_val.to_bits()), a(s.sum.to_bits()), a(s.sum_squares.to_bits())]
}

fn write_and_summarise(c: &S) -> S {
    let kind = c.at(0).u32();
    let o = get_opts(c.at(1));
    let sizes = get_sizes(c.at(2));
    let path = c.at(4).string();
    let allow = !o.sort_all;
    let rt = runtime(2);
    if kind == 20 {
        let mut w = BigWigWrite::create_file(&path, sizes).unwrap();
        w.options = write_options(&o);
        if let Err(e) = w.write(BedParserStreamingIterator::wrap_infallible_iter(bw_items(c.at(3)).into_iter(), allow), rt) {
            return sl![a(1), a(classify_err(&e))];
        }
        let mut r = match BigWigRead::open_file(&path) {
            Ok(r) => r,
            Err(_) => return sl![a(1), a(2)],
        };
        match r.get_summary() {
            Ok(s) => sl![a(0), summary_s(&s)],
            Err(_) => sl![a(1), a(1)],
        }
    } else {
        let mut w = BigBedWrite::create_file(&path, sizes).unwrap();
        w.options = write_options(&o);
        if let Err(e) = w.write(BedParserStreamingIterator::wrap_infallible_iter(bedw::bb_items(c.at(3)).into_iter(), allow), rt) {
            return sl![a(1), a(classify_err(&e))];
        }
        let mut r = match BigBedRead::open_file(&path) {
            Ok(r) => r,
            Err(_) => return sl![a(1), a(2)],
        };
        let s = match r.get_summary() {
            Ok(s) => summary_s(&s),
            Err(_) => return sl![a(1), a(1)],
        };
        match r.item_count() {
            Ok(n) => sl![a(0), s, a(n)],
            Err(_) => sl![a(1), a(3)],
        }
    }
}

fn run(c: &S) -> S {
    match c.at(0).u32() {
        20 | 21 => write_and_summarise(c),
        _ => bedw::run_any(c),
    }
}

fn main() {
    bt_harness::run_cases(run);
}
