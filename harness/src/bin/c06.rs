//! C06: summary statistics / zoom records of files written by the real writers, read back with the real readers.
#[path = "../c0608_bed.rs"]
mod bedw;
fn main() {
    bt_harness::run_cases(bedw::run_any);
}
