//! C20 has no bt_harness binary of its own: the array routines behind pybigtools' `values` are
//! private to a cdylib crate, so the implementation side runs inside pybigtools' own unit-test
//! binary (`/verif/harness/pyarrays_verif.rs`, included there under cfg(all(test, bigtools_verif));
//! built and driven by tools/vlib/props/C20.py `impl_outputs`).  The common check procedure builds
//! `--bin c20` for every property; this placeholder keeps that step uniform.  It answers every case
//! with `(1 0)` ("not the implementation"), which no oracle accepts, so it can never be mistaken
//! for a result of the real code.
use std::io::{BufRead, Write};

fn main() {
    let stdin = std::io::stdin();
    let stdout = std::io::stdout();
    for line in stdin.lock().lines() {
        if line.map(|l| l.trim().is_empty()).unwrap_or(true) {
            continue;
        }
        let mut o = stdout.lock();
        writeln!(o, "(1 0)").unwrap();
        o.flush().unwrap();
    }
}
