//! C05: the writer's R-tree bytes and the reader's search, driven directly through
//! the cfg(bigtools_verif) hooks.
use bt_harness::{a, sl, S};
use bigtools::verif_hooks::{rtree_index_bytes, rtree_search};

fn run(c: &S) -> S {
    let b = c.at(0).u32();
    let ips = c.at(1).u32();
    let pos = c.at(2).u64();
    let secs: Vec<(u32, u32, u32, u64, u64)> = c
        .at(3)
        .l()
        .iter()
        .map(|s| (s.at(0).u32(), s.at(1).u32(), s.at(2).u32(), s.at(3).u64(), s.at(4).u64()))
        .collect();
    let (bytes, levels) = match rtree_index_bytes(&secs, b, ips, pos) {
        Ok(x) => x,
        Err(_) => return sl![a(1), a(1)],
    };
    let mut image = vec![0u8; pos as usize];
    image.extend_from_slice(&bytes);
    let answers: Vec<S> = c
        .at(4)
        .l()
        .iter()
        .map(|q| {
            match rtree_search(&image, false, pos + 48, q.at(0).u32(), q.at(1).u32(), q.at(2).u32()) {
                Ok(v) => sl![a(0), S::L(v.iter().map(|(o, s)| sl![a(*o), a(*s)]).collect())],
                Err(_) => sl![a(1), a(1)],
            }
        })
        .collect();
    sl![a(0), a(levels as u64), S::from_bytes(&bytes), S::L(answers)]
}
fn main() { bt_harness::run_cases(run); }
