//! C05: the writer's R-tree bytes and the reader's search, driven directly through
//! the cfg(bigtools_verif) hooks.
use bt_harness::{a, sl, S};
use bigtools::verif_hooks::{rtree_index_bytes, rtree_search};

/// A reader that returns at most 7 bytes per `read` call (legal for `Read`: whoever needs a whole node
/// has to loop or use `read_exact`).
struct ShortReads(std::io::Cursor<Vec<u8>>);
impl std::io::Read for ShortReads {
    fn read(&mut self, buf: &mut [u8]) -> std::io::Result<usize> {
        let n = buf.len().min(7);
        self.0.read(&mut buf[..n])
    }
}
impl std::io::Seek for ShortReads {
    fn seek(&mut self, pos: std::io::SeekFrom) -> std::io::Result<u64> {
        self.0.seek(pos)
    }
}

/// Public-API stage: (9 b ((chrom start end) ...) ((chrom s e) ...) zoom_resolution).  One value per block; a plain and a caching reader
/// (items_per_slot = 1), fan-out b, one manual zoom level; every query first asks the zoom index and then
/// the main index through the SAME reader, which only ever gets short reads.
fn run_api(c: &S) -> S {
    use bt_harness::bbi::{write_bigwig, Opts};
    let b = c.at(1).u32();
    let zres = c.at(4).u32();
    // flag (6th field): chromosome names in DESCENDING byte order while ids stay in order of appearance
    // (input_sort_type START): the index works with ids, never with the position of a name in a sorted list
    let descending = c.l().len() > 5 && c.at(5).n() == 1;
    let name = move |k: u32| if descending { format!("c{:04}", 9999 - k) } else { format!("c{:04}", k) };
    let mut sizes = std::collections::HashMap::new();
    let mut items = vec![];
    for s in c.at(2).l() {
        let (ch, st, en) = (s.at(0).u32(), s.at(1).u32(), s.at(2).u32());
        let e = sizes.entry(name(ch)).or_insert(0u32);
        *e = (*e).max(en + 10);
        items.push((name(ch), bigtools::Value { start: st, end: en, value: 1.0 }));
    }
    let o = Opts { compress: false, ips: 1, bs: b, izoom: 160, maxzooms: 10, manual: Some(vec![zres]), sort_all: !descending };
    let bytes = match write_bigwig(0, &o, sizes, items, 2) {
        Ok(x) => x,
        Err(code) => return sl![a(1), a(code)],
    };
    // the same queries, in the same order, through a caching reader as well: what one query left in the node
    // cache must not change what a later query finds (answer (1 7) when the two readers differ)
    let mut rc = match bigtools::BigWigRead::open(ShortReads(std::io::Cursor::new(bytes.clone()))) {
        Ok(r) => r.cached(),
        Err(_) => return sl![a(1), a(2)],
    };
    let mut r = match bigtools::BigWigRead::open(ShortReads(std::io::Cursor::new(bytes))) {
        Ok(r) => r,
        Err(_) => return sl![a(1), a(2)],
    };
    let answers: Vec<S> = c
        .at(3)
        .l()
        .iter()
        .map(|q| {
            let (nm, s, e) = (name(q.at(0).u32()), q.at(1).u32(), q.at(2).u32());
            let _ = r.get_zoom_interval(&nm, s, e, zres).map(|it| it.count());
            let zc = rc.get_zoom_interval(&nm, s, e, zres).map(|it| it.filter_map(|x| x.ok()).map(|z| (z.start, z.end)).collect::<Vec<_>>()).ok();
            let zp = r.get_zoom_interval(&nm, s, e, zres).map(|it| it.filter_map(|x| x.ok()).map(|z| (z.start, z.end)).collect::<Vec<_>>()).ok();
            let cached: Option<Vec<(u32, u32)>> =
                rc.get_interval(&nm, s, e).ok().and_then(|it| it.map(|v| v.ok().map(|v| (v.start, v.end))).collect());
            let plain: Option<Vec<(u32, u32)>> =
                r.get_interval(&nm, s, e).ok().and_then(|it| it.map(|v| v.ok().map(|v| (v.start, v.end))).collect());
            if cached != plain || zc != zp {
                return sl![a(1), a(7)];
            }
            match r.get_interval(&nm, s, e) {
                Err(_) => sl![a(1), a(1)],
                Ok(it) => {
                    let mut out = vec![];
                    for v in it {
                        match v {
                            Ok(v) => out.push(sl![a(v.start), a(v.end)]),
                            Err(_) => return sl![a(1), a(1)],
                        }
                    }
                    sl![a(0), S::L(out)]
                }
            }
        })
        .collect();
    sl![a(0), a(0), S::L(vec![]), S::L(answers)]
}

fn run(c: &S) -> S {
    // API stage: (9 b SECS ...) has a list in third position; the hook stage (b ips pos ...) a number
    if c.at(0).n() == 9 && matches!(c.at(2), S::L(_)) {
        return run_api(c);
    }
    let b = c.at(0).u32();
    let ips = c.at(1).u32();
    let pos = c.at(2).u64();
    let secs: Vec<(u32, u32, u32, u64, u64)> = c
        .at(3)
        .l()
        .iter()
        .map(|s| (s.at(0).u32(), s.at(1).u32(), s.at(2).u32(), s.at(3).u64(), s.at(4).u64()))
        .collect();
    let (bytes, levels) = match rtree_index_bytes(&secs, b, ips, pos) {
        Ok(x) => x,
        Err(_) => return sl![a(1), a(1)],
    };
    let mut image = vec![0u8; pos as usize];
    image.extend_from_slice(&bytes);
    let answers: Vec<S> = c
        .at(4)
        .l()
        .iter()
        .map(|q| {
            match rtree_search(&image, false, pos + 48, q.at(0).u32(), q.at(1).u32(), q.at(2).u32()) {
                Ok(v) => sl![a(0), S::L(v.iter().map(|(o, s)| sl![a(*o), a(*s)]).collect())],
                Err(_) => sl![a(1), a(1)],
            }
        })
        .collect();
    sl![a(0), a(levels as u64), S::from_bytes(&bytes), S::L(answers)]
}
fn main() { bt_harness::run_cases(run); }
