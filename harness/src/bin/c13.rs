//! C13: the real BigWigWrite / BigBedWrite on in-memory sinks, fed from TEXT through the real
//! line reader and parsers, on the serial and on the parallel source, single and two pass.
//! Only the verdict is reported: `(0)` accepted, `(1 class)` refused with an error value;
//! a panic becomes `(2)` in run_cases, a call that does not return becomes `(3)` in bin/check.
//!
//! case = (ftype path passes opts sizes text threads)
//!   ftype   0 bedGraph -> bigWig | 1 BED -> bigBed
//!   path    0 serial: BedParserStreamingIterator over a byte reader
//!           1 parallel: BedParserParallelStreamingIterator over a named temporary file, chromosome
//!             offsets = starts of the runs of equal first field (computed here, line by line)
//!           2 parallel as the tools do it: offsets from the real index_chroms; when it reports
//!             "not grouped" (None) the tools' `auto` mode falls back to the serial source, so does this
//!   passes  0 write | 1 write_multipass
//!   opts    (compress ips block_size initial_zoom max_zooms manual sort_all)   as in EntryBBI.v
//!   sizes   ((name len) ...)
//!   text    bytes of the input file
//!   threads 0 current-thread runtime (the tools' -t 1: channel_size 0) | n worker threads
use bigtools::bed::bedparser::{parse_bed, parse_bedgraph, BedValueError};
use bigtools::bed::indexer::index_chroms;
use bigtools::beddata::{BedParserParallelStreamingIterator, BedParserStreamingIterator};
use bigtools::{BBIProcessError, BigBedWrite, BigWigWrite};
use bt_harness::bbi::{classify, get_opts, get_sizes, runtime, write_options, SharedSink};
use bt_harness::{a, sl, S};
use std::fs::File;
use std::io::{Cursor, Write};
use std::path::PathBuf;

fn class_of(e: &BBIProcessError<BedValueError>) -> i128 {
    match e {
        BBIProcessError::IoError(_) => 50,
        BBIProcessError::SourceError(BedValueError::IoError(_)) => 50,
        other => {
            let m = other.to_string();
            if m.starts_with("Missing start") {
                61
            } else if m.starts_with("Invalid start") {
                62
            } else if m.starts_with("Missing end") {
                63
            } else if m.starts_with("Invalid end") {
                64
            } else if m.starts_with("Missing value") {
                65
            } else if m.starts_with("Invalid value") {
                66
            } else if m.starts_with("File is not sorted") {
                70
            } else if m.starts_with("Invalid options") {
                80
            } else if m.starts_with("Input bedGraph is not grouped by chromosome") {
                12
            } else {
                classify(&m)
            }
        }
    }
}

/// starts of the runs of lines with the same first tab-separated field (after trim_end), as
/// (offset, name): what a correct chromosome index of a grouped file is
fn linear_index(text: &[u8]) -> Vec<(u64, String)> {
    let mut res: Vec<(u64, String)> = vec![];
    let mut off = 0usize;
    while off < text.len() {
        let end = match text[off..].iter().position(|b| *b == b'\n') {
            Some(k) => off + k + 1,
            None => text.len(),
        };
        let line = String::from_utf8_lossy(&text[off..end]).to_string();
        let chrom = line.trim_end().splitn(2, '\t').next().unwrap_or("").to_string();
        if res.last().map(|l| l.1 != chrom).unwrap_or(true) {
            res.push((off as u64, chrom));
        }
        off = end;
    }
    res
}

fn verdict(r: Result<(), BBIProcessError<BedValueError>>) -> S {
    match r {
        Ok(()) => sl![a(0)],
        Err(e) => sl![a(1), a(class_of(&e))],
    }
}

fn run(c: &S) -> S {
    let ftype = c.at(0).u32();
    let path = c.at(1).u32();
    let passes = c.at(2).u32();
    let o = get_opts(c.at(3));
    let sizes = get_sizes(c.at(4));
    let text: Vec<u8> = c.at(5).bytes();
    let threads = c.at(6).usize();
    let allow = !o.sort_all;
    let mut wo = write_options(&o);
    if threads == 0 {
        wo.channel_size = 0;
    }
    let rt = runtime(threads);
    let sink = SharedSink::new();

    // the parallel source needs a real file
    let mut tmp = None;
    let mut indices: Option<Vec<(u64, String)>> = None;
    if path != 0 {
        let mut f = tempfile::NamedTempFile::new().unwrap();
        f.write_all(&text).unwrap();
        f.flush().unwrap();
        if path == 1 {
            indices = Some(linear_index(&text));
        } else {
            match index_chroms(File::open(f.path()).unwrap()) {
                Err(_) => return sl![a(1), a(51)],
                Ok(ix) => indices = ix,
            }
        }
        tmp = Some(f);
    }
    let fpath: Option<PathBuf> = tmp.as_ref().map(|f| f.path().to_path_buf());

    if ftype == 0 {
        let mut w = BigWigWrite::new(sink.clone(), sizes);
        w.options = wo;
        match (indices, passes) {
            (Some(ix), 0) => verdict(w.write(
                BedParserParallelStreamingIterator::new(ix, allow, fpath.unwrap(), parse_bedgraph),
                rt,
            )),
            (Some(ix), _) => {
                let p = fpath.unwrap();
                verdict(w.write_multipass(
                    || Ok(BedParserParallelStreamingIterator::new(ix.clone(), allow, p.clone(), parse_bedgraph)),
                    rt,
                ))
            }
            (None, 0) => verdict(w.write(BedParserStreamingIterator::from_bedgraph_file(Cursor::new(text), allow), rt)),
            (None, _) => verdict(w.write_multipass(
                || Ok(BedParserStreamingIterator::from_bedgraph_file(Cursor::new(text.clone()), allow)),
                rt,
            )),
        }
    } else {
        let mut w = BigBedWrite::new(sink.clone(), sizes);
        w.options = wo;
        match (indices, passes) {
            (Some(ix), 0) => verdict(w.write(
                BedParserParallelStreamingIterator::new(ix, allow, fpath.unwrap(), parse_bed),
                rt,
            )),
            (Some(ix), _) => {
                let p = fpath.unwrap();
                verdict(w.write_multipass(
                    || Ok(BedParserParallelStreamingIterator::new(ix.clone(), allow, p.clone(), parse_bed)),
                    rt,
                ))
            }
            (None, 0) => verdict(w.write(BedParserStreamingIterator::from_bed_file(Cursor::new(text), allow), rt)),
            (None, _) => verdict(w.write_multipass(
                || Ok(BedParserStreamingIterator::from_bed_file(Cursor::new(text.clone()), allow)),
                rt,
            )),
        }
    }
}

fn main() {
    bt_harness::run_cases(run);
}
