//! C17: per-region statistics (bigwig_average_over_bed / stats_for_bed_item / name_for_bed_item),
//! the bigwigaverageoverbed tool for several thread counts and the bigwigvaluesoverbed tool.
//!
//! case = (k bw bed mode minmax (t ...) delim regions exact)        see Model/Entry_C17.v
//!   bw   = (kind opts sizes input ())   a bigWig case of Model/EntryBBI.v, written by the real writer
//!   bed  = the bytes of the BED file
//!   mode = (0) interval | (1) none | (2 n) column n (zero based) | (3) option not given
//!   k = 0  library: the iterator's items, then name/stats per line called directly on a caching reader
//!   k = 1  bigwigaverageoverbed -t T for every T: (exit class, output bytes)
//!   k = 2  bigwigvaluesoverbed (minmax = -n flag): exit class, rows parsed back into f32 bit patterns
//!   k = 3  like 1 with regions on absent chromosomes: (exit class, output bytes when it succeeded)
//!   k = 6  like 1 on malformed input: (0/1 = success/failure, output bytes when it succeeded)
//!   k = 4  like 2 on malformed input, success/failure only
//!   k = 5, 7  like 0 (absent chromosomes / malformed input)
//! The CLI binaries are taken from $C17_BINS.  Floats are printed as bit patterns, NaN canonicalised.
use bigtools::bed::bedparser::parse_bed;
use bigtools::utils::misc::{
    bigwig_average_over_bed, name_for_bed_item, stats_for_bed_item, BigWigAverageOverBedEntry,
    BigWigAverageOverBedError, Name,
};
use bigtools::utils::streaming_linereader::StreamingLineReader;
use bigtools::{BBIReadError, BigWigRead};
use bt_harness::{a, bbi, sl, S};
use std::io::{BufReader, Cursor};
use std::panic::{catch_unwind, AssertUnwindSafe};
use std::path::Path;
use std::process::Command;

fn f64s(x: f64) -> S {
    a(if x.is_nan() { 0x7ff8000000000000u64 } else { x.to_bits() })
}
fn read_code(e: &BBIReadError) -> i128 {
    match e {
        BBIReadError::InvalidChromosome(_) => 4,
        BBIReadError::UnknownMagic => 7,
        BBIReadError::InvalidFile(_) => 6,
        BBIReadError::BedValueError(_) => 8,
        BBIReadError::IoError(_) => 1,
    }
}
fn err_code(e: &BigWigAverageOverBedError) -> i128 {
    match e {
        BigWigAverageOverBedError::BBIReadError(b) => read_code(b),
        BigWigAverageOverBedError::BedValueError(_) => 8,
        BigWigAverageOverBedError::InvalidNameColError(_) => 9,
    }
}
fn stats_fields(e: &BigWigAverageOverBedEntry) -> Vec<S> {
    vec![a(e.size), a(e.bases), f64s(e.sum), f64s(e.mean0), f64s(e.mean), f64s(e.min), f64s(e.max)]
}
fn name_mode(m: &S) -> Name {
    match m.at(0).n() {
        0 => Name::Interval,
        1 => Name::None,
        2 => Name::Column(m.at(1).usize()),
        _ => Name::Column(3),
    }
}

fn run_library(bytes: Vec<u8>, bed: &[u8], mode: &S) -> S {
    let name = name_mode(mode);
    // the iterator (what the Python binding uses), on a plain reader
    let r = match BigWigRead::open(Cursor::new(bytes.clone())) {
        Ok(r) => r,
        Err(_) => return sl![a(1), a(2)],
    };
    let mut items = vec![];
    for it in bigwig_average_over_bed(BufReader::new(Cursor::new(bed.to_vec())), r, name) {
        match it {
            Ok((nm, e)) => {
                let mut v = vec![a(0), S::from_bytes(nm.as_bytes())];
                v.extend(stats_fields(&e));
                items.push(S::L(v));
            }
            Err(e) => items.push(sl![a(1), a(err_code(&e))]),
        }
    }
    // the two functions called line by line on a caching reader (what the tool does)
    let open_cached = || BigWigRead::open(Cursor::new(bytes.clone())).unwrap().cached();
    let mut cr = open_cached();
    let mut direct = vec![];
    let mut lines = StreamingLineReader::new(BufReader::new(Cursor::new(bed.to_vec())));
    while let Some(line) = lines.read() {
        let line = match line {
            Ok(l) => l,
            Err(_) => {
                direct.push(sl![a(1), a(8)]);
                break;
            }
        };
        match parse_bed(line) {
            None => direct.push(sl![a(1), a(0)]),
            Some(Err(_)) => direct.push(sl![a(1), a(8)]),
            Some(Ok((chrom, entry))) => {
                let nm = match name_for_bed_item(name, chrom, &entry) {
                    Ok(n) => sl![a(0), S::from_bytes(n.as_bytes())],
                    Err(_) => sl![a(1), a(9)],
                };
                let st = match catch_unwind(AssertUnwindSafe(|| stats_for_bed_item(chrom, entry, &mut cr))) {
                    Ok(Ok(e)) => {
                        let mut v = vec![a(0)];
                        v.extend(stats_fields(&e));
                        S::L(v)
                    }
                    Ok(Err(e)) => sl![a(1), a(read_code(&e))],
                    Err(_) => {
                        cr = open_cached();
                        sl![a(2)]
                    }
                };
                direct.push(sl![a(0), nm, st]);
            }
        }
    }
    sl![a(0), S::L(items), S::L(direct)]
}

fn exit_class(st: &std::process::ExitStatus) -> i128 {
    match st.code() {
        Some(0) => 0,
        Some(101) => 2,
        Some(_) => 1,
        None => 2,
    }
}

fn bins() -> String {
    std::env::var("C17_BINS").expect("C17_BINS")
}

fn run_avg_tool(dir: &Path, mode: &S, minmax: bool, t: usize, tag: usize) -> (i128, Vec<u8>) {
    let out = dir.join(format!("out{}.txt", tag));
    let mut cmd = Command::new(Path::new(&bins()).join("bigwigaverageoverbed"));
    cmd.arg(dir.join("in.bw")).arg(dir.join("in.bed")).arg(&out);
    match mode.at(0).n() {
        0 => {
            cmd.arg("-n").arg("interval");
        }
        1 => {
            cmd.arg("-n").arg("none");
        }
        2 => {
            cmd.arg("-n").arg(format!("{}", mode.at(1).usize() + 1));
        }
        _ => {}
    }
    if minmax {
        cmd.arg("--min-max");
    }
    cmd.arg("-t").arg(format!("{}", t));
    let res = cmd.output().unwrap();
    let text = std::fs::read(&out).unwrap_or_default();
    (exit_class(&res.status), text)
}

/// rows of the valuesoverbed output parsed back: ((name?) (f32 bits ...)); canon = every cell
/// re-renders to the text it was parsed from
fn parse_values(text: &[u8], withnames: bool, delim: &str) -> (bool, S) {
    let mut canon = true;
    let mut rows = vec![];
    let s = String::from_utf8_lossy(text).to_string();
    if !s.is_empty() && !s.ends_with('\n') {
        canon = false;
    }
    let mut lines: Vec<&str> = s.split('\n').collect();
    if lines.last() == Some(&"") {
        lines.pop();
    }
    for line in lines {
        let mut toks: Vec<&str> = line.split(delim).collect();
        let name = if withnames {
            let n = toks.remove(0);
            sl![S::from_bytes(n.as_bytes())]
        } else {
            S::L(vec![])
        };
        if toks.len() == 1 && toks[0].is_empty() {
            toks.clear();
        }
        let mut cells = vec![];
        for t in toks {
            match t.parse::<f32>() {
                Ok(v) => {
                    if v.to_string() != t {
                        canon = false;
                    }
                    cells.push(a(if v.is_nan() { 0x7fc00000u32 } else { v.to_bits() }));
                }
                Err(_) => {
                    canon = false;
                    cells.push(a(-1));
                }
            }
        }
        rows.push(sl![name, S::L(cells)]);
    }
    (canon, S::L(rows))
}

fn run(c: &S) -> S {
    let k = c.at(0).n();
    let bw = c.at(1);
    let o = bbi::get_opts(bw.at(1));
    let bytes = match bbi::write_bigwig(bw.at(0).u32(), &o, bbi::get_sizes(bw.at(2)), bbi::bw_items(bw.at(3)), 2) {
        Ok(b) => b,
        Err(code) => return sl![a(1), a(code)],
    };
    let bed = c.at(2).bytes();
    let mode = c.at(3);
    let minmax = c.at(4).bool();
    if k == 0 || k == 5 || k == 7 {
        return run_library(bytes, &bed, mode);
    }
    let dir = tempfile::tempdir().unwrap();
    std::fs::write(dir.path().join("in.bw"), &bytes).unwrap();
    std::fs::write(dir.path().join("in.bed"), &bed).unwrap();
    match k {
        1 | 3 | 6 => {
            let mut outs = vec![];
            for (i, t) in c.at(5).l().iter().enumerate() {
                let (cls, text) = run_avg_tool(dir.path(), mode, minmax, t.usize(), i);
                if k == 1 {
                    outs.push(sl![a(cls), S::from_bytes(&text)]);
                } else if cls == 0 {
                    outs.push(sl![a(0), S::from_bytes(&text)]);
                } else {
                    // k = 6: a panic in a worker thread surfaces as an error or as a panic depending on timing
                    outs.push(sl![a(if k == 3 { cls } else { 1 }), S::L(vec![])]);
                }
            }
            sl![a(0), S::L(outs)]
        }
        _ => {
            let delim = c.at(6).string();
            let out = dir.path().join("out.txt");
            let mut cmd = Command::new(Path::new(&bins()).join("bigwigvaluesoverbed"));
            cmd.arg(dir.path().join("in.bw")).arg(dir.path().join("in.bed")).arg(&out);
            if minmax {
                cmd.arg("-n");
            }
            if delim != "\t" {
                cmd.arg("-d").arg(&delim);
            }
            let res = cmd.output().unwrap();
            let cls = exit_class(&res.status);
            if k == 4 {
                return sl![a(0), a(if cls == 0 { 0 } else { 1 })];
            }
            let text = std::fs::read(&out).unwrap_or_default();
            let (canon, rows) = parse_values(&text, minmax, &delim);
            sl![a(0), a(cls), S::b(canon), rows]
        }
    }
}

fn main() {
    bt_harness::run_cases(run);
}
