//! C12: the real `TempFileBuffer` / `TempFileBufferWriter` driven call by call along a schedule.
//!
//! Deterministic cases `(mode dest0 ops prog sched)` (see coq/theories/Model/Entry_C12.v): every
//! access to the memory shared by the two handles sits inside one public call, so one thread
//! that executes the calls in schedule order reproduces the interleaving exactly.  The model has
//! two steps for `write` (update(), then the local write) and for `await_real_file` /
//! `expect_closed_write` (take `closed`, then swap the mailbox); the call is executed here at its
//! first step (where its first shared access is) and the second step only completes it.  A consumer
//! call that would wait on the condition variable is disabled (the step stutters) until the
//! producer has dropped its handle, exactly as in the model.
//!
//! Stress cases `(100 mode seed full)`: one producer thread and one consumer thread with random
//! sizes, programs and delays derived from the seed.  Output `(good class shape writes bytes [case out])`:
//! `good` = the run finished with the destination equal to dest0 ++ all written bytes and every
//! len() equal to their number; `case`/`out` (printed when `full` or not good) have the
//! deterministic format with an empty schedule, so that the Coq oracle can judge the run again.
use bigtools::utils::file::tempfilebuffer::{TempFileBuffer, TempFileBufferWriter};
use bt_harness::{a, sl, S};
use std::fs::File;
use std::io::{self, Read, Seek, SeekFrom, Write};
use std::sync::atomic::{AtomicUsize, Ordering};
use std::sync::{mpsc, Arc};
use std::time::Duration;

/// A destination whose contents can be read back.
trait Dest: Write + Send + 'static {
    fn make(d0: &[u8]) -> Self;
    fn bytes(self) -> Vec<u8>;
}

/// Vec-backed destination with only `write` implemented (so `io::copy` and `write_all` take
/// their generic chunked paths); counts the write calls it receives.
struct Sink {
    data: Vec<u8>,
    calls: Arc<AtomicUsize>,
}
impl Write for Sink {
    fn write(&mut self, buf: &[u8]) -> io::Result<usize> {
        self.calls.fetch_add(1, Ordering::SeqCst);
        self.data.extend_from_slice(buf);
        Ok(buf.len())
    }
    fn flush(&mut self) -> io::Result<()> {
        Ok(())
    }
}
impl Dest for Sink {
    fn make(d0: &[u8]) -> Self {
        Sink { data: d0.to_vec(), calls: Arc::new(AtomicUsize::new(0)) }
    }
    fn bytes(self) -> Vec<u8> {
        self.data
    }
}
/// A destination that accepts at most MAX bytes per `write` call (a legal `io::Write`: pipes and
/// sockets behave like this); whoever copies into it has to loop (`write_all`, `io::copy`).
struct Chunky<const MAX: usize> {
    data: Vec<u8>,
}
impl<const MAX: usize> Write for Chunky<MAX> {
    fn write(&mut self, buf: &[u8]) -> io::Result<usize> {
        let n = buf.len().min(MAX);
        self.data.extend_from_slice(&buf[..n]);
        Ok(n)
    }
    fn flush(&mut self) -> io::Result<()> {
        Ok(())
    }
}
impl<const MAX: usize> Dest for Chunky<MAX> {
    fn make(d0: &[u8]) -> Self {
        Chunky { data: d0.to_vec() }
    }
    fn bytes(self) -> Vec<u8> {
        self.data
    }
}
impl Dest for File {
    fn make(d0: &[u8]) -> Self {
        let mut f = tempfile::tempfile().unwrap();
        f.write_all(d0).unwrap();
        f
    }
    fn bytes(mut self) -> Vec<u8> {
        let mut v = vec![];
        self.seek(SeekFrom::Start(0)).unwrap();
        self.read_to_end(&mut v).unwrap();
        v
    }
}

#[derive(Clone)]
enum Op {
    Write(Vec<u8>),
    Flush,
}

fn ops_of(s: &S) -> Vec<Op> {
    s.l().iter().map(|o| match o { S::L(_) => Op::Write(o.bytes()), S::A(_) => Op::Flush }).collect()
}

const SWITCH: i128 = 0;
const READY: i128 = 1;
const LEN: i128 = 2;
const AWAIT: i128 = 3;

fn finished(obs: Vec<S>, dest: Option<Vec<u8>>) -> S {
    let d = match dest {
        Some(v) => sl![S::from_bytes(&v)],
        None => sl![],
    };
    sl![a(0), S::L(obs), d]
}

/// Single-threaded, schedule-driven execution.
fn drive<R: Dest>(inmem: bool, d0: &[u8], ops: &[Op], prog: &[i128], sched: &[i128]) -> S {
    let (buf, writer): (TempFileBuffer<R>, TempFileBufferWriter<R>) = TempFileBuffer::new(inmem);
    let mut buf = Some(buf);
    let mut writer = Some(writer);
    let (mut p_idx, mut p_mid, mut dropped) = (0usize, false, false);
    let (mut c_idx, mut c_mid) = (0usize, false);
    let mut obs: Vec<S> = vec![];
    let mut dest: Option<Vec<u8>> = None;
    let mut hang = false;
    let mut io_err = false;

    // one step of the producer; false = disabled
    let mut step_p = |p_idx: &mut usize, p_mid: &mut bool, dropped: &mut bool, io_err: &mut bool| -> bool {
        if *dropped {
            return false;
        }
        if *p_idx == ops.len() {
            drop(writer.take());
            *dropped = true;
            return true;
        }
        match &ops[*p_idx] {
            Op::Flush => {
                if writer.as_mut().unwrap().flush().is_err() {
                    *io_err = true;
                }
                *p_mid = false;
                *p_idx += 1;
            }
            Op::Write(w) => {
                if !*p_mid {
                    // the whole call, at the point of its shared access (update()'s swap)
                    if writer.as_mut().unwrap().write_all(w).is_err() {
                        *io_err = true;
                    }
                    *p_mid = true;
                } else {
                    *p_mid = false;
                    *p_idx += 1;
                }
            }
        }
        true
    };
    // one step of the consumer; false = disabled
    let mut step_c = |c_idx: &mut usize, c_mid: &mut bool, dropped: bool, obs: &mut Vec<S>, dest: &mut Option<Vec<u8>>,
                      hang: &mut bool, io_err: &mut bool|
     -> bool {
        if *c_mid {
            *c_mid = false;
            return true;
        }
        if *c_idx >= prog.len() || buf.is_none() {
            return false;
        }
        let op = prog[*c_idx];
        if op == SWITCH {
            buf.as_mut().unwrap().switch(R::make(d0));
            *c_idx += 1;
            return true;
        }
        if op == READY {
            obs.push(sl![a(0), S::b(buf.as_ref().unwrap().is_real_file_ready())]);
            *c_idx += 1;
            return true;
        }
        // len / await_real_file / expect_closed_write wait for the producer
        if !dropped {
            return false;
        }
        if !buf.as_ref().unwrap().is_real_file_ready() {
            // nobody else runs: the call would wait on the condition variable for ever
            *hang = true;
            return true;
        }
        if op == LEN {
            match buf.as_ref().unwrap().len() {
                Ok(n) => obs.push(sl![a(1), a(n)]),
                Err(_) => *io_err = true,
            }
            *c_idx += 1;
        } else if op == AWAIT {
            let r = buf.take().unwrap().await_real_file();
            *dest = Some(r.bytes());
            *c_idx = prog.len();
            *c_mid = true;
        } else {
            let mut d = R::make(d0);
            if buf.take().unwrap().expect_closed_write(&mut d).is_err() {
                *io_err = true;
            }
            *dest = Some(d.bytes());
            *c_idx = prog.len();
            *c_mid = true;
        }
        true
    };

    for t in sched {
        if *t == 0 {
            step_p(&mut p_idx, &mut p_mid, &mut dropped, &mut io_err);
        } else {
            step_c(&mut c_idx, &mut c_mid, dropped, &mut obs, &mut dest, &mut hang, &mut io_err);
        }
        if hang {
            return sl![a(3)];
        }
    }
    // the fair continuation: the producer runs to its end, then the consumer
    while step_p(&mut p_idx, &mut p_mid, &mut dropped, &mut io_err) {}
    while !hang && step_c(&mut c_idx, &mut c_mid, dropped, &mut obs, &mut dest, &mut hang, &mut io_err) {}
    if hang {
        return sl![a(3)];
    }
    if io_err {
        return sl![a(1), a(1)];
    }
    finished(obs, dest)
}

// ---------------------------------------------------------------- threaded stress
struct Rng(u64);
impl Rng {
    fn next(&mut self) -> u64 {
        self.0 = self.0.wrapping_add(0x9E3779B97F4A7C15);
        let mut z = self.0;
        z = (z ^ (z >> 30)).wrapping_mul(0xBF58476D1CE4E5B9);
        z = (z ^ (z >> 27)).wrapping_mul(0x94D049BB133111EB);
        z ^ (z >> 31)
    }
    fn below(&mut self, n: u64) -> u64 {
        self.next() % n
    }
}

fn pause(r: &mut Rng) {
    match r.below(8) {
        0 | 1 | 2 => {}
        3 | 4 => std::thread::yield_now(),
        5 => {
            let k = r.below(2000);
            for i in 0..k {
                std::hint::black_box(i);
            }
        }
        6 => std::thread::sleep(Duration::from_micros(1 + r.below(60))),
        _ => std::thread::sleep(Duration::from_micros(50 + r.below(400))),
    }
}

fn stress<R: Dest>(mode: i128, inmem: bool, seed: u64, full: bool) -> S {
    let mut g = Rng(seed.wrapping_mul(0x2545F4914F6CDD1D) ^ 0xC12);
    let d0: Vec<u8> = (0..g.below(4)).map(|i| 200 + i as u8).collect();
    let nops = g.below(9) as usize;
    let mut ops = vec![];
    let mut k = 0u8;
    for _ in 0..nops {
        if g.below(8) == 0 {
            ops.push(Op::Flush);
            continue;
        }
        let size = match g.below(16) {
            0 | 1 => 0,
            2 | 3 | 4 => 1,
            5 | 6 | 7 | 8 => 2 + g.below(30),
            9 => 8190 + g.below(5),
            10 => 9000,
            11 => 9998 + g.below(5),
            12 | 13 => 100 + g.below(3000),
            14 => 16384 + g.below(50000),
            _ => 3,
        } as usize;
        let w: Vec<u8> = (0..size).map(|i| { k = k.wrapping_add(1); k.wrapping_add((i >> 8) as u8) }).collect();
        ops.push(Op::Write(w));
    }
    // consumer program shape: 0 = switch, poll*, await   1 = expect   2 = len, expect   3 = len   4 = len, switch, await
    let shape = g.below(5);
    let poll = g.below(2) == 0;
    let (pseed, cseed) = (g.next(), g.next());
    let (buf, mut writer): (TempFileBuffer<R>, TempFileBufferWriter<R>) = TempFileBuffer::new(inmem);

    let pops = ops.clone();
    let (ptx, prx) = mpsc::channel::<bool>();
    std::thread::spawn(move || {
        let mut r = Rng(pseed);
        let mut ok = true;
        for o in &pops {
            pause(&mut r);
            match o {
                Op::Write(w) => ok &= writer.write_all(w).is_ok(),
                Op::Flush => ok &= writer.flush().is_ok(),
            }
        }
        pause(&mut r);
        drop(writer);
        let _ = ptx.send(ok);
    });

    let d0c = d0.clone();
    let (ctx, crx) = mpsc::channel::<(Vec<i128>, Vec<S>, Option<Vec<u8>>, bool, i128)>();
    std::thread::spawn(move || {
        let mut r = Rng(cseed);
        let mut buf = buf;
        let mut prog: Vec<i128> = vec![];
        let mut obs: Vec<S> = vec![];
        let mut ok = true;
        let mut class: i128 = 3;
        let poll_once = |buf: &TempFileBuffer<R>, prog: &mut Vec<i128>, obs: &mut Vec<S>| -> bool {
            let b = buf.is_real_file_ready();
            prog.push(READY);
            obs.push(sl![a(0), S::b(b)]);
            b
        };
        pause(&mut r);
        if poll {
            poll_once(&buf, &mut prog, &mut obs);
            pause(&mut r);
        }
        if shape >= 2 {
            match buf.len() {
                Ok(n) => obs.push(sl![a(1), a(n)]),
                Err(_) => ok = false,
            }
            prog.push(LEN);
            pause(&mut r);
        }
        let dest;
        if shape == 0 || shape == 4 {
            let sink = R::make(&d0c);
            buf.switch(sink);
            prog.push(SWITCH);
            // 0: the producer had already dropped when the switch landed
            class = if buf.is_real_file_ready() { 0 } else { 1 };
            prog.push(READY);
            obs.push(sl![a(0), S::b(class == 0)]);
            if poll {
                // the polling loop of bigwigtobedgraph / bigbedtobed
                let mut n = 0;
                while n < 40 && !poll_once(&buf, &mut prog, &mut obs) {
                    std::thread::sleep(Duration::from_micros(20));
                    n += 1;
                }
            } else {
                pause(&mut r);
            }
            let real = buf.await_real_file();
            prog.push(AWAIT);
            dest = Some(real.bytes());
        } else if shape == 1 || shape == 2 {
            pause(&mut r);
            let mut d = R::make(&d0c);
            ok &= buf.expect_closed_write(&mut d).is_ok();
            prog.push(4);
            dest = Some(d.bytes());
        } else {
            dest = None;
        }
        let _ = ctx.send((prog, obs, dest, ok, class));
    });

    let mk_case = |prog: &[i128]| -> S {
        sl![
            a(mode),
            S::from_bytes(&d0),
            S::L(ops.iter().map(|o| match o { Op::Write(w) => S::from_bytes(w), Op::Flush => a(-1) }).collect()),
            S::L(prog.iter().map(|c| a(*c)).collect()),
            sl![]
        ]
    };
    let fallback: Vec<i128> = match shape { 0 => vec![SWITCH, AWAIT], 1 => vec![4], 2 => vec![LEN, 4], 3 => vec![LEN], _ => vec![LEN, SWITCH, AWAIT] };
    let limit = Duration::from_secs(3);
    let pres = prx.recv_timeout(limit);
    let cres = crx.recv_timeout(limit);
    // what the property demands of this run (checked here so that the bulk of the runs need not be printed;
    // runs printed in full are judged again by the Coq oracle)
    let mut want = d0.clone();
    let mut nwrites = 0u64;
    for o in &ops {
        if let Op::Write(w) = o {
            want.extend_from_slice(w);
            nwrites += 1;
        }
    }
    let total = (want.len() - d0.len()) as u64;
    let (case, out, class, good) = match (pres, cres) {
        (Ok(pok), Ok((prog, obs, dest, cok, class))) => {
            let consumes = prog.iter().any(|c| *c == AWAIT || *c == 4);
            let mut good = pok && cok && (if consumes { dest.as_deref() == Some(&want[..]) } else { dest.is_none() });
            for o in &obs {
                if o.at(0).n() == 1 && o.at(1).u64() != total {
                    good = false;
                }
            }
            let out = if pok && cok { finished(obs, dest) } else { sl![a(1), a(1)] };
            (mk_case(&prog), out, class, good)
        }
        (Err(mpsc::RecvTimeoutError::Timeout), _) | (_, Err(mpsc::RecvTimeoutError::Timeout)) => (mk_case(&fallback), sl![a(3)], 3, false),
        _ => (mk_case(&fallback), sl![a(2)], 3, false), // a thread panicked (its sender was dropped)
    };
    // (good class shape writes bytes [case out])
    let mut v = vec![S::b(good), a(class), a(shape), a(nwrites), a(total)];
    if full || !good {
        v.push(case);
        v.push(out);
    }
    S::L(v)
}

fn run(c: &S) -> S {
    if c.at(0).n() == 100 {
        let mode = c.at(1).n();
        let seed = c.at(2).u64();
        let full = c.at(3).bool();
        return match mode {
            0 => stress::<Sink>(mode, true, seed, full),
            1 => stress::<Sink>(mode, false, seed, full),
            _ => stress::<File>(mode, false, seed, full),
        };
    }
    let mode = c.at(0).n();
    let d0 = c.at(1).bytes();
    let ops = ops_of(c.at(2));
    let prog: Vec<i128> = c.at(3).l().iter().map(|x| x.n()).collect();
    let sched: Vec<i128> = c.at(4).l().iter().map(|x| x.n()).collect();
    match mode {
        0 => drive::<Sink>(true, &d0, &ops, &prog, &sched),
        1 => drive::<Sink>(false, &d0, &ops, &prog, &sched),
        3 => drive::<Chunky<2>>(true, &d0, &ops, &prog, &sched),
        4 => drive::<Chunky<5>>(false, &d0, &ops, &prog, &sched),
        _ => drive::<File>(false, &d0, &ops, &prog, &sched),
    }
}
fn main() {
    bt_harness::run_cases(run);
}
