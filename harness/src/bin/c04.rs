//! C04: bigBed range queries (plain and caching reader) on files written by the real writer.
fn main() {
    bt_harness::run_cases(bt_harness::bed::run);
}
