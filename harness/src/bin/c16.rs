//! C16, library-level cases (the pipelines over the built binaries are run by tools/vlib/props/C16.py).
//!
//! cases
//!   (0 (arg ...))            -> (0 (arg ...))                       bigtools::utils::cli::compat_args on a complete argv
//!                               (2) = panic ("Unimplemented compatibility option")
//!   (1 0 line)               -> (0 chrom start end rest) | (1 code)  bed::bedparser::parse_bed on one raw line
//!   (1 1 line table)         -> (0 chrom start end bits) | (1 code)  parse_bedgraph (table is for the model: value text -> f32 bits)
//!   (2 text)                 -> ((line) ...)                         StreamingLineReader over the text (read_line + trim_end)
//!   (5 n)                    -> (digits)                             u32 Display (core::fmt, what uwrite!/format! print)
//!   (6 text)                 -> (0 n) | (1)                          <u32 as FromStr>::from_str
//! code: 1 missing start, 2 invalid start, 3 missing end, 4 invalid end, 5 missing value, 6 invalid value
use bigtools::bed::bedparser::{parse_bed, parse_bedgraph, BedValueError};
use bigtools::utils::cli::compat_args;
use bigtools::utils::streaming_linereader::StreamingLineReader;
use bt_harness::{a, sl, S};
use std::ffi::OsString;
use std::io::{BufReader, Cursor};

fn err_code(e: &BedValueError) -> u32 {
    match e {
        BedValueError::InvalidInput(m) => {
            if m.starts_with("Missing start") {
                1
            } else if m.starts_with("Invalid start") {
                2
            } else if m.starts_with("Missing end") {
                3
            } else if m.starts_with("Invalid end") {
                4
            } else if m.starts_with("Missing value") {
                5
            } else if m.starts_with("Invalid value") {
                6
            } else {
                90
            }
        }
        BedValueError::IoError(_) => 91,
    }
}

fn run(c: &S) -> S {
    match c.at(0).u32() {
        0 => {
            let argv: Vec<OsString> = c.at(1).l().iter().map(|x| OsString::from(x.string())).collect();
            let out: Vec<OsString> = compat_args(argv.into_iter()).collect();
            sl![a(0u32), S::L(out.iter().map(|x| S::from_str(x.to_str().unwrap())).collect())]
        }
        1 => {
            let line = c.at(2).string();
            if c.at(1).u32() == 0 {
                match parse_bed(&line) {
                    None => sl![a(9u32)],
                    Some(Err(e)) => sl![a(1u32), a(err_code(&e))],
                    Some(Ok((chrom, e))) => sl![a(0u32), S::from_str(chrom), a(e.start), a(e.end), S::from_str(&e.rest)],
                }
            } else {
                match parse_bedgraph(&line) {
                    None => sl![a(9u32)],
                    Some(Err(e)) => sl![a(1u32), a(err_code(&e))],
                    Some(Ok((chrom, v))) => sl![a(0u32), S::from_str(chrom), a(v.start), a(v.end), a(v.value.to_bits())],
                }
            }
        }
        2 => {
            let text = c.at(1).bytes();
            let mut r = StreamingLineReader::new(BufReader::with_capacity(7, Cursor::new(text)));
            let mut out = vec![];
            while let Some(l) = r.read() {
                match l {
                    Ok(s) => out.push(S::from_str(s)),
                    Err(_) => return sl![a(1u32)],
                }
            }
            S::L(out)
        }
        5 => S::from_str(&format!("{}", c.at(1).u32())),
        6 => match c.at(1).string().parse::<u32>() {
            Ok(n) => sl![a(0u32), a(n)],
            Err(_) => sl![a(1u32)],
        },
        _ => sl![a(-1i32)],
    }
}

fn main() {
    bt_harness::run_cases(run);
}
