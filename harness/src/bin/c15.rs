//! C15: merging and gap filling of value streams, library level and tool level.
//!
//! case = (tag ...):
//!   (0 (s e v8) (s e v8))                 merge_into(one, two); values in eighths
//!   (1 (stream ...))                      merge_sections_many; stream = (item ...), item = (0 s e v8) | (1 code)
//!   (2 (item ...))                        fill; item = (0 s e bits) | (1 code)   (raw f32 bit patterns)
//!   (3 (item ...) start end)              fill_start_to_end
//!   (4 (file ...) (thr8 (adj8)? (clip8)?) (out ...))
//!        file = (repeat ((name size ((s e v8) ...)) ...)), out = (name (type)?)
//!        the built CLI binaries (directory in $C15_BINS) are run in a scratch directory
//! output: (0 ...) value, (2) panic; floats only ever as f32::to_bits().
use bigtools::utils::fill::{fill, fill_start_to_end};
use bigtools::utils::merge::{merge_into, merge_sections_many};
use bigtools::Value;
use bt_harness::{a, sl, S};
use std::io;
use std::path::Path;
use std::process::Command;

fn v8(s: &S) -> f32 {
    (s.n() as f32) / 8.0
}
fn val8(s: &S, off: usize) -> Value {
    Value { start: s.at(off).u32(), end: s.at(off + 1).u32(), value: v8(s.at(off + 2)) }
}
fn out_val(v: &Value) -> S {
    sl![a(0), a(v.start), a(v.end), a(v.value.to_bits())]
}

fn run_merge_into(c: &S) -> S {
    let (one, two, three, over) = merge_into(val8(c.at(1), 0), val8(c.at(2), 0));
    let mut r = vec![sl![a(one.start), a(one.end), a(one.value.to_bits())]];
    for o in [two, three, over].iter().flatten() {
        r.push(sl![a(o.start), a(o.end), a(o.value.to_bits())]);
    }
    sl![a(0), S::L(r)]
}

fn run_merge_many(c: &S) -> S {
    let streams: Vec<std::vec::IntoIter<Result<Value, u32>>> = c
        .at(1)
        .l()
        .iter()
        .map(|st| {
            st.l()
                .iter()
                .map(|it| if it.at(0).n() == 0 { Ok(val8(it, 1)) } else { Err(it.at(1).u32()) })
                .collect::<Vec<_>>()
                .into_iter()
        })
        .collect();
    let out: Vec<S> = merge_sections_many(streams)
        .map(|r| match r {
            Ok(v) => out_val(&v),
            Err(code) => sl![a(1), a(code)],
        })
        .collect();
    sl![a(0), S::L(out)]
}

fn fill_items(s: &S) -> Vec<io::Result<Value>> {
    s.l()
        .iter()
        .map(|it| {
            if it.at(0).n() == 0 {
                Ok(Value { start: it.at(1).u32(), end: it.at(2).u32(), value: f32::from_bits(it.at(3).u32()) })
            } else {
                Err(io::Error::new(io::ErrorKind::Other, format!("{}", it.at(1).u32())))
            }
        })
        .collect()
}
fn fill_out<I: Iterator<Item = io::Result<Value>>>(it: I) -> S {
    let out: Vec<S> = it
        .map(|r| match r {
            Ok(v) => out_val(&v),
            Err(e) => sl![a(1), a(e.to_string().parse::<u32>().unwrap_or(0))],
        })
        .collect();
    sl![a(0), S::L(out)]
}

// ---------------------------------------------------------------- tool level
fn dec8(z: i128) -> String {
    // exact decimal text of z/8
    format!("{}", (z as f64) / 8.0)
}

fn parse_rows(text: &str) -> S {
    let mut rows = vec![];
    for line in text.lines() {
        if line.trim().is_empty() {
            continue;
        }
        let f: Vec<&str> = line.split('\t').collect();
        let val: f32 = f[3].parse().unwrap();
        rows.push(sl![S::from_str(f[0]), a(f[1].parse::<u32>().unwrap()), a(f[2].parse::<u32>().unwrap()), a(val.to_bits())]);
    }
    S::L(rows)
}

fn rc_class(st: &std::process::ExitStatus) -> i128 {
    match st.code() {
        Some(0) => 0,
        Some(101) => 2, // rust panic
        Some(_) => 1,
        None => 2,
    }
}

fn run_tool(c: &S) -> S {
    let bins = std::env::var("C15_BINS").expect("C15_BINS");
    let bin = |n: &str| Path::new(&bins).join(n);
    let dir = tempfile::tempdir().unwrap();
    let p = |n: &str| dir.path().join(n);
    // inputs
    let mut paths: Vec<String> = vec![];
    for (i, f) in c.at(1).l().iter().enumerate() {
        let rep = f.at(0).usize();
        let mut sizes = String::new();
        let mut bg = String::new();
        for ch in f.at(1).l() {
            let name = ch.at(0).string();
            sizes.push_str(&format!("{}\t{}\n", name, ch.at(1).u32()));
            for v in ch.at(2).l() {
                bg.push_str(&format!("{}\t{}\t{}\t{}\n", name, v.at(0).u32(), v.at(1).u32(), dec8(v.at(2).n())));
            }
        }
        std::fs::write(p(&format!("in{}.sizes", i)), sizes).unwrap();
        std::fs::write(p(&format!("in{}.bedGraph", i)), bg).unwrap();
        let bw = p(&format!("in{}.bw", i));
        let st = Command::new(bin("bedgraphtobigwig"))
            .arg(p(&format!("in{}.bedGraph", i)))
            .arg(p(&format!("in{}.sizes", i)))
            .arg(&bw)
            .output()
            .unwrap();
        if !st.status.success() || !bw.exists() {
            return sl![a(1), a(90)]; // could not build an input (not a merge outcome)
        }
        for _ in 0..rep {
            paths.push(bw.to_str().unwrap().to_string());
        }
    }
    let set = c.at(2);
    let mut common: Vec<String> = vec![];
    if paths.len() > 20 {
        std::fs::write(p("inputs.list"), paths.join("\n") + "\n").unwrap();
        common.push("-l".into());
        common.push(p("inputs.list").to_str().unwrap().into());
    } else {
        for q in &paths {
            common.push("-b".into());
            common.push(q.clone());
        }
    }
    common.push(format!("--threshold={}", dec8(set.at(0).n())));
    if let Some(x) = set.at(1).l().first() {
        common.push(format!("--adjust={}", dec8(x.n())));
    }
    if let Some(x) = set.at(2).l().first() {
        common.push(format!("--clip={}", dec8(x.n())));
    }
    let mut outs = vec![];
    for (k, o) in c.at(3).l().iter().enumerate() {
        let sub = p(&format!("o{}", k));
        std::fs::create_dir(&sub).unwrap();
        let outp = sub.join(o.at(0).string());
        let mut cmd = Command::new(bin("bigwigmerge"));
        cmd.args(&common);
        if let Some(t) = o.at(1).l().first() {
            cmd.arg("--output-type").arg(t.string());
        }
        cmd.arg(&outp);
        let res = cmd.output().unwrap();
        let rc = rc_class(&res.status);
        if !outp.exists() {
            outs.push(sl![a(rc), a(0), S::L(vec![])]);
            continue;
        }
        let bytes = std::fs::read(&outp).unwrap();
        if bytes.len() >= 4 && bytes[0..4] == [0x26, 0xFC, 0x8F, 0x88] {
            let back = sub.join("readback.txt");
            let st = Command::new(bin("bigwigtobedgraph")).arg(&outp).arg(&back).output().unwrap();
            if !st.status.success() {
                outs.push(sl![a(rc), a(2), sl![a(-1)]]);
                continue;
            }
            let text = std::fs::read_to_string(&back).unwrap();
            // chromosome order of the converter is not the subject: sort rows by chromosome name (stable)
            let mut rows = match parse_rows(&text) {
                S::L(v) => v,
                x => vec![x],
            };
            rows.sort_by(|x, y| x.at(0).bytes().cmp(&y.at(0).bytes()));
            outs.push(sl![a(rc), a(2), S::L(rows)]);
        } else {
            outs.push(sl![a(rc), a(1), parse_rows(&String::from_utf8_lossy(&bytes))]);
        }
    }
    sl![a(0), S::L(outs)]
}

fn run(c: &S) -> S {
    match c.at(0).n() {
        0 => run_merge_into(c),
        1 => run_merge_many(c),
        2 => fill_out(fill(fill_items(c.at(1)).into_iter())),
        3 => fill_out(fill_start_to_end(fill_items(c.at(1)).into_iter(), c.at(2).u32(), c.at(3).u32())),
        4 => run_tool(c),
        _ => sl![a(-1)],
    }
}
fn main() {
    bt_harness::run_cases(run);
}
