//! C07: every zoom level of a bigWig written by the real writer, read back record by record.
//! Case format: Model/EntryBBI.v (kind opts sizes input queries); the queries are zoom range
//! queries `(2 name s e res)`.
//! Output: (1 code) when the write is refused, else
//!   (0 (res ...)                                   info().zoom_headers, in header order
//!      ((res ((name len answer) ...)) ...)         per listed level, per chromosome of the file
//!                                                  (chrom_info order): get_zoom_interval(name, 0, len, res)
//!      (answer ...))                               the case's range queries, in order
//! answer = (0 ((start end covered min max sum sumsq) ...)) with f64 bit patterns | (1 code)
use bigtools::BigWigRead;
use bt_harness::bbi::{bw_answer, bw_items, get_opts, get_sizes, write_bigwig};
use bt_harness::{a, sl, S};
use std::io::Cursor;

fn run(c: &S) -> S {
    let kind = c.at(0).u32();
    let o = get_opts(c.at(1));
    let sizes = get_sizes(c.at(2));
    let threads = std::env::var("VERIF_THREADS").ok().and_then(|x| x.parse().ok()).unwrap_or(2usize);
    let bytes = match write_bigwig(kind, &o, sizes, bw_items(c.at(3)), threads) {
        Ok(b) => b,
        Err(code) => return sl![a(1), a(code)],
    };
    let mut r = match BigWigRead::open(Cursor::new(bytes)) {
        Ok(r) => r,
        Err(e) => {
            let code = match e {
                bigtools::BigWigReadOpenError::NotABigWig => 2,
                bigtools::BigWigReadOpenError::InvalidChroms => 3,
                bigtools::BigWigReadOpenError::IoError(_) => 1,
            };
            return sl![a(0), sl![a(1), a(code)]];
        }
    };
    let levels: Vec<u32> = r.info().zoom_headers.iter().map(|z| z.reduction_level).collect();
    let chroms: Vec<(String, u32)> = r.info().chrom_info.iter().map(|c| (c.name.clone(), c.length)).collect();
    let mut per_level = vec![];
    for &res in &levels {
        let mut per_chrom = vec![];
        for (name, len) in &chroms {
            let q = sl![a(2), S::from_str(name), a(0), a(*len), a(res)];
            per_chrom.push(sl![S::from_str(name), a(*len), bw_answer(&mut r, &q)]);
        }
        per_level.push(sl![a(res), S::L(per_chrom)]);
    }
    let answers: Vec<S> = c.at(4).l().iter().map(|q| bw_answer(&mut r, q)).collect();
    sl![a(0), S::L(levels.iter().map(|z| a(*z)).collect()), S::L(per_level), S::L(answers)]
}

fn main() {
    bt_harness::run_cases(run);
}
