//! C18: the real FileView, split_file_into_chunks_by_size and index_chroms, driven on files
//! written to anonymous temporary files.  A leading tag in the case selects the routine:
//!   (0 file a b depth (alphabet ops) (extra op sequences))   FileView on [a,b) and on the isolated range
//!   (1 file (n ...))                                         chunker for every chunk count n, with line streams
//!   (2 ((chrom len) ...) final_newline [filler])             index_chroms on a synthesised BED file; filler 1 pads the
//!                                                             lines with the two-byte character U+00E9 instead of 'x'
//! ops: (0 n) read n bytes | (1 k) seek Start(k) | (2 d) seek Current(d) | (3 d) seek End(d)
use bigtools::bed::indexer::index_chroms;
use bigtools::utils::file_view::FileView;
use bigtools::utils::split_file_into_chunks_by_size;
use bigtools::utils::streaming_linereader::StreamingLineReader;
use bt_harness::{a, sl, S};
use std::fs::File;
use std::io::{BufRead, BufReader, Read, Seek, SeekFrom, Write};
use std::panic::{catch_unwind, AssertUnwindSafe};

fn temp_with(bytes: &[u8]) -> File {
    let mut f = tempfile::tempfile().unwrap();
    f.write_all(bytes).unwrap();
    f.flush().unwrap();
    f.seek(SeekFrom::Start(0)).unwrap();
    f
}
fn reopen(f: &File) -> File {
    // a second handle on the same anonymous file (its own file description, own offset)
    let p = format!("/proc/self/fd/{}", std::os::unix::io::AsRawFd::as_raw_fd(f));
    File::open(p).unwrap()
}

// ------------------------------------------------------------------ FileView
fn run_op(v: &mut FileView, op: &S) -> S {
    let r = catch_unwind(AssertUnwindSafe(|| match op.at(0).n() {
        0 => {
            let mut buf = vec![0u8; op.at(1).usize()];
            match v.read(&mut buf) {
                Ok(k) => sl![a(0), S::from_bytes(&buf[..k])],
                Err(_) => sl![a(1), a(1)],
            }
        }
        k => {
            let sf = match k {
                1 => SeekFrom::Start(op.at(1).n() as u64),
                2 => SeekFrom::Current(op.at(1).n() as i64),
                _ => SeekFrom::End(op.at(1).n() as i64),
            };
            match v.seek(sf) {
                Ok(p) => sl![a(0), a(p)],
                Err(_) => sl![a(1), a(1)],
            }
        }
    }));
    r.unwrap_or_else(|_| sl![a(2)])
}
fn run_seq(f: &File, start: u64, end: u64, ops: &[&S]) -> S {
    let mut v = match FileView::new(reopen(f), start, end) {
        Ok(v) => v,
        Err(_) => return sl![sl![a(1), a(1)]],
    };
    let mut out = vec![];
    for op in ops {
        let o = run_op(&mut v, op);
        let stop = o.at(0).n() == 2;
        out.push(o);
        if stop {
            break;
        }
    }
    S::L(out)
}
fn enumerate<'x>(alpha: &'x [S], depth: usize, cur: &mut Vec<&'x S>, f: &mut dyn FnMut(&[&'x S])) {
    if depth == 0 {
        f(cur);
        return;
    }
    for o in alpha {
        cur.push(o);
        enumerate(alpha, depth - 1, cur, f);
        cur.pop();
    }
}
fn run_view(c: &S) -> S {
    let bytes = c.at(1).bytes();
    let (s, e) = (c.at(2).u64(), c.at(3).u64());
    let depth = c.at(4).usize();
    let alpha = c.at(5).l();
    let extra = c.at(6).l();
    let len = bytes.len() as u64;
    // the isolated range: firstn (e - s) (skipn s file), truncated subtraction
    let lo = s.min(len);
    let hi = lo + e.saturating_sub(s).min(len - lo);
    let iso = &bytes[lo as usize..hi as usize];
    let f = temp_with(&bytes);
    let g = temp_with(iso);
    let mut seqs: Vec<Vec<&S>> = vec![];
    if depth > 0 {
        enumerate(alpha, depth, &mut vec![], &mut |q| seqs.push(q.to_vec()));
    }
    for q in extra {
        seqs.push(q.l().iter().collect());
    }
    let view: Vec<S> = seqs.iter().map(|q| run_seq(&f, s, e, q)).collect();
    let isol: Vec<S> = seqs.iter().map(|q| run_seq(&g, 0, e.saturating_sub(s), q)).collect();
    sl![S::L(view), S::L(isol)]
}

// ------------------------------------------------------------------ chunker
fn lines_of<R: Read>(r: R) -> S {
    let mut slr = StreamingLineReader::new(BufReader::new(r));
    let mut out = vec![];
    loop {
        match slr.read() {
            None => break,
            Some(Ok(l)) => out.push(S::from_bytes(l.as_bytes())),
            Some(Err(_)) => {
                out.push(sl![a(-1)]);
                break;
            }
        }
    }
    S::L(out)
}
fn run_chunker(c: &S) -> S {
    let bytes = c.at(1).bytes();
    let f = temp_with(&bytes);
    let serial = lines_of(reopen(&f));
    let per_n: Vec<S> = c
        .at(2)
        .l()
        .iter()
        .map(|n| {
            let n = n.u64();
            let r = catch_unwind(AssertUnwindSafe(|| match split_file_into_chunks_by_size(reopen(&f), n) {
                Ok(chunks) => {
                    let cs: Vec<S> = chunks.iter().map(|(x, y)| sl![a(*x), a(*y)]).collect();
                    let streams: Vec<S> =
                        chunks.iter().map(|(x, y)| lines_of(FileView::new(reopen(&f), *x, *y).unwrap())).collect();
                    sl![a(0), S::L(cs), S::L(streams)]
                }
                Err(_) => sl![a(1), a(1)],
            }));
            r.unwrap_or_else(|_| sl![a(2)])
        })
        .collect();
    sl![serial, S::L(per_n)]
}

// ------------------------------------------------------------------ indexer
fn synth(lines: &[S], final_newline: bool, filler: u64) -> Option<Vec<u8>> {
    let mut out = vec![];
    for (i, l) in lines.iter().enumerate() {
        let (c, len) = (l.at(0).u64(), l.at(1).usize());
        let nl = final_newline || i + 1 < lines.len();
        let body = if c == 0 { "c0\tx\t1".to_string() } else { format!("c{}\t0\t1", c) };
        let content = match len.checked_sub(nl as usize) {
            Some(k) => k,
            None => return None,
        };
        if content < body.len() {
            return None;
        }
        out.extend_from_slice(body.as_bytes());
        if content > body.len() {
            out.push(b'\t');
            let k = content - body.len() - 1;
            if filler == 1 {
                // non-ASCII text in the name column: k/2 two-byte characters, one ASCII byte if k is odd
                for _ in 0..k / 2 {
                    out.extend_from_slice("\u{e9}".as_bytes());
                }
                if k % 2 == 1 {
                    out.push(b'x');
                }
            } else {
                out.extend(std::iter::repeat(b'x').take(k));
            }
        }
        if nl {
            out.push(b'\n');
        }
    }
    Some(out)
}
fn chrom_id(name: &[u8]) -> S {
    let t: &[u8] = name.split(|b| *b == b'\t').next().unwrap_or(&[]);
    match std::str::from_utf8(t).ok().and_then(|s| s.strip_prefix('c')).and_then(|s| s.parse::<u64>().ok()) {
        Some(k) => a(k),
        None => a(-1),
    }
}
fn run_indexer(c: &S) -> S {
    let filler = if c.l().len() > 3 { c.at(3).u64() } else { 0 };
    let bytes = match synth(c.at(1).l(), c.at(2).bool(), filler) {
        Some(b) => b,
        None => return sl![a(9)],
    };
    let f = temp_with(&bytes);
    let r = catch_unwind(AssertUnwindSafe(|| index_chroms(reopen(&f))));
    match r {
        Err(_) => sl![sl![a(2)], sl![]],
        Ok(Err(_)) => sl![sl![a(1), a(1)], sl![]],
        Ok(Ok(None)) => sl![sl![a(0), sl![]], sl![]],
        Ok(Ok(Some(ix))) => {
            let ents: Vec<S> = ix.iter().map(|(o, n)| sl![a(*o), chrom_id(n.as_bytes())]).collect();
            // what the parallel source reads: one view per index entry, up to the next entry's offset
            let mut streams = vec![];
            for (i, (o, _)) in ix.iter().enumerate() {
                let end = ix.get(i + 1).map(|n| n.0).unwrap_or(u64::MAX);
                let s = catch_unwind(AssertUnwindSafe(|| {
                    let mut rd = BufReader::new(FileView::new(reopen(&f), *o, end).unwrap());
                    let mut ls = vec![];
                    loop {
                        let mut line = String::new();
                        match rd.read_line(&mut line) {
                            Ok(0) => break,
                            Ok(k) => ls.push(sl![chrom_id(line.as_bytes()), a(k as u64)]),
                            Err(_) => {
                                ls.push(sl![a(-1)]);
                                break;
                            }
                        }
                    }
                    S::L(ls)
                }));
                streams.push(s.unwrap_or_else(|_| sl![a(2)]));
            }
            sl![sl![a(0), sl![S::L(ents)]], S::L(streams)]
        }
    }
}

fn run(c: &S) -> S {
    match c.at(0).n() {
        0 => run_view(c),
        1 => run_chunker(c),
        2 => run_indexer(c),
        _ => sl![a(-1)],
    }
}
fn main() {
    bt_harness::run_cases(run);
}
