//! C03: bigWig range queries through every kind of reader.
//! Case format: Model/EntryBBI.v (kind opts sizes input queries); the query list is a HISTORY:
//! its order (with repetitions) is the order in which the long-lived readers are asked.
//! Output: (1 code) when the write is refused, else
//!   (0 F P C R)   F = answers of a fresh plain reader per query
//!                 P = answers of ONE plain reader fed the whole list in order
//!                 C = answers of ONE `.cached()` reader fed the whole list in order
//!                 R = answers of `reopen()` of that used cached reader, fed the list in REVERSE
//!                     order (printed re-aligned with the query list)
//! The file is written by the real BigWigWrite (bt_harness::bbi) and read from a real file on disk
//! for P/C/R (Reopen is only implemented for ReopenableFile), from memory for F.
use bigtools::utils::reopen::Reopen;
use bigtools::BigWigRead;
use bt_harness::bbi::{bw_answer, bw_items, get_opts, get_sizes, write_bigwig};
use bt_harness::{a, sl, S};
use std::io::{Cursor, Write};

fn open_err(e: bigtools::BigWigReadOpenError) -> S {
    let code = match e {
        bigtools::BigWigReadOpenError::NotABigWig => 2,
        bigtools::BigWigReadOpenError::InvalidChroms => 3,
        bigtools::BigWigReadOpenError::IoError(_) => 1,
    };
    sl![a(1), a(code)]
}

fn run(c: &S) -> S {
    let kind = c.at(0).u32();
    let o = get_opts(c.at(1));
    let sizes = get_sizes(c.at(2));
    let threads = std::env::var("VERIF_THREADS").ok().and_then(|x| x.parse().ok()).unwrap_or(2usize);
    let bytes = match write_bigwig(kind, &o, sizes, bw_items(c.at(3)), threads) {
        Ok(b) => b,
        Err(code) => return sl![a(1), a(code)],
    };
    let queries = c.at(4).l();

    // F: a fresh plain reader for every query
    let mut fresh = Vec::with_capacity(queries.len());
    for q in queries {
        match BigWigRead::open(bt_harness::ShortReads::<_, 61>(Cursor::new(&bytes[..]))) {
            Ok(mut r) => fresh.push(bw_answer(&mut r, q)),
            Err(e) => fresh.push(open_err(e)),
        }
    }

    // the same bytes as a file on disk
    let mut tmp = tempfile::NamedTempFile::new().unwrap();
    tmp.write_all(&bytes).unwrap();
    tmp.flush().unwrap();
    let path = tmp.path().to_owned();

    // P: one plain reader, whole history
    let mut plain = match BigWigRead::open_file(&path) {
        Ok(r) => r,
        Err(e) => return sl![a(0), S::L(fresh), open_err(e)],
    };
    let p: Vec<S> = queries.iter().map(|q| bw_answer(&mut plain, q)).collect();

    // C: one caching reader, whole history
    let mut cached = match BigWigRead::open_file(&path) {
        Ok(r) => r.cached(),
        Err(e) => return sl![a(0), S::L(fresh), open_err(e)],
    };
    let cc: Vec<S> = queries.iter().map(|q| bw_answer(&mut cached, q)).collect();

    // R: reopen() of the used caching reader (copies its cache), history reversed
    let mut re = match cached.reopen() {
        Ok(r) => r,
        Err(_) => return sl![a(0), S::L(fresh), S::L(p), S::L(cc), sl![a(1), a(1)]],
    };
    let mut r: Vec<S> = queries.iter().rev().map(|q| bw_answer(&mut re, q)).collect();
    r.reverse();
    // the original cached reader must still answer after the reopen (independent seeks)
    drop(re);
    sl![a(0), S::L(fresh), S::L(p), S::L(cc), S::L(r)]
}

fn main() {
    bt_harness::run_cases(run);
}
