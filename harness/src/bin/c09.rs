//! C09: writes a real file with the real writers and prints its bytes.
//! case = (ftype inner nice corrupt); ftype 0: bigWig, inner = the EntryBBI case; ftype 1: bigBed,
//! inner = the EntryBed case (kind opts sizes input queries autosql flags).
//! output = (0 (bytes)) | (1 code); panics / hangs are reported by the caller as (2) / (3).
//! Everything after the bytes (independent decoder, zlib) happens outside this binary.
use bigtools::beddata::BedParserStreamingIterator;
use bigtools::{BedEntry, BigBedWrite};
use bt_harness::bbi::{bw_items, classify_err, get_opts, get_sizes, runtime, write_bigwig, write_options, SharedSink};
use bt_harness::{a, sl, S};

fn write_bigbed(inner: &S, threads: usize) -> Result<Vec<u8>, i128> {
    let kind = inner.at(0).u32();
    let o = get_opts(inner.at(1));
    let sizes = get_sizes(inner.at(2));
    let items: Vec<(String, BedEntry)> = inner
        .at(3)
        .l()
        .iter()
        .map(|x| (x.at(0).string(), BedEntry { start: x.at(1).u32(), end: x.at(2).u32(), rest: x.at(3).string() }))
        .collect();
    let autosql: Option<String> = inner.at(5).l().first().map(|b| b.string());
    let sink = SharedSink::new();
    let mut w = BigBedWrite::new(sink.clone(), sizes);
    w.options = write_options(&o);
    w.autosql = autosql;
    let allow = !o.sort_all;
    let rt = runtime(threads);
    let r = if kind == 0 {
        w.write(BedParserStreamingIterator::wrap_infallible_iter(items.into_iter(), allow), rt)
    } else {
        w.write_multipass(|| Ok(BedParserStreamingIterator::wrap_infallible_iter(items.clone().into_iter(), allow)), rt)
    };
    match r {
        Ok(()) => Ok(sink.bytes()),
        Err(e) => Err(classify_err(&e)),
    }
}

fn run(c: &S) -> S {
    let ftype = c.at(0).u32();
    let inner = c.at(1);
    let threads = std::env::var("VERIF_THREADS").ok().and_then(|x| x.parse().ok()).unwrap_or(2usize);
    let r = if ftype == 0 {
        write_bigwig(inner.at(0).u32(), &get_opts(inner.at(1)), get_sizes(inner.at(2)), bw_items(inner.at(3)), threads)
    } else {
        write_bigbed(inner, threads)
    };
    match r {
        Ok(bytes) => sl![a(0), S::from_bytes(&bytes)],
        Err(code) => sl![a(1), a(code)],
    }
}
fn main() {
    bt_harness::run_cases(run);
}
