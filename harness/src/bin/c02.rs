//! C02: bigBed write/read round trip through the real writer and reader.
//! Case flag bit 2 (value 4, set by tools/vlib/props/C02.py on compressed cases): the bytes of the real,
//! libdeflate-compressed file are appended to the output as a 4th element, for the "replay compressor"
//! comparison (Model/Entry_C02.v entry 2: the blocks of the real file, inflated by Spec/Inflate.v, instantiate
//! the compressor of Model/BigBedWriteZ.v, whose file must then equal the real one byte for byte).
use bt_harness::bbi::{get_opts, get_sizes};
use bt_harness::bed::{bed_autosql, bed_items, read_back, write_bigbed};
use bt_harness::{a, sl, S};

fn run(c: &S) -> S {
    let flags = c.at(6).u32();
    if flags & 4 == 0 {
        return bt_harness::bed::run(c);
    }
    // as bed::run, keeping the bytes
    let kind = c.at(0).u32();
    let o = get_opts(c.at(1));
    let sizes = get_sizes(c.at(2));
    let threads = std::env::var("VERIF_THREADS").ok().and_then(|x| x.parse().ok()).unwrap_or(2usize);
    let bytes = match write_bigbed(kind, &o, sizes, bed_autosql(c), bed_items(c.at(3)), threads) {
        Ok(b) => b,
        Err(code) => return sl![a(1), a(code)],
    };
    match read_back(c, &o, bytes.clone()) {
        S::L(mut v) => {
            v.push(S::from_bytes(&bytes));
            S::L(v)
        }
        other => other,
    }
}

fn main() {
    bt_harness::run_cases(run);
}
