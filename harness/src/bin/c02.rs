//! C02: bigBed write/read round trip through the real writer and reader.
fn main() {
    bt_harness::run_cases(bt_harness::bed::run);
}
