//! C19: the autoSql generator (`bed_autosql`), the autoSql parser (`parse_autosql`) and the
//! "stored verbatim with its declared field count" path (BigBedWrite / bedtobigbed -> BigBedRead),
//! all through public API.
//!
//! cases
//!   (0 rest)                       -> (0 text parse)            generator on a BED `rest`, then the parser on its output
//!   (1 text expect)                -> parse                     the parser on arbitrary text (expect is for the oracle only)
//!   (2 alphabet prefix depth)      -> (compact ...)             the parser on prefix++w for every w over alphabet, |w|<=depth (preorder)
//!   (3 mode schema rest)           -> (0 autosql fc dfc)|(1 c)  write a one-line bigBed, read back autosql() and the header counts
//!        mode 0: library, no schema   1: library, schema supplied   2: bedtobigbed, no schema   3: bedtobigbed -a schema
//! parse  = (0 (decl ...)) | (1 errclass)
//! decl   = (dtype name idx auto comment (field ...))       dtype 0 simple 1 object 2 table
//! field  = (ftype size name idx auto comment)              size () | ((bytes))
//! ftype  = (0..11) | (12 (v) ...) enum | (13 (v) ...) set | (14 dtype name idx auto)
//! idx    = () | (0) primary | (1) index | (1 (size)) index[size] | (2) unique
//! compact = (0 nfields ...) | (1 errclass) | (2) panic
use bigtools::bed::autosql::parse::{
    parse_autosql, Declaration, DeclarationType, DeclareName, Field, FieldType, IndexType, ParseError,
};
use bigtools::bed::autosql::bed_autosql;
use bt_harness::{a, sl, S};

fn err_code(e: &ParseError) -> u32 {
    match e {
        ParseError::InvalidDeclareType(_) => 1,
        ParseError::InvalidDeclareName(_) => 2,
        ParseError::InvalidDeclareBrackets(_) => 3,
        ParseError::InvalidFieldSizeClose(_) => 4,
        ParseError::InvalidFieldCommentSeparater(_) => 5,
        ParseError::InvalidFieldValuesBrackets(_) => 6,
        ParseError::InvalidIndexSizeBrackets(_) => 7,
    }
}
fn dtype(d: &DeclarationType) -> S {
    a(match d {
        DeclarationType::Simple => 0u32,
        DeclarationType::Object => 1,
        DeclarationType::Table => 2,
    })
}
fn idx(i: &Option<IndexType>) -> S {
    match i {
        None => sl![],
        Some(IndexType::Primary) => sl![a(0u32)],
        Some(IndexType::Index(None)) => sl![a(1u32)],
        Some(IndexType::Index(Some(s))) => sl![a(1u32), S::from_str(s)],
        Some(IndexType::Unique) => sl![a(2u32)],
    }
}
fn ftype(t: &FieldType) -> S {
    let vals = |code: u32, vs: &Vec<String>| {
        let mut v = vec![a(code)];
        v.extend(vs.iter().map(|s| S::from_str(s)));
        S::L(v)
    };
    match t {
        FieldType::Int => sl![a(0u32)],
        FieldType::Uint => sl![a(1u32)],
        FieldType::Short => sl![a(2u32)],
        FieldType::Ushort => sl![a(3u32)],
        FieldType::Byte => sl![a(4u32)],
        FieldType::Ubyte => sl![a(5u32)],
        FieldType::Float => sl![a(6u32)],
        FieldType::Double => sl![a(7u32)],
        FieldType::Char => sl![a(8u32)],
        FieldType::String => sl![a(9u32)],
        FieldType::Lstring => sl![a(10u32)],
        FieldType::Bigint => sl![a(11u32)],
        FieldType::Enum(vs) => vals(12, vs),
        FieldType::Set(vs) => vals(13, vs),
        FieldType::Declaration(dt, dn) => sl![a(14u32), dtype(dt), S::from_str(&dn.name), idx(&dn.index_type), S::b(dn.auto)],
    }
}
fn field(f: &Field) -> S {
    sl![
        ftype(&f.field_type),
        match &f.field_size {
            None => sl![],
            Some(s) => sl![S::from_str(s)],
        },
        S::from_str(&f.name),
        idx(&f.index_type),
        S::b(f.auto),
        S::from_str(&f.comment)
    ]
}
fn decl(d: &Declaration) -> S {
    let n: &DeclareName = &d.name;
    sl![
        dtype(&d.declaration_type),
        S::from_str(&n.name),
        idx(&n.index_type),
        S::b(n.auto),
        S::from_str(&d.comment),
        S::L(d.fields.iter().map(field).collect())
    ]
}
fn parse_full(text: &str) -> S {
    match parse_autosql(text) {
        Ok(ds) => sl![a(0u32), S::L(ds.iter().map(decl).collect())],
        Err(e) => sl![a(1u32), a(err_code(&e))],
    }
}
fn parse_compact(text: &str) -> S {
    let r = std::panic::catch_unwind(|| match parse_autosql(text) {
        Ok(ds) => {
            let mut v = vec![a(0u32)];
            v.extend(ds.iter().map(|d| a(d.fields.len() as u64)));
            S::L(v)
        }
        Err(e) => sl![a(1u32), a(err_code(&e))],
    });
    r.unwrap_or(sl![a(2u32)])
}
fn enumerate(alpha: &[u8], cur: &mut Vec<u8>, depth: usize, out: &mut Vec<S>) {
    out.push(parse_compact(std::str::from_utf8(cur).unwrap()));
    if depth == 0 {
        return;
    }
    for &c in alpha {
        cur.push(c);
        enumerate(alpha, cur, depth - 1, out);
        cur.pop();
    }
}

fn stored(mode: u32, schema: &str, rest: &str) -> S {
    use bigtools::beddata::BedParserStreamingIterator;
    use bigtools::utils::cli::bedtobigbed::{bedtobigbed, BedToBigBedArgs};
    use bigtools::utils::cli::BBIWriteArgs;
    use bigtools::{BigBedRead, BigBedWrite};
    use std::collections::HashMap;
    use std::io::Write;
    let dir = tempfile::tempdir().unwrap();
    let out = dir.path().join("o.bb");
    let line = if rest.is_empty() { "chr1\t5\t20\n".to_string() } else { format!("chr1\t5\t20\t{}\n", rest) };
    if mode <= 1 {
        let mut chrom_map = HashMap::new();
        chrom_map.insert("chr1".to_string(), 1000u32);
        let mut outb = match BigBedWrite::create_file(&out, chrom_map) {
            Ok(o) => o,
            Err(_) => return sl![a(1u32), a(9u32)],
        };
        if mode == 1 {
            outb.autosql = Some(schema.to_string());
        }
        outb.options.channel_size = 0;
        let runtime = tokio::runtime::Builder::new_current_thread().build().unwrap();
        let data = BedParserStreamingIterator::from_bed_file(std::io::Cursor::new(line.into_bytes()), false);
        if outb.write(data, runtime).is_err() {
            return sl![a(1u32), a(1u32)];
        }
    } else {
        let bed = dir.path().join("i.bed");
        let sizes = dir.path().join("c.sizes");
        std::fs::File::create(&bed).unwrap().write_all(line.as_bytes()).unwrap();
        std::fs::File::create(&sizes).unwrap().write_all(b"chr1\t1000\n").unwrap();
        let autosql = if mode == 3 {
            let p = dir.path().join("s.as");
            std::fs::File::create(&p).unwrap().write_all(schema.as_bytes()).unwrap();
            Some(p.to_string_lossy().to_string())
        } else {
            None
        };
        let args = BedToBigBedArgs {
            bed: bed.to_string_lossy().to_string(),
            chromsizes: sizes.to_string_lossy().to_string(),
            output: out.to_string_lossy().to_string(),
            autosql,
            parallel: "auto".to_string(),
            single_pass: false,
            write_args: BBIWriteArgs {
                nthreads: 1,
                nzooms: 10,
                zooms: None,
                uncompressed: false,
                sorted: "all".to_string(),
                block_size: 256,
                items_per_slot: 1024,
                inmemory: false,
            },
        };
        if bedtobigbed(args).is_err() {
            return sl![a(1u32), a(1u32)];
        }
    }
    let mut r = match BigBedRead::open_file(&out) {
        Ok(r) => r,
        Err(_) => return sl![a(1u32), a(2u32)],
    };
    let sql = match r.autosql() {
        Ok(Some(s)) => s,
        Ok(None) => return sl![a(1u32), a(3u32)],
        Err(_) => return sl![a(1u32), a(4u32)],
    };
    let h = r.info().header;
    sl![a(0u32), S::from_str(&sql), a(h.field_count), a(h.defined_field_count)]
}

fn run(c: &S) -> S {
    match c.at(0).u32() {
        0 => {
            let rest = c.at(1).string();
            let text = bed_autosql(&rest);
            sl![a(0u32), S::from_str(&text), parse_full(&text)]
        }
        1 => parse_full(&c.at(1).string()),
        2 => {
            let alpha = c.at(1).bytes();
            let mut cur = c.at(2).bytes();
            let depth = c.at(3).usize();
            let mut out = vec![];
            enumerate(&alpha, &mut cur, depth, &mut out);
            S::L(out)
        }
        3 => stored(c.at(1).u32(), &c.at(2).string(), &c.at(3).string()),
        _ => sl![a(-1)],
    }
}
fn main() {
    bt_harness::run_cases(run);
}
