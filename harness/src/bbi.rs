//! Shared implementation-side driver for "write a file with the real writers, read it back with the
//! real readers": used by the binaries of C01, C03, C06, C07, C09, ...
//! Case format: see /verif/coq/theories/Model/EntryBBI.v.
use crate::sexp::{a, S};
use crate::sl;
use bigtools::beddata::BedParserStreamingIterator;
use bigtools::{
    BBIProcessError, BBIReadError, BBIWriteOptions, BigWigRead, BigWigWrite, InputSortType, Value,
    ZoomIntervalError,
};
use std::collections::HashMap;
use std::io::{self, Cursor, Seek, SeekFrom, Write};
use std::sync::{Arc, Mutex};

/// An in-memory `Write + Seek` sink whose content survives the writer that owns it.
#[derive(Clone)]
pub struct SharedSink(pub Arc<Mutex<Cursor<Vec<u8>>>>);
impl SharedSink {
    pub fn new() -> Self {
        SharedSink(Arc::new(Mutex::new(Cursor::new(Vec::new()))))
    }
    pub fn bytes(&self) -> Vec<u8> {
        self.0.lock().unwrap().get_ref().clone()
    }
}
impl Write for SharedSink {
    fn write(&mut self, buf: &[u8]) -> io::Result<usize> {
        self.0.lock().unwrap().write(buf)
    }
    fn flush(&mut self) -> io::Result<()> {
        Ok(())
    }
}
impl Seek for SharedSink {
    fn seek(&mut self, pos: SeekFrom) -> io::Result<u64> {
        self.0.lock().unwrap().seek(pos)
    }
}

pub struct Opts {
    pub compress: bool,
    pub ips: u32,
    pub bs: u32,
    pub izoom: u32,
    pub maxzooms: u32,
    pub manual: Option<Vec<u32>>,
    pub sort_all: bool,
}
pub fn get_opts(s: &S) -> Opts {
    Opts {
        compress: s.at(0).bool(),
        ips: s.at(1).u32(),
        bs: s.at(2).u32(),
        izoom: s.at(3).u32(),
        maxzooms: s.at(4).u32(),
        manual: s.at(5).l().first().map(|m| m.l().iter().map(|z| z.u32()).collect()),
        sort_all: s.at(6).bool(),
    }
}
pub fn write_options(o: &Opts) -> BBIWriteOptions {
    let mut w = BBIWriteOptions::default();
    w.compress = o.compress;
    w.items_per_slot = o.ips;
    w.block_size = o.bs;
    w.initial_zoom_size = o.izoom;
    w.max_zooms = o.maxzooms;
    w.manual_zoom_sizes = o.manual.clone();
    w.input_sort_type = if o.sort_all { InputSortType::ALL } else { InputSortType::START };
    w
}
pub fn get_sizes(s: &S) -> HashMap<String, u32> {
    s.l().iter().map(|x| (x.at(0).string(), x.at(1).u32())).collect()
}

/// error class codes shared with Model/BigWigWrite.v / BigBedWrite.v
pub fn classify(msg: &str) -> i128 {
    if msg.starts_with("Input bedGraph is empty") {
        10
    } else if msg.starts_with("Input bedGraph not sorted by chromosome") {
        11
    } else if msg.starts_with("Input bedGraph is not grouped by chromosome") {
        12
    } else if msg.starts_with("Input bedGraph contains chromosome that isn't in the input chrom sizes") {
        20
    } else if msg.starts_with("Invalid bed graph: overlapping") {
        32
    } else if msg.starts_with("Invalid bed graph: `") {
        31
    } else if msg.starts_with("Invalid bed graph: ") {
        30
    } else if msg.starts_with("Invalid bed: ") && msg.contains(" > ") && !msg.contains("chromosome") {
        40
    } else if msg.starts_with("Invalid bed: `") {
        41
    } else if msg.starts_with("Invalid bed: not sorted") {
        42
    } else {
        99
    }
}
pub fn classify_err<E: std::error::Error>(e: &BBIProcessError<E>) -> i128 {
    match e {
        BBIProcessError::IoError(_) => 50,
        other => classify(&other.to_string()),
    }
}

pub fn runtime(threads: usize) -> tokio::runtime::Runtime {
    if threads == 0 {
        tokio::runtime::Builder::new_current_thread().build().unwrap()
    } else {
        tokio::runtime::Builder::new_multi_thread().worker_threads(threads).build().unwrap()
    }
}

pub fn bw_items(s: &S) -> Vec<(String, Value)> {
    s.l()
        .iter()
        .map(|x| {
            (
                x.at(0).string(),
                Value { start: x.at(1).u32(), end: x.at(2).u32(), value: f32::from_bits(x.at(3).u32()) },
            )
        })
        .collect()
}

/// Writes a bigWig with the real writer; Ok(bytes) or Err(class code).
pub fn write_bigwig(kind: u32, o: &Opts, sizes: HashMap<String, u32>, items: Vec<(String, Value)>, threads: usize) -> Result<Vec<u8>, i128> {
    let sink = SharedSink::new();
    let mut w = BigWigWrite::new(sink.clone(), sizes);
    w.options = write_options(o);
    let allow = !o.sort_all;
    let rt = runtime(threads);
    let r = if kind == 0 {
        let src = BedParserStreamingIterator::wrap_infallible_iter(items.into_iter(), allow);
        w.write(src, rt)
    } else {
        w.write_multipass(
            || Ok(BedParserStreamingIterator::wrap_infallible_iter(items.clone().into_iter(), allow)),
            rt,
        )
    };
    match r {
        Ok(()) => Ok(sink.bytes()),
        Err(e) => Err(classify_err(&e)),
    }
}

pub fn read_err(e: &BBIReadError) -> S {
    let code = match e {
        BBIReadError::InvalidChromosome(_) => 4,
        BBIReadError::UnknownMagic => 7,
        BBIReadError::InvalidFile(_) => 6,
        BBIReadError::BedValueError(_) => 8,
        BBIReadError::IoError(_) => 1,
    };
    sl![a(1), a(code)]
}
pub fn zoom_err(e: &ZoomIntervalError) -> S {
    match e {
        ZoomIntervalError::ReductionLevelNotFound => sl![a(1), a(5)],
        ZoomIntervalError::BBIReadError(b) => read_err(b),
    }
}

fn value_s(v: &Value) -> S {
    sl![a(v.start), a(v.end), a(v.value.to_bits())]
}
fn summary_s(s: &bigtools::Summary) -> S {
    sl![a(s.total_items), a(s.bases_covered), a(s.min_val.to_bits()), a(s.max_val.to_bits()), a(s.sum.to_bits()), a(s.sum_squares.to_bits())]
}
fn zrec_s(z: &bigtools::ZoomRecord) -> S {
    sl![a(z.start), a(z.end), a(z.summary.bases_covered), a(z.summary.min_val.to_bits()), a(z.summary.max_val.to_bits()), a(z.summary.sum.to_bits()), a(z.summary.sum_squares.to_bits())]
}
pub fn info_s(i: &bigtools::BBIFileInfo) -> S {
    let h = &i.header;
    sl![
        S::b(matches!(i.filetype, bigtools::BBIFile::BigWig)),
        a(h.version),
        a(bigtools::verif_hooks::header_raw(i).0),
        a(h.field_count),
        a(h.defined_field_count),
        S::L(i.zoom_headers.iter().map(|z| a(z.reduction_level)).collect()),
        S::L(i.chrom_info.iter().zip(bigtools::verif_hooks::chrom_ids(i)).map(|(c, id)| sl![S::from_str(&c.name), a(id), a(c.length)]).collect())
    ]
}

/// Answers one query against a bigWig reader (plain or caching).
pub fn bw_answer<R: bigtools::BBIFileRead>(r: &mut BigWigRead<R>, q: &S) -> S {
    let k = q.at(0).u32();
    let c = q.at(1).string();
    let (s, e) = (q.at(2).u32(), q.at(3).u32());
    match k {
        0 => match r.get_interval(&c, s, e) {
            Err(e) => read_err(&e),
            Ok(it) => {
                let mut out = vec![];
                for v in it {
                    match v {
                        Ok(v) => out.push(value_s(&v)),
                        Err(e) => return read_err(&e),
                    }
                }
                sl![a(0), S::L(out)]
            }
        },
        1 => match r.values(&c, s, e) {
            Err(e) => read_err(&e),
            Ok(v) => sl![a(0), S::L(v.iter().map(|x| if x.is_nan() { S::L(vec![]) } else { sl![a(x.to_bits())] }).collect())],
        },
        2 => match r.get_zoom_interval(&c, s, e, q.at(4).u32()) {
            Err(e) => zoom_err(&e),
            Ok(it) => {
                let mut out = vec![];
                for v in it {
                    match v {
                        Ok(v) => out.push(zrec_s(&v)),
                        Err(e) => return read_err(&e),
                    }
                }
                sl![a(0), S::L(out)]
            }
        },
        3 => match r.get_summary() {
            Ok(s) => sl![a(0), summary_s(&s)],
            Err(_) => sl![a(1), a(1)],
        },
        _ => sl![a(0), info_s(r.info())],
    }
}

/// The whole case: write, then read back and answer the queries with a fresh plain reader.
pub fn run(c: &S) -> S {
    let kind = c.at(0).u32();
    let o = get_opts(c.at(1));
    let sizes = get_sizes(c.at(2));
    let threads = std::env::var("VERIF_THREADS").ok().and_then(|x| x.parse().ok()).unwrap_or(2usize);
    let bytes = match write_bigwig(kind, &o, sizes, bw_items(c.at(3)), threads) {
        Ok(b) => b,
        Err(code) => return sl![a(1), a(code)],
    };
    let file_s = if o.compress { S::L(vec![]) } else { S::from_bytes(&bytes) };
    let mut r = match BigWigRead::open(crate::ShortReads::<_, 61>(Cursor::new(bytes))) {
        Ok(r) => r,
        Err(e) => {
            let code = match e {
                bigtools::BigWigReadOpenError::NotABigWig => 2,
                bigtools::BigWigReadOpenError::InvalidChroms => 3,
                bigtools::BigWigReadOpenError::IoError(_) => 1,
            };
            return sl![a(0), file_s, sl![a(1), a(code)]];
        }
    };
    let answers: Vec<S> = c.at(4).l().iter().map(|q| bw_answer(&mut r, q)).collect();
    sl![a(0), file_s, S::L(answers)]
}
