//! S-expressions of integers: the interchange format shared with the Coq model driver.
use std::fmt::Write;

#[derive(Clone, Debug, PartialEq)]
pub enum S {
    A(i128),
    L(Vec<S>),
}

impl S {
    pub fn parse(s: &str) -> S {
        let b = s.as_bytes();
        let mut i = 0usize;
        let r = Self::item(b, &mut i);
        r
    }
    fn skip(b: &[u8], i: &mut usize) {
        while *i < b.len() && (b[*i] == b' ' || b[*i] == b'\t' || b[*i] == b'\r' || b[*i] == b'\n') {
            *i += 1;
        }
    }
    fn item(b: &[u8], i: &mut usize) -> S {
        Self::skip(b, i);
        if b[*i] == b'(' {
            *i += 1;
            let mut v = vec![];
            Self::skip(b, i);
            while b[*i] != b')' {
                v.push(Self::item(b, i));
                Self::skip(b, i);
            }
            *i += 1;
            S::L(v)
        } else {
            let j = *i;
            while *i < b.len() && b[*i] != b' ' && b[*i] != b'(' && b[*i] != b')' {
                *i += 1;
            }
            S::A(std::str::from_utf8(&b[j..*i]).unwrap().parse().unwrap())
        }
    }
    pub fn n(&self) -> i128 {
        match self {
            S::A(z) => *z,
            S::L(_) => 0,
        }
    }
    pub fn u32(&self) -> u32 {
        self.n() as u32
    }
    pub fn u64(&self) -> u64 {
        self.n() as u64
    }
    pub fn usize(&self) -> usize {
        self.n() as usize
    }
    pub fn bool(&self) -> bool {
        self.n() != 0
    }
    pub fn l(&self) -> &[S] {
        match self {
            S::L(v) => v,
            S::A(_) => &[],
        }
    }
    pub fn at(&self, i: usize) -> &S {
        static EMPTY: S = S::L(vec![]);
        self.l().get(i).unwrap_or(&EMPTY)
    }
    pub fn bytes(&self) -> Vec<u8> {
        self.l().iter().map(|x| x.n() as u8).collect()
    }
    pub fn string(&self) -> String {
        String::from_utf8(self.bytes()).unwrap()
    }
    pub fn from_bytes(b: &[u8]) -> S {
        S::L(b.iter().map(|x| S::A(*x as i128)).collect())
    }
    pub fn from_str(s: &str) -> S {
        Self::from_bytes(s.as_bytes())
    }
    pub fn b(v: bool) -> S {
        S::A(if v { 1 } else { 0 })
    }
    pub fn write(&self, out: &mut String) {
        match self {
            S::A(z) => {
                write!(out, "{}", z).unwrap();
            }
            S::L(v) => {
                out.push('(');
                for (k, x) in v.iter().enumerate() {
                    if k > 0 {
                        out.push(' ');
                    }
                    x.write(out);
                }
                out.push(')');
            }
        }
    }
    pub fn to_string(&self) -> String {
        let mut s = String::new();
        self.write(&mut s);
        s
    }
}

#[macro_export]
macro_rules! sl {
    ($($x:expr),* $(,)?) => { $crate::sexp::S::L(vec![$($x),*]) };
}
pub fn a<T: Into<i128>>(x: T) -> S {
    S::A(x.into())
}
