//! Implementation side of the correspondence checks: reads one case (S-expression)
//! per line, runs the real bigtools code on it, prints one result per line.
//! A panic inside a case is reported as `(2)`; hangs are detected by the caller
//! (bin/check kills the process and resumes after the offending case).
mod sexp;
mod c05;

use sexp::S;
use std::io::{BufRead, Write};

fn dispatch(prop: &str, case: &S) -> S {
    match prop {
        "C05" => c05::run(case),
        _ => panic!("unknown property {}", prop),
    }
}

fn main() {
    let args: Vec<String> = std::env::args().collect();
    let prop = args[1].clone();
    // keep panic messages off stdout; they go to stderr
    let stdin = std::io::stdin();
    let stdout = std::io::stdout();
    for line in stdin.lock().lines() {
        let line = line.unwrap();
        if line.trim().is_empty() {
            continue;
        }
        let case = S::parse(&line);
        let p = prop.clone();
        let r = std::panic::catch_unwind(move || dispatch(&p, &case));
        let out = match r {
            Ok(s) => s.to_string(),
            Err(_) => "(2)".to_string(),
        };
        let mut o = stdout.lock();
        writeln!(o, "{}", out).unwrap();
        o.flush().unwrap();
    }
}
