//! Implementation side of C06 / C08 for bigBed (included by src/bin/c06.rs and src/bin/c08.rs through
//! `#[path]`; the shared module src/bed.rs belongs to the C02 work).
//! case   = (kind opts sizes input queries)      kind 2 bigBed single pass | 3 bigBed two passes
//!          opts, sizes as in Model/EntryBBI.v;  input = ((name start end rest-bytes) ...)
//!          queries = ((chrom-index s e resolution) ...)      zoom range queries
//! output = (1 code) | (2) | (0 summary item_count (res ...) zooms answers)
//!          summary = (total_items bases min max sum sumsq) as get_summary returns it (f64 bit patterns)
//!          zooms   = per level of info().zoom_headers, per chromosome in first-appearance order,
//!                    every record get_zoom_interval(chrom, 0, u32::MAX, res) returns
//!          answers = per query (0 (record ...)) | (1 code)
use bigtools::beddata::BedParserStreamingIterator;
use bigtools::{BedEntry, BigBedRead, BigBedWrite};
use bt_harness::bbi::{classify_err, get_opts, get_sizes, runtime, write_options, zoom_err, Opts, SharedSink};
use bt_harness::{a, sl, S};
use std::collections::HashMap;
use std::io::Cursor;

pub fn bb_items(s: &S) -> Vec<(String, BedEntry)> {
    s.l()
        .iter()
        .map(|x| {
            (
                x.at(0).string(),
                BedEntry { start: x.at(1).u32(), end: x.at(2).u32(), rest: x.at(3).string() },
            )
        })
        .collect()
}

pub fn write_bigbed(kind: u32, o: &Opts, sizes: HashMap<String, u32>, items: Vec<(String, BedEntry)>, threads: usize) -> Result<Vec<u8>, i128> {
    let sink = SharedSink::new();
    let mut w = BigBedWrite::new(sink.clone(), sizes);
    w.options = write_options(o);
    let allow = !o.sort_all;
    let rt = runtime(threads);
    let r = if kind == 2 {
        let src = BedParserStreamingIterator::wrap_infallible_iter(items.into_iter(), allow);
        w.write(src, rt)
    } else {
        w.write_multipass(
            || Ok(BedParserStreamingIterator::wrap_infallible_iter(items.clone().into_iter(), allow)),
            rt,
        )
    };
    match r {
        Ok(()) => Ok(sink.bytes()),
        Err(e) => Err(classify_err(&e)),
    }
}

fn summary_s(s: &bigtools::Summary) -> S {
    sl![a(s.total_items), a(s.bases_covered), a(s.min_val.to_bits()), a(s.max_val.to_bits()), a(s.sum.to_bits()), a(s.sum_squares.to_bits())]
}
fn zrec_s(z: &bigtools::ZoomRecord) -> S {
    sl![a(z.start), a(z.end), a(z.summary.bases_covered), a(z.summary.min_val.to_bits()), a(z.summary.max_val.to_bits()), a(z.summary.sum.to_bits()), a(z.summary.sum_squares.to_bits())]
}

fn zoom_query<R: bigtools::BBIFileRead>(r: &mut BigBedRead<R>, c: &str, s: u32, e: u32, res: u32) -> S {
    match r.get_zoom_interval(c, s, e, res) {
        Err(e) => zoom_err(&e),
        Ok(it) => {
            let mut out = vec![];
            for v in it {
                match v {
                    Ok(v) => out.push(zrec_s(&v)),
                    Err(e) => return bt_harness::bbi::read_err(&e),
                }
            }
            sl![a(0), S::L(out)]
        }
    }
}

pub fn run(c: &S) -> S {
    let kind = c.at(0).u32();
    let o = get_opts(c.at(1));
    let sizes = get_sizes(c.at(2));
    let threads = std::env::var("VERIF_THREADS").ok().and_then(|x| x.parse().ok()).unwrap_or(2usize);
    let items = bb_items(c.at(3));
    let mut chroms: Vec<String> = vec![];
    for (n, _) in items.iter() {
        if !chroms.contains(n) {
            chroms.push(n.clone());
        }
    }
    let bytes = match write_bigbed(kind, &o, sizes, items, threads) {
        Ok(b) => b,
        Err(code) => return sl![a(1), a(code)],
    };
    let mut r = match BigBedRead::open(Cursor::new(bytes)) {
        Ok(r) => r,
        Err(_) => return sl![a(0), sl![a(1), a(2)]],
    };
    let summary = match r.get_summary() {
        Ok(s) => summary_s(&s),
        Err(_) => sl![a(1), a(1)],
    };
    let count = match r.item_count() {
        Ok(n) => a(n),
        Err(_) => sl![a(1), a(1)],
    };
    let levels: Vec<u32> = r.info().zoom_headers.iter().map(|z| z.reduction_level).collect();
    let mut zooms = vec![];
    for res in levels.iter() {
        let mut per = vec![];
        for cn in chroms.iter() {
            per.push(zoom_query(&mut r, cn, 0, u32::MAX, *res));
        }
        zooms.push(S::L(per));
    }
    let answers: Vec<S> = c
        .at(4)
        .l()
        .iter()
        .map(|q| {
            let ci = q.at(0).usize();
            match chroms.get(ci) {
                Some(cn) => zoom_query(&mut r, cn, q.at(1).u32(), q.at(2).u32(), q.at(3).u32()),
                None => sl![a(1), a(4)],
            }
        })
        .collect();
    sl![a(0), summary, count, S::L(levels.iter().map(|z| a(*z)).collect()), S::L(zooms), S::L(answers)]
}

/// dispatch on the kind: bigWig cases go through the shared driver
pub fn run_any(c: &S) -> S {
    if c.at(0).u32() < 2 {
        bt_harness::bbi::run(c)
    } else {
        run(c)
    }
}
