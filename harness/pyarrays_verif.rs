// C20 harness, compiled INTO pybigtools' unit-test binary (the crate is a cdylib and the array
// routines are private):  pybigtools/src/lib.rs ends with
//     #[cfg(all(test, bigtools_verif))] mod verif { include!(env!("BIGTOOLS_VERIF_PYARRAYS")); }
// and BIGTOOLS_VERIF_PYARRAYS names this file.  It cannot depend on the bt_harness crate, so it
// carries its own tiny S-expression reader.
//
// One case per input line (file named by BIGTOOLS_VERIF_CASES), one result line per case (written to
// the file named by BIGTOOLS_VERIF_OUT):
//   case    = (kind len items queries)
//   kind    = 0 bigWig values        items = ((start end value*8) ...)
//             1 bigBed entries       items = ((start end) ...)
//             2 bigWig zoom records  items = ((start end bases_covered min*8 max*8 sum*8) ...)
//             3 bigBed zoom records  items = same
//   query   = (s e bins stat missing oob touch)
//             bins 0 = per base, n>0 = n bins;  stat 0 mean 1 min 2 max;
//             missing/oob: () = NaN, integer k = k/8;  touch 1 = the reader also hands over items
//             that merely touch the fetched range (what get_block_entries / get_zoom_block_values do)
//   result  = (r ...) one r per query:  (0 (x ...)) with x = f64::to_bits(v + 0.0) or () for NaN;
//             (2) = the call panicked.
//
// What runs for a query is what `BBIRead.values` runs after PyO3 has unpacked the arguments
// (intervals_to_array / entries_to_array): allocate the array filled with `missing`, clamp the fetch
// range, fetch, call the private routine, fill the out-of-bounds part.  The two wrappers need a live
// Python interpreter with numpy and cannot be called here; their arithmetic (the clamp of the fetch
// range, the value of the `match bins` expression, the out-of-bounds fill block) is cut out of the
// current source text of lib.rs by tools/vlib/props/C20.py on every run and compiled in through
// BIGTOOLS_VERIF_PYGLUE (functions wig_clamp, wig_tail, bed_clamp, bed_tail), so it is the code of
// the working tree that runs.  The fetch is replaced by a filter over the in-memory
// items with the reader's own conditions (bigwigread.rs get_block_values: strict overlap, clipped;
// bigbedread.rs get_block_entries and bbiread.rs get_zoom_block_values: inclusive, unclipped).
use super::*;
use numpy::ndarray::{Array1, Ix1};
use std::cell::{RefCell, RefMut};
use std::io::{BufRead, Write};
use std::panic::{catch_unwind, AssertUnwindSafe};

enum S {
    A(i128),
    L(Vec<S>),
}
impl S {
    fn parse(b: &[u8], i: &mut usize) -> S {
        while b[*i] == b' ' {
            *i += 1;
        }
        if b[*i] == b'(' {
            *i += 1;
            let mut v = vec![];
            loop {
                while b[*i] == b' ' {
                    *i += 1;
                }
                if b[*i] == b')' {
                    *i += 1;
                    return S::L(v);
                }
                v.push(S::parse(b, i));
            }
        }
        let j = *i;
        while *i < b.len() && b[*i] != b' ' && b[*i] != b'(' && b[*i] != b')' {
            *i += 1;
        }
        S::A(std::str::from_utf8(&b[j..*i]).unwrap().parse().unwrap())
    }
    fn n(&self) -> i128 {
        match self {
            S::A(z) => *z,
            S::L(_) => 0,
        }
    }
    fn l(&self) -> &[S] {
        match self {
            S::L(v) => v,
            S::A(_) => &[],
        }
    }
    fn at(&self, i: usize) -> &S {
        &self.l()[i]
    }
    // () = NaN, k = k/8
    fn fl(&self) -> f64 {
        match self {
            S::A(z) => (*z as f64) / 8.0,
            S::L(_) => f64::NAN,
        }
    }
}

// stand-in for the numpy array handle `v` of the wrappers: v.readwrite().as_array_mut()
struct ShimArr<'a>(RefCell<ArrayViewMut<'a, f64, Ix1>>);
struct ShimRw<'b, 'a>(RefMut<'b, ArrayViewMut<'a, f64, Ix1>>);
impl<'a> ShimArr<'a> {
    fn readwrite(&self) -> ShimRw<'_, 'a> {
        ShimRw(self.0.borrow_mut())
    }
}
impl<'b, 'a> ShimRw<'b, 'a> {
    fn as_array_mut(&mut self) -> ArrayViewMut<'_, f64, Ix1> {
        self.0.view_mut()
    }
}

// wig_clamp, wig_tail, bed_clamp, bed_tail: generated from lib.rs
include!(env!("BIGTOOLS_VERIF_PYGLUE"));

struct Q {
    s: i32,
    e: i32,
    bins: usize,
    stat: Summary,
    missing: f64,
    oob: f64,
    touch: bool,
}

fn zoom_rec(x: &S) -> ZoomRecord {
    ZoomRecord::verif_new(
        0,
        x.at(0).n() as u32,
        x.at(1).n() as u32,
        bigtools::Summary {
            total_items: 0,
            bases_covered: x.at(2).n() as u64,
            // the reader widens the stored f32 fields
            min_val: f64::from(x.at(3).fl() as f32),
            max_val: f64::from(x.at(4).fl() as f32),
            sum: f64::from(x.at(5).fl() as f32),
            sum_squares: 0.0,
        },
    )
}

fn run_query(kind: i128, len: i32, items: &[S], q: &Q) -> Vec<f64> {
    // start_end_length_inner: (start.unwrap_or(0), end.unwrap_or(length), length)
    let (start, end, length) = (q.s, q.e, len);
    let bins = if q.bins == 0 { None } else { Some(q.bins) };
    let n = match bins {
        Some(b) => b,
        None => (end - start) as usize,
    };
    // the caller may hand in an array of its own (`arr=`), e.g. the one a previous call filled: whatever it
    // holds must not show in the answer, so the array starts with a value no routine produces
    let mut arr = Array1::from(vec![31337.5f64; n]);
    let (is, ie) = if kind == 0 || kind == 2 {
        wig_clamp(start, end, length)
    } else {
        bed_clamp(start, end, length)
    };
    let keep = |s: u32, e: u32| {
        if q.touch {
            e >= is && s <= ie
        } else {
            e > is && s < ie
        }
    };
    match kind {
        0 => {
            // get_block_values: strict overlap, clipped to the fetched range
            let it = items
                .iter()
                .map(|x| Value {
                    start: x.at(0).n() as u32,
                    end: x.at(1).n() as u32,
                    value: x.at(2).fl() as f32,
                })
                .filter(|v| v.end > is && v.start < ie)
                .map(|mut v| {
                    v.start = v.start.max(is);
                    v.end = v.end.min(ie);
                    Ok(v)
                });
            match bins {
                Some(b) => {
                    to_array_bins(start, end, it, q.stat, b, q.missing, arr.view_mut()).unwrap();
                }
                None => {
                    to_array(start, end, it, q.missing, arr.view_mut()).unwrap();
                }
            }
        }
        1 => {
            let it = items
                .iter()
                .map(|x| BedEntry {
                    start: x.at(0).n() as u32,
                    end: x.at(1).n() as u32,
                    rest: String::new(),
                })
                .filter(|v| keep(v.start, v.end))
                .map(Ok);
            match bins {
                Some(b) => {
                    to_entry_array_bins(start, end, it, q.stat, b, q.missing, arr.view_mut())
                        .unwrap();
                }
                None => {
                    to_entry_array(start, end, it, q.missing, arr.view_mut()).unwrap();
                }
            }
        }
        2 => {
            let b = bins.expect("zoom route needs bins");
            let it = items.iter().map(zoom_rec).filter(|v| keep(v.start, v.end)).map(Ok);
            to_array_zoom(start, end, it, q.stat, b, q.missing, arr.view_mut()).unwrap();
        }
        _ => {
            let b = bins.expect("zoom route needs bins");
            let it = items.iter().map(zoom_rec).filter(|v| keep(v.start, v.end)).map(Ok);
            to_entry_array_zoom(start, end, it, q.stat, b, q.missing, arr.view_mut()).unwrap();
        }
    }
    {
        let v = ShimArr(RefCell::new(arr.view_mut()));
        if kind == 0 || kind == 2 {
            wig_tail(start, end, length, bins, q.oob, &v);
        } else {
            bed_tail(start, end, length, bins, q.oob, &v);
        }
    }
    arr.to_vec()
}

#[test]
fn verif_pyarrays() {
    let cases = match std::env::var("BIGTOOLS_VERIF_CASES") {
        Ok(p) => p,
        Err(_) => return, // nothing to do when run as part of the ordinary suite
    };
    let out_path = std::env::var("BIGTOOLS_VERIF_OUT").expect("BIGTOOLS_VERIF_OUT");
    let mut out = std::io::BufWriter::new(std::fs::File::create(out_path).unwrap());
    std::panic::set_hook(Box::new(|_| {}));
    let rd = std::io::BufReader::new(std::fs::File::open(cases).unwrap());
    for line in rd.lines() {
        let line = line.unwrap();
        if line.trim().is_empty() {
            continue;
        }
        let mut i = 0usize;
        let c = S::parse(line.as_bytes(), &mut i);
        let kind = c.at(0).n();
        let len = c.at(1).n() as i32;
        let items = c.at(2).l();
        let mut s = String::from("(");
        for (k, qs) in c.at(3).l().iter().enumerate() {
            let stat = match qs.at(3).n() {
                0 => Summary::Mean,
                1 => Summary::Min,
                _ => Summary::Max,
            };
            let q = Q {
                s: qs.at(0).n() as i32,
                e: qs.at(1).n() as i32,
                bins: qs.at(2).n() as usize,
                stat,
                missing: qs.at(4).fl(),
                oob: qs.at(5).fl(),
                touch: qs.at(6).n() != 0,
            };
            if k > 0 {
                s.push(' ');
            }
            match catch_unwind(AssertUnwindSafe(|| run_query(kind, len, items, &q))) {
                Ok(v) => {
                    s.push_str("(0 (");
                    for (j, x) in v.iter().enumerate() {
                        if j > 0 {
                            s.push(' ');
                        }
                        if x.is_nan() {
                            s.push_str("()");
                        } else {
                            s.push_str(&(x + 0.0).to_bits().to_string());
                        }
                    }
                    s.push_str("))");
                }
                Err(_) => s.push_str("(2)"),
            }
        }
        s.push(')');
        writeln!(out, "{}", s).unwrap();
        // one flush per case: when the process is killed (watchdog) the caller sees how far it got
        out.flush().unwrap();
    }
    out.flush().unwrap();
    let _ = std::panic::take_hook();
}
