(* Model of bigtools/src/utils/file/file_view.rs (FileView: Read + Seek over a byte window of a
   file), after the repairs b7f68e8 (End clamps at the window start) and ec4dfa8 (saturating
   additions).  No proofs here.

   The underlying file is a list of bytes; the OS file position is not a separate component
   because every path of the Rust code leaves it equal to [current] (the [None] state of
   [current] is entered only after an I/O error of the underlying file, which is outside the
   model).  File lengths are below 2^63 (lseek returns an i64), so the casts [self.end as i64],
   [current as i64] and [self.start as i64] are the identity; the two saturating additions are
   modelled as such.  Integer overflow checks are those of the dev profile the harness is
   built with: the one remaining unchecked subtraction, [self.end - current] in [read], panics
   when the window start lies beyond the end of the file. *)
From BT Require Import Base.Util.
Local Open Scope N_scope.

Record view := mkView { v_start : N; v_end : N; v_cur : N }.

Definition two63 : N := 2 ^ 63.
Definition u64_max : N := 2 ^ 64 - 1.
Definition i64_max : Z := (2 ^ 63 - 1)%Z.
Definition i64_min : Z := (- 2 ^ 63)%Z.
Definition sat_add_u64 (a b : N) : N := N.min (a + b) u64_max.
Definition sat_add_i64 (a b : Z) : Z := Z.max i64_min (Z.min (a + b) i64_max).

(* FileView::new(file, start, end): seek(End(0)); seek(Start(start)) fails in the OS with EINVAL
   when start does not fit an off_t; end is truncated to the file length. *)
Definition view_new (file_len start end_ : N) : res view :=
  if two63 <=? start then Err 1
  else Ok {| v_start := start; v_end := N.min end_ file_len; v_cur := start |}.

Inductive seek_from := SStart (k : N) | SCurrent (d : Z) | SEnd (d : Z).
Inductive op := Read (n : N) | Seek (s : seek_from).
Inductive outcome := Bytes (l : list N) | Pos (p : N).

(* the first n elements / all but the first n elements, by recursion on the list: a count that
   comes from a case (a window bound, a seek argument) is never turned into a unary number *)
Fixpoint takeN {X} (l : list X) (n : N) : list X :=
  match l with
  | [] => []
  | x :: r => if n =? 0 then [] else x :: takeN r (N.pred n)
  end.
Fixpoint dropN {X} (l : list X) (n : N) : list X :=
  match l with
  | [] => []
  | x :: r => if n =? 0 then l else dropN r (N.pred n)
  end.

(* File::read at position pos into a buffer of n bytes (regular file: no short reads) *)
Definition file_read (file : list N) (pos n : N) : list N :=
  takeN (dropN file pos) n.

(* impl Read for FileView *)
Definition view_read (file : list N) (v : view) (n : N) : res (list N * view) :=
  if v_end v <? v_cur v then Panic      (* self.end - current: attempt to subtract with overflow *)
  else
    let to_read := N.min n (v_end v - v_cur v) in
    let got := file_read file (v_cur v) to_read in
    Ok (got, {| v_start := v_start v; v_end := v_end v; v_cur := v_cur v + Nlen got |}).

(* the common tail of the three seek branches: file.seek(Start(target)) returns target;
   assert!(new_pos >= self.start && new_pos <= self.end); current = new_pos; Ok(new_pos - start) *)
Definition seek_to (v : view) (target : N) : res (N * view) :=
  if (v_start v <=? target) && (target <=? v_end v)
  then Ok (target - v_start v, {| v_start := v_start v; v_end := v_end v; v_cur := target |})
  else Panic.

(* impl Seek for FileView *)
Definition view_seek (v : view) (s : seek_from) : res (N * view) :=
  match s with
  | SStart k => seek_to v (N.min (v_end v) (sat_add_u64 (v_start v) k))
  | SEnd d =>
      let e := Z.min d 0 in
      let new_pos := (Z.of_N (v_end v) + e)%Z in
      seek_to v (Z.to_N (Z.max new_pos (Z.of_N (v_start v))))
  | SCurrent d =>
      let new_pos := sat_add_i64 (Z.of_N (v_cur v)) d in
      let new_pos := Z.max (Z.min new_pos (Z.of_N (v_end v))) (Z.of_N (v_start v)) in
      seek_to v (Z.to_N new_pos)
  end.

Definition step (file : list N) (v : view) (o : op) : res (outcome * view) :=
  match o with
  | Read n => do r <- view_read file v n; Ok (Bytes (fst r), snd r)
  | Seek s => do r <- view_seek v s; Ok (Pos (fst r), snd r)
  end.

(* outcomes of a sequence of calls on one view; the sequence ends at the first panic *)
Fixpoint run (file : list N) (v : view) (ops : list op) : list (res outcome) :=
  match ops with
  | [] => []
  | o :: r =>
      match step file v o with
      | Ok (out, v') => Ok out :: run file v' r
      | Err c => [Err c]
      | Panic => [Panic]
      | Fuel => [Fuel]
      end
  end.

(* FileView::new(File::open(path), a, b) followed by the calls *)
Definition run_view (file : list N) (a b : N) (ops : list op) : list (res outcome) :=
  match view_new (Nlen file) a b with
  | Ok v => run file v ops
  | Err c => [Err c]
  | Panic => [Panic]
  | Fuel => [Fuel]
  end.

(* the byte range [a,b) of a file as a file of its own *)
Definition range (file : list N) (a b : N) : list N :=
  takeN (dropN file a) (b - a).

(* What a BufReader (or read_to_end) does with a reader: read into a buffer of [bufsize] bytes
   until a read returns nothing; all bytes delivered, in order. *)
Fixpoint read_all (fuel : nat) (file : list N) (v : view) (bufsize : N) : res (list N) :=
  match fuel with
  | O => Fuel
  | S f =>
      do r <- view_read file v bufsize;
      match fst r with
      | [] => Ok []
      | got => do rest <- read_all f file (snd r) bufsize; Ok (got ++ rest)
      end
  end.

(* The reference: a cursor on an isolated byte string, positions clamped to [0, len]. *)
Definition clampZ (lo hi x : Z) : Z := Z.max lo (Z.min x hi).
Definition cursor_step (r : list N) (pos : N) (o : op) : outcome * N :=
  match o with
  | Read n => let got := takeN (dropN r pos) n in (Bytes got, pos + Nlen got)
  | Seek (SStart k) => let p := N.min k (Nlen r) in (Pos p, p)
  | Seek (SCurrent d) => let p := Z.to_N (clampZ 0 (Z.of_N (Nlen r)) (Z.of_N pos + d)) in (Pos p, p)
  | Seek (SEnd d) => let p := Z.to_N (clampZ 0 (Z.of_N (Nlen r)) (Z.of_N (Nlen r) + Z.min d 0)) in (Pos p, p)
  end.
Fixpoint cursor_run (r : list N) (pos : N) (ops : list op) : list (res outcome) :=
  match ops with
  | [] => []
  | o :: rest => let '(out, pos') := cursor_step r pos o in Ok out :: cursor_run r pos' rest
  end.
