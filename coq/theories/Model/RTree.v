(* Model of the R-tree index: bbiwrite.rs get_rtreeindex / calculate_offsets /
   write_tree / write_rtreeindex, and bbiread.rs read_node / nodes_overlapping /
   search_cir_tree_inner (CirTreeBlockSearchIter).  No proofs in this file. *)
From BT Require Import Base.Util Base.LE Generated.Consts.
Local Open Scope N_scope.

Record span := { sc : N; sb : N; ec : N; eb : N }.
Record sect := { s_chrom : N; s_start : N; s_end : N; s_off : N; s_size : N }.
Definition sect_span (s : sect) : span :=
  {| sc := s_chrom s; sb := s_start s; ec := s_chrom s; eb := s_end s |}.

(* bbiread.rs compare_position / overlaps: inclusive lexicographic comparison *)
Definition cmp_pos (c1 b1 c2 b2 : N) : comparison :=
  match c1 ?= c2 with Eq => b1 ?= b2 | c => c end.
Definition le_pos c1 b1 c2 b2 := match cmp_pos c1 b1 c2 b2 with Gt => false | _ => true end.
Definition ge_pos c1 b1 c2 b2 := match cmp_pos c1 b1 c2 b2 with Lt => false | _ => true end.
Definition overlaps (q qs qe : N) (s : span) : bool :=
  le_pos q qs (ec s) (eb s) && ge_pos q qe (sc s) (sb s).

Inductive tree :=
| Leaf (items : list sect)
| Node (children : list (span * tree)).

(* (chrom, base) pairs ordered as Rust tuples are *)
Definition pmax (p q : N * N) : N * N :=
  if le_pos (fst p) (snd p) (fst q) (snd q) then q else p.
Definition zero_span : span := {| sc := 0; sb := 0; ec := 0; eb := 0 |}.
(* start of the first element, largest end of any element *)
Definition hull (l : list span) : span :=
  match l with
  | [] => zero_span
  | f :: r =>
      let e := fold_left pmax (map (fun s => (ec s, eb s)) r) (ec f, eb f) in
      {| sc := sc f; sb := sb f; ec := fst e; eb := snd e |}
  end.
Definition span_of (t : tree) : span :=
  match t with
  | Leaf l => hull (map sect_span l)
  | Node c => hull (map fst c)
  end.
Definition mk_node (ch : list tree) : tree := Node (map (fun t => (span_of t, t)) ch).

(* get_rtreeindex: level 0 = chunks of sections, then chunks of nodes until one is left *)
Fixpoint build_loop (fuel : nat) (b : nat) (cur : list tree) (levels : nat) : res (tree * nat) :=
  match fuel with
  | O => Fuel
  | S f =>
      match cur with
      | [] => Ok (Leaf [], levels)
      | [t] => Ok (t, levels)
      | _ => build_loop f b (map mk_node (chunks b cur)) (S levels)
      end
  end.
Definition build (b : nat) (secs : list sect) : res (tree * nat) :=
  match b with
  | O => Panic   (* itertools chunks(0) asserts *)
  | _ => build_loop (S (length secs)) b (map Leaf (chunks b secs)) 0
  end.

(* ---- layout ---- *)
Definition leaf_item_bytes (s : sect) : list N :=
  u32 (s_chrom s) ++ u32 (s_start s) ++ u32 (s_chrom s) ++ u32 (s_end s) ++ u64 (s_off s) ++ u64 (s_size s).
Definition leaf_bytes (l : list sect) : list N :=
  u8 1 ++ u8 0 ++ u16 (Nlen l) ++ flat_map leaf_item_bytes l.
Definition inner_item_bytes (sp : span) (off : N) : list N :=
  u32 (sc sp) ++ u32 (sb sp) ++ u32 (ec sp) ++ u32 (eb sp) ++ u64 off.

Definition full_nonleaf (b : N) : N := NODEHEADER_SIZE + NON_LEAFNODE_SIZE * b.
Definition full_leaf (b : N) : N := NODEHEADER_SIZE + LEAFNODE_SIZE * b.

Fixpoint enum_from {X} (i : N) (l : list X) : list (N * X) :=
  match l with [] => [] | x :: r => (i, x) :: enum_from (i + 1) r end.

(* calculate_offsets: bytes actually occupied by the non-leaf nodes that sit at
   level [target], for a subtree whose root sits at level [level] *)
Fixpoint level_bytes (t : tree) (level target : nat) : N :=
  match t with
  | Leaf _ => 0
  | Node ch =>
      (if Nat.eqb level target then NODEHEADER_SIZE + NON_LEAFNODE_SIZE * Nlen ch else 0)
      + sumN (map (fun c => level_bytes (snd c) (level - 1) target) ch)
  end.

(* write_tree: bytes emitted for the nodes at [dest], and the returned size *)
Fixpoint write_tree (b : N) (t : tree) (curr dest : nat) (coff : N) {struct t} : res (list N * N) :=
  if negb (Nat.eqb curr dest) then
    match t with
    | Leaf _ => Panic
    | Node ch =>
        (fix go (l : list (span * tree)) (acc : N) {struct l} : res (list N * N) :=
           match l with
           | [] => Ok ([], acc)
           | c :: r =>
               do (b1, s1) <- write_tree b (snd c) (curr - 1) dest (coff + acc);
               do (b2, s2) <- go r (acc + s1);
               Ok (b1 ++ b2, s2)
           end) ch 0
    end
  else
    match t with
    | Leaf secs => Ok (leaf_bytes secs, 4 + Nlen secs * 32)
    | Node ch =>
        let full := if Nat.ltb 0 (curr - 1) then full_nonleaf b else full_leaf b in
        Ok (u8 0 ++ u8 0 ++ u16 (Nlen ch)
              ++ flat_map (fun ic => inner_item_bytes (fst (snd ic)) (coff + fst ic * full)) (enum_from 0 ch),
            Nlen ch * full)
    end.

Definition index_header (b ips : N) (count : N) (sp : span) (end_of_data : N) : list N :=
  u32 CIR_TREE_MAGIC ++ u32 b ++ u64 count ++ u32 (sc sp) ++ u32 (sb sp) ++ u32 (ec sp) ++ u32 (eb sp)
  ++ u64 end_of_data ++ u32 ips ++ u32 0.

Fixpoint write_levels (b : N) (t : tree) (levels : nat) (level : nat) (next_offset : N) : res (list N) :=
  (* level counts down from [levels] to 0 *)
  let next_offset := if Nat.ltb 0 level then next_offset + level_bytes t levels level else next_offset in
  do (bs, _) <- write_tree b t levels level next_offset;
  match level with
  | O => Ok bs
  | S l' => do rest <- write_levels b t levels l' next_offset; Ok (bs ++ rest)
  end.

(* write_rtreeindex at file position [pos] *)
Definition rtree_bytes (b ips : N) (pos : N) (t : tree) (levels : nat) (count : N) : res (list N) :=
  do body <- write_levels b t levels levels (pos + 48);
  Ok (index_header b ips count (span_of t) pos ++ body).

Definition write_index (b ips pos : N) (secs : list sect) : res (list N * nat) :=
  do (t, levels) <- build (N.to_nat b) secs;
  do bs <- rtree_bytes b ips pos t levels (Nlen secs);
  Ok (bs, levels).

(* ---- reader ---- *)
Inductive node :=
| LeafN (items : list sect)              (* span (both chrom fields), offset, size *)
| InnerN (items : list (span * N)).

Record leaf_item := { li_span : span; li_off : N; li_size : N }.

Definition rd_u32 (big : bool) (bs : list N) (off : N) := rd big bs off 4.
Definition rd_u64 (big : bool) (bs : list N) (off : N) := rd big bs off 8.

Definition parse_span (big : bool) (bs : list N) : span :=
  {| sc := dec big (firstn 4 bs); sb := dec big (firstn 4 (skipn 4 bs));
     ec := dec big (firstn 4 (skipn 8 bs)); eb := dec big (firstn 4 (skipn 12 bs)) |}.

Fixpoint parse_leaf_items (big : bool) (n : nat) (bs : list N) : list leaf_item :=
  match n with
  | O => []
  | S k => {| li_span := parse_span big bs;
              li_off := dec big (firstn 8 (skipn 16 bs));
              li_size := dec big (firstn 8 (skipn 24 bs)) |}
           :: parse_leaf_items big k (skipn 32 bs)
  end.
Fixpoint parse_inner_items (big : bool) (n : nat) (bs : list N) : list (span * N) :=
  match n with
  | O => []
  | S k => (parse_span big bs, dec big (firstn 8 (skipn 16 bs))) :: parse_inner_items big k (skipn 24 bs)
  end.

Inductive pnode := PLeaf (items : list leaf_item) | PInner (items : list (span * N)).

(* read_node: Err 1 = io error (UnexpectedEof); Panic = the isleaf assertion *)
Definition read_node (big : bool) (bs : list N) (off : N) : res pnode :=
  match slice bs off 4 with
  | None => Err 1
  | Some h =>
      let isleaf := nth 0 h 0 in
      if negb ((isleaf =? 0) || (isleaf =? 1)) then Panic else
      let count := N.to_nat (dec big (skipn 2 h)) in
      if isleaf =? 1 then
        match slice bs (off + 4) (count * 32) with
        | None => Err 1
        | Some d => Ok (PLeaf (parse_leaf_items big count d))
        end
      else
        match slice bs (off + 4) (count * 24) with
        | None => Err 1
        | Some d => Ok (PInner (parse_inner_items big count d))
        end
  end.

Definition block := (N * N)%type.  (* offset, size *)

(* CirTreeBlockSearchIter: pop the front offset, push the overlapping children
   at the front in order, collect the overlapping leaf items *)
Fixpoint search_loop (fuel : nat) (big : bool) (bs : list N) (queue : list N) (q qs qe : N)
  : res (list block) :=
  match fuel with
  | O => Fuel
  | S f =>
      match queue with
      | [] => Ok []
      | off :: rest =>
          do n <- read_node big bs off;
          match n with
          | PLeaf items =>
              let hit := map (fun i => (li_off i, li_size i))
                             (filter (fun i => overlaps q qs qe (li_span i)) items) in
              do more <- search_loop f big bs rest q qs qe;
              Ok (hit ++ more)
          | PInner items =>
              let kids := map snd (filter (fun i => overlaps q qs qe (fst i)) items) in
              search_loop f big bs (kids ++ rest) q qs qe
          end
      end
  end.

Definition search_bytes (fuel : nat) (big : bool) (bs : list N) (root : N) (q qs qe : N) : res (list block) :=
  search_loop fuel big bs [root] q qs qe.

(* the linear scan the property compares with *)
Definition scan (secs : list sect) (q qs qe : N) : list block :=
  map (fun s => (s_off s, s_size s)) (filter (fun s => overlaps q qs qe (sect_span s)) secs).

(* abstract (pointer-free) search on the tree *)
Fixpoint leaves (t : tree) : list sect :=
  match t with Leaf l => l | Node ch => flat_map (fun c => leaves (snd c)) ch end.
Fixpoint search_tree (q qs qe : N) (t : tree) : list sect :=
  match t with
  | Leaf items => filter (fun s => overlaps q qs qe (sect_span s)) items
  | Node ch => flat_map (fun c => if overlaps q qs qe (fst c) then search_tree q qs qe (snd c) else []) ch
  end.
