(* Model of the caching reader (bbiread.rs CachedBBIFileRead): a map from node offsets to parsed
   index nodes and a map from blocks to their (inflated) bytes, the latter cleared when it holds
   CACHE_LIMIT entries.  A reader with a cache is a state machine; the stateless functions of
   Model/BBIRead.v are the specification it must agree with for every query history (C03).

   HashMap entries are only ever inserted on a miss (Entry::Vacant / get = None), so an
   association list extended at the front has the same content and the same length as the map.
   No proofs in this file. *)
From BT Require Import Base.Util Base.LE Base.Float Generated.Consts Model.RTree Model.BBIFile Model.BigWigWrite Model.BBIRead.
Local Open Scope N_scope.

Record cache := { c_nodes : list (N * pnode); c_blocks : list (block * list N) }.
Definition cache0 : cache := {| c_nodes := []; c_blocks := [] |}.

Fixpoint assocN {V} (k : N) (l : list (N * V)) : option V :=
  match l with [] => None | (k', v) :: r => if k =? k' then Some v else assocN k r end.
Definition block_eqb (a b : block) : bool := (fst a =? fst b) && (snd a =? snd b).
Fixpoint assocB {V} (k : block) (l : list (block * V)) : option V :=
  match l with [] => None | (k', v) :: r => if block_eqb k k' then Some v else assocB k r end.

(* blocks_for_cir_tree_node through the cache *)
Definition c_read_node (big : bool) (bs : list N) (c : cache) (off : N) : res pnode * cache :=
  match assocN off (c_nodes c) with
  | Some n => (Ok n, c)
  | None =>
      match read_node big bs off with
      | Ok n => (Ok n, {| c_nodes := (off, n) :: c_nodes c; c_blocks := c_blocks c |})
      | r => (r, c)
      end
  end.

Section Inflate.
Variable infl : list N -> list N.

(* get_block_data through the cache: hit; else clear when full, read, insert *)
Definition c_block_data (i : info) (bs : list N) (c : cache) (b : block) : res (list N) * cache :=
  match assocB b (c_blocks c) with
  | Some d => (Ok d, c)
  | None =>
      let c1 := if CACHE_LIMIT <=? Nlen (c_blocks c) then {| c_nodes := c_nodes c; c_blocks := [] |} else c in
      match block_data infl i bs b with
      | Ok d => (Ok d, {| c_nodes := c_nodes c1; c_blocks := (b, d) :: c_blocks c1 |})
      | r => (r, c1)
      end
  end.

Fixpoint c_search_loop (fuel : nat) (big : bool) (bs : list N) (c : cache) (queue : list N) (q qs qe : N)
  : res (list block) * cache :=
  match fuel with
  | O => (Fuel, c)
  | S f =>
      match queue with
      | [] => (Ok [], c)
      | off :: rest =>
          match c_read_node big bs c off with
          | (Ok (PLeaf items), c1) =>
              let hit := map (fun i => (li_off i, li_size i)) (filter (fun i => overlaps q qs qe (li_span i)) items) in
              match c_search_loop f big bs c1 rest q qs qe with
              | (Ok more, c2) => (Ok (hit ++ more), c2)
              | r => r
              end
          | (Ok (PInner items), c1) =>
              let kids := map snd (filter (fun i => overlaps q qs qe (fst i)) items) in
              c_search_loop f big bs c1 (kids ++ rest) q qs qe
          | (Err e, c1) => (Err e, c1)
          | (Panic, c1) => (Panic, c1)
          | (Fuel, c1) => (Fuel, c1)
          end
      end
  end.

(* search_cir_tree through the cache (io errors of the node reads become BBIReadError::IoError) *)
Definition c_search_blocks (i : info) (bs : list N) (c : cache) (root chrom s e : N) : res (list block) * cache :=
  match c_search_loop (S (length bs)) (h_big (i_hdr i)) bs c [root] chrom s e with
  | (Err _, c1) => (Err R_IO, c1)
  | r => r
  end.

(* the per-block decoding of Model/BBIRead.v block_values, applied to block bytes that came
   through the cache *)
Definition block_values_of (i : info) (d : list N) (chrom s e : N) : res (option (list value)) :=
  let big := h_big (i_hdr i) in
  if (length d <? 24)%nat then Panic else
  let cid := dec big (firstn 4 d) in
  let cstart := dec big (firstn 4 (skipn 4 d)) in
  let step := dec big (firstn 4 (skipn 12 d)) in
  let span := dec big (firstn 4 (skipn 16 d)) in
  let ty := nth 20 d 0 in
  let count := N.to_nat (dec big (firstn 2 (skipn 22 d))) in
  let body := skipn 24 d in
  if negb (cid =? chrom) then Ok None else
  if ty =? 1 then
    if (length body <? count * 12)%nat then Panic else Ok (Some (clip_filter s e (parse_type1 big count body)))
  else if ty =? 2 then
    if (length body <? count * 8)%nat then Panic else Ok (Some (clip_filter s e (parse_type2 big span count body)))
  else if ty =? 3 then
    if (length body <? count * 4)%nat then Panic else Ok (Some (clip_filter s e (parse_type3 big step span cstart count body)))
  else Err R_INVALID.

(* ... and of zoom_block_values *)
Definition zoom_values_of (i : info) (d : list N) (chrom s e : N) : res (option (list zrec)) :=
  if negb (Nat.eqb (length d mod 32) 0) then Panic else
  Ok (Some (filter (fun z => (z_chrom z =? chrom) && (s <=? z_end z) && (z_start z <=? e))
                   (parse_zrecs (h_big (i_hdr i)) (length d / 32) d))).

(* the block-by-block iteration (BigWigIntervalIter / ZoomIntervalIter), fully drained *)
Fixpoint c_collect_with {X} (dec : list N -> res (option (list X))) (i : info) (bs : list N) (c : cache)
         (l : list block) : res (list X) * cache :=
  match l with
  | [] => (Ok [], c)
  | b :: r =>
      match c_block_data i bs c b with
      | (Ok d, c1) =>
          match dec d with
          | Ok a =>
              match c_collect_with dec i bs c1 r with
              | (Ok rest, c2) => (Ok (match a with Some x => x ++ rest | None => rest end), c2)
              | x => x
              end
          | Err e => (Err e, c1) | Panic => (Panic, c1) | Fuel => (Fuel, c1)
          end
      | (Err e, c1) => (Err e, c1) | (Panic, c1) => (Panic, c1) | (Fuel, c1) => (Fuel, c1)
      end
  end.
Definition c_collect (i : info) (bs : list N) (c : cache) (chrom s e : N) (l : list block) : res (list value) * cache :=
  c_collect_with (fun d => block_values_of i d chrom s e) i bs c l.

(* get_interval on a caching reader, fully drained *)
Definition c_bw_interval (bs : list N) (i : info) (c : cache) (cn : name) (s e : N) : res (list value) * cache :=
  match chrom_id i cn with
  | Ok chrom =>
      match cir_tree_root (h_big (i_hdr i)) bs (h_full_index_off (i_hdr i)) with
      | Ok root =>
          match c_search_blocks i bs c root chrom s e with
          | (Ok blocks, c1) => c_collect i bs c1 chrom s e blocks
          | (Err x, c1) => (Err x, c1)
          | (Panic, c1) => (Panic, c1)
          | (Fuel, c1) => (Fuel, c1)
          end
      | Err x => (Err x, c) | Panic => (Panic, c) | Fuel => (Fuel, c)
      end
  | Err x => (Err x, c) | Panic => (Panic, c) | Fuel => (Fuel, c)
  end.

(* values() on a caching reader *)
Definition c_bw_values (bs : list N) (i : info) (c : cache) (cn : name) (s e : N) : res (list (option N)) * cache :=
  if e <? s then (Panic, c) else
  match c_bw_interval bs i c cn s e with
  | (Ok vals, c1) => (Ok (fill_values s e vals), c1)
  | (Err x, c1) => (Err x, c1)
  | (Panic, c1) => (Panic, c1)
  | (Fuel, c1) => (Fuel, c1)
  end.

(* get_zoom_interval on a caching reader, fully drained *)
Definition c_zoom_interval (bs : list N) (i : info) (c : cache) (cn : name) (s e res_level : N) : res (list zrec) * cache :=
  match find (fun z => zh_res z =? res_level) (i_zooms i) with
  | None => (Err R_NOZOOM, c)
  | Some zh =>
      match cir_tree_root (h_big (i_hdr i)) bs (zh_index zh) with
      | Ok root =>
          match chrom_id i cn with
          | Ok chrom =>
              match c_search_blocks i bs c root chrom s e with
              | (Ok blocks, c1) => c_collect_with (fun d => zoom_values_of i d chrom s e) i bs c1 blocks
              | (Err x, c1) => (Err x, c1)
              | (Panic, c1) => (Panic, c1)
              | (Fuel, c1) => (Fuel, c1)
              end
          | Err x => (Err x, c) | Panic => (Panic, c) | Fuel => (Fuel, c)
          end
      | Err x => (Err x, c) | Panic => (Panic, c) | Fuel => (Fuel, c)
      end
  end.

(* a query history of interval queries against one caching reader: the answers in order *)
Fixpoint c_history (bs : list N) (i : info) (c : cache) (qs : list (name * N * N)) : list (res (list value)) :=
  match qs with
  | [] => []
  | (cn, s, e) :: r => let '(a, c1) := c_bw_interval bs i c cn s e in a :: c_history bs i c1 r
  end.

(* ---- the reader as a state machine over all three kinds of range query ---- *)
Inductive query :=
| QInterval (cn : name) (s e : N)
| QValues (cn : name) (s e : N)
| QZoom (cn : name) (s e res_level : N).
Inductive answer :=
| AInterval (r : res (list value))
| AValues (r : res (list (option N)))
| AZoom (r : res (list zrec)).

(* the stateless reader of Model/BBIRead.v *)
Definition fresh_answer (bs : list N) (i : info) (q : query) : answer :=
  match q with
  | QInterval cn s e => AInterval (bw_interval infl bs i cn s e)
  | QValues cn s e => AValues (bw_values infl bs i cn s e)
  | QZoom cn s e lvl => AZoom (zoom_interval infl bs i cn s e lvl)
  end.

Definition qstep (bs : list N) (i : info) (c : cache) (q : query) : answer * cache :=
  match q with
  | QInterval cn s e => let '(a, c1) := c_bw_interval bs i c cn s e in (AInterval a, c1)
  | QValues cn s e => let '(a, c1) := c_bw_values bs i c cn s e in (AValues a, c1)
  | QZoom cn s e lvl => let '(a, c1) := c_zoom_interval bs i c cn s e lvl in (AZoom a, c1)
  end.

Fixpoint qrun (bs : list N) (i : info) (c : cache) (qs : list query) : list answer * cache :=
  match qs with
  | [] => ([], c)
  | q :: r => let '(a, c1) := qstep bs i c q in let '(rest, c2) := qrun bs i c1 r in (a :: rest, c2)
  end.
End Inflate.

(* Reopen for CachedBBIFileRead: a new handle on the same file, both maps cloned *)
Definition c_reopen (c : cache) : cache := {| c_nodes := c_nodes c; c_blocks := c_blocks c |}.
