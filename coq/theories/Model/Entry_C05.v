(* Case decoding and result encoding for C05 (glue; the modelled code is in Model/RTree.v). *)
From BT Require Import Base.Util Base.Sexp Base.LE Model.RTree.
Local Open Scope N_scope.

Definition get_sect (s : sexp) : sect :=
  {| s_chrom := getN (nthS 0 s); s_start := getN (nthS 1 s); s_end := getN (nthS 2 s);
     s_off := getN (nthS 3 s); s_size := getN (nthS 4 s) |}.
Definition get_query (s : sexp) : N * N * N := (getN (nthS 0 s), getN (nthS 1 s), getN (nthS 2 s)).

Definition sRes {X} (f : X -> sexp) (r : res X) : sexp :=
  match r with
  | Ok x => L [A 0%Z; f x]
  | Err c => L [A 1%Z; sN c]
  | Panic => L [A 2%Z]
  | Fuel => L [A 3%Z]
  end.
Definition sBlocks (l : list block) : sexp := sList (fun b => L [sN (fst b); sN (snd b)]) l.

(* case = (b ips pos (sections) (queries)); output = (status levels bytes answers) *)
Definition c05_model (c : sexp) : sexp :=
  let b := getN (nthS 0 c) in
  let ips := getN (nthS 1 c) in
  let pos := getN (nthS 2 c) in
  let secs := getList get_sect (nthS 3 c) in
  let qs := getList get_query (nthS 4 c) in
  match write_index b ips pos secs with
  | Ok (bs, levels) =>
      let img := repeatN 0 (N.to_nat pos) ++ bs in
      let fuel := S (length bs) in
      L [A 0%Z; sNat levels; sBytes bs;
         sList (fun q => let '(c, s, e) := q in sRes sBlocks (search_bytes fuel false img (pos + 48) c s e)) qs]
  | Err c => L [A 1%Z; sN c]
  | Panic => L [A 2%Z]
  | Fuel => L [A 3%Z]
  end.

(* oracle on the implementation's answers: each equals the linear scan *)
Definition c05_oracle (c out : sexp) : sexp :=
  let secs := getList get_sect (nthS 3 c) in
  let qs := getList get_query (nthS 4 c) in
  let answers := getL (nthS 3 out) in
  sB (Z.eqb (getZ (nthS 0 out)) 0 &&
      Nat.eqb (length qs) (length answers) &&
      forallb (fun qa => let '(c, s, e) := fst qa in
                         sexp_eqb (snd qa) (sRes sBlocks (Ok (scan secs c s e))))
              (combine qs answers)).

(* Public-API stage: case = (9 b ((chrom start end) ...) ((chrom s e) ...) zoom): one value per block written by the
   real writer, read by the real reader (short reads; a zoom query before every interval query on the same reader).
   Expected answer of an interval query: the values that overlap the range, clipped, in order (a linear scan). *)
Definition api_scan (secs : list (N * N * N)) (q : N * N * N) : sexp :=
  let '(c, s, e) := q in
  L [A 0%Z; sList (fun v => let '(_, st, en) := v in L [sN (N.max st s); sN (N.min en e)])
                  (filter (fun v => let '(ch, st, en) := v in (ch =? c) && (s <? en) && (st <? e)) secs)].
Definition c05_api_model (c : sexp) : sexp :=
  let secs := getList get_query (nthS 2 c) in
  let unknown := fun q : N * N * N => let '(ch, _, _) := q in negb (existsb (fun v => let '(c', _, _) := v in c' =? ch) secs) in
  L [A 0%Z; A 0%Z; L []; sList (fun q => if unknown q then L [A 1%Z; A 1%Z] else api_scan secs q) (getList get_query (nthS 3 c))].
Definition c05_api_oracle (c out : sexp) : sexp := sB (sexp_eqb out (c05_api_model c)).

(* entry 0: model output; entry 1: oracle on (case, implementation output) *)
(* an API-stage case is (9 b SECS ...) with a LIST in third position; a hook-stage case (b ips pos ...) has a number
   there, so a hook-stage case with fan-out 9 is not mistaken for an API-stage one *)
Definition is_api (c : sexp) : bool :=
  Z.eqb (getZ (nthS 0 c)) 9 && match nthS 2 c with L _ => true | _ => false end.
Definition dispatch (k : Z) (arg : sexp) : sexp :=
  match k with
  | 0 => if is_api arg then c05_api_model arg else c05_model arg
  | 1 => if is_api (nthS 0 arg) then c05_api_oracle (nthS 0 arg) (nthS 1 arg) else c05_oracle (nthS 0 arg) (nthS 1 arg)
  | _ => L [A (-1)%Z]
  end%Z.
