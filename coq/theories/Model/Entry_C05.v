(* Case decoding and result encoding for C05 (glue; the modelled code is in Model/RTree.v). *)
From BT Require Import Base.Util Base.Sexp Base.LE Model.RTree.
Local Open Scope N_scope.

Definition get_sect (s : sexp) : sect :=
  {| s_chrom := getN (nthS 0 s); s_start := getN (nthS 1 s); s_end := getN (nthS 2 s);
     s_off := getN (nthS 3 s); s_size := getN (nthS 4 s) |}.
Definition get_query (s : sexp) : N * N * N := (getN (nthS 0 s), getN (nthS 1 s), getN (nthS 2 s)).

Definition sRes {X} (f : X -> sexp) (r : res X) : sexp :=
  match r with
  | Ok x => L [A 0%Z; f x]
  | Err c => L [A 1%Z; sN c]
  | Panic => L [A 2%Z]
  | Fuel => L [A 3%Z]
  end.
Definition sBlocks (l : list block) : sexp := sList (fun b => L [sN (fst b); sN (snd b)]) l.

(* case = (b ips pos (sections) (queries)); output = (status levels bytes answers) *)
Definition c05_model (c : sexp) : sexp :=
  let b := getN (nthS 0 c) in
  let ips := getN (nthS 1 c) in
  let pos := getN (nthS 2 c) in
  let secs := getList get_sect (nthS 3 c) in
  let qs := getList get_query (nthS 4 c) in
  match write_index b ips pos secs with
  | Ok (bs, levels) =>
      let img := repeatN 0 (N.to_nat pos) ++ bs in
      let fuel := S (length bs) in
      L [A 0%Z; sNat levels; sBytes bs;
         sList (fun q => let '(c, s, e) := q in sRes sBlocks (search_bytes fuel false img (pos + 48) c s e)) qs]
  | Err c => L [A 1%Z; sN c]
  | Panic => L [A 2%Z]
  | Fuel => L [A 3%Z]
  end.

(* oracle on the implementation's answers: each equals the linear scan *)
Definition c05_oracle (c out : sexp) : sexp :=
  let secs := getList get_sect (nthS 3 c) in
  let qs := getList get_query (nthS 4 c) in
  let answers := getL (nthS 3 out) in
  sB (Z.eqb (getZ (nthS 0 out)) 0 &&
      Nat.eqb (length qs) (length answers) &&
      forallb (fun qa => let '(c, s, e) := fst qa in
                         sexp_eqb (snd qa) (sRes sBlocks (Ok (scan secs c s e))))
              (combine qs answers)).

(* entry 0: model output; entry 1: oracle on (case, implementation output) *)
Definition dispatch (k : Z) (arg : sexp) : sexp :=
  match k with
  | 0 => c05_model arg
  | 1 => c05_oracle (nthS 0 arg) (nthS 1 arg)
  | _ => L [A (-1)%Z]
  end%Z.
