(* Case decoding, result encoding and the property oracle for C16 (glue; the modelled code is in Model/CliText.v).
   cases (harness/src/bin/c16.rs for kinds 0,1,2,5,6; tools/vlib/props/C16.py runs the built binaries for kinds 3,4)
     (0 argv)                                  -> (0 argv') | (2)                     compat_args
     (1 0 line () expect)                      -> (0 chrom start end rest) | (1 code)  parse_bed
     (1 1 line table expect)                   -> (0 chrom start end bits) | (1 code)  parse_bedgraph; table = ((text bits) ...)
     (2 text)                                  -> ((line) ...)                         read_line + trim_end
     (5 n) -> (digits)        (6 text) -> (0 n) | (1)
     (3 sizes_text input_text table wopts ropts)   bedGraph -> bigWig -> bedGraph
         -> (w) for writer exit class w <> 0 | (0 chroms compressed r records)   records = ((chrom start end bits) ...)
     (4 sizes_text input_text wopts ropts)         BED -> bigBed -> BED
         -> (w) | (0 chroms compressed r output_bytes)
       wopts = (t parallel single_pass inmemory uncompressed block_size items_per_slot zooms nzooms style via as_mode stdin)
               (from stdin the schema is not generated from the first line: no unwrap there)
       ropts = (t inmemory chrom start end style via)        optional values are () or (x)
       exit classes: 0 ok, 1 error exit, 2 panic, 3 timeout
   expect (kind 1) = () | ((chrom start end rest-or-bits)): the record the generator formatted, for the oracle. *)
From BT Require Import Base.Util Base.Sexp Generated.Consts Model.BBIFile Model.BigWigWrite Model.BBIRead Model.CliText.
Local Open Scope N_scope.

Definition sRes {X} (f : X -> list sexp) (r : res X) : sexp :=
  match r with
  | Ok x => L (A 0%Z :: f x)
  | Err c => L [A 1%Z; sN c]
  | Panic => L [A 2%Z]
  | Fuel => L [A 3%Z]
  end.

Definition table_of (s : sexp) : list (list N * N) := getList (fun p => (getBytes (nthS 0 p), getN (nthS 1 p))) s.
Definition fparse_of (t : list (list N * N)) (text : list N) : option N := lookup text t.

Definition getOptN (s : sexp) : option N := getOpt getN s.
Definition getOptBytes (s : sexp) : option (list N) := getOpt getBytes s.

Fixpoint index_from {X} (i : N) (l : list X) : list (N * X) :=
  match l with [] => [] | x :: r => (i, x) :: index_from (i + 1) r end.

(* chromosome table as the info tools print it: name order, ids in order of appearance in the input *)
Definition s_chroms {X} (file : list (wchrom X)) : sexp :=
  let with_ids := index_from 0 file in
  sList (fun w => L [sBytes (wc_name w);
                     sN (match find (fun iw => name_eqb (wc_name (snd iw)) (wc_name w)) with_ids with
                         | Some iw => fst iw | None => 0 end);
                     sN (wc_len w)])
        (sort_by_name file).

Definition ips_of (plumbed : bool) (o : option N) : nat :=
  N.to_nat (if plumbed then match o with Some x => x | None => DEFAULT_ITEMS_PER_SLOT end else DEFAULT_ITEMS_PER_SLOT).

Definition s_value_rec (cv : name * value) : sexp :=
  L [sBytes (fst cv); sN (v_start (snd cv)); sN (v_end (snd cv)); sN (v_bits (snd cv))].

Definition exit_class {X} (r : res X) : sexp :=
  match r with Ok _ => L [A 0%Z] | Err _ => L [A 1%Z] | Panic => L [A 2%Z] | Fuel => L [A 3%Z] end.

Definition c16_model (c : sexp) : sexp :=
  let k := getN (nthS 0 c) in
  if k =? 0 then
    sRes (fun l => [sList sBytes l]) (compat_args (getList getBytes (nthS 1 c)))
  else if k =? 1 then
    if getN (nthS 1 c) =? 0 then
      sRes (fun ce => [sBytes (fst ce); sN (be_start (snd ce)); sN (be_end (snd ce)); sBytes (be_rest (snd ce))])
           (parse_bed (getBytes (nthS 2 c)))
    else
      sRes (fun cv => [sBytes (fst cv); sN (v_start (snd cv)); sN (v_end (snd cv)); sN (v_bits (snd cv))])
           (parse_bedgraph (fparse_of (table_of (nthS 3 c))) (getBytes (nthS 2 c)))
  else if k =? 2 then sList sBytes (map trim_end (lines (getBytes (nthS 1 c))))
  else if k =? 5 then sBytes (print_dec (getN (nthS 1 c)))
  else if k =? 6 then match parse_u32 (getBytes (nthS 1 c)) with Some n => L [A 0%Z; sN n] | None => L [A 1%Z] end
  else if k =? 3 then
    let w := nthS 4 c in let r := nthS 5 c in
    match bedgraph_to_bigwig (fparse_of (table_of (nthS 3 c))) (getBytes (nthS 1 c)) (getBytes (nthS 2 c)) with
    | Ok file =>
        let ips := ips_of BEDGRAPHTOBIGWIG_PLUMBS_ITEMS_PER_SLOT (getOptN (nthS 6 w)) in
        L [A 0%Z; s_chroms file; sB (negb (getB (nthS 4 w))); A 0%Z;
           sList s_value_rec (bigwig_to_bedgraph ips file (getOptBytes (nthS 2 r)) (getOptN (nthS 3 r)) (getOptN (nthS 4 r)))]
    | x => exit_class x
    end
  else if k =? 4 then
    let w := nthS 3 c in let r := nthS 4 c in
    match bed_to_bigbed (negb (getN (nthS 11 (nthS 3 c)) =? 0) || negb (getN (nthS 12 (nthS 3 c)) =? 0)) (getBytes (nthS 1 c)) (getBytes (nthS 2 c)) with
    | Ok file =>
        let ips := ips_of BEDTOBIGBED_PLUMBS_ITEMS_PER_SLOT (getOptN (nthS 6 w)) in
        L [A 0%Z; s_chroms file; sB (negb (getB (nthS 4 w))); A 0%Z;
           sBytes (format_bed_text (bigbed_to_bed ips file (getOptBytes (nthS 2 r)) (getOptN (nthS 3 r)) (getOptN (nthS 4 r))))]
    | x => exit_class x
    end
  else L [A (-1)%Z].

(* ------------------------------------------------------------------ the property as a decidable predicate *)
(* The spellings the property names, written out by hand (NOT taken from the generated table): what each must become. *)
Definition str (s : list N) := s.
Definition ucsc_valued : list (list N * list N) :=
  [ ([45;98;108;111;99;107;83;105;122;101;61], [45;45;98;108;111;99;107;45;115;105;122;101;61]);                 (* -blockSize=  --block-size= *)
    ([45;105;116;101;109;115;80;101;114;83;108;111;116;61], [45;45;105;116;101;109;115;45;112;101;114;45;115;108;111;116;61]); (* -itemsPerSlot= --items-per-slot= *)
    ([45;99;104;114;111;109;61], [45;45;99;104;114;111;109;61]);                                                   (* -chrom= --chrom= *)
    ([45;115;116;97;114;116;61], [45;45;115;116;97;114;116;61]);                                                   (* -start= --start= *)
    ([45;101;110;100;61], [45;45;101;110;100;61]);                                                                 (* -end= --end= *)
    ([45;97;115;61], [45;45;97;117;116;111;115;113;108;61]);                                                       (* -as= --autosql= *)
    ([45;122;111;111;109;115;61], [45;45;122;111;111;109;115;61]) ].                                               (* -zooms= --zooms= *)
Definition ucsc_unc : list N := [45;117;110;99].
Definition native_unc : list N := [45;45;117;110;99;111;109;112;114;101;115;115;101;100].
(* native short flags of the four converters (as their own argument) *)
Definition native_shorts : list (list N) := [[45;116]; [45;122]; [45;117]; [45;115]; [45;112]; [45;97]; [45;104]; [45;86]].
Definition c16_tools : list (list N) :=
  [ [98;101;100;103;114;97;112;104;116;111;98;105;103;119;105;103]; [98;101;100;116;111;98;105;103;98;101;100];
    [98;105;103;119;105;103;116;111;98;101;100;103;114;97;112;104]; [98;105;103;98;101;100;116;111;98;101;100] ].

(* what the property says an argument must be after rewriting; None: the property does not speak about it *)
Definition expect_arg (a : list N) : option (list N) :=
  match a with
  | 45 :: 45 :: _ => Some a
  | [45] => Some a
  | 45 :: _ =>
      if bytes_eqb a ucsc_unc then Some native_unc
      else if existsb (bytes_eqb a) native_shorts then Some a
      else match find (fun kv => is_prefix (fst kv) a) ucsc_valued with
           | Some (k, n) => Some (n ++ skipn (length k) a)
           | None => None
           end
  | _ => Some a
  end.

Definition argv_command (argv : list (list N)) : option (list N * list (list N)) :=   (* command, arguments after it *)
  match argv with
  | [] => None
  | first :: rest =>
      if ends_with (lower first) COMPAT_MULTICALL then
        match rest with
        | [] => None
        | second :: args => match file_name (lower second) with Some c => Some (lower c, args) | None => None end
        end
      else match file_name first with Some c => Some (lower c, rest) | None => None end
  end.

Fixpoint list_eqb {X} (eqb : X -> X -> bool) (a b : list X) : bool :=
  match a, b with
  | [], [] => true
  | x :: a', y :: b' => eqb x y && list_eqb eqb a' b'
  | _, _ => false
  end.

(* the property speaks only when it has an expectation for every argument (an argument it does not name
   may be dropped or refused by the rewriting, which shifts positions) *)
Fixpoint expect_all (ins : list (list N)) : option (list (list N)) :=
  match ins with
  | [] => Some []
  | a :: r => match expect_arg a, expect_all r with
              | Some x, Some xs => Some (x :: xs)
              | _, _ => None
              end
  end.

Definition oracle_compat (c out : sexp) : bool :=
  let argv := getList getBytes (nthS 1 c) in
  match argv_command argv with
  | None => true
  | Some (cmd, args) =>
      if negb (existsb (bytes_eqb cmd) c16_tools) then true else
      match expect_all args with
      | None => true
      | Some exp =>
          Z.eqb (getZ (nthS 0 out)) 0 &&
          let outs := getList getBytes (nthS 1 out) in
          list_eqb bytes_eqb exp (skipn (length argv - length args) outs)
      end
  end.

Definition values_of (items : list (name * value)) (c : name) : list value :=
  map snd (filter (fun it => name_eqb (fst it) c) items).
Definition entries_of (items : list (name * bed_entry)) (c : name) : list bed_entry :=
  map snd (filter (fun it => name_eqb (fst it) c) items).

Definition value_rec_eqb (a b : name * value) : bool :=
  name_eqb (fst a) (fst b) && (v_start (snd a) =? v_start (snd b)) && (v_end (snd a) =? v_end (snd b))
  && (v_bits (snd a) =? v_bits (snd b)).
Definition bed_rec_eqb (a b : name * bed_entry) : bool :=
  name_eqb (fst a) (fst b) && (be_start (snd a) =? be_start (snd b)) && (be_end (snd a) =? be_end (snd b))
  && bytes_eqb (be_rest (snd a)) (be_rest (snd b)).
(* what the property promises for an accepted canonical input: None = the property does not speak about this request *)
Definition expected_records {X} (items : list (name * X)) (of_chrom : name -> list X) (q : N -> N -> list X -> list X)
           (len_of : name -> option N) (chrom : option name) (start fin : option N) : option (list (name * X)) :=
  match chrom with
  | None => match start, fin with None, None => Some items | _, _ => None end
  | Some c =>
      match len_of c with
      | None => None
      | Some len =>
          let s := match start with Some s => s | None => 0 end in
          let e := match fin with Some e => e | None => len end in
          Some (map (fun v => (c, v)) (q s e (of_chrom c)))
      end
  end.

Definition oracle_bedgraph (c out : sexp) : bool :=
  let r := nthS 5 c in
  match bedgraph_to_bigwig (fparse_of (table_of (nthS 3 c))) (getBytes (nthS 1 c)) (getBytes (nthS 2 c)) with
  | Ok file =>
      let items := flat_map (fun w => map (fun v => (wc_name w, v)) (wc_items w)) file in
      if negb (forallb (fun it => v_start (snd it) <? v_end (snd it)) items) then true   (* empty values: C01's known class *)
      else
        let len_of n := match find (fun w => name_eqb (wc_name w) n) file with Some w => Some (wc_len w) | None => None end in
        match expected_records items (values_of items) clip_filter len_of
                (getOptBytes (nthS 2 r)) (getOptN (nthS 3 r)) (getOptN (nthS 4 r)) with
        | None => true
        | Some exp =>
            Z.eqb (getZ (nthS 0 out)) 0 && Z.eqb (getZ (nthS 3 out)) 0 &&
            list_eqb value_rec_eqb exp
              (getList (fun x => (getBytes (nthS 0 x), {| v_start := getN (nthS 1 x); v_end := getN (nthS 2 x); v_bits := getN (nthS 3 x) |}))
                       (nthS 4 out)) &&
            Nat.eqb (length exp) (length (getL (nthS 4 out)))
        end
  | _ => true      (* refused input: C13 decides refusals *)
  end.

Definition oracle_bed (c out : sexp) : bool :=
  let r := nthS 4 c in
  match bed_to_bigbed (negb (getN (nthS 11 (nthS 3 c)) =? 0) || negb (getN (nthS 12 (nthS 3 c)) =? 0)) (getBytes (nthS 1 c)) (getBytes (nthS 2 c)) with
  | Ok file =>
      let items := flat_map (fun w => map (fun v => (wc_name w, v)) (wc_items w)) file in
      if existsb (fun it => (be_start (snd it) =? 0) && (be_end (snd it) =? 0)) items then true   (* [0,0): C02's known class *)
      else
        let len_of n := match find (fun w => name_eqb (wc_name w) n) file with Some w => Some (wc_len w) | None => None end in
        match expected_records items (entries_of items) (fun s e l => filter (bb_keep s e) l) len_of
                (getOptBytes (nthS 2 r)) (getOptN (nthS 3 r)) (getOptN (nthS 4 r)) with
        | None => true
        | Some exp =>
            Z.eqb (getZ (nthS 0 out)) 0 && Z.eqb (getZ (nthS 3 out)) 0 &&
            match mapM parse_bed (lines (getBytes (nthS 4 out))) with
            | Ok recs => list_eqb bed_rec_eqb exp recs
            | _ => false
            end
        end
  | _ => true
  end.

Definition c16_oracle (c out : sexp) : sexp :=
  let k := getN (nthS 0 c) in
  sB (if k =? 0 then oracle_compat c out
      else if k =? 1 then
        match getL (nthS 4 c) with
        | [] => true
        | e :: _ => sexp_eqb out (L (A 0%Z :: getL e))
        end
      else if k =? 5 then
        match parse_u32 (getBytes out) with Some n => n =? getN (nthS 1 c) | None => false end
      else if k =? 3 then oracle_bedgraph c out
      else if k =? 4 then oracle_bed c out
      else true).

Definition dispatch (k : Z) (arg : sexp) : sexp :=
  match k with
  | 0 => c16_model arg
  | 1 => c16_oracle (nthS 0 arg) (nthS 1 arg)
  | _ => L [A (-1)%Z]
  end%Z.
