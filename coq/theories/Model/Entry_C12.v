(* Case decoding and result encoding for C12 (glue; the modelled code is in Model/TempBuf.v).

   case   = (mode dest0 ops prog sched)
            mode  : 0 = in-memory staging, 1 = temporary-file staging, 2 = temporary-file staging
                    with a real file as destination, 3 / 4 = in-memory / temporary-file staging with a
                    destination that accepts only 2 / 5 bytes per write() call.  The model is the same machine for all of
                    them (header of Model/TempBuf.v): [mode] is read by the harness only.
            dest0 : bytes already in the destination
            ops   : the producer's calls; a list (b1 b2 ...) is write(&[b1, b2, ...]), an atom is flush()
            prog  : the consumer's calls; 0 switch, 1 is_real_file_ready, 2 len, 3 await_real_file,
                    4 expect_closed_write
            sched : thread ids, 0 = producer, 1 = consumer; after the list the producer and then
                    the consumer run to the end (Model.TempBuf.finish)
   output = (0 (obs ...) (dest?))   obs = (0 b) for is_real_file_ready, (1 n) for len;
                                    dest? = ((bytes)) once delivered, () if the program hands nothing over
            (2) panic   (3) hang: a thread cannot finish *)
From BT Require Import Base.Util Base.Sexp Model.TempBuf.

Definition get_op (s : sexp) : pop := match s with L l => PWrite (map getN l) | A _ => PFlush end.
Definition get_cop (s : sexp) : cop :=
  match getZ s with
  | 0 => CSwitch | 1 => CReady | 2 => CLen | 3 => CAwait | _ => CExpect
  end%Z.
Definition get_tid (s : sexp) : tid := if Z.eqb (getZ s) 0 then TP else TC.

Definition sObs (o : obs) : sexp :=
  match o with OReady b => L [A 0%Z; sB b] | OLen n => L [A 1%Z; sN n] end.

Definition c12_model (c : sexp) : sexp :=
  let d0 := getBytes (nthS 1 c) in
  let ops := getList get_op (nthS 2 c) in
  let prog := getList get_cop (nthS 3 c) in
  let sched := getList get_tid (nthS 4 c) in
  match outcome d0 ops prog sched with
  | Ok (ob, de) => L [A 0%Z; sList sObs ob; sOpt sBytes de]
  | Err c => L [A 1%Z; sN c]
  | Panic => L [A 2%Z]
  | Fuel => L [A 3%Z]
  end.

(* The property, evaluated on what the implementation returned for a legal program: it finished
   (no panic, no hang, every call of the program answered), the destination is dest0 followed by
   every written byte, and every len() is the number of bytes written.  The answers of
   is_real_file_ready are not constrained by the property (they are compared with the model). *)
Definition polls (p : list cop) : nat :=
  length (filter (fun o => match o with CReady | CLen => true | _ => false end) p).
Definition obs_len_ok (total : N) (o : sexp) : bool :=
  if Z.eqb (getZ (nthS 0 o)) 1 then N.eqb (getN (nthS 1 o)) total else true.

Definition c12_oracle (c out : sexp) : sexp :=
  let d0 := getBytes (nthS 1 c) in
  let ops := getList get_op (nthS 2 c) in
  let prog := getList get_cop (nthS 3 c) in
  if negb (legal false prog) then sB true else
  let want := d0 ++ written ops in
  let obs := getL (nthS 1 out) in
  sB (Z.eqb (getZ (nthS 0 out)) 0 &&
      Nat.eqb (length obs) (polls prog) &&
      forallb (obs_len_ok (Nlen (written ops))) obs &&
      sexp_eqb (nthS 2 out) (sOpt sBytes (if consumes prog then Some want else None))).

(* entry 0: model output; entry 1: oracle on (case, implementation output) *)
Definition dispatch (k : Z) (arg : sexp) : sexp :=
  match k with
  | 0 => c12_model arg
  | 1 => c12_oracle (nthS 0 arg) (nthS 1 arg)
  | _ => L [A (-1)%Z]
  end%Z.
