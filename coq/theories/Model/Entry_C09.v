(* C09 entry points.
   case = (ftype inner nice corrupt)
     ftype   0 bigWig: inner = the EntryBBI case (kind opts sizes input queries)
             1 bigBed: inner = the EntryBed case (kind opts sizes input queries autosql flags)
     nice    1 when the values are small dyadics for which every intermediate of the statistics is
             exact: then the total summary and the zoom records are compared with a naive recomputation
     corrupt () | ((kind which delta)): tools corrupt one field of the real file; the oracle is not applied
   implementation line (assembled by tools/vlib/props/C09.py from the harness' file bytes, pass A,
   Python zlib, pass B) and model line:
     (1 code) | (2) | (3)                      the writer refused / panicked / hung
     (0 file zok decoded lenient)              file = bytes of the file, () when compressed
                                               zok = 1: every block is one complete standard zlib stream
                                               decoded = (0 content) | (1)  result of Spec/FormatDecode.decode
                                               lenient = () when decoded, else (v): v = 1 when the decoder that
                                               tolerates unsorted chromosome keys succeeds and its content passes
                                               the oracle (the file's only defect is the key order), else 0
   entries: 0 model line, 1 oracle on (case, implementation line), 2 pass A on (bytes),
            3 pass B on (bytes ((off size (bytes)) ...)), 4 the same with the lenient decoder,
            7 pass Z on (bytes cap extra lenient): ranges + every block inflated by Spec/Inflate.zlib_decode + decode,
            8 zlib_decode_res on (bytes), 9 zlib_store on (bytes). *)
From BT Require Import Base.Util Base.Sexp Base.LE Base.Float Generated.Consts Model.RTree Model.BBIFile Model.BigWigWrite
  Model.BigWigWriteZ Model.EntryBBI Model.BigBedWrite Model.EntryBed Spec.FormatDecode Spec.Inflate.
Local Open Scope N_scope.

(* ---------- content <-> sexp ---------- *)
Definition sChrom (c : fchrom) : sexp := L [sBytes (fc_name c); sN (fc_id c); sN (fc_size c)].
Definition sRec (r : frec) : sexp := L [sN (fr_chrom r); sN (fr_start r); sN (fr_end r); sBytes (fr_rest r)].
Definition sZr (z : fzrec) : sexp :=
  L [sN (zr_chrom z); sN (zr_start z); sN (zr_end z); sN (zr_valid z); sN (zr_min z); sN (zr_max z); sN (zr_sum z); sN (zr_sumsq z)].
Definition sSum (s : fsummary) : sexp := L [sN (fs_bases s); sN (fs_min s); sN (fs_max s); sN (fs_sum s); sN (fs_sumsq s)].
Definition sContent (c : content) : sexp :=
  L [sB (c_bigwig c); sB (c_bigendian c); sN (c_field_count c); sN (c_defined_fc c); sBytes (c_autosql c);
     sN (c_ubuf c); sN (c_block_size c); sN (c_ips c); sList sChrom (c_chroms c); sList sRec (c_records c);
     sList sN (c_blocks c); sN (c_data_count c); sSum (c_summary c);
     sList (fun z => L [sN (fst z); sList sZr (snd z)]) (c_zooms c)].
Definition sDecoded (o : option content) : sexp :=
  match o with Some c => L [A 0%Z; sContent c] | None => L [A 1%Z] end.

(* ---------- pass A / pass B ---------- *)
Definition pass_a (arg : sexp) : sexp :=
  match block_ranges (getBytes (nthS 0 arg)) with
  | Some (ubuf, rs) => L [A 0%Z; sN ubuf; sList (fun r => L [sN (fst r); sN (snd r)]) rs]
  | None => L [A 1%Z]
  end.
Definition table_inflate (t : list (N * N * list N)) (off size : N) : option (list N) :=
  match filter (fun e => (fst (fst e) =? off) && (snd (fst e) =? size)) t with
  | e :: _ => Some (snd e)
  | [] => None
  end.
Definition get_table (s : sexp) : list (N * N * list N) :=
  getList (fun e => (getN (nthS 0 e), getN (nthS 1 e), getBytes (nthS 2 e))) s.
Definition pass_b (arg : sexp) : sexp :=
  sDecoded (decode (getBytes (nthS 0 arg)) (table_inflate (get_table (nthS 1 arg)))).
Definition pass_b_lenient (arg : sexp) : sexp :=
  sDecoded (decode_lenient (getBytes (nthS 0 arg)) (table_inflate (get_table (nthS 1 arg)))).


(* ---------- pass Z: the blocks are inflated by the Coq decoder of Spec/Inflate.v, nothing outside ----------
   arg = (bytes cap extra lenient)
     cap      0: inflate every block; c > 0: blocks of more than c compressed bytes are left to [extra]
     extra    ((off size (bytes)) ...) inflated bytes supplied from outside for blocks over the cap
     lenient  1: when the strict decoder refuses the file, also run the one tolerating unsorted chromosome keys
   answer = (1) when the indices cannot be read, else
     (0 ubuf ((off size 0 (bytes)) | (off size 1 class) | (off size 2) ...) decoded lenient)
        per block range, in index order: inflated by zlib_decode / refused by it with its error class / over the cap;
        decoded = Spec/FormatDecode.decode with exactly these blocks as the inflate oracle; lenient = () or (decoded') *)
Definition zres_at (img : list N) (off size : N) : res (list N) :=
  match slice img off (N.to_nat size) with
  | Some blk => zlib_decode_res blk
  | None => Err E_TRUNC
  end.
Definition pass_z (arg : sexp) : sexp :=
  let img := getBytes (nthS 0 arg) in
  let cap := getN (nthS 1 arg) in
  let extra := get_table (nthS 2 arg) in
  let len := getB (nthS 3 arg) in
  match block_ranges img with
  | None => L [A 1%Z]
  | Some (ubuf, rs) =>
      let blocks :=
        if ubuf =? 0 then []
        else map (fun r => (r, if (cap =? 0) || (snd r <=? cap) then Some (zres_at img (fst r) (snd r)) else None)) rs in
      let table :=
        flat_map (fun b => match snd b with Some (Ok d) => [(fst b, d)] | _ => [] end) blocks ++ extra in
      let inf := table_inflate table in
      let d := decode img inf in
      L [A 0%Z; sN ubuf;
         sList (fun b => match snd b with
                         | Some (Ok d) => L [sN (fst (fst b)); sN (snd (fst b)); A 0%Z; sBytes d]
                         | Some (Err e) => L [sN (fst (fst b)); sN (snd (fst b)); A 1%Z; sN e]
                         | Some _ => L [sN (fst (fst b)); sN (snd (fst b)); A 3%Z]
                         | None => L [sN (fst (fst b)); sN (snd (fst b)); A 2%Z]
                         end) blocks;
         sDecoded d;
         match d with
         | Some _ => L []
         | None => if len then L [sDecoded (decode_lenient img inf)] else L []
         end]
  end.
Definition zlib_vector (arg : sexp) : sexp :=
  match zlib_decode_res (getBytes arg) with
  | Ok d => L [A 0%Z; sBytes d]
  | Err e => L [A 1%Z; sN e]
  | Panic => L [A 2%Z]
  | Fuel => L [A 3%Z]
  end.

(* ---------- diagnosis: which stage of the decoder rejects a file (debugging aid for replays) ---------- *)
Definition sSome {X} (o : option X) : sexp := match o with Some _ => A 1%Z | None => A 0%Z end.
Definition diagnose (arg : sexp) : sexp :=
  let img := getBytes (nthS 0 arg) in
  let inf := table_inflate (get_table (nthS 1 arg)) in
  let n := Nlen img in
  match sniff img with
  | None => L [A 0%Z]
  | Some (big, bw) =>
      match parse_header img n big with
      | None => L [A 1%Z; A 0%Z]
      | Some h =>
          let ct := parse_chrom_tree img n big false (fh_ctoff h) in
          let ix := parse_index img n big (fh_ixoff h) (fh_dataoff h + 8) (fh_ixoff h) in
          let sk := parse_skeleton img n big false bw in
          L [A 1%Z; A 1%Z; sSome (parse_zoomhdrs img n big (fh_nzoom h));
             sSome (read_autosql img n (fh_asql h) (fh_sumoff h)); sSome (parse_summary img n big (fh_sumoff h));
             sSome (parse_chrom_tree img n big true (fh_ctoff h)); sSome ct; sSome ix; sSome sk;
             match sk with
             | None => L []
             | Some sk =>
                 let ubuf := fh_ubuf (sk_hdr sk) in
                 let ips := ih_ips (sk_index sk) in
                 let blocks := map (data_block img n big inf bw (sk_chroms sk) ubuf ips) (sk_leaves sk) in
                 L [sList sSome blocks;
                    sList (fun z => L [sSome (parse_index img n big (fz_index z) (fz_data z) (fz_index z));
                                       sSome (zoom_level img n big inf bw (sk_chroms sk) ubuf z)]) (sk_zhdrs sk);
                    sSome (decode_with img n big inf sk)]
             end]
      end
  end.

(* ---------- the oracle: what the decoded content must be, recomputed naively from the case ---------- *)
Fixpoint first_names (seen : list name) (l : list name) : list name :=
  match l with
  | [] => rev seen
  | c :: r => if existsb (name_eqb c) seen then first_names seen r else first_names (c :: seen) r
  end.
Fixpoint index_of (c : name) (l : list name) (i : N) : N :=
  match l with [] => i | x :: r => if name_eqb c x then i else index_of c r (i + 1) end.

(* expected chromosome table, as a set: every used chromosome with its first-appearance id and size *)
Definition chroms_ok (sizes : list (name * N)) (names : list name) (got : sexp) : bool :=
  let exp := first_names [] names in
  let gl := getL got in
  Nat.eqb (length gl) (length exp)
  && forallb (fun nm => existsb (fun g => sexp_eqb g (L [sBytes nm; sN (index_of nm exp 0);
                                                         sN (match lookup nm sizes with Some l => l | None => 0 end)])) gl) exp.

(* exact statistics.  Sums are accumulated without rounding ([exact]) and rounded once when the
   bit pattern is taken; on the generator's "nice" values the implementation's f64 arithmetic is
   exact too, so the patterns must be equal. *)
Record nstat := { ns_valid : N; ns_min : fl; ns_max : fl; ns_sum : fl; ns_sumsq : fl; ns_any : bool }.
Definition nstat0 : nstat := {| ns_valid := 0; ns_min := fzero; ns_max := fzero; ns_sum := fzero; ns_sumsq := fzero; ns_any := false |}.
Definition nstat_add (s : nstat) (len : N) (v : fl) : nstat :=
  let l := f_of_N len in
  {| ns_valid := ns_valid s + len;
     ns_min := if ns_any s then fmin (ns_min s) v else v;
     ns_max := if ns_any s then fmax (ns_max s) v else v;
     ns_sum := fadd64 exact (ns_sum s) (fmul64 exact l v);
     ns_sumsq := fadd64 exact (ns_sumsq s) (fmul64 exact (fmul64 exact l v) v);
     ns_any := true |}.

(* bigWig: the signal is the values themselves *)
Definition bw_total (vals : list value) : nstat :=
  fold_left (fun s v => nstat_add s (v_end v - v_start v) (v_val v)) vals nstat0.
Definition bw_window (vals : list value) (s e : N) : nstat :=
  fold_left (fun st v => let o := N.min e (v_end v) - N.max s (v_start v) in
                         if 0 <? o then nstat_add st o (v_val v) else st) vals nstat0.

(* bigBed: the signal is the coverage depth; constant between consecutive breakpoints *)
Fixpoint pairs (l : list N) : list (N * N) :=
  match l with a :: r => match r with b :: _ => (a, b) :: pairs r | [] => [] end | [] => [] end.
Definition depth_at (ents : list (N * N)) (a : N) : N :=
  Nlen (filter (fun e => (fst e <=? a) && (a <? snd e)) ents).
Definition bed_window (ents : list (N * N)) (s e : N) : nstat :=
  let pts := sort_dedup (s :: e :: flat_map (fun x => [fst x; snd x]) ents) in
  fold_left (fun st ab => let d := depth_at ents (fst ab) in
                          if (s <=? fst ab) && (snd ab <=? e) && (0 <? d) then nstat_add st (snd ab - fst ab) (f_of_N d) else st)
            (pairs pts) nstat0.

Definition sum_ok (st : nstat) (got : sexp) : bool :=
  (* no base covered at all (only zero-length bigBed entries): minimum and maximum of nothing are not judged *)
  if negb (ns_any st) then (getN (nthS 0 got) =? 0) && (getN (nthS 3 got) =? 0) && (getN (nthS 4 got) =? 0) else
  sexp_eqb got (L [sN (ns_valid st); sN (bits_of_f64 (ns_min st)); sN (bits_of_f64 (ns_max st));
                   sN (bits_of_f64 (ns_sum st)); sN (bits_of_f64 (ns_sumsq st))]).
(* one zoom record against the window statistics; [stat_of chrom s e] *)
Definition zrec_ok (stat_of : N -> N -> N -> nstat) (z : sexp) : bool :=
  let c := getN (nthS 0 z) in let s := getN (nthS 1 z) in let e := getN (nthS 2 z) in
  let st := stat_of c s e in
  ns_any st
  && sexp_eqb z (L [sN c; sN s; sN e; sN (ns_valid st);
                    sN (bits_of_f32 (to_f32 ieee (ns_min st))); sN (bits_of_f32 (to_f32 ieee (ns_max st)));
                    sN (bits_of_f32 (to_f32 ieee (ns_sum st))); sN (bits_of_f32 (to_f32 ieee (ns_sumsq st)))]).
(* a level: every record is the statistics of its window, and the windows together hold every
   covered base (they are disjoint and sorted: checked by the decoder) *)
Definition level_ok (stat_of : N -> N -> N -> nstat) (total_valid : N) (lv : sexp) : bool :=
  let recs := getL (nthS 1 lv) in
  forallb (zrec_ok stat_of) recs
  && (sumN (map (fun z => getN (nthS 3 z)) recs) =? total_valid).

Definition c09_oracle (c out : sexp) : sexp :=
  let ftype := getN (nthS 0 c) in
  let inner := nthS 1 c in
  let nice := getB (nthS 2 c) in
  let corrupted := match getL (nthS 3 c) with [] => false | _ => true end in
  if corrupted then sB true else
  if negb (Z.eqb (getZ (nthS 0 out)) 0) then sB true else    (* refused: C13 decides refusals *)
  let zok := getB (nthS 2 out) in
  let dec := nthS 3 out in
  if negb (Z.eqb (getZ (nthS 0 dec)) 0) then sB false else
  let ct := nthS 1 dec in
  let o := get_opts (nthS 1 inner) in
  let sizes := get_sizes (nthS 2 inner) in
  let raw := getL (nthS 3 inner) in
  let names := map (fun x => getBytes (nthS 0 x)) raw in
  let ids := first_names [] names in
  let id_of nm := index_of nm ids 0 in
  let exp_recs :=
    L (map (fun x => L [sN (id_of (getBytes (nthS 0 x))); sN (getN (nthS 1 x)); sN (getN (nthS 2 x));
                        (if ftype =? 0 then L [sN (getN (nthS 3 x))] else sBytes (getBytes (nthS 3 x)))]) raw) in
  let ubuf := getN (nthS 5 ct) in
  let base :=
    zok
    && sexp_eqb (nthS 0 ct) (sB (ftype =? 0))
    && Bool.eqb (0 <? ubuf) (o_compress o)
    && (getN (nthS 6 ct) =? o_bs o) && (getN (nthS 7 ct) =? o_ips o)
    && chroms_ok sizes names (nthS 8 ct)
    && sexp_eqb (nthS 9 ct) exp_recs
    && (if ftype =? 0 then true
        else sexp_eqb (nthS 4 ct) (sBytes (match getOpt getBytes (nthS 5 inner) with Some a => a | None => AUTOSQL_LIBRARY_DEFAULT end))) in
  if negb nice then sB base else
  let of_chrom (cid : N) := filter (fun x => id_of (getBytes (nthS 0 x)) =? cid) raw in
  let stats :=
    if ftype =? 0 then
      let vals x := {| v_start := getN (nthS 1 x); v_end := getN (nthS 2 x); v_bits := getN (nthS 3 x) |} in
      let all := map vals raw in
      let tot := bw_total all in
      sum_ok tot (nthS 12 ct)
      && forallb (level_ok (fun cid s e => bw_window (map vals (of_chrom cid)) s e) (ns_valid tot)) (getL (nthS 13 ct))
    else
      let ent x := (getN (nthS 1 x), getN (nthS 2 x)) in
      let per := map (fun cid => bed_window (map ent (of_chrom cid)) 0 (2 ^ 32)) (seqN 0 (length ids)) in
      let tot := fold_left (fun a s => {| ns_valid := ns_valid a + ns_valid s;
                                          ns_min := if ns_any a then (if ns_any s then fmin (ns_min a) (ns_min s) else ns_min a) else ns_min s;
                                          ns_max := if ns_any a then (if ns_any s then fmax (ns_max a) (ns_max s) else ns_max a) else ns_max s;
                                          ns_sum := fadd64 exact (ns_sum a) (ns_sum s);
                                          ns_sumsq := fadd64 exact (ns_sumsq a) (ns_sumsq s);
                                          ns_any := ns_any a || ns_any s |}) per nstat0 in
      sum_ok tot (nthS 12 ct)
      && forallb (level_ok (fun cid s e => bed_window (map ent (of_chrom cid)) s e) (ns_valid tot)) (getL (nthS 13 ct)) in
  sB (base && stats).

(* ---------- model line ---------- *)
Definition idz (l : list N) : list N := l.
Definition self_inflate (img : list N) (off size : N) : option (list N) :=
  if off + size <=? Nlen img then slice img off (N.to_nat size) else None.

Definition bw_model (whole c : sexp) : sexp :=
  let kind := getN (nthS 0 c) in
  let o := get_opts (nthS 1 c) in
  let sizes := get_sizes (nthS 2 c) in
  let input := getList get_item (nthS 3 c) in
  let r := if kind =? 0 then bw_write_z idz ieee o sizes input else bw_write_multipass_z idz ieee o sizes input in
  match r with
  | Ok bs =>
      let d := decode bs (self_inflate bs) in
      L [A 0%Z; (if o_compress o then L [] else sBytes bs); A 1%Z; sDecoded d;
         match d with
         | Some _ => L []
         | None => L [c09_oracle whole (L [A 0%Z; L []; A 1%Z; sDecoded (decode_lenient bs (self_inflate bs))])]
         end]
  | Err code => L [A 1%Z; sN code]
  | Panic => L [A 2%Z]
  | Fuel => L [A 3%Z]
  end.

(* bigBed: Model/BigBedWrite.v is the uncompressed image.  For a compressed case the expected content is
   that of the uncompressed image with uncompressBufSize = the largest block of that image (the
   generators use manual zoom lists with compression, so every computed level is written). *)
Definition with_ubuf (c : content) (u : N) : content :=
  {| c_bigwig := c_bigwig c; c_bigendian := c_bigendian c; c_field_count := c_field_count c; c_defined_fc := c_defined_fc c;
     c_autosql := c_autosql c; c_ubuf := u; c_block_size := c_block_size c; c_ips := c_ips c; c_chroms := c_chroms c;
     c_records := c_records c; c_blocks := c_blocks c; c_data_count := c_data_count c; c_summary := c_summary c;
     c_zooms := c_zooms c |}.
Definition bed_model9 (whole c : sexp) : sexp :=
  let o := get_opts (nthS 1 c) in
  match bed_write_model c with
  | Ok bs =>
      let fix_u (d : option content) :=
        if o_compress o then
          match d, block_ranges bs with
          | Some ct, Some (_, rs) => Some (with_ubuf ct (fold_left N.max (map snd rs) 0))
          | _, _ => None
          end
        else d in
      let d := fix_u (decode bs (self_inflate bs)) in
      L [A 0%Z; (if o_compress o then L [] else sBytes bs); A 1%Z; sDecoded d;
         match d with
         | Some _ => L []
         | None => L [c09_oracle whole (L [A 0%Z; L []; A 1%Z; sDecoded (fix_u (decode_lenient bs (self_inflate bs)))])]
         end]
  | Err code => L [A 1%Z; sN code]
  | Panic => L [A 2%Z]
  | Fuel => L [A 3%Z]
  end.

Definition c09_model (c : sexp) : sexp :=
  if getN (nthS 0 c) =? 0 then bw_model c (nthS 1 c) else bed_model9 c (nthS 1 c).

Definition dispatch (k : Z) (arg : sexp) : sexp :=
  match k with
  | 0 => c09_model arg
  | 1 => c09_oracle (nthS 0 arg) (nthS 1 arg)
  | 2 => pass_a arg
  | 3 => pass_b arg
  | 4 => pass_b_lenient arg
  | 6 => diagnose arg
  | 7 => pass_z arg
  | 8 => zlib_vector arg
  | 9 => sBytes (zlib_store (getBytes arg))
  | _ => L [A (-1)%Z]
  end%Z.
