(* Model of the bigBed side of the readers (bigbedread.rs get_block_entries / get_interval /
   BigBedRead::open) and of the three `open` entry points, on top of Model/BBIRead.v (which holds
   read_info, the R-tree search, the bigWig block decoders, zoom and summary).  Written for C10.
   No proofs in this file. *)
From BT Require Import Base.Util Base.LE Base.Float Generated.Consts Model.RTree Model.BBIFile Model.BigWigWrite
  Model.BBIRead Spec.FormatEmit.
Local Open Scope N_scope.

Fixpoint find_nul (l : list N) : option nat :=
  match l with
  | [] => None
  | 0 :: _ => Some O
  | _ :: r => match find_nul r with Some p => Some (S p) | None => None end
  end.

(* get_block_entries' read_entry loop.  Every round consumes 12 bytes, so [S (length d)] rounds
   always suffice.  String::from_utf8(..).unwrap(): only ASCII text is modelled (a byte >= 128 is
   treated as invalid UTF-8). *)
Fixpoint bed_entries (fuel : nat) (big : bool) (expected : N) (d : list N) : res (list bed) :=
  match fuel with
  | O => Fuel
  | S f =>
      if (length d <? 12)%nat then Ok [] else
      let c := dec big (firstn 4 d) in
      let st := dec big (firstn 4 (skipn 4 d)) in
      let en := dec big (firstn 4 (skipn 8 d)) in
      let d' := skipn 12 d in
      if (st =? 0) && (en =? 0) then Err R_INVALID else
      if negb (c =? expected) then Panic else
      match find_nul d' with
      | Some pos =>
          let rest := firstn pos d' in
          if existsb (fun b => 128 <=? b) rest then Panic else
          do more <- bed_entries f big expected (skipn (S pos) d');
          Ok ({| b_start := st; b_end := en; b_rest := rest |} :: more)
      | None =>
          (* no terminator: the remainder is the text and is NOT consumed *)
          if existsb (fun b => 128 <=? b) d' then Panic else
          do more <- bed_entries f big expected d';
          Ok ({| b_start := st; b_end := en; b_rest := d' |} :: more)
      end
  end.

Section Inflate.
Variable infl : list N -> list N.

Definition block_entries (i : info) (bs : list N) (b : block) (chrom s e : N) : res (option (list bed)) :=
  do d <- block_data infl i bs b;
  do es <- bed_entries (S (length d)) (h_big (i_hdr i)) chrom d;
  Ok (Some (filter (fun x => (s <=? b_end x) && (b_start x <=? e)) es)).

(* BigBedRead::get_interval, fully drained: index header first, then the chromosome name *)
Definition bb_interval (bs : list N) (i : info) (c : name) (s e : N) : res (list bed) :=
  do root <- cir_tree_root (h_big (i_hdr i)) bs (h_full_index_off (i_hdr i));
  do chrom <- chrom_id i c;
  do blocks <- search_blocks i bs root chrom s e;
  collect_blocks (fun b => block_entries i bs b chrom s e) blocks.

(* BigBedRead::get_zoom_interval: every failure of zoom_cir_tree is ReductionLevelNotFound *)
Definition bb_zoom_interval (bs : list N) (i : info) (c : name) (s e res_level : N) : res (list zrec) :=
  match find (fun z => zh_res z =? res_level) (i_zooms i) with
  | None => Err R_NOZOOM
  | Some zh =>
      match cir_tree_root (h_big (i_hdr i)) bs (zh_index zh) with
      | Ok root =>
          do chrom <- chrom_id i c;
          do blocks <- search_blocks i bs root chrom s e;
          collect_blocks (fun b => zoom_block_values infl i bs b chrom s e) blocks
      | Err _ => Err R_NOZOOM
      | Panic => Panic
      | Fuel => Fuel
      end
  end.

(* the reader's answer to a query of Spec/FormatEmit.v *)
Definition read_answer (bs : list N) (i : info) (q : query) : answer :=
  match q with
  | QChroms => AChroms (i_chroms i)
  | QSummary => ASummary (read_summary bs i)
  | QInterval c s e =>
      if h_bigwig (i_hdr i) then AValuesIv (bw_interval infl bs i c s e) else ABeds (bb_interval bs i c s e)
  | QValues c s e => APerBase (bw_values infl bs i c s e)
  | QZoom c s e lvl =>
      AZoom (if h_bigwig (i_hdr i) then zoom_interval infl bs i c s e lvl else bb_zoom_interval bs i c s e lvl)
  end.
End Inflate.

(* BigWigRead::open / BigBedRead::open / GenericBBIRead::open: kind 0 / 1 / 2 *)
Definition open_kind (kind : N) (bs : list N) : res info :=
  do i <- read_info bs;
  if (kind =? 0) && negb (h_bigwig (i_hdr i)) then Err R_MAGIC
  else if (kind =? 1) && h_bigwig (i_hdr i) then Err R_MAGIC
  else Ok i.
