(* C10 entry (glue): case decoding, running the independent encoder and the reader models, oracle.
   case    = (layout content queries cmptable mode)
   layout  = (big compress version fill secs zsecs ckey cblock cnodes rblock trees asql extra order)
             secs ((count type) ...)  zsecs ((n ...) ...)  node (0 first count) | (1 (child ...))
             asql () | (i)  extra ((byte ...) ...)  order ((pid gap) ...)
             pid (0) summary | (1) count | (2 k) zoom count | (3 i) chrom node | (4 t i) block | (5 t i) index node | (6 i) extra
   content = (bigwig chroms vals beds summary zooms field_count defined_fields)
             chroms ((name id len) ...)  vals ((chrom start end bits) ...)  beds ((chrom start end (rest)) ...)
             summary () | ((bases min max sum sumsq))  zooms ((level ((chrom start end valid min max sum sumsq) ...)) ...)
   queries = ((4) | (3) | (0 name s e) | (1 name s e) | (2 name s e level)) as in harness/src/bin/c10.rs
   cmptable = ((raw stored) ...)   what "compression" does to each raw block (computed by Python with zlib)
   mode    = (kind cached)   which reader the implementation side uses
   entries: 0 model output | 1 oracle (case, impl output) | 2 file bytes | 3 raw block payloads | 4 wf check *)
From BT Require Import Base.Util Base.Sexp Base.LE Base.Float Model.RTree Model.BBIFile Model.BigWigWrite Model.BBIRead
  Model.EntryBBI Spec.FormatEmit Spec.FormatWf Model.ReadBed_C10.
Local Open Scope N_scope.

Definition get_inode (s : sexp) : inode :=
  if getN (nthS 0 s) =? 0 then ILeaf (getNat (nthS 1 s)) (getNat (nthS 2 s)) else IInner (getList getNat (nthS 1 s)).
Definition get_pid (s : sexp) : pid :=
  let k := getN (nthS 0 s) in
  let a := getNat (nthS 1 s) in
  let b := getNat (nthS 2 s) in
  if k =? 0 then PSummary else if k =? 1 then PCount else if k =? 2 then PZCount a else if k =? 3 then PChrom a
  else if k =? 4 then PBlock a b else if k =? 5 then PNode a b else PExtra a.
Definition get_layout (s : sexp) : layout :=
  {| l_big := getB (nthS 0 s); l_compress := getB (nthS 1 s); l_version := getN (nthS 2 s); l_fill := getN (nthS 3 s);
     l_secs := getList (fun x => (getNat (nthS 0 x), getN (nthS 1 x))) (nthS 4 s);
     l_zsecs := getList (getList getNat) (nthS 5 s);
     l_ckey := getNat (nthS 6 s); l_cblock := getN (nthS 7 s); l_cnodes := getList get_inode (nthS 8 s);
     l_rblock := getN (nthS 9 s); l_trees := getList (getList get_inode) (nthS 10 s);
     l_asql := getOpt getNat (nthS 11 s); l_extra := getList getBytes (nthS 12 s);
     l_order := getList (fun x => (get_pid (nthS 0 x), getN (nthS 1 x))) (nthS 13 s) |}.
Definition get_zraw (s : sexp) : zraw :=
  {| zr_chrom := getN (nthS 0 s); zr_start := getN (nthS 1 s); zr_end := getN (nthS 2 s); zr_valid := getN (nthS 3 s);
     zr_min := getN (nthS 4 s); zr_max := getN (nthS 5 s); zr_sum := getN (nthS 6 s); zr_sumsq := getN (nthS 7 s) |}.
Definition get_content (s : sexp) : content :=
  {| x_bigwig := getB (nthS 0 s);
     x_chroms := getList (fun x => {| ci_name := getBytes (nthS 0 x); ci_id := getN (nthS 1 x); ci_len := getN (nthS 2 x) |}) (nthS 1 s);
     x_vals := getList (fun x => (getN (nthS 0 x), {| v_start := getN (nthS 1 x); v_end := getN (nthS 2 x); v_bits := getN (nthS 3 x) |})) (nthS 2 s);
     x_beds := getList (fun x => (getN (nthS 0 x), {| b_start := getN (nthS 1 x); b_end := getN (nthS 2 x); b_rest := getBytes (nthS 3 x) |})) (nthS 3 s);
     x_summary := getOpt (fun x => {| sr_bases := getN (nthS 0 x); sr_min := getN (nthS 1 x); sr_max := getN (nthS 2 x);
                                      sr_sum := getN (nthS 3 x); sr_sumsq := getN (nthS 4 x) |}) (nthS 4 s);
     x_zooms := getList (fun x => (getN (nthS 0 x), getList get_zraw (nthS 1 x))) (nthS 5 s);
     x_field_count := getN (nthS 6 s); x_defined_fields := getN (nthS 7 s) |}.

Fixpoint bytes_eqb (a b : list N) : bool :=
  match a, b with
  | [], [] => true
  | x :: r, y :: s => (x =? y) && bytes_eqb r s
  | _, _ => false
  end.
Definition get_table (s : sexp) : list (list N * list N) := getList (fun x => (getBytes (nthS 0 x), getBytes (nthS 1 x))) s.
Definition cmp_of (tab : list (list N * list N)) (raw : list N) : list N :=
  match find (fun p => bytes_eqb (fst p) raw) tab with Some p => snd p | None => raw end.
Definition infl_of (tab : list (list N * list N)) (d : list N) : list N :=
  match find (fun p => bytes_eqb (snd p) d) tab with Some p => fst p | None => d end.

Definition get_query (q : sexp) : query :=
  let k := getN (nthS 0 q) in
  let c := getBytes (nthS 1 q) in
  let s := getN (nthS 2 q) in
  let e := getN (nthS 3 q) in
  if k =? 0 then QInterval c s e else if k =? 1 then QValues c s e else if k =? 2 then QZoom c s e (getN (nthS 4 q))
  else if k =? 3 then QSummary else QChroms.

Definition sBed (b : bed) : sexp := L [sN (b_start b); sN (b_end b); sBytes (b_rest b)].
Definition sChroms (l : list chrom_info) : sexp := sList (fun c => L [sBytes (ci_name c); sN (ci_id c); sN (ci_len c)]) l.

(* an answer as the harness prints it; QChroms is asked as the (4) info query *)
Definition sAnswer (i : option info) (a : answer) : sexp :=
  match a with
  | AChroms l => match i with Some i => sRes sInfo (Ok i) | None => L [A 0%Z; sChroms l] end
  | ASummary r => sRes sSummary r
  | AValuesIv r => sRes (sList sValue) r
  | ABeds r => sRes (sList sBed) r
  | APerBase r => sRes (sList (sOpt sN)) r
  | AZoom r => sRes (sList sZrec) r
  end.

Definition case_bytes (c : sexp) : list N :=
  emit (cmp_of (get_table (nthS 3 c))) (get_layout (nthS 0 c)) (get_content (nthS 1 c)).

(* a per-base query on a bigBed goes nowhere in the harness (bb_answer prints the info) *)
Definition c10_model (c : sexp) : sexp :=
  let bs := case_bytes c in
  let tab := get_table (nthS 3 c) in
  let kind := getN (nthS 0 (nthS 4 c)) in
  match open_kind kind bs with
  | Ok i => L [A 0%Z; sList (fun q => sAnswer (Some i) (read_answer (infl_of tab) bs i (get_query q))) (getL (nthS 2 c))]
  | r => sRes (fun _ => L []) r
  end.

(* the property, on what the implementation answered: every answer is what the CONTENT says *)
Definition c10_oracle (c out : sexp) : sexp :=
  let x := get_content (nthS 1 c) in
  let kind := getN (nthS 0 (nthS 4 c)) in
  let mismatch := ((kind =? 0) && negb (x_bigwig x)) || ((kind =? 1) && x_bigwig x) in
  if mismatch then sB (sexp_eqb out (L [A 1%Z; A 2%Z])) else
  let qs := getL (nthS 2 c) in
  let ans := getL (nthS 1 out) in
  sB (Z.eqb (getZ (nthS 0 out)) 0 && Nat.eqb (length qs) (length ans) &&
      forallb (fun qa =>
                 let q := get_query (fst qa) in
                 match q with
                 | QChroms => Z.eqb (getZ (nthS 0 (snd qa))) 0 && sexp_eqb (nthS 6 (nthS 1 (snd qa))) (sChroms (x_chroms x))
                 | _ => sexp_eqb (snd qa) (sAnswer None (spec_answer x q))
                 end)
              (combine qs ans)).

Definition c10_raw (c : sexp) : sexp :=
  sList sBytes (map bi_raw (concat (block_table (fun b => b) (get_layout (nthS 0 c)) (get_content (nthS 1 c))))).

Definition c10_wf (c : sexp) : sexp :=
  sB (wf_b (cmp_of (get_table (nthS 3 c))) (get_layout (nthS 0 c)) (get_content (nthS 1 c))).

Definition dispatch (k : Z) (arg : sexp) : sexp :=
  match k with
  | 0 => c10_model arg
  | 1 => c10_oracle (nthS 0 arg) (nthS 1 arg)
  | 2 => sBytes (case_bytes arg)
  | 3 => c10_raw arg
  | 4 => c10_wf arg
  | _ => L [A (-1)%Z]
  end%Z.
