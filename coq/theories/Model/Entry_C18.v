(* Case decoding, result encoding and the property oracle for C18 (glue; the modelled code is in
   Model/FileView.v, Model/Chunker.v, Model/Indexer.v).  A leading tag selects the routine:
     (0 file a b depth (alphabet ops) (extra op sequences))   FileView on [a,b) and on the isolated range
     (1 file (n ...))                                         chunker for every chunk count n
     (2 ((chrom len) ...) final_newline)                      index_chroms
   ops: (0 n) read | (1 k) seek Start | (2 d) seek Current | (3 d) seek End *)
From BT Require Import Base.Util Base.Sexp Model.FileView Model.Chunker Model.Indexer.
Local Open Scope N_scope.

Definition sRes {X} (f : X -> sexp) (r : res X) : sexp :=
  match r with
  | Ok x => L [A 0%Z; f x]
  | Err c => L [A 1%Z; sN c]
  | Panic => L [A 2%Z]
  | Fuel => L [A 3%Z]
  end.

(* ------------------------------------------------------------------ FileView *)
Definition get_op (s : sexp) : op :=
  match getZ (nthS 0 s) with
  | 0%Z => Read (getN (nthS 1 s))
  | 1%Z => Seek (SStart (getN (nthS 1 s)))
  | 2%Z => Seek (SCurrent (getZ (nthS 1 s)))
  | _ => Seek (SEnd (getZ (nthS 1 s)))
  end.
Definition sOutcome (o : outcome) : sexp :=
  match o with Bytes l => sBytes l | Pos p => sN p end.

Fixpoint all_seqs {X} (alpha : list X) (depth : nat) : list (list X) :=
  match depth with
  | O => [[]]
  | S d => flat_map (fun o => map (cons o) (all_seqs alpha d)) alpha
  end.
Definition case_seqs (c : sexp) : list (list op) :=
  let depth := getNat (nthS 4 c) in
  let alpha := getList get_op (nthS 5 c) in
  let extra := getList (getList get_op) (nthS 6 c) in
  (match depth with O => [] | _ => all_seqs alpha depth end) ++ extra.

Definition view_model (c : sexp) : sexp :=
  let file := getBytes (nthS 1 c) in
  let a := getN (nthS 2 c) in
  let b := getN (nthS 3 c) in
  let seqs := case_seqs c in
  let iso := range file a b in
  L [sList (fun q => sList (sRes sOutcome) (run_view file a b q)) seqs;
     sList (fun q => sList (sRes sOutcome) (run_view iso 0 (b - a) q)) seqs].

(* the property on the implementation's answers: for a window that starts inside the file (its end
   may lie beyond the end of the file), the view and the isolated range answer alike, and both as a
   cursor on that byte string *)
Definition view_oracle (c out : sexp) : bool :=
  let file := getBytes (nthS 1 c) in
  let a := getN (nthS 2 c) in
  let b := getN (nthS 3 c) in
  if (a <=? b) && (a <=? Nlen file) then
    let seqs := case_seqs c in
    let want := sList (fun q => sList (sRes sOutcome) (cursor_run (range file a b) 0 q)) seqs in
    sexp_eqb (nthS 0 out) (nthS 1 out) && sexp_eqb (nthS 0 out) want
  else true.

(* ------------------------------------------------------------------ chunker *)
Definition sChunks (l : list (N * N)) : sexp := sList (fun ab => L [sN (fst ab); sN (snd ab)]) l.
Definition sLines (l : list (list N)) : sexp := sList sBytes l.

Definition chunker_model (c : sexp) : sexp :=
  let file := getBytes (nthS 1 c) in
  let ns := getList getN (nthS 2 c) in
  L [sLines (line_stream file);
     sList (fun n =>
              match split_file_into_chunks_by_size file n with
              | Ok cs => L [A 0%Z; sChunks cs;
                            sList (fun ab => sLines (line_stream (range file (fst ab) (snd ab)))) cs]
              | Err e => L [A 1%Z; sN e]
              | Panic => L [A 2%Z]
              | Fuel => L [A 3%Z]
              end) ns].

(* offsets at which a line starts, plus the end of the file *)
Fixpoint line_starts_acc (bytes : list N) (off : N) : list N :=
  match bytes with
  | [] => [off]
  | x :: r => if x =? NL then (off + 1) :: line_starts_acc r (off + 1) else line_starts_acc r (off + 1)
  end.
Definition line_starts (bytes : list N) : list N := 0 :: line_starts_acc bytes 0.
Definition memN (x : N) (l : list N) : bool := existsb (N.eqb x) l.

Fixpoint contiguous (from : N) (cs : list (N * N)) : option N :=     (* Some end, if a_0 = from and a_{i+1} = b_i *)
  match cs with
  | [] => Some from
  | ab :: r => if fst ab =? from then contiguous (snd ab) r else None
  end.
Definition chunks_ok (file : list N) (cs : list (N * N)) : bool :=
  let starts := line_starts file in
  negb (Nat.eqb (length cs) 0) &&
  match contiguous 0 cs with Some e => e =? Nlen file | None => false end &&
  forallb (fun ab => memN (fst ab) starts && memN (snd ab) starts && (fst ab <=? snd ab)) cs.

Definition chunker_oracle (c out : sexp) : bool :=
  let file := getBytes (nthS 1 c) in
  let ns := getList getN (nthS 2 c) in
  let serial := nthS 0 out in
  let results := getL (nthS 1 out) in
  sexp_eqb serial (sLines (line_stream file)) &&
  Nat.eqb (length ns) (length results) &&
  forallb (fun nr =>
             let n := fst nr in let r := snd nr in
             if n =? 0 then true
             else Z.eqb (getZ (nthS 0 r)) 0 &&
                  chunks_ok file (getList (getPair getN getN) (nthS 1 r)) &&
                  sexp_eqb (L (concat (map getL (getL (nthS 2 r))))) serial)
          (combine ns results).

(* ------------------------------------------------------------------ indexer *)
Definition get_line (s : sexp) : line := (getN (nthS 0 s), getN (nthS 1 s)).
Definition sEntries (l : list entry) : sexp := sList (fun e => L [sN (fst e); sN (snd e)]) l.
Definition sFile (f : file) : sexp := sList (fun l => L [sN (fst l); sN (snd l)]) f.

Definition indexer_model (c : sexp) : sexp :=
  let f := getList get_line (nthS 1 c) in
  let r := index_chroms depth_limit f in
  L [sRes (sOpt sEntries) r;
     match r with
     | Ok (Some ix) => sList sFile (view_streams f ix)
     | _ => L []
     end].

Fixpoint runs_acc (f : file) (cur : file) : list file :=      (* maximal runs of equal chromosome, in order *)
  match f with
  | [] => match cur with [] => [] | _ => [rev cur] end
  | l :: r =>
      match cur with
      | [] => runs_acc r [l]
      | p :: _ => if fst p =? fst l then runs_acc r (l :: cur) else rev cur :: runs_acc r [l]
      end
  end.
Definition runs (f : file) : list file := runs_acc f [].

(* for a grouped file of well-formed lines: the index is exactly the run starts, and the views the
   parallel source opens deliver exactly the runs.  (A file that is not grouped, or that has a
   malformed line, is outside the property: an error or None is allowed there, and so is an index.) *)
Definition indexer_oracle (c out : sexp) : bool :=
  let f := getList get_line (nthS 1 c) in
  if negb (Nat.eqb (length f) 0) && forallb wf_lineb f && groupedb f then
    sexp_eqb (nthS 0 out) (sRes (sOpt sEntries) (Ok (Some (run_starts f)))) &&
    sexp_eqb (nthS 1 out) (sList sFile (runs f))
  else true.

(* entry 0: model output; entry 1: oracle on (case, implementation output) *)
Definition c18_model (c : sexp) : sexp :=
  match getZ (nthS 0 c) with
  | 0%Z => view_model c
  | 1%Z => chunker_model c
  | 2%Z => indexer_model c
  | _ => L [A (-1)%Z]
  end.
Definition c18_oracle (c out : sexp) : sexp :=
  sB match getZ (nthS 0 c) with
     | 0%Z => view_oracle c out
     | 1%Z => chunker_oracle c out
     | 2%Z => indexer_oracle c out
     | _ => false
     end.

Definition dispatch (k : Z) (arg : sexp) : sexp :=
  match k with
  | 0 => c18_model arg
  | 1 => c18_oracle (nthS 0 arg) (nthS 1 arg)
  | _ => L [A (-1)%Z]
  end%Z.
