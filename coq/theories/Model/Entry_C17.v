(* C17 entry: case decoding, model output, property oracle.
   case = (k bw bed mode minmax (t ...) delim regions exact)
     bw      (kind opts sizes input ())   bigWig case of Model/EntryBBI.v (written by the writer model,
             opened by the reader model: the queries go through the byte image)
     bed     bytes of the BED file
     mode    (0) interval | (1) none | (2 n) column n, zero based | (3) option not given (= column 3)
     minmax  --min-max for k = 1, 3; -n (names) for k = 2, 4
     regions ((chrom s e (field ...)) ...)  what the generator rendered into [bed], for the oracle only
     exact   1: every float intermediate of the case is exact (the oracle also checks sum and means)
     k = 0 library | 1 averageoverbed tool | 2 valuesoverbed tool; outside the property:
     3 / 5 tool / library with regions on absent chromosomes (oracle: no panic, no hang),
     4 valuesoverbed, 6 averageoverbed, 7 library on malformed lines, start > end, missing name column
     (model comparison only; 4 and 6 compare success/failure only)
   The executable model of the tool for -t > 1 processes the file as ONE chunk with the parallel
   path's per-line function: by C17_chunked_eq_serial every chunking that cuts at line starts gives
   the same bytes, so no particular chunking has to be computed here. *)
From BT Require Import Base.Util Base.Sexp Base.LE Base.Float Model.RTree Model.BBIFile Model.BigWigWrite
  Model.BBIRead Model.EntryBBI Model.BedStats.
Local Open Scope N_scope.

Definition idb (l : list N) : list N := l.

Definition get_mode (s : sexp) : name_mode :=
  let k := getN (nthS 0 s) in
  if k =? 0 then NInterval else if k =? 1 then NNone
  else if k =? 2 then NColumn (getNat (nthS 1 s)) else NColumn 3.

Definition sF (x : fl) : sexp := sN (bits_of_f64 x).
Definition sStats (st : stats) : list sexp :=
  [sN (st_size st); sN (st_bases st); sF (st_sum st); sF (st_mean0 st); sF (st_mean st); sF (st_min st); sF (st_max st)].
Definition sItem (it : item) : sexp :=
  match it with
  | IOk nm st => L (A 0%Z :: sBytes nm :: sStats st)
  | IErr c => L [A 1%Z; sN c]
  end.

Section Model.
Variable q : name -> N -> N -> res (list value).

Definition direct_line (m : name_mode) (l : list N) : sexp :=
  match parse_bed l with
  | Ok (chrom, en) =>
      L [A 0%Z; sRes sBytes (name_for_bed_item m chrom en);
         match stats_for_bed_item ieee q chrom en with
         | Ok st => L (A 0%Z :: sStats st)
         | Err c => L [A 1%Z; sN c]
         | Panic => L [A 2%Z]
         | Fuel => L [A 3%Z]
         end]
  | _ => L [A 1%Z; sN E_BED]
  end.

Definition lib_model (m : name_mode) (bed : list N) : sexp :=
  let lines := file_lines bed in
  match lib_iter ieee q m lines with
  | Ok items => L [A 0%Z; sList sItem items; sList (direct_line m) lines]
  | Err c => L [A 1%Z; sN c]
  | Panic => L [A 2%Z]
  | Fuel => L [A 3%Z]
  end.

Definition avg_tool (m : name_mode) (minmax : bool) (t : N) (bed : list N) : res (list N) :=
  if t <=? 1 then avg_serial ieee q m minmax bed else avg_parallel ieee q m minmax [bed].

Definition sTool (strict : bool) (r : res (list N)) : sexp :=
  match r with
  | Ok t => L [A 0%Z; sBytes t]
  | Err _ => L [A 1%Z; L []]
  | Panic => L [A (if strict then 2 else 1)%Z; L []]
  | Fuel => L [A 3%Z; L []]
  end.

Definition avg_model (strict : bool) (m : name_mode) (minmax : bool) (ts : list N) (bed : list N) : sexp :=
  L [A 0%Z; sList (fun t => sTool strict (avg_tool m minmax t bed)) ts].

Definition sRow (r : option (list N) * list N) : sexp := L [sOpt sBytes (fst r); sBytes (snd r)].
Definition values_model (withnames : bool) (bed : list N) : sexp :=
  match values_over_bed q withnames bed with
  | Ok rows => L [A 0%Z; A 0%Z; A 1%Z; sList sRow rows]
  | Err _ => L [A 0%Z; A 1%Z; A 1%Z; L []]
  | Panic => L [A 0%Z; A 2%Z; A 1%Z; L []]
  | Fuel => L [A 3%Z]
  end.
Definition values_status (withnames : bool) (bed : list N) : sexp :=
  match values_over_bed q withnames bed with
  | Ok _ => L [A 0%Z; A 0%Z]
  | Fuel => L [A 3%Z]
  | _ => L [A 0%Z; A 1%Z]
  end.
End Model.

Definition c17_model (c : sexp) : sexp :=
  let k := getN (nthS 0 c) in
  let bed := getBytes (nthS 2 c) in
  let m := get_mode (nthS 3 c) in
  let flag := getB (nthS 4 c) in
  let ts := getList getN (nthS 5 c) in
  match write_model (nthS 1 c) with
  | Ok bs =>
      match read_info bs with
      | Ok i =>
          let q := fun ch s e => bw_interval idb bs i ch s e in
          if (k =? 0) || (k =? 5) || (k =? 7) then lib_model q m bed
          else if (k =? 1) || (k =? 3) then avg_model q true m flag ts bed
          else if k =? 2 then values_model q flag bed
          else if k =? 6 then avg_model q false m flag ts bed
          else values_status q flag bed
      | _ => L [A 1%Z; A 2%Z]
      end
  | Err code => L [A 1%Z; sN code]
  | Panic => L [A 2%Z]
  | Fuel => L [A 3%Z]
  end.

(* ---------------------------------------------------------------- the oracle *)
(* The property evaluated on what the implementation printed, from the case's value list and region
   list only: nothing of the reader model, of clip_filter or of the BED parser is used.  Statistics
   are recomputed base by base. *)
Record region := { rg_chrom : name; rg_s : N; rg_e : N; rg_extra : list (list N) }.
Definition get_region (x : sexp) : region :=
  {| rg_chrom := getBytes (nthS 0 x); rg_s := getN (nthS 1 x); rg_e := getN (nthS 2 x);
     rg_extra := getList getBytes (nthS 3 x) |}.

Definition stored (inp : list BigWigWrite.item) (c : name) : list value :=
  map snd (filter (fun it => name_eqb (fst it) c) inp).
Definition cover (vals : list value) (p : N) : option value :=
  find (fun v => (v_start v <=? p) && (p <? v_end v)) vals.
Fixpoint positions (s : N) (n : nat) : list N :=
  match n with O => [] | S k => s :: positions (s + 1) k end.
Definition covered (vals : list value) (s e : N) : list value :=
  flat_map (fun p => match cover vals p with Some v => [v] | None => [] end) (positions s (N.to_nat (e - s))).

Definition fold1 (f : fl -> fl -> fl) (l : list fl) : fl :=
  match l with [] => FNaN | x :: r => fold_left f r x end.

Record expect := { ex_size : N; ex_bases : N; ex_sum : fl; ex_mean0 : fl; ex_mean : fl;
                   ex_min : list fl; ex_max : list fl }.
Definition expected (vals : list value) (s e : N) : expect :=
  let cov := covered vals s e in
  (* stored zero-length values inside the region cover no base; the code counts them in min/max.
     Both readings are accepted (see notes/C17.md). *)
  let zl := filter (fun v => (v_start v =? v_end v) && (s <? v_end v) && (v_start v <? e)) vals in
  let sum := fold_left (fun a v => fadd64 exact a (v_val v)) cov fzero in
  let bases := Nlen cov in
  {| ex_size := e - s; ex_bases := bases; ex_sum := sum;
     ex_mean0 := fdiv64 ieee sum (f_of_N (e - s));
     ex_mean := if bases =? 0 then FNaN else fdiv64 ieee sum (f_of_N bases);
     ex_min := if bases =? 0 then [FNaN] else [fold1 fmin (map v_val cov); fold1 fmin (map v_val (cov ++ zl))];
     ex_max := if bases =? 0 then [FNaN] else [fold1 fmax (map v_val cov); fold1 fmax (map v_val (cov ++ zl))] |}.

Fixpoint join (sep : N) (l : list (list N)) : list N :=
  match l with
  | [] => []
  | [x] => x
  | x :: r => x ++ [sep] ++ join sep r
  end.
Definition bytes_eqb (a b : list N) : bool := name_eqb a b.

Definition fields_of (r : region) : list (list N) := rg_chrom r :: dec (rg_s r) :: dec (rg_e r) :: rg_extra r.
Definition name_ok (m : name_mode) (r : region) (got : list N) : bool :=
  match m with
  | NInterval => bytes_eqb got (rg_chrom r ++ [58] ++ dec (rg_s r) ++ [45] ++ dec (rg_e r))
  | NNone => bytes_eqb got (join TAB (fields_of r))
             || (match rg_extra r with [] => bytes_eqb got (join TAB (fields_of r) ++ [TAB]) | _ => false end)
  | NColumn n => match nth_error (fields_of r) n with Some f => bytes_eqb got f | None => true end
  end.
Definition name_exists (m : name_mode) (r : region) : bool :=
  match m with NColumn n => (n <? length (fields_of r))%nat | _ => true end.

Definition bits_in (l : list fl) (b : N) : bool := existsb (fun x => bits_of_f64 x =? b) l.

(* (size bases sum mean0 mean min max) as bit patterns *)
Definition stats_ok (exact_case : bool) (ex : expect) (l : list sexp) : bool :=
  let g i := getN (nth i l (A 0%Z)) in
  Nat.eqb (length l) 7 && (g 0%nat =? ex_size ex) && (g 1%nat =? ex_bases ex)
  && (negb exact_case || ((g 2%nat =? bits_of_f64 (ex_sum ex)) && (g 3%nat =? bits_of_f64 (ex_mean0 ex))
                          && (g 4%nat =? bits_of_f64 (ex_mean ex))))
  && (if ex_bases ex =? 0 then g 4%nat =? bits_of_f64 FNaN else true)
  && bits_in (ex_min ex) (g 5%nat) && bits_in (ex_max ex) (g 6%nat).

(* text of an f64 with three decimals, either direction on an exact tie *)
Definition milli_t (up : bool) (m e : Z) : N :=
  Z.to_N (if (0 <=? e)%Z then (Z.abs m * 1000 * 2 ^ e)%Z
          else let d := (2 ^ (- e))%Z in
               let a := (Z.abs m * 1000)%Z in
               let qz := (a / d)%Z in
               let r := (a - qz * d)%Z in
               if (2 * r <? d)%Z then qz else if (d <? 2 * r)%Z then (qz + 1)%Z else if up then (qz + 1)%Z else qz).
Definition fmt3_t (up : bool) (a : fl) : list N :=
  match a with
  | FNaN => [78; 97; 78]
  | FInf s => (if s then [45] else []) ++ [105; 110; 102]
  | FFin m e => let k := milli_t up m e in
                (if (m <? 0)%Z then [45] else []) ++ dec (k / 1000) ++ [46] ++ pad3 (k mod 1000)
  end.
(* the value the code holds is the f64 nearest to the exact one *)
Definition as_f64 (a : fl) : fl := match a with FFin m e => r64 ieee m e | x => x end.
Definition text_in (l : list fl) (got : list N) : bool :=
  existsb (fun x => bytes_eqb got (fmt3_t false (as_f64 x)) || bytes_eqb got (fmt3_t true (as_f64 x))) l.

Definition ends_nl (l : list N) : bool := match rev l with x :: _ => x =? NL | [] => false end.

Definition row_ok (exact_case : bool) (m : name_mode) (minmax : bool) (vals : list value) (r : region) (line : list N) : bool :=
  ends_nl line &&
  let fs := split_all TAB (removelast line) in
  let nstat := if minmax then 7%nat else 5%nat in
  (nstat <? length fs)%nat &&
  let nm := join TAB (firstn (length fs - nstat) fs) in
  let st := skipn (length fs - nstat) fs in
  let g i := nth i st [] in
  let ex := expected vals (rg_s r) (rg_e r) in
  name_ok m r nm && bytes_eqb (g 0%nat) (dec (ex_size ex)) && bytes_eqb (g 1%nat) (dec (ex_bases ex))
  && (negb exact_case || (text_in [ex_sum ex] (g 2%nat) && text_in [ex_mean0 ex] (g 3%nat) && text_in [ex_mean ex] (g 4%nat)))
  && (if ex_bases ex =? 0 then text_in [FNaN] (g 4%nat) else true)
  && (negb minmax || (text_in (ex_min ex) (g 5%nat) && text_in (ex_max ex) (g 6%nat))).

Fixpoint all2 {X Y} (f : X -> Y -> bool) (a : list X) (b : list Y) : bool :=
  match a, b with
  | [], [] => true
  | x :: r, y :: s => f x y && all2 f r s
  | _, _ => false
  end.

Definition NAN32 : N := 2143289344.   (* 0x7fc00000 *)
Definition cells_ok (vals : list value) (r : region) (cells : list N) : bool :=
  all2 (fun p c => match cover vals p with
                   | Some v => c =? v_bits v
                   | None => (c =? 0) || (c =? NAN32)
                   end)
       (positions (rg_s r) (N.to_nat (rg_e r - rg_s r))) cells.

Definition c17_oracle (c out : sexp) : sexp :=
  let k := getN (nthS 0 c) in
  let status := getZ (nthS 0 out) in
  if Z.eqb status 3 then sB false                                    (* no answer: a hang *)
  else if (k =? 4) || (k =? 6) || (k =? 7) then sB true              (* malformed input: model comparison only *)
  else if Z.eqb status 2 then sB false                               (* a panic *)
  else if negb (Z.eqb status 0) then sB true                         (* the bigWig was refused: nothing to say *)
  else if k =? 3 then sB (forallb (fun o => negb (Z.eqb (getZ (nthS 0 o)) 2)) (getL (nthS 1 out)))
  else if k =? 5 then sB true
  else
    let inp := getList get_item (nthS 3 (nthS 1 c)) in
    let m := get_mode (nthS 3 c) in
    let flag := getB (nthS 4 c) in
    let regs := getList get_region (nthS 7 c) in
    let exact_case := getB (nthS 8 c) in
    let vals r := stored inp (rg_chrom r) in
    if k =? 0 then
      sB (all2 (fun r it =>
                  if Z.eqb (getZ (nthS 0 it)) 0 then
                    name_ok m r (getBytes (nthS 1 it))
                    && stats_ok exact_case (expected (vals r) (rg_s r) (rg_e r)) (skipn 2 (getL it))
                  else negb (name_exists m r) && (getN (nthS 1 it) =? E_NAMECOL))
               regs (getL (nthS 1 out))
          && all2 (fun r d =>
                     Z.eqb (getZ (nthS 0 d)) 0
                     && (if name_exists m r
                         then Z.eqb (getZ (nthS 0 (nthS 1 d))) 0 && name_ok m r (getBytes (nthS 1 (nthS 1 d)))
                         else true)
                     && Z.eqb (getZ (nthS 0 (nthS 2 d))) 0
                     && stats_ok exact_case (expected (vals r) (rg_s r) (rg_e r)) (skipn 1 (getL (nthS 2 d))))
                  regs (getL (nthS 2 out)))
    else if k =? 1 then
      (* a requested name column that some row does not have: the run may fail as a whole *)
      let all_named := forallb (name_exists m) regs in
      sB (forallb (fun o =>
                     let ok := Z.eqb (getZ (nthS 0 o)) 0 in
                     (ok || negb all_named)
                     && (negb ok || all2 (fun r line => row_ok exact_case m flag (vals r) r line) regs (split_lines (getBytes (nthS 1 o)))))
                  (getL (nthS 1 out))
          && Nat.eqb (length (getL (nthS 1 out))) (length (getL (nthS 5 c))))
    else
      sB (Z.eqb (getZ (nthS 1 out)) 0 && getB (nthS 2 out)
          && all2 (fun r row =>
                     (if flag then
                        match getL (nthS 0 row) with
                        | [nm] => let nm := getBytes nm in
                                  bytes_eqb nm (rg_chrom r ++ [58] ++ dec (rg_s r) ++ [45] ++ dec (rg_e r))
                                  || (match rg_extra r with f :: _ => bytes_eqb nm f | [] => false end)
                        | _ => false
                        end
                      else match getL (nthS 0 row) with [] => true | _ => false end)
                     && cells_ok (vals r) r (getBytes (nthS 1 row)))
                  regs (getL (nthS 3 out))).

Definition dispatch (k : Z) (arg : sexp) : sexp :=
  match k with
  | 0 => c17_model arg
  | 1 => c17_oracle (nthS 0 arg) (nthS 1 arg)
  | _ => L [A (-1)%Z]
  end%Z.
