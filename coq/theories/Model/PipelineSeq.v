(* The multi-lane machine of Model/Pipeline.v (part 3) with the producer as it is in the code: ONE task per
   chromosome (bigwigwrite.rs process_val + process_val_zoom, bigbedwrite.rs likewise; in the parallel
   source a spawned task, in the serial source the main thread's own future) that serves the lanes ONE
   AFTER THE OTHER: per value it may send a data section (`ftx.send(handle).await`) and then, level by
   level, zoom sections (`zoom_item.channel.send(handle).await`); while one send waits for room in its
   channel nothing is sent to the other lanes.

   [q_ord] k is the remaining program of producer k: the lanes of its next submissions, in program order
   (an arbitrary interleaving of the lanes' section lists: which one it is depends on the data).  QProd k
   submits the next section of the lane at the head of the program, if that lane's channel has room.
   All other tasks are those of the lanes machine.  The machine is the lanes machine with fewer producer
   steps, so everything proved about reachable states of the lanes machine holds; what needs a proof of
   its own is progress (Proofs/PipelineSeq.v).  No proofs in this file. *)
From BT Require Import Base.Util Model.RTree Model.BBIFile Model.Pipeline.

Record qst := mkq { q_l : lst; q_ord : list (list nat) }.
Inductive qtask := QMain | QProd (k : nat) | QEnc (l k i : nat) | QWrite (l k : nat) | QSplice.

Definition qlift (s : qst) (o : option lst) : option qst :=
  match o with Some s' => Some (mkq s' (q_ord s)) | None => None end.

Definition qprod_step (g : params) (k : nat) (s : qst) : option qst :=
  match nth_error (q_ord s) k with
  | Some (l :: r) =>
      match lstep g (LProd l k) (q_l s) with
      | Some s' => Some (mkq s' (set_nth k r (q_ord s)))
      | None => None                                   (* send(..).await: lane l's channel is full *)
      end
  | _ => None                                          (* everything submitted *)
  end.

Definition qstep (g : params) (t : qtask) (s : qst) : option qst :=
  match t with
  | QMain => qlift s (lstep g LMain (q_l s))
  | QProd k => qprod_step g k s
  | QEnc l k i => qlift s (lstep g (LEnc l k i) (q_l s))
  | QWrite l k => qlift s (lstep g (LWrite l k) (q_l s))
  | QSplice => qlift s (lstep g LSplice (q_l s))
  end.
Definition qstep_or_stay (g : params) (t : qtask) (s : qst) : qst :=
  match qstep g t s with Some s' => s' | None => s end.
Fixpoint qrun (g : params) (sched : list qtask) (s : qst) : qst :=
  match sched with [] => s | t :: r => qrun g r (qstep_or_stay g t s) end.

Definition qinit (Ps : list bytes) (Sss : list (list (list sdata))) (ords : list (list nat)) : qst :=
  mkq (linit Ps Sss) ords.
Definition qterminal (s : qst) : bool := lterminal (q_l s).

(* a program for producer k: it names lane l exactly as often as lane l has sections of chromosome k *)
Definition ord_ok (Sss : list (list (list sdata))) (ords : list (list nat)) : Prop :=
  Forall (Forall (fun l => (l < length Sss)%nat)) ords /\
  forall l k, (l < length Sss)%nat ->
    count_occ Nat.eq_dec (nth k ords []) l = length (nth k (nth l Sss []) []).

(* data section first, then the zoom levels in order, value group by value group: one possible program *)
Fixpoint round_robin_ord (fuel : nat) (lens : list nat) : list nat :=
  match fuel with
  | O => []
  | S f => flat_map (fun ln => match snd ln with O => [] | S _ => [fst ln] end) (combine (seq 0 (length lens)) lens)
           ++ round_robin_ord f (map pred lens)
  end.

Definition all_qtasks (L K cap : nat) : list qtask :=
  QMain :: QSplice :: map QProd (seq 0 K) ++
  flat_map (fun l => flat_map (fun k => QWrite l k :: map (QEnc l k) (seq 0 cap)) (seq 0 K)) (seq 0 L).
Fixpoint qrounds (n : nat) (l : list qtask) : list qtask :=
  match n with O => [] | S m => l ++ qrounds m l end.
