(* C13: the decision rules by which the writers accept or refuse their input.
   - text level: StreamingLineReader::read (lines), str::trim_end (ASCII part), splitn on TAB,
     str::parse::<u32>, parse_bedgraph / parse_bed (bed/bedparser.rs), branch for branch; the f32
     token is outside the model: its validity is the parameter [fok];
   - stream level: BedParserStreamingIterator::process_to_bbi (serial source) and
     BedParserParallelStreamingIterator::process_to_bbi (parallel source) in bbi/beddata.rs,
     with the checks of bigwigwrite.rs / bigbedwrite.rs process_val and of bbiwrite.rs do_read
     (unknown chromosome), generic in the value type and its check;
   - whole call: the verdict of BigWigWrite::write / write_multipass, BigBedWrite::write /
     write_multipass on a text.
   No proofs in this file. *)
From BT Require Import Base.Util Base.Float Generated.Consts Model.RTree Model.BBIFile Model.BigWigWrite.
Local Open Scope N_scope.

(* ---- error classes (continuing BigWigWrite.v: 10, 11, 20, 30, 31, 32) ---- *)
Definition E_BB_START_GT_END := 40.      (* Invalid bed: start > end *)
Definition E_BB_START_GE_CHROM := 41.    (* Invalid bed: start is greater than the chromosome length (start >= len) *)
Definition E_BB_UNSORTED := 42.          (* Invalid bed: not sorted on chromosome *)
Definition E_MISSING_START := 61.
Definition E_INVALID_START := 62.
Definition E_MISSING_END := 63.
Definition E_INVALID_END := 64.
Definition E_MISSING_VALUE := 65.
Definition E_INVALID_VALUE := 66.
Definition E_FILE_NOT_SORTED := 70.
Definition E_SPLIT := 12.                 (* not grouped: a chromosome comes back in a second run (do_read: the id map already has it) *)      (* parallel task meets a line of another chromosome *)

(* ================= text level ================= *)
(* ASCII part of char::is_whitespace (str::trim_end): space, \t \n \v \f \r *)
Definition is_ws (b : N) : bool := (b =? 32) || ((9 <=? b) && (b <=? 13)).
(* list reversal in linear time (the stdlib's [rev] is quadratic; lines can be long) *)
Definition frev {X} (l : list X) : list X := rev_append l [].
Definition trim_end (l : list N) : list N := frev (skip_while is_ws (frev l)).

(* BufRead::read_line pieces: a line ends after each \n; a last piece without \n is a line if it
   is non-empty.  The \n itself is dropped here: both readers trim_end the line first. *)
Fixpoint lines_aux (cur : list N) (text : list N) : list (list N) :=
  match text with
  | [] => match cur with [] => [] | _ => [frev cur] end
  | b :: r => if b =? 10 then frev cur :: lines_aux [] r else lines_aux (b :: cur) r
  end.
Definition lines_of (text : list N) : list (list N) := lines_aux [] text.

(* str::split(sep): the first piece always exists *)
Fixpoint split_aux (sep : N) (cur : list N) (l : list N) : list N * list (list N) :=
  match l with
  | [] => (frev cur, [])
  | b :: r => if b =? sep then let (f, more) := split_aux sep [] r in (frev cur, f :: more)
              else split_aux sep (b :: cur) r
  end.
Definition split_on (sep : N) (l : list N) : list N * list (list N) := split_aux sep [] l.

(* str::parse::<u32>: an optional '+', then one or more ASCII digits, value below 2^32 *)
Definition is_digit (b : N) : bool := (48 <=? b) && (b <=? 57).
Fixpoint digits_val (acc : N) (l : list N) : option N :=
  match l with
  | [] => Some acc
  | b :: r => if is_digit b then digits_val (acc * 10 + (b - 48)) r else None
  end.
Definition parse_u32 (s : list N) : option N :=
  let body := match s with 43 :: r => r | _ => s end in
  match body with
  | [] => None
  | _ => match digits_val 0 body with
         | Some n => if n <? 2 ^ 32 then Some n else None
         | None => None
         end
  end.

(* what a line parses to: the chromosome field always exists *)
Inductive pres (V : Type) := PErr (code : N) | POk (v : V).
Arguments PErr {V} code.
Arguments POk {V} v.
Definition pline (V : Type) := (name * pres V)%type.

Definition TAB : N := 9.
(* parse_bed: s.trim_end().splitn(4, '\t'): chrom, start, end, (rest: anything) *)
Definition parse_bed_line (line : list N) : pline (N * N) :=
  let (chrom, fs) := split_on TAB (trim_end line) in
  (chrom,
   match fs with
   | [] => PErr E_MISSING_START
   | fs_ :: fs1 =>
       match parse_u32 fs_ with
       | None => PErr E_INVALID_START
       | Some s =>
           match fs1 with
           | [] => PErr E_MISSING_END
           | fe :: _ => match parse_u32 fe with
                        | None => PErr E_INVALID_END
                        | Some e => POk (s, e)
                        end
           end
       end
   end).
(* parse_bedgraph: splitn(5, '\t'): chrom, start, end, value, (rest ignored) *)
Definition parse_bedgraph_line (fok : list N -> bool) (line : list N) : pline (N * N) :=
  let (chrom, fs) := split_on TAB (trim_end line) in
  (chrom,
   match fs with
   | [] => PErr E_MISSING_START
   | fs_ :: fs1 =>
       match parse_u32 fs_ with
       | None => PErr E_INVALID_START
       | Some s =>
           match fs1 with
           | [] => PErr E_MISSING_END
           | fe :: fs2 =>
               match parse_u32 fe with
               | None => PErr E_INVALID_END
               | Some e =>
                   match fs2 with
                   | [] => PErr E_MISSING_VALUE
                   | fv :: _ => if fok fv then POk (s, e) else PErr E_INVALID_VALUE
                   end
               end
           end
       end
   end).

(* ================= stream level ================= *)
(* bigBed entry as far as the checks look at it *)
Record entry := { e_start : N; e_end : N }.
(* bigbedwrite.rs process_val, the three precondition checks *)
Definition bb_check_val (len : N) (cur : entry) (next : option entry) : res unit :=
  if e_end cur <? e_start cur then Err E_BB_START_GT_END
  else if len <=? e_start cur then Err E_BB_START_GE_CHROM
  else match next with
       | Some n => if e_start n <? e_start cur then Err E_BB_UNSORTED else Ok tt
       | None => Ok tt
       end.

Definition name_ltb (a b : name) : bool := match name_cmp a b with Lt => true | _ => false end.
(* IdMap::contains on the chromosomes started so far *)
Definition seen_b (c : name) (seen : list name) : bool := existsb (name_eqb c) seen.

Section Source.
Context {V : Type}.
Variable chk : N -> V -> option V -> res unit.   (* process_val's checks for one value *)
Variable sort_all : bool.                        (* InputSortType::ALL: !allow_out_of_order_chroms *)
Variable sizes : list (name * N).

(* BedParserStreamingIterator::process_to_bbi.  [c], [len]: the chromosome being written and its
   size; [v]: the value read but not yet handed to do_process; [rest]: the lines not yet read.
   Order of events for one value: (on a change of chromosome: order check, then start_processing
   = size lookup), read the next line (a parse error is returned before the held value is
   processed), do_process(held value, next value if it is on the same chromosome).
   [seen]: the chromosomes start_processing has been called for (the id map's keys). *)
Fixpoint serial_loop (seen : list name) (c : name) (len : N) (v : V) (rest : list (pline V)) : res unit :=
  match rest with
  | [] => chk len v None
  | (_, PErr e) :: _ => Err e
  | (c', POk v') :: rest' =>
      if name_eqb c' c then
        do _ <- chk len v (Some v'); serial_loop seen c len v' rest'
      else
        do _ <- chk len v None;
        if sort_all && negb (name_ltb c c') then Err E_CHROM_ORDER else
        match lookup c' sizes with
        | None => Err E_UNKNOWN_CHROM
        | Some len' => if seen_b c' seen then Err E_SPLIT else serial_loop (seen ++ [c']) c' len' v' rest'
        end
  end.
Definition serial (l : list (pline V)) : res unit :=
  match l with
  | [] => Err E_EMPTY
  | (_, PErr e) :: _ => Err e
  | (c, POk v) :: rest =>
      match lookup c sizes with
      | None => Err E_UNKNOWN_CHROM
      | Some len => serial_loop [c] c len v rest
      end
  end.

(* BedParserParallelStreamingIterator: one task per run of lines.  In the task a parse error of
   the NEXT line does not hide the checks of the current value (next_value = None then). *)
Fixpoint par_task (c : name) (len : N) (ls : list (pline V)) : res unit :=
  match ls with
  | [] => Ok tt
  | (_, PErr e) :: _ => Err e
  | (c', POk v) :: rest =>
      if negb (name_eqb c' c) then Err E_FILE_NOT_SORTED else
      let next := match rest with
                  | (c2, POk v2) :: _ => if name_eqb c2 c then Some v2 else None
                  | _ => None
                  end in
      do _ <- chk len v next; par_task c len rest
  end.

(* the `while remaining && queued_reads.len() < 5` loop: [slots] = 5 - queue length.
   For each chromosome popped: assert!(curr != next) , order check against the next index entry,
   start_processing (size lookup, then the id map must not know the chromosome yet), spawn.
   Returns the runs left, the grown queue and the chromosomes started. *)
Fixpoint par_fill (slots : nat) (remaining : list (name * list (pline V))) (queue : list (res unit)) (seen : list name)
  : res (list (name * list (pline V)) * list (res unit) * list name) :=
  match slots with
  | O => Ok (remaining, queue, seen)
  | S k =>
      match remaining with
      | [] => Ok ([], queue, seen)
      | (c, ls) :: rest =>
          let next := match rest with (n, _) :: _ => Some n | [] => None end in
          let start := match lookup c sizes with
                       | None => Err E_UNKNOWN_CHROM
                       | Some len => if seen_b c seen then Err E_SPLIT
                                     else par_fill k rest (queue ++ [par_task c len ls]) (seen ++ [c])
                       end in
          match next with
          | Some n => if name_eqb c n then Panic else
                      if sort_all && name_ltb n c then Err E_CHROM_ORDER else start
          | None => start
          end
      end
  end.
Fixpoint par_loop (fuel : nat) (remaining : list (name * list (pline V))) (queue : list (res unit)) (seen : list name) : res unit :=
  match fuel with
  | O => Fuel
  | S f =>
      do (rq, seen') <- par_fill (5 - length queue) remaining queue seen;
      match snd rq with
      | [] => Ok tt
      | r :: q => do _ <- r; par_loop f (fst rq) q seen'
      end
  end.
Definition parallel (rs : list (name * list (pline V))) : res unit := par_loop (S (length rs)) rs [] [].
End Source.

(* the chromosome index of a grouped file: runs of lines with the same chromosome field *)
Fixpoint line_runs_aux {V} (cur : name) (acc : list (pline V)) (l : list (pline V)) : list (name * list (pline V)) :=
  match l with
  | [] => [(cur, rev acc)]
  | (c, p) :: r => if name_eqb c cur then line_runs_aux cur ((c, p) :: acc) r
                   else (cur, rev acc) :: line_runs_aux c [(c, p)] r
  end.
Definition line_runs {V} (l : list (pline V)) : list (name * list (pline V)) :=
  match l with [] => [] | (c, p) :: r => line_runs_aux c [(c, p)] r end.

(* ================= whole call ================= *)
Definition mk_value (se : N * N) : value := {| v_start := fst se; v_end := snd se; v_bits := 0 |}.
Definition mk_entry (se : N * N) : entry := {| e_start := fst se; e_end := snd se |}.
Definition map_pline {X Y} (f : X -> Y) (p : pline X) : pline Y :=
  (fst p, match snd p with PErr e => PErr e | POk v => POk (f v) end).

Definition bw_lines (fok : list N -> bool) (text : list N) : list (pline value) :=
  map (fun l => map_pline mk_value (parse_bedgraph_line fok l)) (lines_of text).
Definition bb_lines (text : list N) : list (pline entry) :=
  map (fun l => map_pline mk_entry (parse_bed_line l)) (lines_of text).

(* verdict of the write call on a text: the input checks decide; everything after them
   (index, zooms, header) cannot fail on checked input: Proofs/WriterTotal.v.  Two passes read the
   same text twice and meet the first pass's verdict first. *)
Definition bw_text_serial (fok : list N -> bool) (o : opts) (sizes : list (name * N)) (text : list N) : res unit :=
  serial check_val (o_sort_all o) sizes (bw_lines fok text).
Definition bw_text_parallel (fok : list N -> bool) (o : opts) (sizes : list (name * N)) (text : list N) : res unit :=
  parallel check_val (o_sort_all o) sizes (line_runs (bw_lines fok text)).
Definition bb_text_serial (o : opts) (sizes : list (name * N)) (text : list N) : res unit :=
  serial bb_check_val (o_sort_all o) sizes (bb_lines text).
Definition bb_text_parallel (o : opts) (sizes : list (name * N)) (text : list N) : res unit :=
  parallel bb_check_val (o_sort_all o) sizes (line_runs (bb_lines text)).

(* the same decision on already parsed items (what BigWigWrite.v's bw_write takes) *)
Definition ok_lines {V} (l : list (name * V)) : list (pline V) := map (fun it => (fst it, POk (snd it))) l.

(* every line parsed: the items, else None *)
Fixpoint all_ok {V} (l : list (pline V)) : option (list (name * V)) :=
  match l with
  | [] => Some []
  | (c, POk v) :: r => match all_ok r with Some t => Some ((c, v) :: t) | None => None end
  | (_, PErr _) :: _ => None
  end.

(* ---- per-item classes: what is wrong with the item at one position of the stream, given its
   neighbours (declarative reading of the rules; Proofs/AcceptRules.v relates it to [serial]) ---- *)
Definition bw_val_class (len : N) (v : value) (next : option value) : option N :=
  if v_end v <? v_start v then Some E_START_GT_END
  else if len <? v_end v then Some E_END_GT_CHROM
  else match next with
       | Some n => if v_start n <? v_end v then Some E_OVERLAP else None
       | None => None
       end.
Definition bb_val_class (len : N) (v : entry) (next : option entry) : option N :=
  if e_end v <? e_start v then Some E_BB_START_GT_END
  else if len <=? e_start v then Some E_BB_START_GE_CHROM
  else match next with
       | Some n => if e_start n <? e_start v then Some E_BB_UNSORTED else None
       | None => None
       end.
Section Classes.
Context {V : Type}.
Variable vclass : N -> V -> option V -> option N.
Variable sort_all : bool.
Variable sizes : list (name * N).
(* does [cur] start a new run of lines? *)
Definition new_run (prev : option (name * V)) (cur : name * V) : bool :=
  match prev with None => true | Some p => negb (name_eqb (fst cur) (fst p)) end.
(* class of the item [cur] whose predecessor is [prev] and successor [next]; [seen]: the
   chromosomes of the runs that began before this item *)
Definition item_class (seen : list name) (prev : option (name * V)) (cur : name * V) (next : option (name * V)) : option N :=
  let c := fst cur in
  let order_bad := match prev with
                   | None => false
                   | Some p => new_run prev cur && sort_all && negb (name_ltb (fst p) c)
                   end in
  if order_bad then Some E_CHROM_ORDER else
  match lookup c sizes with
  | None => Some E_UNKNOWN_CHROM
  | Some len =>
      if new_run prev cur && seen_b c seen then Some E_SPLIT else
      vclass len (snd cur) (match next with
                            | Some n => if name_eqb (fst n) c then Some (snd n) else None
                            | None => None end)
  end.
Definition step_seen (seen : list name) (prev : option (name * V)) (cur : name * V) : list name :=
  if new_run prev cur then seen ++ [fst cur] else seen.
Fixpoint classes (seen : list name) (prev : option (name * V)) (l : list (name * V)) : list (option N) :=
  match l with
  | [] => []
  | x :: r => item_class seen prev x (hd_error r) :: classes (step_seen seen prev x) (Some x) r
  end.
Fixpoint first_some (l : list (option N)) : option N :=
  match l with [] => None | Some k :: _ => Some k | None :: r => first_some r end.
(* the verdict the rules prescribe: empty input, else the class of the first offending item *)
Definition rule_verdict (l : list (name * V)) : res unit :=
  match l with
  | [] => Err E_EMPTY
  | _ => match first_some (classes [] None l) with Some k => Err k | None => Ok tt end
  end.
End Classes.

(* ---- option guards: the writers refuse option sets they cannot honour before touching the
   input (bbiwrite.rs check_options: block_size >= 2, items_per_slot >= 1) ---- *)
Definition E_OPTIONS := 80.
Definition opts_ok (o : opts) : bool := (2 <=? o_bs o) && (1 <=? o_ips o).
