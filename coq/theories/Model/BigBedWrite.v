(* Model of the bigBed writer: bigbedwrite.rs process_val (checks + sectioning) / encode_section /
   write_pre / BigBedWrite::write / write_multipass, on top of the shared pieces of bbiwrite.rs
   (write_vals / write_vals_no_zoom / write_mid / write_info: Model/BigWigWrite.v [assemble],
   Model/BBIFile.v, Model/RTree.v) and the serial source of beddata.rs (process_to_bbi).
   The model is a pure function from (options, chromosome sizes, autoSql, entry stream) to the bytes of
   the (uncompressed) output file.

   The total summary (40 bytes at the summary offset) and the zoom levels are computed in the real
   writer by coverage sweeps over the entries (process_val's add_interval_to_summary, process_val_zoom);
   those sweeps are modelled in Model/BedSweep.v (C06/C08).  Here they are PARAMETERS
   ([sweep], [zoom_part]) of [bb_write_gen]; nothing else in the file depends on them (the data
   sections, the chromosome tree, the index and every header field except the zoom count precede
   the zoom data and do not depend on the summary).  [bb_write] / [bb_write_multipass] at the end
   instantiate them with the BedSweep functions: the complete byte image of the file.
   No proofs in this file. *)
From BT Require Import Base.Util Base.LE Base.Float Generated.Consts Model.RTree Model.BBIFile Model.BigWigWrite.
From BT Require Model.AutoSql Model.BedSweep.
Local Open Scope N_scope.

Record entry := { e_start : N; e_end : N; e_rest : list N }.   (* rest = UTF-8 bytes of the rest of the line *)

(* error class codes (the harness maps the messages to the same codes) *)
Definition E_BED_START_GT_END := 40.   (* "Invalid bed: {start} > {end}" *)
Definition E_BED_START_GE_LEN := 41.   (* "Invalid bed: `{start}` is greater than the chromosome ... length" *)
Definition E_BED_UNSORTED := 42.       (* "Invalid bed: not sorted on chromosome ..." *)
Definition E_BED_AUTOSQL_NUL := 43.    (* "Invalid autosql: null byte in string" *)
Definition E_BED_OPTIONS := 80.        (* "Invalid options: block_size must be at least 2 / items_per_slot must be at least 1" *)

(* ---- process_val: the three precondition checks, in source order ---- *)
Definition check_entry (len : N) (cur : entry) (next : option entry) : res unit :=
  if e_end cur <? e_start cur then Err E_BED_START_GT_END          (* current_val.start > current_val.end *)
  else if len <=? e_start cur then Err E_BED_START_GE_LEN          (* current_val.start >= chrom_length *)
  else match next with
       | Some n => if e_start n <? e_start cur then Err E_BED_UNSORTED else Ok tt   (* current.start > next.start *)
       | None => Ok tt
       end.

Fixpoint check_entries (len : N) (es : list entry) : res unit :=
  match es with
  | [] => Ok tt
  | x :: r => do _ <- check_entry len x (hd_error r); check_entries len r
  end.

(* ---- process_val: items.push(current); if next.is_none() || items.len() >= items_per_slot { flush } ----
   [items] is the buffer carried from one call to the next; the result is the list of flushed
   sections in order. *)
Fixpoint sections_loop (ips : N) (items : list entry) (l : list entry) : list (list entry) :=
  match l with
  | [] => []
  | x :: r =>
      let items' := items ++ [x] in
      if (match r with [] => true | _ => false end) || (ips <=? Nlen items')
      then items' :: sections_loop ips [] r
      else sections_loop ips items' r
  end.

(* ---- encode_section (uncompressed): records chromId,start,end,rest,NUL; the span handed to the
   index is [first start, LARGEST end] (after the repair of D2 at block level) ---- *)
Definition entry_bytes (chrom : N) (x : entry) : list N :=
  u32 chrom ++ u32 (e_start x) ++ u32 (e_end x) ++ e_rest x ++ [0].
Definition max_end (f : entry) (r : list entry) : N :=
  fold_left (fun m x => N.max m (e_end x)) r (e_end f).
Definition encode_bed_section (chrom : N) (items : list entry) : res sdata :=
  match items with
  | [] => Panic                       (* items_in_section[0] *)
  | f :: r => Ok {| sd_chrom := chrom; sd_start := e_start f; sd_end := max_end f r;
                    sd_bytes := flat_map (entry_bytes chrom) items |}
  end.

(* ---- the serial source: runs of equal chromosome names ---- *)
Definition bitem := (name * entry)%type.
Fixpoint bruns_aux (cur : name) (acc : list entry) (l : list bitem) : list (name * list entry) :=
  match l with
  | [] => [(cur, rev acc)]
  | (c, v) :: r => if name_eqb c cur then bruns_aux cur (v :: acc) r
                   else (cur, rev acc) :: bruns_aux c [v] r
  end.
Definition bruns (l : list bitem) : list (name * list entry) :=
  match l with [] => [] | (c, v) :: r => bruns_aux c [v] r end.

Record bchrom := { bc_id : N; bc_name : name; bc_len : N; bc_entries : list entry }.

(* process_to_bbi in stream order: for each run the chromosome order check against the previous
   run, the size lookup (unknown chromosome), the "seen before" check, the id assignment, then the
   per-entry checks *)
Fixpoint process_bruns (o : opts) (sizes : list (name * N)) (prev : option name) (ids : idmap)
         (rs : list (name * list entry)) : res (idmap * list bchrom) :=
  match rs with
  | [] => Ok (ids, [])
  | (c, es) :: rest =>
      let order_ok := match prev with
                      | Some p => if o_sort_all o then match name_cmp p c with Lt => true | _ => false end else true
                      | None => true end in
      if negb order_ok then Err E_CHROM_ORDER else
      match lookup c sizes with
      | None => Err E_UNKNOWN_CHROM
      | Some len =>
          (* a chromosome whose run reappears is refused (/repo 4ea85d7): checked in start_processing
             after the size lookup and before an id is handed out *)
          match lookup c ids with
          | Some _ => Err E_CHROM_SPLIT
          | None =>
              let (ids', id) := get_id ids c in
              do _ <- check_entries len es;
              do (ids'', outs) <- process_bruns o sizes (Some c) ids' rest;
              Ok (ids'', {| bc_id := id; bc_name := c; bc_len := len; bc_entries := es |} :: outs)
          end
      end
  end.

Definition bb_collect (o : opts) (sizes : list (name * N)) (input : list bitem) : res (idmap * list bchrom) :=
  match input with
  | [] => Err E_EMPTY
  | _ => process_bruns o sizes None [] (bruns input)
  end.

Definition bed_sections (ips chrom : N) (es : list entry) : res (list sdata) :=
  mapM (encode_bed_section chrom) (sections_loop ips [] es).
Definition bb_data (o : opts) (outs : list bchrom) : res (list sdata) :=
  concat_res (map (fun c => bed_sections (o_ips o) (bc_id c) (bc_entries c)) outs).
(* total_items: += 1 per do_process call, summed over chromosomes by the advance closure *)
Definition bb_total_items (outs : list bchrom) : N := sumN (map (fun c => Nlen (bc_entries c)) outs).

(* ---- write_pre: blank headers, the autoSql NUL-terminated at offset 304, 40 bytes for the total
   summary, 8 bytes for the item count ---- *)
Definition ASQL_OFFSET : N := Nlen blank_headers.
Definition bb_pre (sql : list N) : list N := blank_headers ++ sql ++ [0] ++ repeatN 0 40 ++ u64 0.
Definition bb_schema (autosql : option (list N)) : res (list N * N) :=
  match AutoSql.write_pre_schema autosql with
  | Err _ => Err E_BED_AUTOSQL_NUL
  | r => r
  end.

(* ---- whole file ----
   sweep     : the total summary of the accepted input (Model/BedSweep.v)
   zoom_part : the zoom data + indices appended after the main index, and the zoom directory,
               given (chromosomes, summary, data size, file position) *)
Definition bb_write_gen (sweep : list bchrom -> summary)
           (zoom_part : list bchrom -> summary -> N -> N -> res (list N * list zoom_header))
           (o : opts) (sizes : list (name * N)) (autosql : option (list N)) (input : list bitem) : res (list N) :=
  (* bbiwrite.rs check_options, before anything is written (/repo ce12600) *)
  if (o_bs o <? 2) || (o_ips o <? 1) then Err E_BED_OPTIONS else
  do (sql, fc) <- bb_schema autosql;
  do (ids, outs) <- bb_collect o sizes input;
  do data <- bb_data o outs;
  let sum := sweep outs in
  assemble o BIGBED_MAGIC sizes ids sum data (bb_pre sql) fc fc ASQL_OFFSET
           (zoom_part outs sum) (fun _ => bb_total_items outs).

(* the file with the summary slot left zero and no zoom level: what every reader answer about
   chromosomes, entries, autoSql, field counts and the item count is computed from *)
Definition bb_write_nosweep : opts -> list (name * N) -> option (list N) -> list bitem -> res (list N) :=
  bb_write_gen (fun _ => summary_zero) (fun _ _ _ _ => Ok ([], [])).

(* ---- the complete writers: summary and zoom levels from Model/BedSweep.v ---- *)
Definition to_sw (x : entry) : BedSweep.entry :=
  {| BedSweep.e_start := e_start x; BedSweep.e_end := e_end x; BedSweep.e_rest := e_rest x |}.
Definition sw_entries (c : bchrom) : list BedSweep.entry := map to_sw (bc_entries c).

(* the advance closure's fold of the per-chromosome summaries *)
Definition bb_sweep (fp : fpmode) (outs : list bchrom) : summary :=
  BedSweep.bb_total_summary fp (map sw_entries outs).

(* the sections one zoom level receives: per chromosome in stream order, the record lists
   process_val_zoom hands to encode_zoom_section *)
Definition bb_zoom_level (fp : fpmode) (o : opts) (outs : list bchrom) (size : N) : res zoom_level :=
  do secs <- concat_res (map (fun c => do recs <- BedSweep.bb_zoom_records fp (o_ips o) size (bc_id c) (sw_entries c);
                                       mapM (encode_zoom_section fp) recs) outs);
  Ok {| zl_res := size; zl_secs := secs |}.

(* BigBedWrite::write: every candidate level is computed, write_zooms selects *)
Definition bb_zoom_single (fp : fpmode) (o : opts) (outs : list bchrom) (sum : summary) (data_size zpos : N)
  : res (list N * list zoom_header) :=
  do zooms <- mapM (bb_zoom_level fp o outs) (zoom_sizes_single o);
  write_zooms_loop o data_size zpos zooms None 0.
Definition bb_write (fp : fpmode) (o : opts) : list (name * N) -> option (list N) -> list bitem -> res (list N) :=
  bb_write_gen (bb_sweep fp) (bb_zoom_single fp o) o.

(* BigBedWrite::write_multipass: BigBedNoZoomsProcess counts the records each resolution of the
   ladder would need, write_zoom_vals selects the resolutions and writes every selected level *)
Definition chrom_out_of (c : bchrom) : chrom_out :=
  {| co_id := bc_id c; co_name := bc_name c; co_len := bc_len c; co_vals := map BedSweep.value_of_entry (sw_entries c) |}.
Definition bb_zoom_two_pass (fp : fpmode) (o : opts) (outs : list bchrom) (sum : summary) (data_size zpos : N)
  : res (list N * list zoom_header) :=
  let zsizes := zoom_sizes_two_pass o sum (total_zoom_counts (map chrom_out_of outs)) data_size in
  do zooms <- mapM (bb_zoom_level fp o outs) zsizes;
  write_zooms_two_pass o zpos zooms.
Definition bb_write_multipass (fp : fpmode) (o : opts) : list (name * N) -> option (list N) -> list bitem -> res (list N) :=
  bb_write_gen (bb_sweep fp) (bb_zoom_two_pass fp o) o.
