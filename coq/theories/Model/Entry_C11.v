(* C11 entry (glue; the modelled code is in Model/BigWigWrite.v and Model/Pipeline.v).

   case   = (kind opts sizes items cfgs)
            kind   0 bigWig single pass | 1 bigWig two passes | 2 bigBed single pass | 3 bigBed two passes
            opts, sizes as in Model/EntryBBI.v; items ((name start end f32bits) ...) for bigWig,
            ((name start end (rest bytes)) ...) for bigBed
            cfgs   ((threads inmemory channel_size source delay_seed) ...): the configurations the harness runs
                   the real writer under; read by the harness only (the model has no such inputs: that the
                   bytes do not depend on them is the property).  cfg 0 is the reference run.
   output = (0 file-bytes-or-() (d ...))   written; file bytes for an uncompressed file (bigWig and bigBed)
            (1 code (d ...))               refused by the reference run
            (2) panic, (3) hang
            d = () when that configuration's result equals the reference run's, else (index first-difference length)
   The model prints the sequential writer model's bytes and () for every configuration: bigWig
   Model/BigWigWrite.v through EntryBBI.write_model, bigBed Model/BigBedWrite.v (bb_write /
   bb_write_multipass, summary and zoom levels from Model/BedSweep.v) through EntryBed.bed_write_model
   with no autoSql (the harness leaves BigBedWrite::autosql = None: the library's BED3 text).

   entry 2: (case cap win ((t k i) ...)): runs the executable pipeline machine on the case's real section
            data under the given schedule (then a fair continuation) and compares with the sequential
            model's data region and index: (ok sections chromosomes). *)
From BT Require Import Base.Util Base.Sexp Base.LE Base.Float Generated.Consts Model.RTree Model.BBIFile Model.BigWigWrite
  Model.BBIRead Model.EntryBBI Model.Pipeline.
From BT Require Model.BigBedWrite Model.EntryBed.
Local Open Scope N_scope.

Definition cfgs_of (c : sexp) : list sexp := getL (nthS 4 c).
Definition all_same (c : sexp) : sexp := L (map (fun _ => L []) (cfgs_of c)).

(* the bigBed case in the vocabulary of Model/EntryBed.v: (kind opts sizes input queries autosql flags),
   kind 0 single pass | 1 two passes, no query, no autoSql, flags 0 = the complete file *)
Definition bed_case (c : sexp) : sexp :=
  L [sN (getN (nthS 0 c) - 2); nthS 1 c; nthS 2 c; nthS 3 c; L []; L []; A 0%Z].
Definition c11_write_model (c : sexp) : res (list N) :=
  if 2 <=? getN (nthS 0 c) then EntryBed.bed_write_model (bed_case c) else write_model c.

Definition c11_model (c : sexp) : sexp :=
  match c11_write_model c with
  | Ok bs => L [A 0%Z; (if o_compress (get_opts (nthS 1 c)) then L [] else sBytes bs); all_same c]
  | Err code => L [A 1%Z; sN code; all_same c]
  | Panic => L [A 2%Z]
  | Fuel => L [A 3%Z]
  end.

(* the property on what the implementation returned: the reference run finished (written or refused) and
   every configuration produced the reference run's result *)
Definition is_nil (s : sexp) : bool := match s with L [] => true | _ => false end.
Definition c11_oracle (c out : sexp) : sexp :=
  let st := getZ (nthS 0 out) in
  let ds := getL (nthS 2 out) in
  sB ((Z.eqb st 0 || Z.eqb st 1) && Nat.eqb (length ds) (length (cfgs_of c)) && forallb is_nil ds).

(* ---- entry 2: the pipeline machine on the case's section data *)
Definition get_task (s : sexp) : task :=
  let k := getNat (nthS 1 s) in
  match getZ (nthS 0 s) with
  | 0 => TMain | 1 => TProd k | 2 => TEnc k (getNat (nthS 2 s)) | 3 => TWrite k | _ => TSplice
  end%Z.

Definition sect_eqb (a b : sect) : bool :=
  (s_chrom a =? s_chrom b) && (s_start a =? s_start b) && (s_end a =? s_end b) && (s_off a =? s_off b) && (s_size a =? s_size b).
Fixpoint list_eqb {X} (eqb : X -> X -> bool) (a b : list X) : bool :=
  match a, b with
  | [], [] => true
  | x :: r, y :: q => eqb x y && list_eqb eqb r q
  | _, _ => false
  end.

Definition c11_pipeline (arg : sexp) : sexp :=
  let c := nthS 0 arg in
  let cap := getNat (nthS 1 arg) in
  let win := getNat (nthS 2 arg) in
  let sched := getList get_task (nthS 3 arg) in
  let o := get_opts (nthS 1 c) in
  let sizes := get_sizes (nthS 2 c) in
  let input := getList get_item (nthS 3 c) in
  match bw_collect ieee o sizes input with
  | Ok (_, outs, _, data) =>
      match mapM (fun co => data_sections (o_ips o) (co_id co) (co_vals co)) outs with
      | Ok Ss =>
          let K := length Ss in
          let longest := fold_right (fun S m => Nat.max (length S) m) 0%nat Ss in
          let fair := rounds (4 * length data + 6 * K + 8) (all_tasks K (Nat.min cap longest)) in
          let s := run (mkg cap win true) (sched ++ fair) (init bw_pre Ss) in
          let ok := terminal s && list_eqb N.eqb (sp_file s) (bw_pre ++ data_bytes data)
                    && list_eqb sect_eqb (final_index PRE_DATA s) (place PRE_DATA data) in
          L [sB ok; sNat (length data); sNat K]
      | _ => L [A (-2)%Z]
      end
  | _ => L [A (-1)%Z]
  end.

Definition dispatch (k : Z) (arg : sexp) : sexp :=
  match k with
  | 0 => c11_model arg
  | 1 => c11_oracle (nthS 0 arg) (nthS 1 arg)
  | 2 => c11_pipeline arg
  | _ => L [A (-1)%Z]
  end%Z.
