(* Case decoding, result encoding and the property oracle for C20 (glue; the modelled code and the
   documented meaning of a cell are in Model/PyArrays.v).
   case   = (kind len items queries)     kind 0 bigWig values ((start end v8) ..), 1 bigBed entries
            ((start end) ..), 2 / 3 zoom records ((start end bases min8 max8 sum8) ..) through the
            bigWig / bigBed zoom routine
   query  = (s e bins stat missing oob touch)   bins 0 = per base; stat 0 mean 1 min 2 max;
            missing / oob: () = NaN, k = k/8
   result = (r ..) one per query: (0 (cell ..)) | (1 code) | (2) panic
   cell   = () NaN | (num den) the exact number num/den | (1 0) +inf | (-1 0) -inf.
   Oracle: kinds 0 / 1 per base exact, integral bin width exact, other widths range / NaN-freedom; kinds 2 / 3
   (zoom) `missing` iff no record overlaps the bin, else a number within the overlapping records' [min, max],
   `oob` for bins leaving the chromosome.
   The implementation side prints f64 bit patterns; tools/vlib/props/C20.py rewrites each into the
   exact fraction it denotes before the oracle sees it. *)
From BT Require Import Base.Util Base.Sexp Model.PyArrays.
Local Open Scope Z_scope.

Definition get_fl (s : sexp) : fl := match s with A z => FV z | L _ => FNaN end.
Definition get_stat (s : sexp) : stat := match getZ s with 0 => Mean | 1 => Min | _ => Max end.
Definition get_wval (s : sexp) : wval :=
  {| w_start := getZ (nthS 0 s); w_end := getZ (nthS 1 s); w_val := getZ (nthS 2 s) |}.
Definition get_bent (s : sexp) : bent := {| b_start := getZ (nthS 0 s); b_end := getZ (nthS 1 s) |}.
Definition get_zrec (s : sexp) : zrec :=
  {| z_start := getZ (nthS 0 s); z_end := getZ (nthS 1 s); z_bases := getZ (nthS 2 s);
     z_min := getZ (nthS 3 s); z_max := getZ (nthS 4 s); z_sum := getZ (nthS 5 s) |}.

Definition s_out (o : out) : sexp :=
  match o with
  | ONaN => L []
  | OInf neg => L [A (if neg then -1 else 1); A 0]
  | OQ n d => L [A n; A (8 * d)]
  end.
Definition s_res (r : res (list out)) : sexp :=
  match r with
  | Ok l => L [A 0; sList s_out l]
  | Err c => L [A 1; sN c]
  | Panic => L [A 2]
  | Fuel => L [A 3]
  end.

Definition run_query (kind len : Z) (items q : sexp) : res (list out) :=
  let s := getZ (nthS 0 q) in let e := getZ (nthS 1 q) in
  let bins := getZ (nthS 2 q) in let st := get_stat (nthS 3 q) in
  let missing := get_fl (nthS 4 q) in let oob := get_fl (nthS 5 q) in
  let touch := getB (nthS 6 q) in
  let ob := if bins =? 0 then None else Some bins in
  match kind with
  | 0 => values_wig len (getList get_wval items) s e ob st missing oob
  | 1 => values_bed touch len (getList get_bent items) s e ob st missing oob
  | 2 => values_wig_zoom touch len (getList get_zrec items) s e bins st missing oob
  | _ => values_bed_zoom touch len (getList get_zrec items) s e bins st missing oob
  end.

Definition c20_model (c : sexp) : sexp :=
  let kind := getZ (nthS 0 c) in let len := getZ (nthS 1 c) in let items := nthS 2 c in
  sList (fun q => s_res (run_query kind len items q)) (getL (nthS 3 c)).

(* ---- oracle: the property evaluated on what the implementation returned *)
(* implementation cell (exact fraction a/b, b > 0) against a documented value num/den eighths:
   equal; for a mean, equal up to the rounding of the one division (relative 2^-52) *)
Definition cell_is (tol : bool) (c : sexp) (o : out) : bool :=
  match o, getL c with
  | ONaN, [] => true
  | OInf neg, [A a; A 0] => if neg then a <? 0 else 0 <? a
  | OQ n d, [A a; A b] =>
      (0 <? b) &&
      (let x := a * (8 * d) in let y := n * b in
       if tol then Z.abs (x - y) * 2 ^ 52 <=? Z.abs y else x =? y)
  | _, _ => false
  end.
(* a number between lo and hi eighths *)
Definition cell_within (c : sexp) (lo hi : Z) : bool :=
  match getL c with
  | [A a; A b] => (0 <? b) && (lo * b <=? 8 * a) && (8 * a <=? hi * b)
  | _ => false
  end.
Definition fold_min (l : list Z) : Z := match l with [] => 0 | x :: r => fold_left Z.min r x end.
Definition fold_max (l : list Z) : Z := match l with [] => 0 | x :: r => fold_left Z.max r x end.

(* a well-formed zoom level: records non-empty, in order, disjoint, inside [lo, len); at least one covered
   base; min <= sum / bases_covered <= max *)
Fixpoint zoom_saneb (lo len : Z) (recs : list zrec) : bool :=
  match recs with
  | [] => true
  | z :: r => (lo <=? z_start z) && (z_start z <? z_end z) && (z_end z <=? len) && (0 <? z_bases z)
              && (z_min z * z_bases z <=? z_sum z) && (z_sum z <=? z_max z * z_bases z)
              && zoom_saneb (z_end z) len r
  end.

Definition query_ok (kind len : Z) (items q r : sexp) : bool :=
  let s := getZ (nthS 0 q) in let e := getZ (nthS 1 q) in
  let bins := getZ (nthS 2 q) in let st := get_stat (nthS 3 q) in
  let missing := get_fl (nthS 4 q) in let oob := get_fl (nthS 5 q) in
  let cells := getL (nthS 1 r) in
  let n := if bins =? 0 then e - s else bins in
  (getZ (nthS 0 r) =? 0) && (Z.of_nat (length cells) =? n) &&
  match kind with
  | 0 | 1 =>
      let sig := if kind =? 0 then wig_at (getList get_wval items) else bed_at (getList get_bent items) in
      if bins =? 0 then
        (* per base: the stored value / the depth, `missing` without data, `oob` outside [0, len) *)
        forallb (fun ic => cell_is false (snd ic) (base_cell sig len missing oob (s + fst ic)))
                (combine (seqZ 0 (length cells)) cells)
      else if (e - s) mod bins =? 0 then
        (* whole-number bin width: the statistic over the covered bases of the bin's span; a bin that
           sticks out of the chromosome may be `oob` or the statistic over its part inside *)
        let w := (e - s) / bins in
        forallb (fun ic => let lo := s + fst ic * w in let hi := lo + w in
                           let inside := stat_of st missing (covered_vals sig (Z.max lo 0) (Z.min hi len)) in
                           let tol := match st with Mean => true | _ => false end in
                           if (0 <=? lo) && (hi <=? len) then cell_is tol (snd ic) inside
                           else cell_is false (snd ic) (out_of_fl oob) || cell_is tol (snd ic) inside)
                (combine (seqZ 0 (length cells)) cells)
      else
        (* any other width: every cell is `oob`, `missing`, or a number within the range of the data
           in the queried part of the chromosome; in particular never NaN for finite missing / oob *)
        let all := covered_vals sig (Z.max s 0) (Z.min e len) in
        forallb (fun c => cell_is false c (out_of_fl oob) || cell_is false c (out_of_fl missing)
                          || (negb (Nat.eqb (length all) 0) && cell_within c (fold_min all) (fold_max all)))
                cells
  | _ =>
      (* zoom routes (exact = False): a bin no record overlaps reads `missing`; a bin with data reads a number
         within the range [smallest min_val, largest max_val] of the records overlapping it -- for min at most
         the smallest max_val, for max at least the largest min_val: the values the true statistic of the bin
         can have given the level (whatever the interpolation: in particular it does not depend on `missing`
         and is never NaN); a bin that sticks out
         of the chromosome may be `oob` or that value for its part inside.  Only for a well-formed level
         (records ordered, disjoint, inside the chromosome, min <= mean <= max; for the bigBed routine
         non-negative statistics, as depths are) and 1..e-s bins. *)
      let recs := getList get_zrec items in
      if negb (zoom_saneb 0 len recs && (0 <? bins) && (bins <=? e - s)
               && ((kind =? 2) || forallb (fun z => 0 <=? z_min z) recs)) then true else
      forallb (fun ic => let lo := s + bin_edge (fst ic) (e - s) bins in
                         let hi := s + bin_edge (fst ic + 1) (e - s) bins in
                         let ov := filter (fun z => 0 <? zov (Z.max lo 0) (Z.min hi len) z) recs in
                         let inner := match ov with
                                      | [] => cell_is false (snd ic) (out_of_fl missing)
                                      | _ => cell_within (snd ic)
                                               (match st with Max => fold_max (map z_min ov) | _ => fold_min (map z_min ov) end)
                                               (match st with Min => fold_min (map z_max ov) | _ => fold_max (map z_max ov) end)
                                      end in
                         if (0 <=? lo) && (hi <=? len) then inner
                         else cell_is false (snd ic) (out_of_fl oob) || inner)
              (combine (seqZ 0 (length cells)) cells)
  end.

Definition c20_oracle (c out : sexp) : sexp :=
  let kind := getZ (nthS 0 c) in let len := getZ (nthS 1 c) in let items := nthS 2 c in
  let qs := getL (nthS 3 c) in let rs := getL out in
  sB (Nat.eqb (length qs) (length rs) &&
      forallb (fun qr => query_ok kind len items (fst qr) (snd qr)) (combine qs rs)).

(* entry 0: model output; entry 1: oracle on (case, implementation output) *)
Definition dispatch (k : Z) (arg : sexp) : sexp :=
  match k with
  | 0 => c20_model arg
  | 1 => c20_oracle (nthS 0 arg) (nthS 1 arg)
  | _ => L [A (-1)]
  end.
