(* Model of split_file_into_chunks_by_size (bigtools/src/utils/file.rs) on a file given as its
   bytes, and of the line stream a StreamingLineReader<BufReader<_>> delivers.  No proofs here.

   The chunker works on bytes (since e321e39 the real one does too: read_until, not read_line, after
   the seek, which may land inside a multi-byte character).  The line streams are read with
   read_line, which validates UTF-8: inputs are valid UTF-8 and every piece starts at a line start,
   so the validation never fails.  Not modelled: str::trim_end for non-ASCII white space (U+0085,
   U+00A0, ...), u64 overflow of chunk_start + 2*chunk_size (file sizes are far below 2^62), and
   the allocation Vec::with_capacity(chunks) for absurd chunk counts. *)
From BT Require Import Base.Util.
Local Open Scope N_scope.

Definition NL : N := 10.

(* file_reader.seek(Start(pos)); file_reader.read_line(..); file_reader.seek(Current(0)):
   the position after the first newline at or after pos, or the end of the file; a seek
   beyond the end reads nothing and stays there.  [off] is the offset of the head of [bytes]. *)
Fixpoint line_end (bytes : list N) (off pos : N) : N :=
  match bytes with
  | [] => N.max off pos
  | x :: r => if (pos <=? off) && (x =? NL) then off + 1 else line_end r (off + 1) pos
  end.

(* the loop of split_file_into_chunks_by_size; one unit of fuel per iteration *)
Fixpoint split_loop (fuel : nat) (file : list N) (file_size chunk_size chunk_start chunk_end : N)
  : res (list (N * N)) :=
  match fuel with
  | O => Fuel
  | S f =>
      let le := line_end file 0 chunk_end in
      let chunk_end1 := le in
      let item := (chunk_start, chunk_end1) in
      (* (chunk_start, chunk_end) = (chunk_end, chunk_end.max(chunk_start + chunk_size + chunk_size)) *)
      let chunk_start' := chunk_end1 in
      let chunk_end' := N.max chunk_end1 (chunk_start + chunk_size + chunk_size) in
      let chunk_end' := N.min chunk_end' file_size in
      if file_size <=? chunk_start' then Ok [item]
      else do rest <- split_loop f file file_size chunk_size chunk_start' chunk_end'; Ok (item :: rest)
  end.

Definition split_fuel (file : list N) : nat := S (length file).

Definition split_file_into_chunks_by_size (file : list N) (chunks : N) : res (list (N * N)) :=
  if chunks =? 0 then Panic       (* file_size / chunks: attempt to divide by zero *)
  else
    let file_size := Nlen file in
    let chunk_size := file_size / chunks in
    split_loop (split_fuel file) file file_size chunk_size 0 chunk_size.

(* BufRead::read_line repeatedly: pieces ending after each newline, a last piece without one *)
Fixpoint split_lines_acc (bytes acc : list N) : list (list N) :=
  match bytes with
  | [] => match acc with [] => [] | _ => [rev acc] end
  | x :: r => if x =? NL then rev (x :: acc) :: split_lines_acc r [] else split_lines_acc r (x :: acc)
  end.
Definition split_lines (bytes : list N) : list (list N) := split_lines_acc bytes [].

(* str::trim_end on ASCII text: White_Space below 128 is 9..13 and 32 *)
Definition is_ws (x : N) : bool := ((9 <=? x) && (x <=? 13)) || (x =? 32).
Fixpoint trim_start (l : list N) : list N :=
  match l with [] => [] | x :: r => if is_ws x then trim_start r else l end.
Definition trim_end (l : list N) : list N := rev (trim_start (rev l)).

(* StreamingLineReader::read until None, over a reader that delivers [bytes] *)
Definition line_stream (bytes : list N) : list (list N) := map trim_end (split_lines bytes).

(* ---- reference definitions (what a correct chunk list is) ---- *)
(* consecutive pieces (a_i, b_i): the first starts at [a], each starts where the one before ends,
   the last ends at [e] *)
Inductive chain : N -> list (N * N) -> N -> Prop :=
| chain_last a b : a <= b -> chain a [(a, b)] b
| chain_cons a b cs e : a <= b -> chain b cs e -> chain a ((a, b) :: cs) e.
(* offset p is the start of a line: the start of the file, or the byte before it is a newline *)
Definition cut_ok (file : list N) (p : N) : Prop :=
  p = 0 \/ exists pre post, file = pre ++ NL :: post /\ p = Nlen pre + 1.
