(* Model of split_file_into_chunks_by_size (bigtools/src/utils/file.rs) on a file given as its
   bytes, and of the line stream a StreamingLineReader<BufReader<_>> delivers.  No proofs here.

   The chunker works on bytes (since e321e39 the real one does too: read_until, not read_line, after
   the seek, which may land inside a multi-byte character).  The line streams are read with
   read_line, which validates UTF-8: inputs are valid UTF-8 and every piece starts at a line start,
   so the validation never fails.  Not modelled: str::trim_end for non-ASCII white space (U+0085,
   U+00A0, ...), u64 overflow of chunk_start + 2*chunk_size (file sizes are far below 2^62), and
   the allocation Vec::with_capacity(chunks) for absurd chunk counts. *)
From BT Require Import Base.Util Model.FileView.
Local Open Scope N_scope.

Definition NL : N := 10.

(* file_reader.seek(Start(pos)); file_reader.read_line(..); file_reader.seek(Current(0)):
   the position after the first newline at or after pos, or the end of the file; a seek
   beyond the end reads nothing and stays there.  [off] is the offset of the head of [bytes]. *)
Fixpoint line_end (bytes : list N) (off pos : N) : N :=
  match bytes with
  | [] => N.max off pos
  | x :: r => if (pos <=? off) && (x =? NL) then off + 1 else line_end r (off + 1) pos
  end.

(* the loop of split_file_into_chunks_by_size; one unit of fuel per iteration *)
Fixpoint split_loop (fuel : nat) (file : list N) (file_size chunk_size chunk_start chunk_end : N)
  : res (list (N * N)) :=
  match fuel with
  | O => Fuel
  | S f =>
      let le := line_end file 0 chunk_end in
      let chunk_end1 := le in
      let item := (chunk_start, chunk_end1) in
      (* (chunk_start, chunk_end) = (chunk_end, chunk_end.max(chunk_start + chunk_size + chunk_size)) *)
      let chunk_start' := chunk_end1 in
      let chunk_end' := N.max chunk_end1 (chunk_start + chunk_size + chunk_size) in
      let chunk_end' := N.min chunk_end' file_size in
      if file_size <=? chunk_start' then Ok [item]
      else do rest <- split_loop f file file_size chunk_size chunk_start' chunk_end'; Ok (item :: rest)
  end.

Definition split_fuel (file : list N) : nat := S (length file).

Definition split_file_into_chunks_by_size (file : list N) (chunks : N) : res (list (N * N)) :=
  if chunks =? 0 then Panic       (* file_size / chunks: attempt to divide by zero *)
  else
    let file_size := Nlen file in
    let chunk_size := file_size / chunks in
    split_loop (split_fuel file) file file_size chunk_size 0 chunk_size.

(* BufRead::read_line repeatedly: pieces ending after each newline, a last piece without one *)
Fixpoint split_lines_acc (bytes acc : list N) : list (list N) :=
  match bytes with
  | [] => match acc with [] => [] | _ => [rev acc] end
  | x :: r => if x =? NL then rev (x :: acc) :: split_lines_acc r [] else split_lines_acc r (x :: acc)
  end.
Definition split_lines (bytes : list N) : list (list N) := split_lines_acc bytes [].

(* str::trim_end on ASCII text: White_Space below 128 is 9..13 and 32 *)
Definition is_ws (x : N) : bool := ((9 <=? x) && (x <=? 13)) || (x =? 32).
Fixpoint trim_start (l : list N) : list N :=
  match l with [] => [] | x :: r => if is_ws x then trim_start r else l end.
Definition trim_end (l : list N) : list N := rev (trim_start (rev l)).

(* StreamingLineReader::read until None, over a reader that delivers [bytes] *)
Definition line_stream (bytes : list N) : list (list N) := map trim_end (split_lines bytes).

(* ---- reference definitions (what a correct chunk list is) ---- *)
(* consecutive pieces (a_i, b_i): the first starts at [a], each starts where the one before ends,
   the last ends at [e] *)
Inductive chain : N -> list (N * N) -> N -> Prop :=
| chain_last a b : a <= b -> chain a [(a, b)] b
| chain_cons a b cs e : a <= b -> chain b cs e -> chain a ((a, b) :: cs) e.
(* offset p is the start of a line: the start of the file, or the byte before it is a newline *)
Definition cut_ok (file : list N) (p : N) : Prop :=
  p = 0 \/ exists pre post, file = pre ++ NL :: post /\ p = Nlen pre + 1.

(* ---- the line streams again, operationally: std's BufReader<FileView> as Read calls on the view ----
   (std::io::BufReader::fill_buf / consume, std::io::read_until, and the `loop { read_line }` of the
   readers).  A BufReader keeps the bytes of its last Read that were not consumed yet and issues one
   Read, into its whole internal buffer, when and only when none are left.  The size of the k-th Read
   is [sz k]: a BufReader has a constant capacity; the theorems hold for every schedule of sizes >= 1,
   i.e. for any sequence of Read n calls a buffered reader may make.  read_line's UTF-8 validation
   is outside the model (see the header). *)
Record bufrd := mkBuf { b_view : view; b_buf : list N; b_fills : nat }.
Definition buf_new (v : view) : bufrd := {| b_view := v; b_buf := []; b_fills := O |}.

(* fill_buf: `if self.pos >= self.filled { self.inner.read(&mut self.buf) }` *)
Definition fill_buf (file : list N) (sz : nat -> N) (r : bufrd) : res bufrd :=
  match b_buf r with
  | [] => do x <- view_read file (b_view r) (sz (b_fills r));
          Ok {| b_view := snd x; b_buf := fst x; b_fills := S (b_fills r) |}
  | _ :: _ => Ok r
  end.

(* memchr(b'\n', available): the bytes up to and including the first newline (all of them when there
   is none), the bytes after it, and whether there is one *)
Fixpoint upto_nl (l : list N) : list N * list N * bool :=
  match l with
  | [] => ([], [], false)
  | x :: r => if x =? NL then ([x], r, true)
              else let '(a, b, f) := upto_nl r in (x :: a, b, f)
  end.

(* std::io::read_until(r, b'\n', buf): loop { available = fill_buf; take up to the newline; consume;
   if done || used == 0 { return } }.  [acc]: the bytes appended to buf so far. *)
Fixpoint read_until_nl (fuel : nat) (file : list N) (sz : nat -> N) (r : bufrd) (acc : list N)
  : res (list N * bufrd) :=
  match fuel with
  | O => Fuel
  | S f =>
      do r1 <- fill_buf file sz r;
      let '(tk, rest, found) := upto_nl (b_buf r1) in
      let r2 := {| b_view := b_view r1; b_buf := rest; b_fills := b_fills r1 |} in
      if found || (match tk with [] => true | _ :: _ => false end) then Ok (acc ++ tk, r2)
      else read_until_nl f file sz r2 (acc ++ tk)
  end.

(* loop { line.clear(); if read_line(&mut line)? == 0 { break }; yield line }: the raw lines *)
Fixpoint read_lines (fuel : nat) (file : list N) (sz : nat -> N) (r : bufrd) : res (list (list N)) :=
  match fuel with
  | O => Fuel
  | S f =>
      do x <- read_until_nl fuel file sz r [];
      match fst x with
      | [] => Ok []
      | l => do more <- read_lines f file sz (snd x); Ok (l :: more)
      end
  end.

(* BufReader::new(FileView::new(file, a, b)?) read line by line to the end; fuel > file length is enough *)
Definition view_lines (fuel : nat) (file : list N) (sz : nat -> N) (a b : N) : res (list (list N)) :=
  do v <- view_new (Nlen file) a b; read_lines fuel file sz (buf_new v).
Definition lines_fuel (file : list N) : nat := S (length file).

(* the parallel path of bigwigaverageoverbed: one BufReader<FileView> per chunk; task i reads with the
   size schedule [sz i] *)
Fixpoint chunk_streams_from (i : nat) (fuel : nat) (file : list N) (sz : nat -> nat -> N) (cs : list (N * N))
  : list (res (list (list N))) :=
  match cs with
  | [] => []
  | ab :: r => view_lines fuel file (sz i) (fst ab) (snd ab) :: chunk_streams_from (S i) fuel file sz r
  end.
Definition chunk_streams := chunk_streams_from O.
