(* C06 entry: model output (bigWig: the shared BBI glue with the single query (3); bigBed: the sweep
   model's observables) and the oracle = the property evaluated naively on the case: for a bigWig the
   statistics of the stored values weighted by their lengths, for a bigBed the statistics of the per-base
   coverage depth computed base by base, compared with the summary the implementation's reader returned. *)
From BT Require Import Base.Util Base.Sexp Base.Float Model.RTree Model.BBIFile Model.BigWigWrite Model.BBIRead
  Model.EntryBBI Model.BedSweep Spec.Depth Model.EntryBedSweep.
Local Open Scope N_scope.

(* ---- bigBed ---- *)
Definition bb_expected (c : sexp) : N * N * N * N * option N * option N :=   (* items bases sum sumsq min max *)
  let dls := map (fun ch => depth_list (snd ch)) (case_chroms c) in
  (Nlen (getL (nthS 3 c)),
   sumN (map (st_cov idN) dls), sumN (map (st_sum idN) dls), sumN (map (st_sumsq idN) dls),
   fold_left (fun a dl => opt_meet N.min a (st_min idN dl)) dls None,
   fold_left (fun a dl => opt_meet N.max a (st_max idN dl)) dls None).

Definition bb_summary_ok (c out : sexp) : bool :=
  let '(items, bases, sum, sumsq, mn, mx) := bb_expected c in
  let s := nthS 1 out in
  (getN (nthS 0 s) =? items) && (getN (nthS 2 out) =? items) &&
  (getN (nthS 1 s) =? bases) &&
  (getN (nthS 4 s) =? f64bits_of_N sum) && (getN (nthS 5 s) =? f64bits_of_N sumsq) &&
  match mn with Some m => getN (nthS 2 s) =? f64bits_of_N m | None => true end &&
  match mx with Some m => getN (nthS 3 s) =? f64bits_of_N m | None => true end.

(* ---- bigWig ---- *)
Definition bw_items_of (c : sexp) : list value := map snd (getList get_item (nthS 3 c)).
Definition v_len (v : value) : N := v_end v - v_start v.
(* number of sections = per chromosome ceil(n / items_per_slot) *)
Definition bw_section_count (c : sexp) : N :=
  let ips := o_ips (get_opts (nthS 1 c)) in
  sumN (map (fun r => (Nlen (snd r) + ips - 1) / ips) (runs (getList get_item (nthS 3 c)))).

Definition bw_summary_ok (c out : sexp) : bool :=
  let vs := bw_items_of c in
  let qs := getL (nthS 4 c) in
  let ans := getL (nthS 2 out) in
  forallb (fun qa =>
     if getN (nthS 0 (fst qa)) =? 3 then
       let s := nthS 1 (snd qa) in
       let sum := fold_left (fun a v => fadd64 exact a (fmul64 exact (f_of_N (v_len v)) (v_val v))) vs fzero in
       let sumsq := fold_left (fun a v => fadd64 exact a (fmul64 exact (fmul64 exact (f_of_N (v_len v)) (v_val v)) (v_val v))) vs fzero in
       (getZ (nthS 0 (snd qa)) =? 0)%Z &&
       (getN (nthS 0 s) =? bw_section_count c) &&
       (getN (nthS 1 s) =? sumN (map v_len vs)) &&
       (getN (nthS 4 s) =? bits_of_f64 sum) && (getN (nthS 5 s) =? bits_of_f64 sumsq) &&
       match vs with
       | [] => true
       | v0 :: r =>
           (getN (nthS 2 s) =? bits_of_f64 (fold_left (fun a v => fmin a (v_val v)) r (v_val v0))) &&
           (getN (nthS 3 s) =? bits_of_f64 (fold_left (fun a v => fmax a (v_val v)) r (v_val v0)))
       end
     else true) (combine qs ans) && Nat.eqb (length qs) (length ans).

Definition c06_oracle (c out : sexp) : sexp :=
  if negb (Z.eqb (getZ (nthS 0 out)) 0) then sB true     (* refused: C06 speaks about accepted inputs *)
  else if getN (nthS 0 c) <? 2 then sB (bw_summary_ok c out)
  else sB (bb_summary_ok c out).

Definition dispatch (k : Z) (arg : sexp) : sexp :=
  match k with
  | 0 => c0608_model arg
  | 1 => c06_oracle (nthS 0 arg) (nthS 1 arg)
  | _ => L [A (-1)%Z]
  end%Z.
