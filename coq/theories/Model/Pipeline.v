(* Model of the concurrent write pipeline of bbiwrite.rs and of the multi-threaded converters
   (bigwigtobedgraph.rs write_bg, bigbedtobed.rs write_bed) as transition systems whose schedules
   are arbitrary lists of task ids.  A pure function is deterministic by construction; what C11
   claims is that the PROTOCOL between the tasks makes the result independent of the schedule,
   so the tasks, their queues and their enabling conditions are what is modelled here.

   ---------------------------------------------------------------- the writer (part 1)
   bbiwrite.rs, per chromosome k (future_channel / setup_chrom / process_val / write_data):
     producer k      process_val: when a section is full, `runtime.spawn(encode_section(..))` and
                     `ftx.send(handle).await` into a bounded channel (capacity [cap] =
                     channel_size + 1 sender slot); blocks while the channel is full
     encode tasks    complete in ANY order                                  [TEnc k i]
     write task k    write_data: `while let Some(h) = frx.next().await { let s = h.await; write_all(s) }`
                     takes handles from the channel in FIFO order and WAITS for the head; returns when
                     the channel is closed and empty; returning drops the BufWriter and with it the
                     TempFileBufferWriter: the staging buffer of chromosome k is then closed
     staging buffer  TempFileBuffer k.  It is abstracted by the contract proved for it in C12
                     (Properties/C12.v, C12_delivery_writes, re-stated for this use as
                     Proofs/PipelineThms.v buffer_contract): whatever the interleaving of the producer's
                     writes with switch(d0) and await_real_file(), the destination handed back is
                     d0 ++ (all bytes written, once, in order).  So the model records only the list
                     of sections written so far [c_out] and whether the writer was dropped [c_wdone].
   main thread       BBIDataSource::process_to_bbi: start_processing(k) for k = 0, 1, .. IN ORDER (each
                     creates the channel, buffer and write task of chromosome k and sends them to the
                     splice task through an unbounded channel), at most [win] chromosomes started and
                     not yet advanced (win = 1: BedParserStreamingIterator, the serial source; win = 5:
                     BedParserParallelStreamingIterator, `queued_reads.len() < 4 + 1`); advance(k) in
                     order, after producer k has submitted everything; advance destroys the processor,
                     which closes the sending half of chromosome k's handle channel; finally
                     `drop(send)` closes the channel to the splice task.
   splice task       write_chroms_with_zooms / write_chroms_without_zooms: for each received chromosome,
                     in order:  data.switch(file);  data_write_future.await;  file = data.await_real_file()
                     It owns the real file between chromosomes and lends it to exactly one staging
                     buffer at a time.

   Not modelled (validated by running the real code, see notes/C11.md): that tokio, the futures /
   crossbeam channels, AtomicCell and Condvar implement these transitions; I/O errors; the zoom
   lanes (each zoom level is the same protocol with the level's staging writer as "real file";
   the lanes share the splice task's loop, see notes).  No proofs in this file. *)
From BT Require Import Base.Util Model.RTree Model.BBIFile.

Definition bytes := list N.

(* ------------------------------------------------------------------ small list helpers *)
Fixpoint set_nth {X} (k : nat) (x : X) (l : list X) : list X :=
  match l, k with
  | [], _ => []
  | _ :: r, O => x :: r
  | y :: r, S j => y :: set_nth j x r
  end.

(* ------------------------------------------------------------------ state *)
Record chrom := mkc {
  c_todo : list sdata;            (* encoded sections the producer has not yet submitted, in order *)
  c_open : bool;                  (* the sending half (ftx) of the handle channel is alive *)
  c_fifo : list (sdata * bool);   (* the handle channel: submitted encode tasks, oldest first; true = completed *)
  c_out : list sdata;             (* sections write_data has written to the staging buffer, in order *)
  c_wdone : bool                  (* write_data has returned: writer dropped, staging buffer closed *)
}.

(* where the splice task is in its loop body *)
Inductive spc :=
| SRecv          (* at `receiver.next().await`; it owns the real file *)
| SAwaitTask     (* switch(file) done; at `data_write_future.await` *)
| SAwaitFile     (* at `data.await_real_file()` (a blocking Condvar wait if the buffer is not closed) *)
| SDone.         (* channel closed and drained: returned (file, sections, ..) *)

Record pst := mkp {
  p_chroms : list chrom;          (* all K chromosomes of the input, in input order *)
  p_started : nat;                (* start_processing has been called for chromosomes 0 .. p_started-1 *)
  p_advanced : nat;               (* advance has been called for chromosomes 0 .. p_advanced-1 *)
  p_closed : bool;                (* drop(send) *)
  sp_k : nat;                     (* the splice task is at chromosome sp_k *)
  sp_pc : spc;
  sp_file : bytes                 (* contents of the real file as of the last hand-back (while it is lent to
                                     buffer sp_k: the d0 that was handed to switch) *)
}.

Inductive task :=
| TMain
| TProd (k : nat)
| TEnc (k i : nat)                (* the encode task at position i of chromosome k's handle channel completes *)
| TWrite (k : nat)
| TSplice.

(* parameters of a run; g_fifo = true is the code as written: the write task takes the HEAD of the
   channel and waits for it.  g_fifo = false is the variant "take whichever encode task has
   completed" (FuturesUnordered), kept only to show that the theorems depend on the protocol. *)
Record params := mkg { g_cap : nat; g_win : nat; g_fifo : bool }.

(* ------------------------------------------------------------------ chromosome-local steps *)
Definition prod_step (cap : nat) (c : chrom) : option chrom :=
  if c_open c then
    match c_todo c with
    | s :: r => if (length (c_fifo c) <? cap)%nat
                then Some (mkc r (c_open c) (c_fifo c ++ [(s, false)]) (c_out c) (c_wdone c))
                else None                                   (* ftx.send(..).await: channel full *)
    | [] => None                                            (* everything submitted: waits to be advanced *)
    end
  else None.

Fixpoint complete_at (i : nat) (q : list (sdata * bool)) : option (list (sdata * bool)) :=
  match q, i with
  | [], _ => None
  | (s, false) :: r, O => Some ((s, true) :: r)
  | (s, true) :: r, O => None
  | x :: r, S j => match complete_at j r with Some r' => Some (x :: r') | None => None end
  end.
Definition enc_step (i : nat) (c : chrom) : option chrom :=
  match complete_at i (c_fifo c) with
  | Some q => Some (mkc (c_todo c) (c_open c) q (c_out c) (c_wdone c))
  | None => None
  end.

Definition take_head (q : list (sdata * bool)) : option (sdata * list (sdata * bool)) :=
  match q with (s, true) :: r => Some (s, r) | _ => None end.
Fixpoint take_first_done (q : list (sdata * bool)) : option (sdata * list (sdata * bool)) :=
  match q with
  | [] => None
  | (s, true) :: r => Some (s, r)
  | x :: r => match take_first_done r with Some (s, r') => Some (s, x :: r') | None => None end
  end.
Definition write_step (fifo : bool) (c : chrom) : option chrom :=
  if c_wdone c then None else
  match c_fifo c with
  | [] => if c_open c then None                               (* frx.next().await: empty, not closed *)
          else Some (mkc (c_todo c) (c_open c) [] (c_out c) true)   (* None: loop ends, writer dropped *)
  | q => match (if fifo then take_head q else take_first_done q) with
         | Some (s, q') => Some (mkc (c_todo c) (c_open c) q' (c_out c ++ [s]) false)
         | None => None                                       (* section_raw.await: head not completed *)
         end
  end.

Definition on_chrom (k : nat) (f : chrom -> option chrom) (s : pst) : option pst :=
  if (k <? p_started s)%nat then
    match nth_error (p_chroms s) k with
    | Some c => match f c with
                | Some c' => Some (mkp (set_nth k c' (p_chroms s)) (p_started s) (p_advanced s) (p_closed s)
                                       (sp_k s) (sp_pc s) (sp_file s))
                | None => None
                end
    | None => None
    end
  else None.

(* ------------------------------------------------------------------ main thread *)
Definition close_sender (c : chrom) : chrom := mkc (c_todo c) false (c_fifo c) (c_out c) (c_wdone c).

Definition main_step (win : nat) (s : pst) : option pst :=
  let K := length (p_chroms s) in
  if p_closed s then None
  else if (p_started s <? K)%nat && (p_started s - p_advanced s <? win)%nat then
    (* start_processing(next chromosome) *)
    Some (mkp (p_chroms s) (S (p_started s)) (p_advanced s) false (sp_k s) (sp_pc s) (sp_file s))
  else if (p_advanced s <? p_started s)%nat then
    (* block_on(oldest producer); advance: destroys the processor, closing its handle channel *)
    match nth_error (p_chroms s) (p_advanced s) with
    | Some c => match c_todo c with
                | [] => Some (mkp (set_nth (p_advanced s) (close_sender c) (p_chroms s)) (p_started s)
                                  (S (p_advanced s)) false (sp_k s) (sp_pc s) (sp_file s))
                | _ => None
                end
    | None => None
    end
  else if (K <=? p_started s)%nat then
    (* drop(send) *)
    Some (mkp (p_chroms s) (p_started s) (p_advanced s) true (sp_k s) (sp_pc s) (sp_file s))
  else None.

(* ------------------------------------------------------------------ splice task *)
Definition splice_step (s : pst) : option pst :=
  match sp_pc s with
  | SRecv =>
      if (sp_k s <? p_started s)%nat then
        (* received chromosome sp_k; data.switch(file) *)
        Some (mkp (p_chroms s) (p_started s) (p_advanced s) (p_closed s) (sp_k s) SAwaitTask (sp_file s))
      else if p_closed s then
        Some (mkp (p_chroms s) (p_started s) (p_advanced s) (p_closed s) (sp_k s) SDone (sp_file s))
      else None
  | SAwaitTask =>
      match nth_error (p_chroms s) (sp_k s) with
      | Some c => if c_wdone c
                  then Some (mkp (p_chroms s) (p_started s) (p_advanced s) (p_closed s) (sp_k s) SAwaitFile (sp_file s))
                  else None
      | None => None
      end
  | SAwaitFile =>
      match nth_error (p_chroms s) (sp_k s) with
      | Some c => if c_wdone c
                  then (* contract of the staging buffer: d0 ++ everything written, in order *)
                       Some (mkp (p_chroms s) (p_started s) (p_advanced s) (p_closed s) (S (sp_k s)) SRecv
                                 (sp_file s ++ data_bytes (c_out c)))
                  else None                                   (* blocked in Condvar::wait *)
      | None => None
      end
  | SDone => None
  end.

(* ------------------------------------------------------------------ the system *)
Definition step (g : params) (t : task) (s : pst) : option pst :=
  match t with
  | TMain => main_step (g_win g) s
  | TProd k => on_chrom k (prod_step (g_cap g)) s
  | TEnc k i => on_chrom k (enc_step i) s
  | TWrite k => on_chrom k (write_step (g_fifo g)) s
  | TSplice => splice_step s
  end.

(* A schedule is ANY list of task ids; choosing a task whose next step is disabled (a waiting or
   finished task, a task of a chromosome that does not exist) leaves the state unchanged. *)
Definition step_or_stay (g : params) (t : task) (s : pst) : pst :=
  match step g t s with Some s' => s' | None => s end.
Fixpoint run (g : params) (sched : list task) (s : pst) : pst :=
  match sched with [] => s | t :: r => run g r (step_or_stay g t s) end.

Definition init_chrom (secs : list sdata) : chrom := mkc secs true [] [] false.
(* [pre]: what the file holds before the data region (blank headers etc.);
   [Ss]: the encoded sections of each chromosome, in input order *)
Definition init (pre : bytes) (Ss : list (list sdata)) : pst :=
  mkp (map init_chrom Ss) 0 0 false 0 SRecv pre.

Definition is_done (p : spc) : bool := match p with SDone => true | _ => false end.
Definition terminal (s : pst) : bool := is_done (sp_pc s).

(* what write_mid makes of the section receivers collected by the splice task: the sections of all
   chromosomes in splice order, with offsets assigned cumulatively from the start of the data region *)
Definition final_sections (s : pst) : list sdata := concat (map c_out (p_chroms s)).
Definition final_index (pre_len : N) (s : pst) : list sect := place pre_len (final_sections s).

(* the sequential function the pipeline is compared with (Model/BigWigWrite.v assemble:
   body = pre ++ data_bytes data ++ ..., secs = place pre_data data, data = sections of all chromosomes) *)
Definition seq_file (pre : bytes) (Ss : list (list sdata)) : bytes := pre ++ data_bytes (concat Ss).
Definition seq_index (pre : bytes) (Ss : list (list sdata)) : list sect := place (Nlen pre) (concat Ss).

(* a fair continuation, so that every schedule list can be completed into a full run when the model is
   executed: round-robin over all tasks, [n] rounds *)
Definition all_tasks (K cap : nat) : list task :=
  TMain :: TSplice ::
  flat_map (fun k => TProd k :: TWrite k :: map (TEnc k) (seq 0 cap)) (seq 0 K).
Fixpoint rounds (n : nat) (l : list task) : list task :=
  match n with O => [] | S m => l ++ rounds m l end.

(* ================================================================== the converters (part 2)
   write_bg / write_bed:
     driver task   for each chromosome in file order: reopen the reader, TempFileBuffer::new, spawn
                   file_future(k), send its handle into a bounded channel (which the join task empties
                   in order, awaiting each handle), send the buffer into an unbounded channel
     file task k   writes the text of chromosome k, record by record, to its staging buffer; returns
                   (dropping the writer: buffer closed)
     join task     awaits the handles in order
     main          for each received buffer, in order:  buf.switch(out_file);
                   while !buf.is_real_file_ready() { yield_now().await }   out_file = buf.await_real_file()
   [v_win] >= 1 bounds how many file tasks are spawned and not yet joined (nthreads + the channel's
   sender slot + the handle the join task holds). *)
Record vchrom := mkv {
  v_todo : list bytes;            (* records not yet written *)
  v_out : bytes;                  (* text written to the staging buffer so far *)
  v_closed : bool                 (* file_future returned: writer dropped *)
}.
Inductive vpc := VRecv | VPoll | VAwait | VDone.
Record vst := mkvs {
  v_chroms : list vchrom;
  v_spawned : nat;                (* file tasks 0 .. v_spawned-1 exist and their buffers have been sent *)
  v_joined : nat;                 (* the join task has awaited handles 0 .. v_joined-1 *)
  v_drv_done : bool;              (* the driver returned: both senders dropped *)
  v_join_done : bool;             (* the join task returned *)
  v_k : nat; v_pc : vpc;
  v_file : bytes
}.
Inductive vtask := VDriver | VJoin | VFile (k : nat) | VMain.

Definition file_step (c : vchrom) : option vchrom :=
  if v_closed c then None else
  match v_todo c with
  | w :: r => Some (mkv r (v_out c ++ w) false)
  | [] => Some (mkv [] (v_out c) true)
  end.

Definition vstep (win : nat) (t : vtask) (s : vst) : option vst :=
  let K := length (v_chroms s) in
  match t with
  | VDriver =>
      if v_drv_done s then None
      else if (v_spawned s <? K)%nat then
        if (v_spawned s - v_joined s <? win)%nat
        then Some (mkvs (v_chroms s) (S (v_spawned s)) (v_joined s) false (v_join_done s) (v_k s) (v_pc s) (v_file s))
        else None                                             (* handle_snd.send(..).await: channel full *)
      else Some (mkvs (v_chroms s) (v_spawned s) (v_joined s) true (v_join_done s) (v_k s) (v_pc s) (v_file s))
  | VJoin =>
      if v_join_done s then None
      else if (v_joined s <? v_spawned s)%nat then
        match nth_error (v_chroms s) (v_joined s) with
        | Some c => if v_closed c
                    then Some (mkvs (v_chroms s) (v_spawned s) (S (v_joined s)) (v_drv_done s) false (v_k s) (v_pc s) (v_file s))
                    else None                                 (* handle.await *)
        | None => None
        end
      else if v_drv_done s
      then Some (mkvs (v_chroms s) (v_spawned s) (v_joined s) (v_drv_done s) true (v_k s) (v_pc s) (v_file s))
      else None
  | VFile k =>
      if (k <? v_spawned s)%nat then
        match nth_error (v_chroms s) k with
        | Some c => match file_step c with
                    | Some c' => Some (mkvs (set_nth k c' (v_chroms s)) (v_spawned s) (v_joined s) (v_drv_done s)
                                            (v_join_done s) (v_k s) (v_pc s) (v_file s))
                    | None => None
                    end
        | None => None
        end
      else None
  | VMain =>
      match v_pc s with
      | VRecv =>
          if (v_k s <? v_spawned s)%nat then       (* buf.switch(out_file) *)
            Some (mkvs (v_chroms s) (v_spawned s) (v_joined s) (v_drv_done s) (v_join_done s) (v_k s) VPoll (v_file s))
          else if v_drv_done s && v_join_done s then   (* buf_rcv closed; data_handle.await *)
            Some (mkvs (v_chroms s) (v_spawned s) (v_joined s) (v_drv_done s) (v_join_done s) (v_k s) VDone (v_file s))
          else None
      | VPoll =>                                   (* is_real_file_ready(); false = yield_now: a stutter *)
          match nth_error (v_chroms s) (v_k s) with
          | Some c => if v_closed c
                      then Some (mkvs (v_chroms s) (v_spawned s) (v_joined s) (v_drv_done s) (v_join_done s) (v_k s) VAwait (v_file s))
                      else None
          | None => None
          end
      | VAwait =>                                  (* await_real_file(): contract of the staging buffer *)
          match nth_error (v_chroms s) (v_k s) with
          | Some c => if v_closed c
                      then Some (mkvs (v_chroms s) (v_spawned s) (v_joined s) (v_drv_done s) (v_join_done s) (S (v_k s)) VRecv
                                      (v_file s ++ v_out c))
                      else None
          | None => None
          end
      | VDone => None
      end
  end.

Definition vstep_or_stay (win : nat) (t : vtask) (s : vst) : vst :=
  match vstep win t s with Some s' => s' | None => s end.
Fixpoint vrun (win : nat) (sched : list vtask) (s : vst) : vst :=
  match sched with [] => s | t :: r => vrun win r (vstep_or_stay win t s) end.
Definition vinit (out0 : bytes) (Ts : list (list bytes)) : vst :=
  mkvs (map (fun recs => mkv recs [] false) Ts) 0 0 false false 0 VRecv out0.
Definition vterminal (s : vst) : bool := match v_pc s with VDone => true | _ => false end.
(* the single-threaded path: every chromosome's records, in chromosome order, straight to the output *)
Definition seq_text (out0 : bytes) (Ts : list (list bytes)) : bytes := out0 ++ concat (map (@concat N) Ts).
Definition all_vtasks (K : nat) : list vtask := VDriver :: VJoin :: VMain :: map VFile (seq 0 K).
Fixpoint vrounds (n : nat) (l : list vtask) : list vtask :=
  match n with O => [] | S m => l ++ vrounds m l end.

(* ================================================================== several lanes (part 3)
   write_chroms_with_zooms: every chromosome has one handle channel / write task / staging buffer per
   LANE: lane 0 is the data region (destination: the real file), lane z >= 1 is zoom level z
   (destination: that level's own staging writer, an append-only byte store: the zoom data are
   buffered twice).  The lanes share the main thread (start/advance act on all lanes of a chromosome)
   and the splice task, whose loop body is
     switch lane 0; switch lanes 1..L-1;  await task 0; file0 = await_real_file;
     for z in 1..L-1 { await task z; file_z = await_real_file }
   Proofs/PipelineLanes.v shows that the projection of every run onto one lane is a run of the
   single-lane machine above (with stutters), so all its theorems hold per lane. *)
Inductive lphase :=
| LRecv
| LSwitch (j : nat)        (* lanes < j are switched; about to switch lane j (1 <= j < L) *)
| LAwaitTask (j : nat)     (* all lanes switched, lanes < j handed back; awaiting the write task of lane j *)
| LAwaitFile (j : nat)     (* at await_real_file of lane j *)
| LDone.

Record lst := mkl {
  l_lanes : list (list chrom);    (* lane -> chromosome -> state; every lane has the same K chromosomes *)
  l_started : nat; l_advanced : nat; l_closed : bool;
  l_k : nat; l_ph : lphase;
  l_files : list bytes            (* destination of each lane *)
}.
Inductive ltask := LMain | LProd (l k : nat) | LEnc (l k i : nat) | LWrite (l k : nat) | LSplice.

Definition lane_K (s : lst) : nat := length (nth 0 (l_lanes s) []).
Definition todo_done (a : nat) (ln : list chrom) : bool :=
  match nth_error ln a with Some c => match c_todo c with [] => true | _ => false end | None => false end.
Definition close_at (a : nat) (ln : list chrom) : list chrom :=
  match nth_error ln a with Some c => set_nth a (close_sender c) ln | None => ln end.

Definition lmain_step (win : nat) (s : lst) : option lst :=
  let K := lane_K s in
  if l_closed s then None
  else if (l_started s <? K)%nat && (l_started s - l_advanced s <? win)%nat then
    Some (mkl (l_lanes s) (S (l_started s)) (l_advanced s) false (l_k s) (l_ph s) (l_files s))
  else if (l_advanced s <? l_started s)%nat then
    if forallb (todo_done (l_advanced s)) (l_lanes s)
    then Some (mkl (map (close_at (l_advanced s)) (l_lanes s)) (l_started s) (S (l_advanced s)) false
                   (l_k s) (l_ph s) (l_files s))
    else None
  else if (K <=? l_started s)%nat then
    Some (mkl (l_lanes s) (l_started s) (l_advanced s) true (l_k s) (l_ph s) (l_files s))
  else None.

Definition lon_chrom (l k : nat) (f : chrom -> option chrom) (s : lst) : option lst :=
  if (k <? l_started s)%nat then
    match nth_error (l_lanes s) l with
    | Some ln =>
        match nth_error ln k with
        | Some c => match f c with
                    | Some c' => Some (mkl (set_nth l (set_nth k c' ln) (l_lanes s)) (l_started s) (l_advanced s)
                                           (l_closed s) (l_k s) (l_ph s) (l_files s))
                    | None => None
                    end
        | None => None
        end
    | None => None
    end
  else None.

Definition lane_wdone (s : lst) (j : nat) : option chrom :=
  match nth_error (l_lanes s) j with
  | Some ln => match nth_error ln (l_k s) with
               | Some c => if c_wdone c then Some c else None
               | None => None
               end
  | None => None
  end.
Definition after_switch (L j : nat) : lphase := if (S j <? L)%nat then LSwitch (S j) else LAwaitTask 0.

Definition lsplice_step (s : lst) : option lst :=
  let L := length (l_lanes s) in
  let set_ph ph := mkl (l_lanes s) (l_started s) (l_advanced s) (l_closed s) (l_k s) ph (l_files s) in
  match l_ph s with
  | LRecv =>
      if (l_k s <? l_started s)%nat then Some (set_ph (after_switch L 0))
      else if l_closed s then Some (set_ph LDone) else None
  | LSwitch j =>
      if (l_k s <? l_started s)%nat && (j <? L)%nat then Some (set_ph (after_switch L j)) else None
  | LAwaitTask j =>
      match lane_wdone s j with Some _ => Some (set_ph (LAwaitFile j)) | None => None end
  | LAwaitFile j =>
      match lane_wdone s j with
      | Some c =>
          let files := set_nth j (nth j (l_files s) [] ++ data_bytes (c_out c)) (l_files s) in
          if (S j <? L)%nat
          then Some (mkl (l_lanes s) (l_started s) (l_advanced s) (l_closed s) (l_k s) (LAwaitTask (S j)) files)
          else Some (mkl (l_lanes s) (l_started s) (l_advanced s) (l_closed s) (S (l_k s)) LRecv files)
      | None => None
      end
  | LDone => None
  end.

Definition lstep (g : params) (t : ltask) (s : lst) : option lst :=
  match t with
  | LMain => lmain_step (g_win g) s
  | LProd l k => lon_chrom l k (prod_step (g_cap g)) s
  | LEnc l k i => lon_chrom l k (enc_step i) s
  | LWrite l k => lon_chrom l k (write_step (g_fifo g)) s
  | LSplice => lsplice_step s
  end.
Definition lstep_or_stay (g : params) (t : ltask) (s : lst) : lst :=
  match lstep g t s with Some s' => s' | None => s end.
Fixpoint lrun (g : params) (sched : list ltask) (s : lst) : lst :=
  match sched with [] => s | t :: r => lrun g r (lstep_or_stay g t s) end.
(* [Ps]: what each lane's destination holds initially; [Sss]: lane -> chromosome -> sections *)
Definition linit (Ps : list bytes) (Sss : list (list (list sdata))) : lst :=
  mkl (map (map init_chrom) Sss) 0 0 false 0 LRecv Ps.
Definition lterminal (s : lst) : bool := match l_ph s with LDone => true | _ => false end.

(* the single-lane state that lane l is in *)
Definition proj_pos (l : nat) (k : nat) (ph : lphase) : nat * spc :=
  match ph with
  | LRecv => (k, SRecv)
  | LSwitch j => (k, if (l <? j)%nat then SAwaitTask else SRecv)
  | LAwaitTask j => if (l <? j)%nat then (S k, SRecv) else (k, SAwaitTask)
  | LAwaitFile j => if (l <? j)%nat then (S k, SRecv) else if (l =? j)%nat then (k, SAwaitFile) else (k, SAwaitTask)
  | LDone => (k, SDone)
  end.
Definition proj (l : nat) (s : lst) : pst :=
  let (k, pc) := proj_pos l (l_k s) (l_ph s) in
  mkp (nth l (l_lanes s) []) (l_started s) (l_advanced s) (l_closed s) k pc (nth l (l_files s) []).
