(* C13 entry.  case = (ftype path passes opts sizes text threads), see harness/src/bin/c13.rs.
   model output: (0) accepted | (1 class) refused | (2) panic | (3) no return.
   oracle: the property on what the implementation returned: it returned (no panic, no hang);
   a text carrying a violation class is refused (any class); a text carrying none is accepted.
   The text sources are the ones behind the real line reader (Model/Utf8.v): a line that is not
   well-formed UTF-8 is a malformed line (read_line fails: class 50), so such a text must be refused. *)
From BT Require Import Base.Util Base.Sexp Base.Float Model.RTree Model.BBIFile Model.BigWigWrite Model.EntryBBI Model.Accept Model.Utf8.
Local Open Scope N_scope.

(* ---- instantiation of the f32-token parameter (glue, validated differentially; the
   generators draw value tokens from a fixed list): the syntax str::parse::<f32> accepts:
   sign? ( inf | infinity | nan, any case | digits* [. digits*] with a digit somewhere, then
   optionally e|E sign? digits+ ) ---- *)
Definition lower (b : N) : N := if (65 <=? b) && (b <=? 90) then b + 32 else b.
Fixpoint bytes_eqb (a b : list N) : bool :=
  match a, b with
  | [], [] => true
  | x :: r, y :: s => (x =? y) && bytes_eqb r s
  | _, _ => false
  end.
Definition all_digits (l : list N) : bool := forallb is_digit l.
Fixpoint span_digits (l : list N) : list N * list N :=
  match l with
  | b :: r => if is_digit b then let (d, t) := span_digits r in (b :: d, t) else ([], l)
  | [] => ([], [])
  end.
Definition strip_sign (l : list N) : list N :=
  match l with b :: r => if (b =? 43) || (b =? 45) then r else l | [] => [] end.
Definition f32_token_ok (tok : list N) : bool :=
  let body := strip_sign tok in
  let low := map lower body in
  if bytes_eqb low [105; 110; 102] || bytes_eqb low [105; 110; 102; 105; 110; 105; 116; 121] || bytes_eqb low [110; 97; 110]
  then true else
  let (d1, r1) := span_digits body in
  let (d2, r2) := match r1 with 46 :: r => span_digits r | _ => ([], r1) end in
  if (length d1 + length d2 =? 0)%nat then false else
  match r2 with
  | [] => true
  | e :: r => if (e =? 101) || (e =? 69) then
                let ds := strip_sign r in
                match ds with [] => false | _ => all_digits ds end
              else false
  end.

(* ---- model ---- *)
Definition c_ftype (c : sexp) := getN (nthS 0 c).
Definition c_path (c : sexp) := getN (nthS 1 c).
Definition c_opts (c : sexp) := get_opts (nthS 3 c).
Definition c_sizes (c : sexp) := get_sizes (nthS 4 c).
Definition c_text (c : sexp) := getBytes (nthS 5 c).

Definition c13_verdict (c : sexp) : res unit :=
  let o := c_opts c in
  if negb (opts_ok o) then Err E_OPTIONS else
  if (c_path c =? 2) && match c_text c with [] => true | _ => false end then Err 51 (* index_chroms: "Empty file" *) else
  if c_ftype c =? 0 then
    if c_path c =? 0 then bw_text_serial_u f32_token_ok o (c_sizes c) (c_text c)
    else bw_text_parallel_u f32_token_ok o (c_sizes c) (c_text c)
  else
    if c_path c =? 0 then bb_text_serial_u o (c_sizes c) (c_text c)
    else bb_text_parallel_u o (c_sizes c) (c_text c).

Definition c13_model (c : sexp) : sexp :=
  match c13_verdict c with
  | Ok _ => L [A 0%Z]
  | Err k => L [A 1%Z; sN k]
  | Panic => L [A 2%Z]
  | Fuel => L [A 3%Z]
  end.

(* ---- oracle ---- *)
(* does the parsed stream carry one of the property's violation classes? *)
Definition violates {V} (vclass : N -> V -> option V -> option N) (o : opts) (sizes : list (name * N))
           (l : list (pline V)) : bool :=
  match l with
  | [] => true                                    (* empty input *)
  | _ => match all_ok l with
         | None => true                           (* a malformed line (incl. a line that is not UTF-8) *)
         | Some items => match first_some (classes vclass (o_sort_all o) sizes [] None items) with
                         | Some _ => true | None => false end
         end
  end.
(* modelled but not claimed: an empty chromosome index handed to the parallel source directly
   yields an empty file; the tools never do that (index_chroms fails on an empty file first) *)
Definition not_claimed {V} (c : sexp) (o : opts) (l : list (pline V)) : bool :=
  (c_path c =? 1) && match l with [] => true | _ => false end.

Definition c13_oracle (c out : sexp) : sexp :=
  let status := getZ (nthS 0 out) in
  if negb (Z.eqb status 0 || Z.eqb status 1) then sB false   (* panicked or did not return *)
  else
    let o := c_opts c in
    if negb (opts_ok o) then sB true else
    let refused := Z.eqb status 1 in
    if c_ftype c =? 0 then
      let l := bw_lines_u f32_token_ok (c_text c) in
      if not_claimed c o l then sB true else sB (Bool.eqb (violates bw_val_class o (c_sizes c) l) refused)
    else
      let l := bb_lines_u (c_text c) in
      if not_claimed c o l then sB true else sB (Bool.eqb (violates bb_val_class o (c_sizes c) l) refused).

Definition dispatch (k : Z) (arg : sexp) : sexp :=
  match k with
  | 0 => c13_model arg
  | 1 => c13_oracle (nthS 0 arg) (nthS 1 arg)
  | _ => L [A (-1)%Z]
  end%Z.
