(* The bigBed writer as a producer of operations on its destination (C14).

   bigbedwrite.rs write_pre / BigBedWrite::write / write_multipass on top of the shared routines of
   bbiwrite.rs (write_blank_headers, write_vals, write_mid, write_zooms / write_zoom_vals,
   write_info), seen from the sink `W: Write + Seek` that `BigBedWrite::new` is given, through the
   BufWriter model and the call interpreter of Model/SinkTrace.v.  What differs from the bigWig
   writer is write_pre:

     bbiwrite::check_options         before the BufWriter exists: a refusal touches nothing
     write_blank_headers             seek 0, 64 zeros, 240 zeros
     parse the autoSql, CString::new a NUL byte is refused HERE, after the blank headers went into
                                     the buffer (the drop of the BufWriter then writes them)
     tell, autoSql text + NUL        at offset 304
     tell, 40 zeros                  the total-summary slot, at 305 + |autoSql|
     tell, 8 zeros, tell             the item count, at 345 + |autoSql|; data begins at 353 + |autoSql|

   and, in write_info, the count slot receives the number of items, the header the field counts
   and the autoSql offset.  The byte content is that of Model/BigBedWrite.v ([bb_parts] recomputes
   [bb_write] / [bb_write_multipass] keeping the regions apart).  No proofs in this file. *)
From BT Require Import Base.Util Base.LE Base.Float Generated.Consts Model.RTree Model.BBIFile Model.BigWigWrite
  Model.BigBedWrite Model.SinkTrace.
From BT Require Model.AutoSql Model.BedSweep.
Local Open Scope N_scope.

(* ------------------------------------------------------------------ the regions of the file *)
(* write_zooms on the levels BigBedFullProcess produced (as BigBedWrite.bb_zoom_single) *)
Definition bb_zoom_events_single (fp : fpmode) (o : opts) (outs : list bchrom) (data_size zpos : N)
  : res (list zevent * list zoom_header) :=
  do zooms <- mapM (bb_zoom_level fp o outs) (zoom_sizes_single o);
  zoom_events o data_size zpos zooms None 0.
(* write_zoom_vals (as BigBedWrite.bb_zoom_two_pass) *)
Definition bb_zoom_events_two (fp : fpmode) (o : opts) (outs : list bchrom) (sum : summary) (data_size zpos : N)
  : res (list zevent * list zoom_header) :=
  let zsizes := zoom_sizes_two_pass o sum (total_zoom_counts (map chrom_out_of outs)) data_size in
  do zooms <- mapM (bb_zoom_level fp o outs) zsizes;
  zoom_events_two o zpos zooms.

(* what is known once write_pre has succeeded: the stored autoSql text and the field count *)
Definition bb_parts_after_pre (fp : fpmode) (kind : N) (o : opts) (sizes : list (name * N)) (sql : list N) (fc : N)
           (input : list bitem) : res parts :=
  do (ids, outs) <- bb_collect o sizes input;
  do data <- bb_data o outs;
  let sum := bb_sweep fp outs in
  assemble_parts o BIGBED_MAGIC sizes ids sum data (bb_pre sql) fc fc ASQL_OFFSET
    (if kind =? 0 then bb_zoom_events_single fp o outs else bb_zoom_events_two fp o outs sum)
    (fun _ => bb_total_items outs).

(* kind 0: BigBedWrite::write; otherwise write_multipass.  Returns the stored autoSql with the parts. *)
Definition bb_parts (fp : fpmode) (kind : N) (o : opts) (sizes : list (name * N)) (autosql : option (list N))
           (input : list bitem) : res (list N * parts) :=
  if (o_bs o <? 2) || (o_ips o <? 1) then Err E_BED_OPTIONS else
  do (sql, fc) <- bb_schema autosql;
  do p <- bb_parts_after_pre fp kind o sizes sql fc input;
  Ok (sql, p).

(* ------------------------------------------------------------------ the calls of one `write` *)
(* write_blank_headers *)
Definition calls_blank : list call :=
  [CSeek (ToStart 0); W (repeatN 0 64); W (repeatN 0 (N.to_nat MAX_ZOOM_LEVELS * 24))].
(* write_pre *)
Definition bb_calls_pre (sql : list N) : list call :=
  calls_blank ++ [CTell; W (sql ++ [0]); CTell; W (repeatN 0 40); CTell; W (u64 0); CTell].

(* everything before write_info's seek to the start: write_vals / write_vals_no_zoom, write_mid,
   write_zooms / write_zoom_vals are the shared routines *)
Definition bb_calls_body (ck : chunker) (kind : N) (sql : list N) (p : parts) : list call :=
  bb_calls_pre sql ++ region ck R_DATA (p_data p) ++ calls_mid ck p ++ calls_zooms ck kind p.
Definition bb_calls_accept (ck : chunker) (kind : N) (sql : list N) (p : parts) : list call :=
  bb_calls_body ck kind sql p ++ calls_info false true p.

(* a refused input: write_pre has run, and some of the sections encoded before the refusal may
   have been written *)
Definition bb_calls_refused (ck : chunker) (sql : list N) (partial : list N) : list call :=
  bb_calls_pre sql ++ region ck R_DATA partial.

(* the sections complete before the refusal: all of the chromosomes accepted, and of the refused
   one the full blocks of items_per_slot among the entries before the offending one *)
Fixpoint bok_prefix (len : N) (es : list entry) : nat :=
  match es with
  | [] => 0
  | x :: r => match check_entry len x (hd_error r) with Ok _ => S (bok_prefix len r) | _ => 0 end
  end.
Definition bsections_bytes (chrom : N) (cs : list (list entry)) : list N :=
  flat_map (fun c => match encode_bed_section chrom c with Ok s => sd_bytes s | _ => [] end) cs.
Fixpoint bpartial_runs (o : opts) (sizes : list (name * N)) (prev : option name) (ids : idmap)
         (rs : list (name * list entry)) : list N :=
  match rs with
  | [] => []
  | (c, es) :: rest =>
      let order_ok := match prev with
                      | Some p => if o_sort_all o then match name_cmp p c with Lt => true | _ => false end else true
                      | None => true end in
      if negb order_ok then [] else
      match lookup c sizes with
      | None => []
      | Some len =>
          match lookup c ids with
          | Some _ => []
          | None =>
              let (ids', id) := get_id ids c in
              match check_entries len es with
              | Ok _ => bsections_bytes id (sections_loop (o_ips o) [] es)
                        ++ bpartial_runs o sizes (Some c) ids' rest
              | _ => bsections_bytes id
                       (filter (fun ch => Nat.eqb (length ch) (N.to_nat (o_ips o)))
                               (sections_loop (o_ips o) [] (firstn (bok_prefix len es) es)))
              end
          end
      end
  end.
Definition bb_partial_data (o : opts) (sizes : list (name * N)) (input : list bitem) : list N :=
  bpartial_runs o sizes None [] (bruns input).

(* ------------------------------------------------------------------ one call of BigBedWrite::write *)
Definition status_of {X} (r : res X) : res unit :=
  match r with Ok _ => Ok tt | Err c => Err c | Panic => Panic | Fuel => Fuel end.

Definition bb_sink_run (f : fault) (ck : chunker) (fp : fpmode) (kind : N) (o : opts)
           (sizes : list (name * N)) (autosql : option (list N)) (input : list bitem) : res unit * list sop :=
  if (o_bs o <? 2) || (o_ips o <? 1) then run f (Err E_BED_OPTIONS) []      (* no BufWriter yet *)
  else
    match bb_schema autosql with
    | Ok (sql, fc) =>
        match bb_parts_after_pre fp kind o sizes sql fc input with
        | Ok p => run f (Ok tt) (bb_calls_accept ck kind sql p)
        | r => run f (status_of r) (bb_calls_refused ck sql (bb_partial_data o sizes input))
        end
    | r => run f (status_of r) calls_blank       (* the autoSql is refused after write_blank_headers *)
    end.

(* the index of the header operation in the trace of an accepted input *)
Definition bb_header_index (ck : chunker) (kind : N) (sql : list N) (p : parts) : nat :=
  length (snd (run None (Ok tt) (bb_calls_body ck kind sql p ++ [CSeek (ToStart 0)]))).
