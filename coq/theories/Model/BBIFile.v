(* Pieces of the BBI byte layout shared by the bigWig and bigBed writer models:
   bbiwrite.rs write_blank_headers / write_info / write_chrom_tree / encode_zoom_section /
   write_zooms.  No proofs in this file. *)
From BT Require Import Base.Util Base.LE Base.Float Generated.Consts Model.RTree.
Local Open Scope N_scope.

Definition name := list N.   (* chromosome name: UTF-8 bytes *)

Record opts := {
  o_compress : bool; o_ips : N; o_bs : N; o_izoom : N; o_maxzooms : N;
  o_manual : option (list N); o_sort_all : bool }.

Record summary := { su_items : N; su_bases : N; su_min : fl; su_max : fl; su_sum : fl; su_sumsq : fl }.
Record zrec := { z_chrom : N; z_start : N; z_end : N; z_sum : summary }.
Record zoom_header := { zh_res : N; zh_data : N; zh_index : N }.

Definition f64_bytes (x : fl) : list N := u64 (bits_of_f64 x).
Definition f32_bytes (x : fl) : list N := u32 (bits_of_f32 x).

Definition blank_headers : list N := repeatN 0 (64 + N.to_nat MAX_ZOOM_LEVELS * 24).

(* lexicographic comparison of byte strings (Rust String ordering) *)
Fixpoint name_cmp (a b : name) : comparison :=
  match a, b with
  | [], [] => Eq
  | [], _ => Lt
  | _, [] => Gt
  | x :: r, y :: s => match x ?= y with Eq => name_cmp r s | c => c end
  end.
Definition name_eqb (a b : name) : bool := match name_cmp a b with Eq => true | _ => false end.

Fixpoint lookup {V} (k : name) (l : list (name * V)) : option V :=
  match l with
  | [] => None
  | (k', v) :: r => if name_eqb k k' then Some v else lookup k r
  end.

(* IdMap::get_id: ids in first-appearance order *)
Definition idmap := list (name * N).
Definition get_id (m : idmap) (k : name) : idmap * N :=
  match lookup k m with
  | Some id => (m, id)
  | None => let id := Nlen m in (m ++ [(k, id)], id)
  end.

(* write_chrom_tree: one leaf block, items sorted by id, keys zero-padded to the longest name.
   [chroms]: (name, id) in id order; sizes by lookup (the Rust expects the entry to exist). *)
Definition pad_key (w : nat) (k : name) : list N := k ++ repeatN 0 (w - length k).
Definition chrom_tree_bytes (sizes : list (name * N)) (chroms : idmap) : res (list N) :=
  let item_count := Nlen chroms in
  let block_size := N.max 256 item_count in
  let max_bytes := fold_left (fun a c => Nat.max a (length (fst c))) chroms 0%nat in
  let items := map (fun c => match lookup (fst c) sizes with
                             | Some len => Some (pad_key max_bytes (fst c) ++ u32 (snd c) ++ u32 len)
                             | None => None end) chroms in
  if forallb (fun i => match i with Some _ => true | None => false end) items then
    Ok (u32 CHROM_TREE_MAGIC ++ u32 block_size ++ u32 (N.of_nat max_bytes) ++ u32 8 ++ u64 item_count ++ u64 0
        ++ u8 1 ++ u8 0 ++ u16 item_count
        ++ flat_map (fun i => match i with Some b => b | None => [] end) items)
  else Panic.

(* encode_zoom_section (uncompressed) *)
Definition zrec_bytes (fp : fpmode) (z : zrec) : list N :=
  u32 (z_chrom z) ++ u32 (z_start z) ++ u32 (z_end z) ++ u32 (su_bases (z_sum z))
  ++ f32_bytes (to_f32 fp (su_min (z_sum z))) ++ f32_bytes (to_f32 fp (su_max (z_sum z)))
  ++ f32_bytes (to_f32 fp (su_sum (z_sum z))) ++ f32_bytes (to_f32 fp (su_sumsq (z_sum z))).

(* a data or zoom section as the writer knows it: span + encoded bytes *)
Record sdata := { sd_chrom : N; sd_start : N; sd_end : N; sd_bytes : list N }.

Definition encode_zoom_section (fp : fpmode) (recs : list zrec) : res sdata :=
  match recs with
  | [] => Panic     (* items_in_section[0] *)
  | f :: _ => Ok {| sd_chrom := z_chrom f; sd_start := z_start f; sd_end := z_end (last recs f);
                    sd_bytes := flat_map (zrec_bytes fp) recs |}
  end.

(* write_data / write_mid: sections laid out contiguously from [off] *)
Fixpoint place (off : N) (l : list sdata) : list sect :=
  match l with
  | [] => []
  | s :: r => {| s_chrom := sd_chrom s; s_start := sd_start s; s_end := sd_end s; s_off := off; s_size := Nlen (sd_bytes s) |}
              :: place (off + Nlen (sd_bytes s)) r
  end.
Definition data_bytes (l : list sdata) : list N := flat_map sd_bytes l.

(* write_info's header, zoom directory, summary *)
Definition header_bytes (magic : N) (num_zooms chrom_index_start full_data_offset index_start
                         field_count defined_field_count auto_sql_offset total_summary_offset ubuf : N) : list N :=
  u32 magic ++ u16 4 ++ u16 num_zooms ++ u64 chrom_index_start ++ u64 full_data_offset ++ u64 index_start
  ++ u16 field_count ++ u16 defined_field_count ++ u64 auto_sql_offset ++ u64 total_summary_offset
  ++ u32 ubuf ++ u64 0.
Definition zoom_header_bytes (z : zoom_header) : list N :=
  u32 (zh_res z) ++ u32 0 ++ u64 (zh_data z) ++ u64 (zh_index z).
Definition summary_bytes (s : summary) : list N :=
  u64 (su_bases s) ++ f64_bytes (su_min s) ++ f64_bytes (su_max s) ++ f64_bytes (su_sum s) ++ f64_bytes (su_sumsq s).

(* overwrite [bs] from offset [off] with [patch], extending with the patch if it runs past the end *)
Definition patch_at (bs : list N) (off : N) (patch : list N) : list N :=
  let o := N.to_nat off in
  firstn o bs ++ patch ++ skipn (o + length patch) bs.

(* the `advance` closure of write_vals: fold the per-chromosome summaries *)
Definition summary_merge (fp : fpmode) (acc : option summary) (c : summary) : option summary :=
  match acc with
  | None => Some c
  | Some s => Some {| su_items := su_items s + su_items c; su_bases := su_bases s + su_bases c;
                      su_min := fmin (su_min s) (su_min c); su_max := fmax (su_max s) (su_max c);
                      su_sum := fadd64 fp (su_sum s) (su_sum c); su_sumsq := fadd64 fp (su_sumsq s) (su_sumsq c) |}
  end.
Definition summary_zero : summary :=
  {| su_items := 0; su_bases := 0; su_min := fzero; su_max := fzero; su_sum := fzero; su_sumsq := fzero |}.
Definition summary_init : summary :=
  {| su_items := 0; su_bases := 0; su_min := f64_max; su_max := f64_min; su_sum := fzero; su_sumsq := fzero |}.

(* one zoom level as handed to write_zooms: resolution and its sections in file order *)
Record zoom_level := { zl_res : N; zl_secs : list sdata }.

(* write_zooms (single pass): returns the bytes appended after [pos] and the zoom directory *)
Fixpoint write_zooms_loop (o : opts) (data_size : N) (pos : N) (zs : list zoom_level)
         (last_count : option N) (zoom_count : N) : res (list N * list zoom_header) :=
  match zs with
  | [] => Ok ([], [])
  | z :: rest =>
      let check := match o_manual o with None => true | Some _ => false end in
      let zoom_size := Nlen (data_bytes (zl_secs z)) in
      if check && (data_size / 2 <? zoom_size) then write_zooms_loop o data_size pos rest last_count zoom_count
      else
        let secs := place pos (zl_secs z) in
        let total := Nlen secs in
        if check && (match last_count with None => false | Some lc => lc <=? total end)
        then write_zooms_loop o data_size pos rest last_count zoom_count
        else
          let index_off := pos + zoom_size in
          do (ix, _) <- write_index (o_bs o) (o_ips o) index_off secs;
          let here := data_bytes (zl_secs z) ++ ix in
          let hdr := {| zh_res := zl_res z; zh_data := pos; zh_index := index_off |} in
          if check && (o_maxzooms o <=? zoom_count + 1) then Ok (here, [hdr])
          else
            do (more, hs) <- write_zooms_loop o data_size (pos + Nlen here) rest (Some total) (zoom_count + 1);
            Ok (here ++ more, hdr :: hs)
  end.

(* sort + dedup + drop zeros: the zoom size list after the repair (BTreeMap keys in the single pass) *)
Fixpoint insert_sorted (x : N) (l : list N) : list N :=
  match l with
  | [] => [x]
  | y :: r => if x <? y then x :: l else if x =? y then l else y :: insert_sorted x r
  end.
Definition sort_dedup (l : list N) : list N := fold_left (fun acc x => insert_sorted x acc) l [].
Definition zoom_sizes_single (o : opts) : list N :=
  let raw := match o_manual o with
             | Some zs => zs
             | None => (* the ladder stops when the next size no longer fits u32 (checked_mul, /repo fix) *)
                       filter (fun z => z <? 2 ^ 32)
                              (map (fun k => o_izoom o * ZOOM_SUCC_FACTOR ^ N.of_nat k) (seq 0 (N.to_nat (o_maxzooms o))))
             end in
  (* at most MAX_ZOOM_LEVELS levels fit the directory: the finest ones are kept (/repo 3a3ac98) *)
  firstn (N.to_nat MAX_ZOOM_LEVELS) (sort_dedup (filter (fun z => negb (z =? 0)) raw)).
