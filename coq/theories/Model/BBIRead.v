(* Model of the readers on a byte image: bbiread.rs read_info / read_zoom_headers /
   read_chrom_tree_block / full_data_cir_tree / zoom_cir_tree / search_cir_tree / read_block_data /
   get_zoom_block_values, bigwigread.rs get_summary / get_interval / values / get_block_values /
   get_zoom_interval.  Decompression is the parameter [infl] (identity for uncompressed files).
   No proofs in this file. *)
From BT Require Import Base.Util Base.LE Base.Float Generated.Consts Model.RTree Model.BBIFile Model.BigWigWrite.
Local Open Scope N_scope.

(* reader error classes *)
Definition R_IO := 1.            (* io error, in particular UnexpectedEof *)
Definition R_MAGIC := 2.         (* UnknownMagic / NotABigWig / NotABigBed *)
Definition R_CHROMS := 3.        (* InvalidChroms *)
Definition R_NOCHROM := 4.       (* chromosome name not in the file *)
Definition R_NOZOOM := 5.        (* ReductionLevelNotFound *)
Definition R_INVALID := 6.       (* InvalidFile (unknown section type, ...) *)
Definition R_CIRMAGIC := 7.      (* cir tree header magic *)

Record header := {
  h_big : bool; h_bigwig : bool; h_version : N; h_zoom_levels : N; h_chrom_tree_off : N;
  h_full_data_off : N; h_full_index_off : N; h_field_count : N; h_defined_fc : N;
  h_asql_off : N; h_summary_off : N; h_ubuf : N }.
Record chrom_info := { ci_name : name; ci_id : N; ci_len : N }.
Record info := { i_hdr : header; i_zooms : list zoom_header; i_chroms : list chrom_info }.

Definition rdo {X} (o : option X) : res X := match o with Some x => Ok x | None => Err R_IO end.

Definition detect_magic (bs : list N) : res (bool * bool) :=   (* (bigwig?, big endian?) *)
  do m <- rdo (slice bs 0 4);
  let be := dec_be m in
  let le := dec_le m in
  if be =? BIGWIG_MAGIC then Ok (true, true) else
  if le =? BIGWIG_MAGIC then Ok (true, false) else
  if be =? BIGBED_MAGIC then Ok (false, true) else
  if le =? BIGBED_MAGIC then Ok (false, false) else Err R_MAGIC.

Definition read_header (bs : list N) : res header :=
  do _ <- rdo (slice bs 0 64);
  do (bw, big) <- detect_magic bs;
  let g off w := match rd big bs off w with Some x => x | None => 0 end in
  Ok {| h_big := big; h_bigwig := bw; h_version := g 4 2%nat; h_zoom_levels := g 6 2%nat;
        h_chrom_tree_off := g 8 8%nat; h_full_data_off := g 16 8%nat; h_full_index_off := g 24 8%nat;
        h_field_count := g 32 2%nat; h_defined_fc := g 34 2%nat; h_asql_off := g 36 8%nat;
        h_summary_off := g 44 8%nat; h_ubuf := g 52 4%nat |}.

Fixpoint read_zoom_headers (big : bool) (bs : list N) (off : N) (n : nat) : res (list zoom_header) :=
  match n with
  | O => Ok []
  | S k =>
      do d <- rdo (slice bs off 24);
      do rest <- read_zoom_headers big bs (off + 24) k;
      Ok ({| zh_res := dec big (firstn 4 d); zh_data := dec big (firstn 8 (skipn 8 d));
             zh_index := dec big (firstn 8 (skipn 16 d)) |} :: rest)
  end.

(* trim_matches('\0') *)
Fixpoint drop_zeros (l : list N) : list N := match l with 0 :: r => drop_zeros r | _ => l end.
Definition trim_zeros (l : list N) : list N := rev (drop_zeros (rev (drop_zeros l))).

Fixpoint parse_chrom_leaf (big : bool) (key : nat) (n : nat) (d : list N) : list chrom_info :=
  match n with
  | O => []
  | S k => {| ci_name := trim_zeros (firstn key d); ci_id := dec big (firstn 4 (skipn key d));
              ci_len := dec big (firstn 4 (skipn (key + 4) d)) |}
           :: parse_chrom_leaf big key k (skipn (key + 8) d)
  end.
Fixpoint parse_chrom_children (big : bool) (key : nat) (n : nat) (d : list N) : list N :=
  match n with
  | O => []
  | S k => dec big (firstn 8 (skipn key d)) :: parse_chrom_children big key k (skipn (key + 8) d)
  end.

Fixpoint read_chrom_block (fuel : nat) (big : bool) (bs : list N) (key : nat) (off : N) : res (list chrom_info) :=
  match fuel with
  | O => Fuel
  | S f =>
      do h <- rdo (slice bs off 4);
      let isleaf := nth 0 h 0 in
      let count := N.to_nat (dec big (skipn 2 h)) in
      do d <- rdo (slice bs (off + 4) ((key + 8) * count));
      if isleaf =? 1 then Ok (parse_chrom_leaf big key count d)
      else
        (fix go (cs : list N) : res (list chrom_info) :=
           match cs with
           | [] => Ok []
           | c :: r => do a <- read_chrom_block f big bs key c; do b <- go r; Ok (a ++ b)
           end) (parse_chrom_children big key count d)
  end.

Definition read_info (bs : list N) : res info :=
  do h <- read_header bs;
  let big := h_big h in
  do zs <- read_zoom_headers big bs 64 (N.to_nat (h_zoom_levels h));
  do ch <- rdo (slice bs (h_chrom_tree_off h) 32);
  if negb (dec big (firstn 4 ch) =? CHROM_TREE_MAGIC) then Err R_CHROMS else
  let key := N.to_nat (dec big (firstn 4 (skipn 8 ch))) in
  let val_size := dec big (firstn 4 (skipn 12 ch)) in
  if negb (val_size =? 8) then Panic else
  match read_chrom_block (S (length bs)) big bs key (h_chrom_tree_off h + 32) with
  | Ok cs => Ok {| i_hdr := h; i_zooms := zs; i_chroms := cs |}
  | Err _ => Err R_CHROMS
  | Panic => Panic
  | Fuel => Fuel
  end.

Definition chrom_id (i : info) (c : name) : res N :=
  match find (fun x => name_eqb (ci_name x) c) (i_chroms i) with
  | Some x => Ok (ci_id x)
  | None => Err R_NOCHROM
  end.

Definition cir_tree_root (big : bool) (bs : list N) (index_off : N) : res N :=
  do h <- rdo (slice bs index_off 48);
  if dec big (firstn 4 h) =? CIR_TREE_MAGIC then Ok (index_off + 48) else Err R_CIRMAGIC.

Definition search_blocks (i : info) (bs : list N) (root : N) (chrom s e : N) : res (list block) :=
  match search_bytes (S (length bs)) (h_big (i_hdr i)) bs root chrom s e with
  | Err _ => Err R_IO
  | r => r
  end.

Section Inflate.
Variable infl : list N -> list N.

Definition block_data (i : info) (bs : list N) (b : block) : res (list N) :=
  do raw <- rdo (slice bs (fst b) (N.to_nat (snd b)));
  Ok (if 0 <? h_ubuf (i_hdr i) then infl raw else raw).

Definition clip (s e : N) (v : value) : value :=
  {| v_start := N.max (v_start v) s; v_end := N.min (v_end v) e; v_bits := v_bits v |}.
Definition keep (s e : N) (v : value) : bool := (s <? v_end v) && (v_start v <? e).
Definition clip_filter (s e : N) (l : list value) : list value := map (clip s e) (filter (keep s e) l).

Fixpoint parse_type1 (big : bool) (n : nat) (d : list N) : list value :=
  match n with
  | O => []
  | S k => {| v_start := dec big (firstn 4 d); v_end := dec big (firstn 4 (skipn 4 d));
              v_bits := dec big (firstn 4 (skipn 8 d)) |} :: parse_type1 big k (skipn 12 d)
  end.
Fixpoint parse_type2 (big : bool) (span : N) (n : nat) (d : list N) : list value :=
  match n with
  | O => []
  | S k => let st := dec big (firstn 4 d) in
           {| v_start := st; v_end := st + span; v_bits := dec big (firstn 4 (skipn 4 d)) |}
           :: parse_type2 big span k (skipn 8 d)
  end.
Fixpoint parse_type3 (big : bool) (step span : N) (cur : N) (n : nat) (d : list N) : list value :=
  match n with
  | O => []
  | S k => {| v_start := cur; v_end := cur + span; v_bits := dec big (firstn 4 d) |}
           :: parse_type3 big step span (cur + step) k (skipn 4 d)
  end.

(* get_block_values: None = block of another chromosome *)
Definition block_values (i : info) (bs : list N) (b : block) (chrom s e : N) : res (option (list value)) :=
  do d <- block_data i bs b;
  let big := h_big (i_hdr i) in
  if (length d <? 24)%nat then Panic else
  let cid := dec big (firstn 4 d) in
  let cstart := dec big (firstn 4 (skipn 4 d)) in
  let step := dec big (firstn 4 (skipn 12 d)) in
  let span := dec big (firstn 4 (skipn 16 d)) in
  let ty := nth 20 d 0 in
  let count := N.to_nat (dec big (firstn 2 (skipn 22 d))) in
  let body := skipn 24 d in
  if negb (cid =? chrom) then Ok None else
  if ty =? 1 then
    if (length body <? count * 12)%nat then Panic else Ok (Some (clip_filter s e (parse_type1 big count body)))
  else if ty =? 2 then
    if (length body <? count * 8)%nat then Panic else Ok (Some (clip_filter s e (parse_type2 big span count body)))
  else if ty =? 3 then
    if (length body <? count * 4)%nat then Panic else Ok (Some (clip_filter s e (parse_type3 big step span cstart count body)))
  else Err R_INVALID.

Fixpoint collect_blocks {X} (f : block -> res (option (list X))) (l : list block) : res (list X) :=
  match l with
  | [] => Ok []
  | b :: r => do a <- f b; do rest <- collect_blocks f r;
              Ok (match a with Some x => x ++ rest | None => rest end)
  end.

(* BigWigRead::get_interval, fully drained *)
Definition bw_interval (bs : list N) (i : info) (c : name) (s e : N) : res (list value) :=
  do chrom <- chrom_id i c;
  do root <- cir_tree_root (h_big (i_hdr i)) bs (h_full_index_off (i_hdr i));
  do blocks <- search_blocks i bs root chrom s e;
  collect_blocks (fun b => block_values i bs b chrom s e) blocks.

(* BigWigRead::values: None = NaN *)
Definition fill_values (s e : N) (vals : list value) : list (option N) :=
  fold_left (fun acc v =>
               let a := N.to_nat (v_start v - s) in
               let b := N.to_nat (v_end v - s) in
               firstn a acc ++ repeatN (Some (v_bits v)) (b - a) ++ skipn b acc)
            vals (repeatN None (N.to_nat (e - s))).
Definition bw_values (bs : list N) (i : info) (c : name) (s e : N) : res (list (option N)) :=
  if e <? s then Panic else
  do vals <- bw_interval bs i c s e;
  Ok (fill_values s e vals).

(* zoom records *)
Fixpoint parse_zrecs (big : bool) (n : nat) (d : list N) : list zrec :=
  match n with
  | O => []
  | S k =>
      let f off := f32_of_bits (dec big (firstn 4 (skipn off d))) in
      {| z_chrom := dec big (firstn 4 d); z_start := dec big (firstn 4 (skipn 4 d));
         z_end := dec big (firstn 4 (skipn 8 d));
         z_sum := {| su_items := 0; su_bases := dec big (firstn 4 (skipn 12 d));
                     su_min := f 16%nat; su_max := f 20%nat; su_sum := f 24%nat; su_sumsq := f 28%nat |} |}
      :: parse_zrecs big k (skipn 32 d)
  end.
Definition zoom_block_values (i : info) (bs : list N) (b : block) (chrom s e : N) : res (option (list zrec)) :=
  do d <- block_data i bs b;
  if negb (Nat.eqb (length d mod 32) 0) then Panic else
  Ok (Some (filter (fun z => (z_chrom z =? chrom) && (s <=? z_end z) && (z_start z <=? e))
                   (parse_zrecs (h_big (i_hdr i)) (length d / 32) d))).

Definition zoom_interval (bs : list N) (i : info) (c : name) (s e res_level : N) : res (list zrec) :=
  match find (fun z => zh_res z =? res_level) (i_zooms i) with
  | None => Err R_NOZOOM
  | Some zh =>
      do root <- cir_tree_root (h_big (i_hdr i)) bs (zh_index zh);
      do chrom <- chrom_id i c;
      do blocks <- search_blocks i bs root chrom s e;
      collect_blocks (fun b => zoom_block_values i bs b chrom s e) blocks
  end.
End Inflate.

(* get_summary *)
Definition read_summary (bs : list N) (i : info) : res summary :=
  let h := i_hdr i in
  let big := h_big h in
  do body <- (if h_summary_off h =? 0 then Ok (0, fzero, fzero, fzero, fzero) else
              do d <- rdo (slice bs (h_summary_off h) 40);
              let f off := f64_of_bits (dec big (firstn 8 (skipn off d))) in
              Ok (dec big (firstn 8 d), f 8%nat, f 16%nat, f 24%nat, f 32%nat));
  do c <- rdo (slice bs (h_full_data_off h) 8);
  let '(bases, mn, mx, sm, sq) := body in
  Ok {| su_items := dec big c; su_bases := bases; su_min := mn; su_max := mx; su_sum := sm; su_sumsq := sq |}.
