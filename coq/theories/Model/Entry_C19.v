(* Case decoding and result encoding for C19 (glue; the modelled code is in Model/AutoSql.v).
   cases (see harness/src/bin/c19.rs for the same table)
     (0 rest)                  -> (0 text parse)             bed_autosql(rest), then parse_autosql of it
     (1 text expect)           -> parse                      parse_autosql(text); expect = () | ((n1 n2 ..)) for the oracle
     (2 alphabet prefix depth) -> (compact ...)              parse_autosql(prefix++w) for all w over alphabet, |w|<=depth, preorder
     (3 mode schema rest)      -> (0 autosql fc dfc)|(1 c)   bigBed written and read back: stored schema and header counts *)
From BT Require Import Base.Util Base.Sexp Model.AutoSql Generated.Consts.
Local Open Scope nat_scope.

Definition sDT (d : decl_type) : sexp :=
  sN (match d with Simple => 0 | Object => 1 | Table => 2 end)%N.
Definition sIdx (i : option index_type) : sexp :=
  match i with
  | None => L []
  | Some Primary => L [sN 0]
  | Some (Index None) => L [sN 1]
  | Some (Index (Some s)) => L [sN 1; sBytes s]
  | Some Unique => L [sN 2]
  end.
Definition sFT (t : field_type) : sexp :=
  match t with
  | TInt => L [sN 0] | TUint => L [sN 1] | TShort => L [sN 2] | TUshort => L [sN 3]
  | TByte => L [sN 4] | TUbyte => L [sN 5] | TFloat => L [sN 6] | TDouble => L [sN 7]
  | TChar => L [sN 8] | TString => L [sN 9] | TLstring => L [sN 10] | TBigint => L [sN 11]
  | TEnum vs => L (sN 12 :: map sBytes vs)
  | TSet vs => L (sN 13 :: map sBytes vs)
  | TDecl dt dn => L [sN 14; sDT dt; sBytes (dn_name dn); sIdx (dn_index dn); sB (dn_auto dn)]
  end.
Definition sField (f : field) : sexp :=
  L [sFT (f_type f); sOpt sBytes (f_size f); sBytes (f_name f); sIdx (f_index f); sB (f_auto f); sBytes (f_comment f)].
Definition sDecl (d : declaration) : sexp :=
  L [sDT (d_type d); sBytes (dn_name (d_name d)); sIdx (dn_index (d_name d)); sB (dn_auto (d_name d));
     sBytes (d_comment d); sList sField (d_fields d)].
Definition sParse (r : res (list declaration)) : sexp :=
  match r with
  | Ok ds => L [A 0%Z; sList sDecl ds]
  | Err c => L [A 1%Z; sN c]
  | Panic => L [A 2%Z]
  | Fuel => L [A 3%Z]
  end.
Definition sCompact (r : res (list declaration)) : sexp :=
  match r with
  | Ok ds => L (A 0%Z :: map (fun d => sNat (length (d_fields d))) ds)
  | Err c => L [A 1%Z; sN c]
  | Panic => L [A 2%Z]
  | Fuel => L [A 3%Z]
  end.

(* every prefix++w, |w| <= depth, in preorder (the harness enumerates in the same order) *)
Fixpoint enum_strings (depth : nat) (alpha cur : list N) : list (list N) :=
  cur :: match depth with
         | O => []
         | S d => flat_map (fun c => enum_strings d alpha (cur ++ [c])) alpha
         end.
Fixpoint enum_count (depth : nat) (k : nat) : nat :=
  match depth with O => 1 | S d => 1 + k * enum_count d k end.

(* what the stored-schema case should read back: (text, field count) *)
Definition stored_expect (mode : N) (schema rest : list N) : res (list N * N) :=
  (if mode =? 0 then write_pre_schema None
   else if mode =? 2 then write_pre_schema (Some (bed_autosql rest))
   else write_pre_schema (Some schema))%N.

Definition c19_model (c : sexp) : sexp :=
  let k := getN (nthS 0 c) in
  (if k =? 0 then
     let text := bed_autosql (getBytes (nthS 1 c)) in
     L [A 0%Z; sBytes text; sParse (parse text)]
   else if k =? 1 then sParse (parse (getBytes (nthS 1 c)))
   else if k =? 2 then
     sList (fun s => sCompact (parse s))
           (enum_strings (getNat (nthS 3 c)) (getBytes (nthS 1 c)) (getBytes (nthS 2 c)))
   else if k =? 3 then
     match stored_expect (getN (nthS 1 c)) (getBytes (nthS 2 c)) (getBytes (nthS 3 c)) with
     | Ok (sql, fc) => L [A 0%Z; sBytes sql; sN fc; sN fc]
     | Err e => L [A 1%Z; sN e]
     | Panic => L [A 2%Z]
     | Fuel => L [A 3%Z]
     end
   else L [A (-1)%Z])%N.

(* ---- the property oracle, evaluated on what the implementation printed ---- *)

Definition status_returned (out : sexp) : bool :=          (* Ok or Err; not panic (2), not hang (3) *)
  let s := getZ (nthS 0 out) in
  match out with L (A _ :: _) => (Z.eqb s 0 || Z.eqb s 1) | _ => false end.

(* the per-declaration field counts of a full parse output (0 (decl ...)) *)
Definition out_field_counts (out : sexp) : option (list nat) :=
  if Z.eqb (getZ (nthS 0 out)) 0
  then Some (map (fun d => length (getL (nthS 5 d))) (getL (nthS 1 out)))
  else None.
Fixpoint nat_list_eqb (a b : list nat) : bool :=
  match a, b with
  | [], [] => true
  | x :: a', y :: b' => Nat.eqb x y && nat_list_eqb a' b'
  | _, _ => false
  end.

Definition c19_oracle (c out : sexp) : sexp :=
  let k := getN (nthS 0 c) in
  sB (if k =? 0 then
        (* generated schema: declares 3+n fields, and parses to one declaration with 3+n fields *)
        let n := extra_fields (getBytes (nthS 1 c)) in
        Z.eqb (getZ (nthS 0 out)) 0
        && Nat.eqb (declared_fields (getBytes (nthS 1 out))) (3 + n)
        && match out_field_counts (nthS 2 out) with
           | Some [m] => Nat.eqb m (3 + n)
           | _ => false
           end
      else if k =? 1 then
        (* the parser returned; a schema produced by the grammar parses with the generator's counts *)
        status_returned out
        && match getL (nthS 2 c) with
           | [] => true
           | e :: _ => match out_field_counts out with
                       | Some l => nat_list_eqb l (getList getNat e)
                       | None => false
                       end
           end
      else if k =? 2 then
        Nat.eqb (length (getL out)) (enum_count (getNat (nthS 3 c)) (length (getL (nthS 1 c))))
        && forallb status_returned (getL out)
      else if k =? 3 then
        (* stored verbatim, header counts = declared count; a schema with a NUL byte may be refused *)
        let mode := getN (nthS 1 c) in
        match stored_expect mode (getBytes (nthS 2 c)) (getBytes (nthS 3 c)) with
        | Ok (sql, fc) =>
            Z.eqb (getZ (nthS 0 out)) 0
            && sexp_eqb (nthS 1 out) (sBytes sql)
            && N.eqb (getN (nthS 2 out)) fc && N.eqb (getN (nthS 3 out)) fc
            && (if (mode =? 2)%N then N.eqb fc (N.of_nat (3 + extra_fields (getBytes (nthS 3 c)))) else true)
            && (if (mode =? 0)%N then N.eqb fc 3 && sexp_eqb (nthS 1 out) (sBytes AUTOSQL_BED3) else true)
        | Err _ => Z.eqb (getZ (nthS 0 out)) 1
        | _ => false
        end
      else false)%N.

(* entry 0: model output; entry 1: oracle on (case, implementation output) *)
Definition dispatch (k : Z) (arg : sexp) : sexp :=
  match k with
  | 0 => c19_model arg
  | 1 => c19_oracle (nthS 0 arg) (nthS 1 arg)
  | _ => L [A (-1)%Z]
  end%Z.
