(* Model of bigtools/src/utils/cli/bigwigmerge.rs (after the repairs recorded in known-findings.txt):
   [MergingValues::new] (clip, adjust, threshold, in the order the code applies them), [get_merged_vals]
   (chromosome table in BTreeMap order, size agreement, the queried range [0, size), merging in chunks when
   there are more inputs than the file-descriptor budget), output-type detection, and the rows both output
   writers receive.  A bigWig input is what a reader answers: per chromosome a name (bytes), a length and the
   stored values; [query] is the answer of [get_interval] (overlapping values, clipped), the subject of C03.
   The window size [W] and the descriptor budget [maxfds] (976 in the code) are parameters.  No proofs here. *)
From BT Require Import Base.Util Model.Merge.
Local Open Scope N_scope.

Definition bwchrom : Type := list N * N * list value.       (* name, length, values in file order *)
Definition bwfile : Type := list bwchrom.

(* get_interval(chrom, s, e): values with v.end > s && v.start < e, clipped to [s, e) *)
Definition query (vs : list value) (s e : N) : list value :=
  flat_map (fun v => if (s <? v_end v) && (v_start v <? e)
                     then [mkV (N.max (v_start v) s) (N.min (v_end v) e) (v_val v)] else []) vs.

(* ------------------------------------------------------------------ MergingValues::new
   merge, then map (clip.min(value); value += adjust), then filter (value > threshold).
   [threshold = None] is f32::NEG_INFINITY (everything passes): used for the intermediate chunk merges. *)
Definition clip_adjust (clip : option Z) (adjust : Z) (v : value) : value :=
  mkV (v_start v) (v_end v) ((match clip with Some c => Z.min c (v_val v) | None => v_val v end) + adjust)%Z.
Definition mv_map (clip : option Z) (adjust : Z) (it : item) : item :=
  match it with IV v => IV (clip_adjust clip adjust v) | IE c => IE c end.
Definition above (threshold : option Z) (x : Z) : bool :=
  match threshold with Some t => Z.ltb t x | None => true end.
Definition mv_keep (threshold : option Z) (it : item) : bool :=
  match it with IV v => above threshold (v_val v) | IE _ => true end.
Definition unwrap_or0 (o : option Z) : Z := match o with Some a => a | None => 0%Z end.

Definition merging_values (W : N) (iters : list (list item)) (threshold adjust clip : option Z) : res (list item) :=
  match merge_sections_many W iters with
  | Ok items => Ok (filter (mv_keep threshold) (map (mv_map clip (unwrap_or0 adjust)) items))
  | Err c => Err c
  | Panic => Panic
  | Fuel => Fuel
  end.

(* ------------------------------------------------------------------ chromosome table *)
Fixpoint bytes_eqb (a b : list N) : bool :=
  match a, b with
  | [], [] => true
  | x :: a', y :: b' => (x =? y) && bytes_eqb a' b'
  | _, _ => false
  end.
(* String's Ord: lexicographic on the UTF-8 bytes *)
Fixpoint bytes_ltb (a b : list N) : bool :=
  match a, b with
  | _, [] => false
  | [], _ :: _ => true
  | x :: a', y :: b' => (x <? y) || ((x =? y) && bytes_ltb a' b')
  end.

Definition find_chrom (name : list N) (f : bwfile) : option bwchrom :=
  find (fun c => bytes_eqb (fst (fst c)) name) f.

(* the loop over all files for one chromosome name: agreed size and the files that have it *)
Fixpoint chrom_files (name : list N) (files : list bwfile) (size : option N) (bws : list (list value))
  : res (option N * list (list value)) :=
  match files with
  | [] => Ok (size, bws)
  | f :: more =>
      match find_chrom name f with
      | None => chrom_files name more size bws
      | Some (_, len, vs) =>
          match size with
          | Some all => if negb (all =? len) then Err 1             (* MismatchedChroms *)
                        else chrom_files name more size (bws ++ [vs])
          | None => chrom_files name more (Some len) (bws ++ [vs])
          end
      end
  end.

Definition chrom_entry : Type := list N * N * list (list value).
(* BTreeMap::insert for a key that is not present *)
Fixpoint bt_insert (e : chrom_entry) (m : list chrom_entry) : list chrom_entry :=
  match m with
  | [] => [e]
  | x :: r => if bytes_ltb (fst (fst e)) (fst (fst x)) then e :: m else x :: bt_insert e r
  end.
Definition bt_has (name : list N) (m : list chrom_entry) : bool :=
  existsb (fun e => bytes_eqb (fst (fst e)) name) m.

Fixpoint chrom_table (names : list (list N)) (files : list bwfile) (m : list chrom_entry) : res (list chrom_entry) :=
  match names with
  | [] => Ok m
  | name :: more =>
      if bt_has name m then chrom_table more files m
      else match chrom_files name files None [] with
           | Ok (Some size, bws) => chrom_table more files (bt_insert (name, size, bws) m)
           | Ok (None, _) => Panic                                   (* size.unwrap() *)
           | Err c => Err c
           | Panic => Panic
           | Fuel => Fuel
           end
  end.

Definition all_names (files : list bwfile) : list (list N) :=
  flat_map (fun f => map (fun c => fst (fst c)) f) files.

(* ------------------------------------------------------------------ merging in chunks (more inputs than descriptors) *)
Fixpoint all_values (items : list item) : res (list value) :=
  match items with
  | [] => Ok []
  | IV v :: r => match all_values r with Ok vs => Ok (v :: vs) | other => other end
  | IE c :: _ => Err c
  end.

(* one pass of `while vals.peek().is_some()`: merge the next [maxfds] streams into one *)
Fixpoint chunk_round (fuel : nat) (W : N) (maxfds : nat) (vals : list (list item)) : res (list (list item)) :=
  match fuel with
  | O => Fuel
  | S f =>
      match vals with
      | [] => Ok []
      | _ =>
          match merging_values W (firstn maxfds vals) None None None with
          | Ok items =>
              match all_values items with
              | Ok vs =>
                  match chunk_round f W maxfds (skipn maxfds vals) with
                  | Ok more => Ok (map IV vs :: more)
                  | other => other
                  end
              | Err c => Err c | Panic => Panic | Fuel => Fuel
              end
          | Err c => Err c | Panic => Panic | Fuel => Fuel
          end
      end
  end.

(* `while merges.len() > max_bw_fds` *)
Fixpoint chunk_loop (fuel : nat) (W : N) (maxfds : nat) (merges : list (list item)) : res (list (list item)) :=
  match fuel with
  | O => Fuel
  | S f =>
      if (maxfds <? length merges)%nat then
        match chunk_round (S (length merges)) W maxfds merges with
        | Ok m' => chunk_loop f W maxfds m'
        | other => other
        end
      else Ok merges
  end.

(* the values of one chromosome handed to the output writer *)
Definition tool_chrom (W : N) (maxfds : nat) (size : N) (bws : list (list value)) (threshold : Z) (adjust clip : option Z)
  : res (list item) :=
  let iters := map (fun vs => map IV (query vs 0 size)) bws in
  if (maxfds <? length bws)%nat then
    match chunk_loop (S (length bws)) W maxfds iters with
    | Ok merges => merging_values W merges (Some threshold) adjust clip
    | Err c => Err c | Panic => Panic | Fuel => Fuel
    end
  else merging_values W iters (Some threshold) adjust clip.

(* ------------------------------------------------------------------ output rows: chromosomes in table order *)
Definition row : Type := list N * value.
Fixpoint tool_rows (W : N) (maxfds : nat) (table : list chrom_entry) (threshold : Z) (adjust clip : option Z)
  : res (list row) :=
  match table with
  | [] => Ok []
  | (name, size, bws) :: more =>
      match tool_chrom W maxfds size bws threshold adjust clip with
      | Ok items =>
          match all_values items with                                  (* Some(Err(e)) => Err(e)? *)
          | Ok vs =>
              match tool_rows W maxfds more threshold adjust clip with
              | Ok rows => Ok (map (fun v => (name, v)) vs ++ rows)
              | other => other
              end
          | Err c => Err c | Panic => Panic | Fuel => Fuel
          end
      | Err c => Err c | Panic => Panic | Fuel => Fuel
      end
  end.

(* ------------------------------------------------------------------ output type *)
Inductive otype := OBigWig | OBedGraph.
Definition to_lower (bs : list N) : list N :=
  map (fun b => if (65 <=? b) && (b <=? 90) then b + 32 else b) bs.    (* ASCII; other scripts not modelled *)
Definition ends_with (s suf : list N) : bool :=
  (length suf <=? length s)%nat && bytes_eqb (skipn (length s - length suf) s) suf.

Definition s_dot_bw : list N := [46; 98; 119].
Definition s_dot_bigwig : list N := [46; 98; 105; 103; 119; 105; 103].
Definition s_dot_bedgraph : list N := [46; 98; 101; 100; 103; 114; 97; 112; 104].
Definition s_bigwig : list N := [98; 105; 103; 119; 105; 103].
Definition s_bedgraph : list N := [98; 101; 100; 103; 114; 97; 112; 104].

Definition detect_output (output_type : option (list N)) (name : list N) : option otype :=
  match output_type with
  | None =>
      if ends_with (to_lower name) s_dot_bw || ends_with (to_lower name) s_dot_bigwig then Some OBigWig
      else if ends_with (to_lower name) s_dot_bedgraph then Some OBedGraph
      else None
  | Some t =>
      if bytes_eqb (to_lower t) s_bigwig then Some OBigWig
      else if bytes_eqb (to_lower t) s_bedgraph then Some OBedGraph
      else None
  end.

(* one run of the tool: the merged rows are computed first (get_merged_vals precedes the output-type
   decision, so mismatching chromosome sizes are an error whatever the output name) *)
Definition tool_run (W : N) (maxfds : nat) (files : list bwfile) (threshold : Z) (adjust clip : option Z)
           (output_type : option (list N)) (name : list N) : res (option (otype * list row)) :=
  match chrom_table (all_names files) files [] with
  | Ok table =>
      match detect_output output_type name with
      | None => Ok None                                               (* message, nothing written, exit 0 *)
      | Some t =>
          match tool_rows W maxfds table threshold adjust clip with
          | Ok rows => Ok (Some (t, rows))
          | Err c => Err c | Panic => Panic | Fuel => Fuel
          end
      end
  | Err c => Err c | Panic => Panic | Fuel => Fuel
  end.
