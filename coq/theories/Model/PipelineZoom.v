(* The second pass of write_multipass: bbiwrite.rs write_zoom_vals, as a transition system in the style of
   Model/Pipeline.v.  L zoom levels ("lanes"), K chromosomes.

   per level z           (buf_z, write_z) = TempFileBuffer::new: the level's OUTER staging buffer; a bounded
                         channel to the level's splice task.  Level 0's outer buffer is switched to the real
                         file before anything else; the others are never switched.
   per level, chromosome future_channel: handle channel, write task (write_data), INNER staging buffer, exactly
                         as in Model/Pipeline.v ([chrom], prod_step / enc_step / write_step).
   main thread           process_to_bbi as in Model/Pipeline.v: start_processing(k) in order under the window
                         (creates the channels, buffers and write tasks of chromosome k in all levels);
                         advance(k) in order once the producer has submitted everything: destroy() drops all the
                         chromosome's senders, and `zoom.try_send((data_write_future, data, sections))` hands the
                         chromosome to every level's splice task -- AT ADVANCE, not at start as in the first pass
                         (the bounded channel has room for all chromosomes, try_send never fails);
                         after the last advance, drop(zooms_map) closes the channels to the splice tasks;
                         THEN THE FINAL ASSEMBLY, level by level in order:
                           block_on(level's splice task); drop(its outer writer);
                           level 0:   file = buf_0.await_real_file()       (the buffer has had the file all along)
                           level z>0: buf_z.expect_closed_write(&mut file) (copy the staged bytes to the file)
                           offsets assigned to the level's sections from the position of its first byte;
                           get_rtreeindex; write_rtreeindex at the current position; ZoomHeader pushed.
   splice task of level z  `while let Some(r) = rcv.next().await { data.switch(real_file); data_write_future.await;
                           real_file = data.await_real_file() }` with real_file = the level's outer writer: the
                         single-lane splice loop of Model/Pipeline.v, one task PER LEVEL, independent of the others.

   Staging buffers are abstracted by their contract (C12_delivery; for the writer pipeline the refinement from a
   machine with the buffer machines in full is Proofs/PipelineRefine.v): an inner buffer hands back the outer
   writer with the chromosome's bytes appended ([zs_store] = everything written to the level's outer writer so
   far), and the outer buffer delivers  d0 ++ store  for both consumer programs, (a) switch .. await_real_file
   with d0 = the file at the switch (level 0: nothing else touches the file in between) and (b)
   expect_closed_write with d0 = the file at that moment: so the assembly step appends [zs_store] to the file.

   Producers: ZProd l k submits lane l's next section of chromosome k; the real producer is ONE task per
   chromosome serving the levels in a data-dependent order (process_val_zoom).  See
   Proofs/PipelineLanesProgress.v (lanes_waits) / Proofs/PipelineZoom.v for why that makes no difference
   to progress.  No proofs in this file. *)
From BT Require Import Base.Util Model.RTree Model.BBIFile Model.Pipeline.

Record zsp := mkzs { zs_k : nat; zs_pc : spc; zs_store : bytes }.

Record zst := mkz {
  z_lanes : list (list chrom);     (* level -> chromosome -> channel / write task state *)
  z_started : nat; z_advanced : nat; z_closed : bool;
  z_sp : list zsp;                 (* level -> its splice task *)
  z_asm : nat;                     (* levels 0 .. z_asm-1 have been assembled into the file *)
  z_file : bytes;                  (* the real file *)
  z_hdrs : list zoom_header        (* zoom_entries *)
}.

Inductive ztask := ZMain | ZProd (l k : nat) | ZEnc (l k i : nat) | ZWrite (l k : nat) | ZSplice (l : nat).

Definition z_K (s : zst) : nat := length (nth 0 (z_lanes s) []).

(* the final assembly of level z_asm *)
Definition zasm_step (o : opts) (ress : list N) (s : zst) : option zst :=
  let z := z_asm s in
  match nth_error (z_sp s) z, nth_error (z_lanes s) z with
  | Some sp, Some ln =>
      if is_done (zs_pc sp) then                                   (* runtime.block_on(zoom_fut) *)
        let pos := Nlen (z_file s) in                              (* zoom_data_offset = file.tell() *)
        let secs := place pos (concat (map c_out ln)) in           (* sections.into_iter().flatten(), offsets assigned *)
        let index_off := (pos + Nlen (zs_store sp))%N in               (* file.tell() after the level's bytes *)
        match write_index (o_bs o) (o_ips o) index_off secs with
        | Ok (ix, _) =>
            Some (mkz (z_lanes s) (z_started s) (z_advanced s) (z_closed s) (z_sp s) (S z)
                      (z_file s ++ zs_store sp ++ ix)
                      (z_hdrs s ++ [{| zh_res := nth z ress 0%N; zh_data := pos; zh_index := index_off |}]))
        | _ => None                                                (* the error is returned *)
        end
      else None
  | _, _ => None
  end.

Definition zmain_step (win : nat) (o : opts) (ress : list N) (s : zst) : option zst :=
  let K := z_K s in
  if z_closed s then zasm_step o ress s
  else if (z_started s <? K)%nat && (z_started s - z_advanced s <? win)%nat then
    Some (mkz (z_lanes s) (S (z_started s)) (z_advanced s) false (z_sp s) (z_asm s) (z_file s) (z_hdrs s))
  else if (z_advanced s <? z_started s)%nat then
    if forallb (todo_done (z_advanced s)) (z_lanes s)
    then Some (mkz (map (close_at (z_advanced s)) (z_lanes s)) (z_started s) (S (z_advanced s)) false
                   (z_sp s) (z_asm s) (z_file s) (z_hdrs s))
    else None
  else if (K <=? z_started s)%nat then
    Some (mkz (z_lanes s) (z_started s) (z_advanced s) true (z_sp s) (z_asm s) (z_file s) (z_hdrs s))
  else None.

Definition zon_chrom (l k : nat) (f : chrom -> option chrom) (s : zst) : option zst :=
  if (k <? z_started s)%nat then
    match nth_error (z_lanes s) l with
    | Some ln =>
        match nth_error ln k with
        | Some c => match f c with
                    | Some c' => Some (mkz (set_nth l (set_nth k c' ln) (z_lanes s)) (z_started s) (z_advanced s)
                                           (z_closed s) (z_sp s) (z_asm s) (z_file s) (z_hdrs s))
                    | None => None
                    end
        | None => None
        end
    | None => None
    end
  else None.

Definition zsplice_step (l : nat) (s : zst) : option zst :=
  match nth_error (z_sp s) l with
  | None => None
  | Some sp =>
      let set sp' := Some (mkz (z_lanes s) (z_started s) (z_advanced s) (z_closed s) (set_nth l sp' (z_sp s))
                               (z_asm s) (z_file s) (z_hdrs s)) in
      let chrom := match nth_error (z_lanes s) l with Some ln => nth_error ln (zs_k sp) | None => None end in
      match zs_pc sp with
      | SRecv =>
          if (zs_k sp <? z_advanced s)%nat then set (mkzs (zs_k sp) SAwaitTask (zs_store sp))   (* received; data.switch(real_file) *)
          else if z_closed s then set (mkzs (zs_k sp) SDone (zs_store sp))
          else None
      | SAwaitTask =>
          match chrom with
          | Some c => if c_wdone c then set (mkzs (zs_k sp) SAwaitFile (zs_store sp)) else None
          | None => None
          end
      | SAwaitFile =>
          match chrom with
          | Some c => if c_wdone c then set (mkzs (S (zs_k sp)) SRecv (zs_store sp ++ data_bytes (c_out c))) else None
          | None => None
          end
      | SDone => None
      end
  end.

Definition zstep (g : params) (o : opts) (ress : list N) (t : ztask) (s : zst) : option zst :=
  match t with
  | ZMain => zmain_step (g_win g) o ress s
  | ZProd l k => zon_chrom l k (prod_step (g_cap g)) s
  | ZEnc l k i => zon_chrom l k (enc_step i) s
  | ZWrite l k => zon_chrom l k (write_step (g_fifo g)) s
  | ZSplice l => zsplice_step l s
  end.
Definition zstep_or_stay (g : params) (o : opts) (ress : list N) (t : ztask) (s : zst) : zst :=
  match zstep g o ress t s with Some s' => s' | None => s end.
Fixpoint zrun (g : params) (o : opts) (ress : list N) (sched : list ztask) (s : zst) : zst :=
  match sched with [] => s | t :: r => zrun g o ress r (zstep_or_stay g o ress t s) end.

(* [pre]: the file when write_zoom_vals is entered; [Sss]: level -> chromosome -> zoom sections *)
Definition zinit (pre : bytes) (Sss : list (list (list sdata))) : zst :=
  mkz (map (map init_chrom) Sss) 0 0 false (map (fun _ => mkzs 0 SRecv []) Sss) 0 pre [].
Definition zterminal (s : zst) : bool := z_closed s && (z_asm s =? length (z_lanes s))%nat.

(* the levels as the sequential model (Model/BigWigWrite.v write_zooms_two_pass) takes them *)
Definition zlevels (ress : list N) (Sss : list (list (list sdata))) : list zoom_level :=
  map (fun rs => {| zl_res := fst rs; zl_secs := concat (snd rs) |}) (combine ress Sss).

(* the single-lane machine state level l is in *)
Definition zproj (l : nat) (s : zst) : pst :=
  let sp := nth l (z_sp s) (mkzs 0 SRecv []) in
  mkp (nth l (z_lanes s) []) (z_started s) (z_advanced s) (z_closed s) (zs_k sp) (zs_pc sp) (zs_store sp).

Definition all_ztasks (L K cap : nat) : list ztask :=
  ZMain :: map ZSplice (seq 0 L) ++
  flat_map (fun l => flat_map (fun k => ZProd l k :: ZWrite l k :: map (ZEnc l k) (seq 0 cap)) (seq 0 K)) (seq 0 L).
Fixpoint zrounds (n : nat) (l : list ztask) : list ztask :=
  match n with O => [] | S m => l ++ zrounds m l end.
