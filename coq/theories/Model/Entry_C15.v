(* Case decoding, result encoding and the property oracle for C15 (glue; the modelled code is in
   Model/Merge.v, Model/Fill.v, Model/MergeTool.v).
   case = (tag ...):
     (0 (s e v8) (s e v8))                           merge_into
     (1 (stream ...))   item = (0 s e v8) | (1 code) merge_sections_many        (values in eighths)
     (2 (item ...))     item = (0 s e bits) | (1 c)  fill                       (raw f32 bit patterns)
     (3 (item ...) start end)                        fill_start_to_end
     (4 (file ...) (thr8 (adj8)? (clip8)?) (out ...))  the merge tool
          file = (repeat ((name size ((s e v8) ...)) ...)), out = (name (type)?)                          *)
From BT Require Import Base.Util Base.Sexp Generated.Consts Model.Merge Model.Fill Model.MergeTool.
Local Open Scope N_scope.

(* MAX_FDS - 1 - 1 - (1 + 1 + max_zooms + max_zooms) * PARALLEL_CHROMS, max_zooms = 10 (bigwigmerge.rs) *)
Definition MAX_BW_FDS : nat :=
  N.to_nat (MERGE_MAX_FDS - 1 - 1 - (1 + 1 + DEFAULT_MAX_ZOOMS + DEFAULT_MAX_ZOOMS) * MERGE_PARALLEL_CHROMS).   (* = 976 *)

(* ------------------------------------------------------------------ f32 bit patterns of eighths (exact range only) *)
Definition enc_pos (p : positive) : N :=
  let m := Npos p in
  let e := N.log2 m in
  let mant := if e <=? 23 then m * 2 ^ (23 - e) - 2 ^ 23 else m / 2 ^ (e - 23) - 2 ^ 23 in
  (e + 124) * 2 ^ 23 + mant.
Definition bits_of8 (z : Z) : N :=
  match z with Z0 => 0 | Zpos p => enc_pos p | Zneg p => 2 ^ 31 + enc_pos p end.
(* None when the pattern is not a multiple of 1/8 of moderate size (NaN, infinities, subnormals included) *)
Definition eighths_of_bits (b : N) : option Z :=
  let sign := b / 2 ^ 31 in
  let ex := (b / 2 ^ 23) mod 256 in
  let mant := b mod 2 ^ 23 in
  if ex =? 0 then (if mant =? 0 then Some 0%Z else None)
  else if 190 <? ex then None
  else
    let m := 2 ^ 23 + mant in
    let mag :=
      if 147 <=? ex then Some (m * 2 ^ (ex - 147))
      else let k := 2 ^ (147 - ex) in if m mod k =? 0 then Some (m / k) else None in
    match mag with
    | Some a => Some (if sign =? 0 then Z.of_N a else (- Z.of_N a)%Z)
    | None => None
    end.

(* ------------------------------------------------------------------ decoding *)
Definition get_val (s : sexp) (off : nat) : value :=
  mkV (getN (nthS off s)) (getN (nthS (off + 1) s)) (getZ (nthS (off + 2) s)).
Definition get_item (s : sexp) : item :=
  if Z.eqb (getZ (nthS 0 s)) 0 then IV (get_val s 1) else IE (getN (nthS 1 s)).
Definition get_chrom (s : sexp) : bwchrom :=
  (getBytes (nthS 0 s), getN (nthS 1 s), getList (fun v => get_val v 0) (nthS 2 s)).
Definition get_files (s : sexp) : list bwfile :=
  flat_map (fun f => repeatN (getList get_chrom (nthS 1 f)) (getNat (nthS 0 f))) (getL s).
Definition get_optZ (s : sexp) : option Z := getOpt getZ s.

(* ------------------------------------------------------------------ encoding *)
Definition s_val (enc : Z -> sexp) (v : value) : sexp := L [sN (v_start v); sN (v_end v); enc (v_val v)].
Definition s_item (enc : Z -> sexp) (it : item) : sexp :=
  match it with
  | IV v => L [A 0%Z; sN (v_start v); sN (v_end v); enc (v_val v)]
  | IE c => L [A 1%Z; sN c]
  end.
Definition enc8 (z : Z) : sexp := sN (bits_of8 z).
Definition enc_raw (z : Z) : sexp := A z.
Definition s_res {X} (f : X -> sexp) (r : res X) : sexp :=
  match r with
  | Ok x => L [A 0%Z; f x]
  | Err c => L [A 1%Z; sN c]
  | Panic => L [A 2%Z]
  | Fuel => L [A 3%Z]
  end.
Definition s_row (r : row) : sexp :=
  L [sBytes (fst r); sN (v_start (snd r)); sN (v_end (snd r)); enc8 (v_val (snd r))].

(* one run of the tool per output name.  The chromosome table and the merged rows do not depend on the output
   name, so they are computed once per case and shared ([tool_run_shared] = [tool_run], Proofs/EntryC15Glue.v). *)
Definition tool_run_shared (ct : res (list chrom_entry)) (rows : res (list row))
           (output_type : option (list N)) (name : list N) : res (option (otype * list row)) :=
  match ct with
  | Ok _ =>
      match detect_output output_type name with
      | None => Ok None
      | Some t => match rows with Ok r => Ok (Some (t, r)) | Err c => Err c | Panic => Panic | Fuel => Fuel end
      end
  | Err c => Err c | Panic => Panic | Fuel => Fuel
  end.
Definition shared_rows (W : N) (maxfds : nat) (ct : res (list chrom_entry)) (thr : Z) (adj clip : option Z) : res (list row) :=
  match ct with Ok table => tool_rows W maxfds table thr adj clip | Err c => Err c | Panic => Panic | Fuel => Fuel end.

Definition s_tool (r : res (option (otype * list row))) : sexp :=
  match r with
  | Ok None => L [A 0%Z; A 0%Z; L []]
  | Ok (Some (OBedGraph, rows)) => L [A 0%Z; A 1%Z; sList s_row rows]
  | Ok (Some (OBigWig, rows)) => L [A 0%Z; A 2%Z; sList s_row rows]
  | Err _ => L [A 1%Z; A 0%Z; L []]
  | Panic => L [A 2%Z; A 0%Z; L []]
  | Fuel => L [A 3%Z; A 0%Z; L []]
  end.

Definition tool_outs (files : list bwfile) (set : sexp) (outs : list sexp) : sexp :=
  let thr := getZ (nthS 0 set) in
  let adj := get_optZ (nthS 1 set) in
  let clip := get_optZ (nthS 2 set) in
  let ct := chrom_table (all_names files) files [] in
  let rows := shared_rows MERGE_DATA_SIZE MAX_BW_FDS ct thr adj clip in
  sList (fun out => s_tool (tool_run_shared ct rows (getOpt getBytes (nthS 1 out)) (getBytes (nthS 0 out)))) outs.

Definition c15_model (c : sexp) : sexp :=
  match getZ (nthS 0 c) with
  | 0%Z => s_res (fun r => sList (s_val enc8) (pieces r)) (merge_into (get_val (nthS 1 c) 0) (get_val (nthS 2 c) 0))
  | 1%Z => s_res (sList (s_item enc8)) (merge_sections_many MERGE_DATA_SIZE (getList (getList get_item) (nthS 1 c)))
  | 2%Z => s_res (sList (s_item enc_raw)) (fill (getList get_item (nthS 1 c)))
  | 3%Z => s_res (sList (s_item enc_raw))
                 (fill_start_to_end (getList get_item (nthS 1 c)) (getN (nthS 2 c)) (getN (nthS 3 c)))
  | 4%Z => L [A 0%Z; tool_outs (get_files (nthS 1 c)) (nthS 2 c) (getL (nthS 3 c))]
  | _ => L [A (-1)%Z]
  end.

(* ------------------------------------------------------------------ the property as a decidable predicate
   evaluated on what the implementation returned.  Per-base statements are decided at the breakpoints: every
   signal involved is constant between two consecutive starts/ends of the values involved. *)
Fixpoint all_some {X} (l : list (option X)) : option (list X) :=
  match l with
  | [] => Some []
  | Some x :: r => match all_some r with Some r' => Some (x :: r') | None => None end
  | None :: _ => None
  end.
Definition values_of (items : list item) : option (list value) :=
  all_some (map (fun it => match it with IV v => Some v | IE _ => None end) items).
Definition dec_val (dec : Z -> option Z) (v : value) : option value :=
  match dec (v_val v) with Some z => Some (mkV (v_start v) (v_end v) z) | None => None end.
Definition dec8 (z : Z) : option Z := eighths_of_bits (Z.to_N z).
(* implementation output (0 (item ...)) -> values, when it is a value list of decodable numbers *)
Definition out_values (dec : Z -> option Z) (out : sexp) : option (list value) :=
  if negb (Z.eqb (getZ (nthS 0 out)) 0) then None
  else match values_of (getList get_item (nthS 1 out)) with
       | Some vs => all_some (map (dec_val dec) vs)
       | None => None
       end.
Definition bounds (l : list value) : list N := flat_map (fun v => [v_start v; v_end v]) l.
Definition opt_eqb (a b : option Z) : bool :=
  match a, b with Some x, Some y => Z.eqb x y | None, None => true | _, _ => false end.
Definition wf_stream (vs : list value) : bool := sorted_fromb 0 vs.

(* merge_into: overlapping non-empty values -> pieces sorted, disjoint, per-base sum on the hull, nothing outside;
   non-overlapping -> the documented panic *)
Definition orc_merge_into (c out : sexp) : bool :=
  let one := get_val (nthS 1 c) 0 in
  let two := get_val (nthS 2 c) 0 in
  if negb ((v_start one <? v_end one) && (v_start two <? v_end two)) then true
  else if (v_end one <=? v_start two) || (v_end two <=? v_start one) then Z.eqb (getZ (nthS 0 out)) 2
  else
    if negb (Z.eqb (getZ (nthS 0 out)) 0) then false
    else match all_some (map (fun s => dec_val dec8 (get_val s 0)) (getL (nthS 1 out))) with
         | None => false
         | Some ps =>
             sorted_fromb (N.min (v_start one) (v_start two)) ps &&
             forallb (fun x => opt_eqb (sig ps x)
                                 (if cov [one; two] x then Some (sigz [one; two] x) else None))
                     (0 :: bounds (one :: two :: ps))
         end.

(* merge_sections_many: for error-free sorted disjoint streams the output is sorted, disjoint, without a
   zero-valued run, and at every base carries the sum of the inputs where that sum is not zero *)
Definition orc_merge_many (c out : sexp) : bool :=
  let streams := getList (getList get_item) (nthS 1 c) in
  match all_some (map values_of streams) with
  | None => true
  | Some vss =>
      if negb (forallb wf_stream vss) then true
      else match out_values dec8 out with
           | None => false
           | Some o =>
               sorted_fromb 0 o && forallb (fun v => negb (isz (v_val v))) o &&
               forallb (fun x => opt_eqb (sig o x) (nz_opt (ssum vss x)))
                       (0 :: bounds o ++ flat_map bounds vss)
           end
  end.

(* fill: gapless tiling from the start position, the inputs unchanged and in order, only zeros added *)
Fixpoint tilesb (s e : N) (l : list value) : bool :=
  match l with
  | [] => s =? e
  | v :: r => (v_start v =? s) && (s <? v_end v) && tilesb (v_end v) e r
  end.
Definition val_eqb (a b : value) : bool :=
  (v_start a =? v_start b) && (v_end a =? v_end b) && Z.eqb (v_val a) (v_val b).
Fixpoint zeros_addedb (ins outs : list value) : bool :=
  match outs with
  | [] => match ins with [] => true | _ => false end
  | o :: outs' =>
      match ins with
      | i :: ins' => if val_eqb i o then zeros_addedb ins' outs'
                     else Z.eqb (v_val o) 0 && zeros_addedb ins outs'
      | [] => Z.eqb (v_val o) 0 && zeros_addedb [] outs'
      end
  end.
Definition last_end (s : N) (l : list value) : N := fold_left (fun _ v => v_end v) l s.

Definition orc_fill (c out : sexp) (bounded : bool) : bool :=
  let items := getList get_item (nthS 1 c) in
  let start := if bounded then getN (nthS 2 c) else 0 in
  match values_of items with
  | None => true
  | Some vs =>
      if negb (sorted_fromb start vs) then true
      else if bounded && negb (last_end start vs <=? getN (nthS 3 c)) then true
      else match out_values (fun z => Some z) out with
           | None => false
           | Some o =>
               tilesb start (if bounded then getN (nthS 3 c) else last_end start vs) o && zeros_addedb vs o
           end
  end.

(* the merge tool *)
Definition chrom_ok (c : bwchrom) : bool :=
  let '(_, size, vs) := c in sorted_fromb 0 vs && (last_end 0 vs <=? size).
Definition rows_of (name : list N) (rows : list sexp) : option (list value) :=
  all_some (map (fun r => dec_val dec8 (get_val r 1))
                (filter (fun r => bytes_eqb (getBytes (nthS 0 r)) name) rows)).
Definition expected_at (bws : list (list value)) (thr : Z) (adj clip : option Z) (x : N) : option Z :=
  let s := ssum bws x in
  if isz s then None
  else let v := ((match clip with Some c => Z.min c s | None => s end) + unwrap_or0 adj)%Z in
       if Z.ltb thr v then Some v else None.
(* the outcome the documentation promises for the name, if it promises one *)
Definition documented_kind (ty : option (list N)) (name : list N) : option Z :=
  match ty with
  | Some t => if bytes_eqb (to_lower t) s_bigwig then Some 2%Z
              else if bytes_eqb (to_lower t) s_bedgraph then Some 1%Z else Some 0%Z
  | None => if ends_with name s_dot_bw || ends_with name [46; 98; 105; 103; 87; 105; 103] then Some 2%Z
            else if ends_with name [46; 98; 101; 100; 71; 114; 97; 112; 104] then Some 1%Z
            else None
  end.

Definition orc_tool (c out : sexp) : bool :=
  let files := get_files (nthS 1 c) in
  let set := nthS 2 c in
  let thr := getZ (nthS 0 set) in
  let adj := get_optZ (nthS 1 set) in
  let clip := get_optZ (nthS 2 set) in
  if negb (forallb (forallb chrom_ok) files) then true
  else match chrom_table (all_names files) files [] with
       | Ok table =>
           Z.eqb (getZ (nthS 0 out)) 0 &&
           Nat.eqb (length (getL (nthS 3 c))) (length (getL (nthS 1 out))) &&
           forallb (fun oo =>
             let o := fst oo in let r := snd oo in
             let kind := getZ (nthS 1 r) in
             let rows := getL (nthS 2 r) in
             Z.eqb (getZ (nthS 0 r)) 0 &&
             match documented_kind (getOpt getBytes (nthS 1 o)) (getBytes (nthS 0 o)) with
             | Some k => Z.eqb kind k
             | None => true
             end &&
             (Z.eqb kind 0 ||
              (forallb (fun row => bt_has (getBytes (nthS 0 row)) table) rows &&
               forallb (fun e =>
                 let '(name, size, bws) := e in
                 match rows_of name rows with
                 | None => false
                 | Some vs =>
                     sorted_fromb 0 vs && (last_end 0 vs <=? size) &&
                     forallb (fun x => (size <=? x) || opt_eqb (sig vs x) (expected_at bws thr adj clip x))
                             (0 :: bounds vs ++ flat_map bounds bws)
                 end) table)))
             (combine (getL (nthS 3 c)) (getL (nthS 1 out)))
       | _ => true
       end.

Definition c15_oracle (c out : sexp) : sexp :=
  sB (match getZ (nthS 0 c) with
      | 0%Z => orc_merge_into c out
      | 1%Z => orc_merge_many c out
      | 2%Z => orc_fill c out false
      | 3%Z => orc_fill c out true
      | 4%Z => orc_tool c out
      | _ => false
      end).

(* entry 0: model output; entry 1: oracle on (case, implementation output) *)
Definition dispatch (k : Z) (arg : sexp) : sexp :=
  match k with
  | 0 => c15_model arg
  | 1 => c15_oracle (nthS 0 arg) (nthS 1 arg)
  | _ => L [A (-1)%Z]
  end%Z.
