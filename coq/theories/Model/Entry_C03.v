(* C03 entry.  Case = the shared BBI case (Model/EntryBBI.v) whose query list is read as a HISTORY.
   Output (harness/src/bin/c03.rs): (1 code) | (2) | (3) when the write is refused, else
     (0 F P C R)  F = a fresh plain reader per query       P = one plain reader, whole history
                  C = one caching reader, whole history     R = reopen() of the used caching reader,
                                                                history reversed (printed re-aligned)
   Oracle = the property on what the IMPLEMENTATION returned: every in-scope interval answer is
   map clip (filter overlaps) of the case's input values of that chromosome, every per-base array
   has at each offset the value of the covering input item (NaN = () elsewhere), and F = P = C = R. *)
From BT Require Import Base.Util Base.Sexp Base.Float Model.RTree Model.BBIFile Model.BigWigWrite Model.BBIRead
  Model.EntryBBI Model.CachedRead.
Local Open Scope N_scope.

(* ---- model ---- *)
Definition get_query (q : sexp) : option query :=
  let k := getN (nthS 0 q) in
  let c := getBytes (nthS 1 q) in
  let s := getN (nthS 2 q) in
  let e := getN (nthS 3 q) in
  if k =? 0 then Some (QInterval c s e)
  else if k =? 1 then Some (QValues c s e)
  else if k =? 2 then Some (QZoom c s e (getN (nthS 4 q)))
  else None.

Definition sAnswer (a : answer) : sexp :=
  match a with
  | AInterval r => sRes (sList sValue) r
  | AValues r => sRes (sList (sOpt sN)) r
  | AZoom r => sRes (sList sZrec) r
  end.

(* one reader with a cache fed a list of raw queries; kinds 3/4 do not touch the cache *)
Fixpoint run_cached (bs : list N) (i : info) (c : cache) (qs : list sexp) : list sexp * cache :=
  match qs with
  | [] => ([], c)
  | q :: r =>
      match get_query q with
      | Some qq => let '(a, c1) := qstep idf bs i c qq in
                   let '(rest, c2) := run_cached bs i c1 r in (sAnswer a :: rest, c2)
      | None => let '(rest, c2) := run_cached bs i c r in (EntryBBI.answer bs i q :: rest, c2)
      end
  end.

Definition c03_model (c : sexp) : sexp :=
  match write_model c with
  | Ok bs =>
      let qs := getL (nthS 4 c) in
      match read_info bs with
      | Ok i =>
          let f := map (EntryBBI.answer bs i) qs in
          let '(cc, c1) := run_cached bs i cache0 qs in
          let '(rr, _) := run_cached bs i (c_reopen c1) (rev qs) in
          L [A 0%Z; L f; L f; L cc; L (rev rr)]
      | r => L [A 0%Z; sList (fun _ => sRes (fun _ : info => L []) r) qs; sRes (fun _ => L []) r]
      end
  | Err code => L [A 1%Z; sN code]
  | Panic => L [A 2%Z]
  | Fuel => L [A 3%Z]
  end.

(* ---- oracle ---- *)
Definition input_of (c : sexp) : list item := getList get_item (nthS 3 c).
Definition vals_of_chrom (inp : list item) (c : name) : list value :=
  map snd (filter (fun it => name_eqb (fst it) c) inp).
Definition has_chrom (inp : list item) (c : name) : bool := existsb (fun it => name_eqb (fst it) c) inp.

Definition get_value (x : sexp) : value :=
  {| v_start := getN (nthS 0 x); v_end := getN (nthS 1 x); v_bits := getN (nthS 2 x) |}.
Definition value_eqb (a b : value) : bool :=
  (v_start a =? v_start b) && (v_end a =? v_end b) && (v_bits a =? v_bits b).
Fixpoint list_eqb {X} (eq : X -> X -> bool) (a b : list X) : bool :=
  match a, b with
  | [], [] => true
  | x :: r, y :: s => eq x y && list_eqb eq r s
  | _, _ => false
  end.

(* the specification of an interval answer *)
Definition spec_interval (s e : N) (vals : list value) : list value := clip_filter s e vals.
Definition nonzero (l : list value) : list value := filter (fun v => v_start v <? v_end v) l.
(* ascending and pairwise disjoint *)
Fixpoint ascending (l : list value) : bool :=
  match l with
  | [] => true
  | v :: r => (v_start v <=? v_end v) && (match r with [] => true | w :: _ => v_end v <=? v_start w end) && ascending r
  end.
(* The property fixes the values that cover at least one base of the range.  A zero-length stored
   value covers no base: the reader reports it when it lies strictly inside the range; the oracle
   accepts it reported or not, as long as it is a stored value inside the range. *)
Definition interval_ok (s e : N) (vals ans : list value) : bool :=
  list_eqb value_eqb ans (spec_interval s e vals)
  || (list_eqb value_eqb (nonzero ans) (nonzero (spec_interval s e vals))
      && ascending ans
      && forallb (fun a => (v_start a <? v_end a)
                           || ((s <=? v_start a) && (v_end a <=? e) && existsb (value_eqb a) vals)) ans).

(* the specification of a per-base array: at offset j the value of the input item covering base s+j *)
Definition spec_values (s e : N) (vals : list value) : list (option N) :=
  map (fun j => let p := s + N.of_nat j in
                match find (fun v => (v_start v <=? p) && (p <? v_end v)) vals with
                | Some v => Some (v_bits v)
                | None => None
                end)
      (seq 0 (N.to_nat (e - s))).

Definition c03_oracle (c out : sexp) : sexp :=
  let status := getZ (nthS 0 out) in
  if Z.eqb status 1 then sB true          (* refused input: not a file "produced as in C01" *)
  else if negb (Z.eqb status 0) then sB false   (* a panic or a hang while writing or answering *)
  else
    let sizes := get_sizes (nthS 2 c) in
    let inp := input_of c in
    let qs := getL (nthS 4 c) in
    let f := getL (nthS 1 out) in
    let p := getL (nthS 2 out) in
    let cc := getL (nthS 3 out) in
    let rr := getL (nthS 4 out) in
    let n := length qs in
    sB (Nat.eqb (length f) n && Nat.eqb (length p) n && Nat.eqb (length cc) n && Nat.eqb (length rr) n &&
        forallb (fun x =>
                   let '(q, (a, (ap, (ac, ar)))) := x in
                   let k := getN (nthS 0 q) in
                   let cn := getBytes (nthS 1 q) in
                   let s := getN (nthS 2 q) in
                   let e := getN (nthS 3 q) in
                   let len := match lookup cn sizes with Some l => l | None => 0 end in
                   let in_scope := (k <=? 2) && has_chrom inp cn && (s <=? e) && (e <=? len) in
                   if negb in_scope then true
                   else
                     (* the same through every reader *)
                     sexp_eqb a ap && sexp_eqb a ac && sexp_eqb a ar &&
                     (if k =? 0 then
                        Z.eqb (getZ (nthS 0 a)) 0 &&
                        interval_ok s e (vals_of_chrom inp cn) (getList get_value (nthS 1 a))
                      else if k =? 1 then
                        sexp_eqb a (L [A 0%Z; sList (sOpt sN) (spec_values s e (vals_of_chrom inp cn))])
                      else true))
                (combine qs (combine f (combine p (combine cc rr))))).

Definition dispatch (k : Z) (arg : sexp) : sexp :=
  match k with
  | 0 => c03_model arg
  | 1 => c03_oracle (nthS 0 arg) (nthS 1 arg)
  | _ => L [A (-1)%Z]
  end%Z.
