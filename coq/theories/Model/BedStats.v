(* Model of the per-region statistics code:
     utils/misc.rs        name_for_bed_item / stats_for_bed_item / bigwig_average_over_bed
     bed/bedparser.rs     parse_bed (the BED3+ line parser the tools use)
     utils/file/streaming_linereader.rs   StreamingLineReader::read (lines, trim_end)
     utils/cli/bigwigaverageoverbed.rs    serial loop, process_chunk, in-order reassembly, row format
     utils/cli/bigwigvaluesoverbed.rs     write(): unique-name probe, per-base fill
   The bigWig is reached only through a query function [q chrom start end] (= BigWigRead::get_interval
   fully drained; Model/BBIRead.v bw_interval on a byte image in Model/Entry_C17.v).
   Text is a list of bytes.  ASCII only: str::trim_end / trim also strip the multi-byte Unicode
   White_Space characters and read_line rejects invalid UTF-8; neither is modelled.
   Integer overflow is modelled as the debug profile does it (panic), which is how the harness and the
   CLI binaries of the check are built.  No proofs in this file. *)
From BT Require Import Base.Util Base.Float Model.RTree Model.BBIFile Model.BigWigWrite Model.BBIRead.
Local Open Scope N_scope.

Definition NL : N := 10.
Definition TAB : N := 9.
Definition CR : N := 13.

(* error classes of BigWigAverageOverBedError that do not come from the reader (those keep the
   reader codes of Model/BBIRead.v) *)
Definition E_BED : N := 8.        (* BedValueError::InvalidInput *)
Definition E_NAMECOL : N := 9.    (* InvalidNameColError *)

(* ---------------------------------------------------------------- text *)
(* BufRead::read_line repeatedly: pieces ending after each newline, a last piece without one *)
Fixpoint split_lines (l : list N) : list (list N) :=
  match l with
  | [] => []
  | x :: r => if x =? NL then [x] :: split_lines r
              else match split_lines r with
                   | p :: ps => (x :: p) :: ps
                   | [] => [[x]]
                   end
  end.

(* White_Space below 128: 9..13 and 32 *)
Definition is_ws (x : N) : bool := ((9 <=? x) && (x <=? 13)) || (x =? 32).
Fixpoint trim_start (l : list N) : list N :=
  match l with [] => [] | x :: r => if is_ws x then trim_start r else l end.
Fixpoint trim_end (l : list N) : list N :=
  match l with
  | [] => []
  | x :: r => match trim_end r with
              | [] => if is_ws x then [] else [x]
              | r' => x :: r'
              end
  end.
Definition trim (l : list N) : list N := trim_start (trim_end l).

(* StreamingLineReader::read until None *)
Definition file_lines (bed : list N) : list (list N) := map trim_end (split_lines bed).

(* the text before the first [sep] and, when there is one, the text after it *)
Fixpoint cut (sep : N) (l : list N) : list N * option (list N) :=
  match l with
  | [] => ([], None)
  | x :: r => if x =? sep then ([], Some r)
              else let '(a, b) := cut sep r in (x :: a, b)
  end.
(* str::split(sep): at least one piece *)
Fixpoint split_all (sep : N) (l : list N) : list (list N) :=
  match l with
  | [] => [[]]
  | x :: r => if x =? sep then [] :: split_all sep r
              else match split_all sep r with
                   | p :: ps => (x :: p) :: ps
                   | [] => [[x]]
                   end
  end.

(* u32::from_str: optional '+', at least one digit, digits only, value below 2^32 *)
Definition digit (x : N) : option N := if (48 <=? x) && (x <=? 57) then Some (x - 48) else None.
Fixpoint parse_digits (l : list N) (acc : N) : option N :=
  match l with
  | [] => Some acc
  | x :: r => match digit x with Some d => parse_digits r (acc * 10 + d) | None => None end
  end.
Definition parse_u32 (l : list N) : option N :=
  let l' := match l with x :: r => if x =? 43 then r else l | [] => l end in
  match l' with
  | [] => None
  | _ => match parse_digits l' 0 with
         | Some n => if n <? 2 ^ 32 then Some n else None
         | None => None
         end
  end.

(* u32 / usize Display *)
Fixpoint dec_fuel (fuel : nat) (n : N) (acc : list N) : list N :=
  match fuel with
  | O => acc
  | S f => let acc' := (48 + n mod 10) :: acc in
           if n <? 10 then acc' else dec_fuel f (n / 10) acc'
  end.
Definition dec (n : N) : list N := dec_fuel (S (N.size_nat n)) n [].

(* ---------------------------------------------------------------- parse_bed *)
Record bed_entry := { be_start : N; be_end : N; be_rest : list N }.

(* s.trim_end().splitn(4, '\t'): chrom, start, end, rest (rest keeps its tabs).  The first piece
   always exists, so the function never returns None. *)
Definition parse_bed (line : list N) : res (name * bed_entry) :=
  let s := trim_end line in
  let '(chrom, r1) := cut TAB s in
  match r1 with
  | None => Err E_BED                                   (* Missing start *)
  | Some r1 =>
      let '(st, r2) := cut TAB r1 in
      match parse_u32 st with
      | None => Err E_BED                               (* Invalid start *)
      | Some start =>
          match r2 with
          | None => Err E_BED                           (* Missing end *)
          | Some r2 =>
              let '(en, r3) := cut TAB r2 in
              match parse_u32 en with
              | None => Err E_BED                       (* Invalid end *)
              | Some end_ =>
                  Ok (chrom, {| be_start := start; be_end := end_;
                                be_rest := match r3 with Some r => r | None => [] end |})
              end
          end
      end
  end.

(* ---------------------------------------------------------------- name_for_bed_item *)
Inductive name_mode := NInterval | NNone | NColumn (col : nat).   (* Column is zero-based here as in Name::Column *)

Definition name_for_bed_item (m : name_mode) (chrom : name) (en : bed_entry) : res (list N) :=
  match m with
  | NColumn 0 => Ok chrom
  | NColumn 1 => Ok (dec (be_start en))
  | NColumn 2 => Ok (dec (be_end en))
  | NColumn (S (S (S k))) =>
      match nth_error (split_all TAB (be_rest en)) k with
      | Some v => Ok v
      | None => Err E_NAMECOL
      end
  | NInterval => Ok (chrom ++ [58] ++ dec (be_start en) ++ [45] ++ dec (be_end en))
  | NNone => Ok (chrom ++ [TAB] ++ dec (be_start en) ++ [TAB] ++ dec (be_end en) ++ [TAB] ++ be_rest en)
  end.

(* ---------------------------------------------------------------- stats_for_bed_item *)
Record stats := { st_size : N; st_bases : N; st_sum : fl; st_mean0 : fl; st_mean : fl; st_min : fl; st_max : fl }.
Record sacc := { a_bases : N; a_sum : fl; a_min : fl; a_max : fl }.
Definition sacc0 : sacc := {| a_bases := 0; a_sum := fzero; a_min := f64_max; a_max := f64_min |}.
Definition vlen (v : value) : N := v_end v - v_start v.
(* one iteration of `for val in interval` *)
Definition sacc_step (fp : fpmode) (a : sacc) (v : value) : sacc :=
  {| a_bases := a_bases a + vlen v;
     a_sum := fadd64 fp (a_sum a) (fmul64 fp (f_of_N (vlen v)) (v_val v));
     a_min := fmin (a_min a) (v_val v);
     a_max := fmax (a_max a) (v_val v) |}.
Definition inverted (v : value) : bool := v_end v <? v_start v.

(* everything after the interval has been collected; [cl] = the collected values.
   val.end - val.start and end - start are u32 subtractions (overflow checks on: panic) *)
Definition stats_of (fp : fpmode) (s e : N) (cl : list value) : res stats :=
  if existsb inverted cl then Panic else
  if e <? s then Panic else
  let a := fold_left (sacc_step fp) cl sacc0 in
  let size := e - s in
  let mean0 := fdiv64 fp (a_sum a) (f_of_N size) in
  Ok (if a_bases a =? 0
      then {| st_size := size; st_bases := a_bases a; st_sum := a_sum a; st_mean0 := mean0;
              st_mean := FNaN; st_min := FNaN; st_max := FNaN |}
      else {| st_size := size; st_bases := a_bases a; st_sum := a_sum a; st_mean0 := mean0;
              st_mean := fdiv64 fp (a_sum a) (f_of_N (a_bases a)); st_min := a_min a; st_max := a_max a |}).

Section WithQuery.
Variable fp : fpmode.
(* BigWigRead::get_interval(chrom, start, end) drained into a Vec *)
Variable q : name -> N -> N -> res (list value).

Definition stats_for_bed_item (chrom : name) (en : bed_entry) : res stats :=
  do cl <- q chrom (be_start en) (be_end en);
  stats_of fp (be_start en) (be_end en) cl.

(* ---------------------------------------------------------------- bigwig_average_over_bed *)
Inductive item := IOk (nm : list N) (st : stats) | IErr (code : N).

(* the items the iterator yields until it returns None; [lines] as the line reader delivers them.
   A line or reader error ends the iteration after the error item; a name-column error does not. *)
Fixpoint lib_iter (m : name_mode) (lines : list (list N)) : res (list item) :=
  match lines with
  | [] => Ok []
  | l :: r =>
      match parse_bed l with
      | Ok (chrom, en) =>
          match name_for_bed_item m chrom en with
          | Ok nm =>
              match stats_for_bed_item chrom en with
              | Ok st => do rest <- lib_iter m r; Ok (IOk nm st :: rest)
              | Err c => Ok [IErr c]
              | Panic => Panic
              | Fuel => Fuel
              end
          | Err c => do rest <- lib_iter m r; Ok (IErr c :: rest)
          | Panic => Panic
          | Fuel => Fuel
          end
      | Err c => Ok [IErr c]
      | Panic => Panic
      | Fuel => Fuel
      end
  end.

(* ---------------------------------------------------------------- the averageoverbed tool *)
(* format!("{:.3}", x) for an f64: the exact value rounded to thousandths, ties to even; the sign is
   printed whenever the value is negative (also when it rounds to zero) *)
Definition round_half_even (a d : Z) : Z :=
  let qz := (a / d)%Z in
  let r := (a - qz * d)%Z in
  if (2 * r <? d)%Z then qz
  else if (d <? 2 * r)%Z then (qz + 1)%Z
  else if Z.odd qz then (qz + 1)%Z else qz.
Definition milli (m e : Z) : N :=
  Z.to_N (if (0 <=? e)%Z then (Z.abs m * 1000 * 2 ^ e)%Z
          else round_half_even (Z.abs m * 1000) (2 ^ (- e))).
Definition pad3 (n : N) : list N := [48 + n / 100; 48 + (n / 10) mod 10; 48 + n mod 10].
Definition fmt3 (a : fl) : list N :=
  match a with
  | FNaN => [78; 97; 78]                                    (* NaN *)
  | FInf s => (if s then [45] else []) ++ [105; 110; 102]   (* inf *)
  | FFin m e =>
      let k := milli m e in
      (if (m <? 0)%Z then [45] else []) ++ dec (k / 1000) ++ [46] ++ pad3 (k mod 1000)
  end.

Definition fmt_row (minmax : bool) (nm : list N) (st : stats) : list N :=
  nm ++ [TAB] ++ dec (st_size st) ++ [TAB] ++ dec (st_bases st) ++ [TAB] ++ fmt3 (st_sum st)
     ++ [TAB] ++ fmt3 (st_mean0 st) ++ [TAB] ++ fmt3 (st_mean st)
     ++ (if minmax then [TAB] ++ fmt3 (st_min st) ++ [TAB] ++ fmt3 (st_max st) else [])
     ++ [NL].

(* one iteration of the serial loop: the bytes written for one line *)
Definition line_ser (m : name_mode) (minmax : bool) (l : list N) : res (list N) :=
  do (chrom, en) <- parse_bed l;
  do nm <- name_for_bed_item m chrom en;
  do st <- stats_for_bed_item chrom en;
  Ok (fmt_row minmax nm st).

(* one iteration of process_chunk: a chromosome the bigWig does not have gives an all-zero row *)
Definition zero_stats (size : N) : stats :=
  {| st_size := size; st_bases := 0; st_sum := fzero; st_mean0 := fzero; st_mean := fzero;
     st_min := fzero; st_max := fzero |}.
Definition line_par (m : name_mode) (minmax : bool) (l : list N) : res (list N) :=
  do (chrom, en) <- parse_bed l;
  do nm <- name_for_bed_item m chrom en;
  if be_end en <? be_start en then Panic else       (* let size = entry.end - entry.start *)
  match stats_for_bed_item chrom en with
  | Ok st => Ok (fmt_row minmax nm st)
  | Err c => if c =? R_NOCHROM then Ok (fmt_row minmax nm (zero_stats (be_end en - be_start en))) else Err c
  | Panic => Panic
  | Fuel => Fuel
  end.
End WithQuery.

(* a loop that writes what [f] gives for each line and stops at the first failure *)
Fixpoint run_lines (f : list N -> res (list N)) (lines : list (list N)) : res (list N) :=
  match lines with
  | [] => Ok []
  | l :: r => do a <- f l; do b <- run_lines f r; Ok (a ++ b)
  end.

Section Tool.
Variable fp : fpmode.
Variable q : name -> N -> N -> res (list value).
Variable m : name_mode.
Variable minmax : bool.

(* nthreads <= 1: the output file *)
Definition avg_serial (bed : list N) : res (list N) := run_lines (line_ser fp q m minmax) (file_lines bed).
(* process_chunk over the FileView [start, end) of the BED file: the temp file's content *)
Definition avg_chunk (chunk : list N) : res (list N) := run_lines (line_par fp q m minmax) (file_lines chunk).
(* the main thread copies the chunk results to the output in chunk order, whichever thread produced
   them and whenever; the first failed chunk ends the run *)
Definition avg_parallel (chunks : list (list N)) : res (list N) := run_lines avg_chunk chunks.
End Tool.

(* ---------------------------------------------------------------- the valuesoverbed tool *)
(* BufRead::lines: terminator "\n" or "\r\n" removed, nothing trimmed *)
Fixpoint strip_suffix1 (c : N) (l : list N) : list N :=
  match l with
  | [] => []
  | [x] => if x =? c then [] else [x]
  | x :: r => x :: strip_suffix1 c r
  end.
Definition raw_line (l : list N) : list N :=
  match rev l with
  | x :: _ => if x =? NL then strip_suffix1 CR (strip_suffix1 NL l) else l
  | [] => l
  end.

(* nth piece of splitn(5, '\t') for n < 4 *)
Fixpoint piece (n : nat) (l : list N) : option (list N) :=
  let '(a, b) := cut TAB l in
  match n with
  | O => Some a
  | S k => match b with Some r => piece k r | None => None end
  end.

Definition opt_eqb (a b : option (list N)) : bool :=
  match a, b with
  | Some x, Some y => name_eqb x y
  | None, None => true
  | _, _ => false
  end.
Fixpoint count_distinct (l : list (option (list N))) : nat :=
  match l with
  | [] => O
  | x :: r => if existsb (opt_eqb x) r then count_distinct r else S (count_distinct r)
  end.
(* names of the first ten lines, sorted and deduplicated: unique when ten remain *)
Definition unique_names (withnames : bool) (bed : list N) : bool :=
  if negb withnames then true
  else Nat.eqb (count_distinct (map (fun l => piece 3 (raw_line l)) (firstn 10 (split_lines bed)))) 10.

(* vals[(i - start)] = val.value for i in val.start..val.end, over vec![0f32; size]; f32 bit patterns *)
Definition vob_fill (s e : N) (vals : list value) : list N :=
  fold_left (fun acc v =>
               if v_start v <? v_end v then
                 let a := N.to_nat (v_start v - s) in
                 let b := N.to_nat (v_end v - s) in
                 firstn a acc ++ repeatN (v_bits v) (b - a) ++ skipn b acc
               else acc)                                  (* empty range: no iteration *)
            vals (repeatN 0 (N.to_nat (e - s))).
(* an index outside the vector (or i - start below zero) *)
Definition out_of_region (s e : N) (v : value) : bool :=
  (v_start v <? v_end v) && ((v_start v <? s) || (e <? v_end v)).

Section Values.
Variable q : name -> N -> N -> res (list value).

(* one output row: the name cell (when -n is given) and the per-base f32 bit patterns *)
Definition vob_line (withnames uniq : bool) (l : list N) : res (option (list N) * list N) :=
  let t := trim l in
  match piece 0 t, piece 1 t, piece 2 t with
  | Some chrom, Some st, Some en =>
      match parse_u32 st, parse_u32 en with
      | Some s, Some e =>
          do vals <- q chrom s e;
          if e <? s then Panic else
          if existsb (out_of_region s e) vals then Panic else
          let cells := vob_fill s e vals in
          if withnames then
            if uniq then
              match piece 3 t with
              | Some nm => Ok (Some nm, cells)
              | None => Panic                    (* expect("Bad bed format (no name).") *)
              end
            else Ok (Some (chrom ++ [58] ++ dec s ++ [45] ++ dec e), cells)
          else Ok (None, cells)
      | _, _ => Panic                            (* parse::<u32>().unwrap() *)
      end
  | _, _, _ => Panic                             (* expect("Missing start") / expect("Missing end") *)
  end.

Fixpoint vob_rows (withnames uniq : bool) (lines : list (list N)) : res (list (option (list N) * list N)) :=
  match lines with
  | [] => Ok []
  | l :: r => do a <- vob_line withnames uniq l; do b <- vob_rows withnames uniq r; Ok (a :: b)
  end.
Definition values_over_bed (withnames : bool) (bed : list N) : res (list (option (list N) * list N)) :=
  vob_rows withnames (unique_names withnames bed) (file_lines bed).
End Values.
