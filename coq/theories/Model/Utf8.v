(* C13: UTF-8 validity of a line, and the text sources that honour it.
   StreamingLineReader::read (utils/file/streaming_linereader.rs) reads one line with
   BufRead::read_line into a String.  read_line fails with io::ErrorKind::InvalidData when the bytes
   of the line (up to and including the \n) are not well-formed UTF-8; the WHOLE line is consumed
   and nothing of it is handed to the parser.  BedFileStream::next (bed/bedparser.rs) returns that
   failure as Some(Err(BedValueError::IoError)), i.e. on the same route as a parse error of the
   line; both sources of beddata.rs wrap it as BBIProcessError::SourceError: class 50.
   So a line that is not UTF-8 is an unparsable line whose class is E_IO: the lines before it are
   processed first, exactly as for a "Missing start" line.
   [utf8_ok] is the well-formedness table of the Unicode standard (Table 3-7), which is what
   core::str::from_utf8 implements: no overlong forms (C0, C1, E0 80..9F, F0 80..8F), no
   surrogates (ED A0..BF), nothing above U+10FFFF (F4 90.., F5..FF), no stray or missing
   continuation byte.  No proofs in this file. *)
From BT Require Import Base.Util Base.Float Generated.Consts Model.RTree Model.BBIFile Model.BigWigWrite Model.Accept.
Local Open Scope N_scope.

Definition E_IO : N := 50.                (* BedValueError::IoError / BBIProcessError::IoError *)

Definition in_rng (lo hi b : N) : bool := (lo <=? b) && (b <=? hi).
Definition is_cont (b : N) : bool := in_rng 128 191 b.
(* the range allowed for the second byte of a 3-byte / 4-byte sequence, given the first *)
Definition second3 (b0 b1 : N) : bool :=
  if b0 =? 224 then in_rng 160 191 b1          (* E0: A0..BF (no overlong) *)
  else if b0 =? 237 then in_rng 128 159 b1     (* ED: 80..9F (no surrogates) *)
  else is_cont b1.
Definition second4 (b0 b1 : N) : bool :=
  if b0 =? 240 then in_rng 144 191 b1          (* F0: 90..BF (no overlong) *)
  else if b0 =? 244 then in_rng 128 143 b1     (* F4: 80..8F (at most U+10FFFF) *)
  else is_cont b1.

Fixpoint utf8_ok (l : list N) : bool :=
  match l with
  | [] => true
  | b0 :: r =>
      if b0 <? 128 then utf8_ok r
      else if in_rng 194 223 b0 then
        match r with
        | b1 :: r1 => if is_cont b1 then utf8_ok r1 else false
        | _ => false
        end
      else if in_rng 224 239 b0 then
        match r with
        | b1 :: b2 :: r2 => if second3 b0 b1 && is_cont b2 then utf8_ok r2 else false
        | _ => false
        end
      else if in_rng 240 244 b0 then
        match r with
        | b1 :: b2 :: b3 :: r3 => if second4 b0 b1 && is_cont b2 && is_cont b3 then utf8_ok r3 else false
        | _ => false
        end
      else false
  end.

(* a line reader in front of a line parser: the parser sees the line only when read_line returned
   it.  The chromosome field of the refused line is never looked at by the serial source; for the
   parallel source it only says which run of lines (which chunk of the file) the line lies in:
   the bytes before the first TAB, as the chromosome index of the file has it. *)
Definition guard_line {V} (parse : list N -> pline V) (line : list N) : pline V :=
  if utf8_ok line then parse line else (fst (parse line), PErr E_IO).

Definition bw_parse_line (fok : list N -> bool) (l : list N) : pline value :=
  map_pline mk_value (parse_bedgraph_line fok l).
Definition bb_parse_line (l : list N) : pline entry := map_pline mk_entry (parse_bed_line l).

Definition bw_lines_u (fok : list N -> bool) (text : list N) : list (pline value) :=
  map (guard_line (bw_parse_line fok)) (lines_of text).
Definition bb_lines_u (text : list N) : list (pline entry) :=
  map (guard_line bb_parse_line) (lines_of text).

(* the four text sources of Accept.v behind the real line reader *)
Definition bw_text_serial_u (fok : list N -> bool) (o : opts) (sizes : list (name * N)) (text : list N) : res unit :=
  serial check_val (o_sort_all o) sizes (bw_lines_u fok text).
Definition bw_text_parallel_u (fok : list N -> bool) (o : opts) (sizes : list (name * N)) (text : list N) : res unit :=
  parallel check_val (o_sort_all o) sizes (line_runs (bw_lines_u fok text)).
Definition bb_text_serial_u (o : opts) (sizes : list (name * N)) (text : list N) : res unit :=
  serial bb_check_val (o_sort_all o) sizes (bb_lines_u text).
Definition bb_text_parallel_u (o : opts) (sizes : list (name * N)) (text : list N) : res unit :=
  parallel bb_check_val (o_sort_all o) sizes (line_runs (bb_lines_u text)).
