(* C14 entry.
   case   = (kind opts sizes input queries cfg [autosql])   kind 0/1 as Model/EntryBBI.v; kind 10/11 = bigBed
            single/two pass (Model/EntryBed.v input; autosql = () | ((bytes))); cfg = (threads inmemory nofault)
   model output = (status exact comparable trace runs prefixes faults refused-bytes)
     status      (0) | (1 code) | (2) | (3)
     exact       1 when the real trace is determined by the input (one chromosome, uncompressed,
                 every region below the BufWriter capacity): then trace, prefixes and faults are
                 what the harness prints; otherwise only status and runs are comparable
     comparable  0 for compressed files (the model predicts the bytes of the uncompressed file)
     trace       ((0 pos) | (1 pos (bytes)) | (2) ...)
     runs        writes coalesced: ((pos (bytes)) ...)
     prefixes    ((k cut verdict) ...) for the crash points the harness visits
     faults      ((kind k outcome) ...) outcome 1 = the model's write does not return Ok, 0 = it does
     refused-bytes  for a refused input: everything that may have been written (blank headers
                 and the sections complete before the refusal)
   oracle: the property on what the harness observed on the real code: no crash point at which the
   destination opens and answers differently from the finished file; no injected failure after
   which `write` returned Ok or did not return. *)
From BT Require Import Base.Util Base.Sexp Base.LE Base.Float Model.RTree Model.BBIFile Model.BigWigWrite
  Model.EntryBBI Model.SinkTrace Model.BigBedWrite Model.EntryBed Model.SinkTraceBed.
Local Open Scope N_scope.

Definition sOp (op : sop) : sexp :=
  match op with
  | SSeek p => L [A 0%Z; sN p]
  | SWrite p b => L [A 1%Z; sN p; sBytes b]
  | SFlush => L [A 2%Z]
  end.
Definition sStatus (r : res unit) : sexp :=
  match r with Ok _ => L [A 0%Z] | Err c => L [A 1%Z; sN c] | Panic => L [A 2%Z] | Fuel => L [A 3%Z] end.

(* contiguous writes coalesced, seeks and flushes dropped; accumulated in reverse *)
Fixpoint coalesce (acc : list (N * list N)) (ops : list sop) : list (N * list N) :=
  match ops with
  | [] => rev acc
  | SWrite p b :: r =>
      match b with
      | [] => coalesce acc r
      | _ => match acc with
             | (q, c) :: acc' => if q + Nlen c =? p then coalesce ((q, c ++ b) :: acc') r
                                 else coalesce ((p, b) :: acc) r
             | [] => coalesce [(p, b)] r
             end
      end
  | _ :: r => coalesce acc r
  end.

(* the byte cuts the harness tries inside a write of [len] bytes *)
Definition cuts (len : nat) : list nat :=
  if (len <=? 96)%nat then seq 1 (len - 1)
  else seq 1 8 ++ [(len / 2)%nat; (len - 2)%nat; (len - 1)%nat].

(* [h]: index of the header operation (None: refused input, every crash point is rejected) *)
Fixpoint prefixes_from (h : option nat) (k : nat) (ops : list sop) : list sexp :=
  match ops with
  | [] => []
  | op :: r =>
      let v := match h with Some hx => if (hx <? k)%nat then 1 else 0 | None => 0 end in   (* before op k is complete *)
      let v' := match h with Some hx => if (hx <=? k)%nat then 1 else 0 | None => 0 end in (* after it *)
      (match op with
       | SWrite _ b => if match h with Some hx => Nat.eqb hx k | None => false end then []
                       else map (fun c => L [sNat (S k); sNat c; sN v]) (cuts (length b))
       | _ => []
       end)
      ++ [L [sNat (S k); A 0%Z; sN v']] ++ prefixes_from h (S k) r
  end.
Definition prefixes (h : option nat) (ops : list sop) : list sexp :=
  L [A 0%Z; A 0%Z; A 0%Z] :: prefixes_from h 0 ops.

Definition zev_small (e : zevent) : bool :=
  match e with ZLevel d ix => (Nlen d <? CAP) && (Nlen ix - 48 <? CAP) | _ => true end.
Definition parts_exact (p : parts) : bool :=
  (p_nchroms p =? 1) && (Nlen (p_data p) <? CAP) && (Nlen (p_ct p) <? CAP) && (Nlen (p_ix p) - 48 <? CAP)
  && forallb zev_small (p_zev p).

Definition c14_model_bw (c : sexp) : sexp :=
  let kind := getN (nthS 0 c) in
  let o := get_opts (nthS 1 c) in
  let sizes := get_sizes (nthS 2 c) in
  let input := getList get_item (nthS 3 c) in
  let nofault := getB (nthS 2 (nthS 5 c)) in
  let pr := bw_parts ieee kind o sizes input in
  let '(status, ops) := bw_sink_run None ck_whole ieee kind o sizes input in
  let exact := match pr with Ok p => parts_exact p && negb (o_compress o) | _ => false end in
  let h := match pr with Ok p => Some (header_index ck_whole kind p) | _ => None end in
  let faults :=
    if nofault then [] else
    flat_map (fun kd => map (fun k =>
                               let '(r, _) := bw_sink_run (Some (kd, k)) ck_whole ieee kind o sizes input in
                               L [sN kd; sNat k; A (match r with Ok _ => 0 | _ => 1 end)%Z])
                            (seq 0 (count_kind kd ops))) [0; 1; 2] in
  L [sStatus status; sB exact; sB (negb (o_compress o));
     sList sOp ops;
     sList (fun pb => L [sN (fst pb); sBytes (snd pb)]) (coalesce [] ops);
     L (prefixes h ops);
     L faults;
     sBytes (match pr with Ok _ => [] | _ => replay ops end)].

(* kinds 10 and 11: BigBedWrite::write / write_multipass (Model/SinkTraceBed.v); the autoSql is the
   seventh field of the case.  Same output, and a ninth field: the number of bytes from offset 0 that
   a refused run has written at least (write_pre is complete before any input is looked at; a
   refused autoSql leaves the blank headers; refused options leave nothing) *)
Definition c14_model_bb (c : sexp) : sexp :=
  let kind := getN (nthS 0 c) - 10 in
  let o := get_opts (nthS 1 c) in
  let sizes := get_sizes (nthS 2 c) in
  let input := bed_input c in
  let autosql := getOpt getBytes (nthS 6 c) in
  let nofault := getB (nthS 2 (nthS 5 c)) in
  let pr := bb_parts ieee kind o sizes autosql input in
  let '(status, ops) := bb_sink_run None ck_whole ieee kind o sizes autosql input in
  let exact := match pr with Ok (_, p) => parts_exact p && negb (o_compress o) | _ => false end in
  let h := match pr with Ok (sql, p) => Some (bb_header_index ck_whole kind sql p) | _ => None end in
  let faults :=
    if nofault then [] else
    flat_map (fun kd => map (fun k =>
                               let '(r, _) := bb_sink_run (Some (kd, k)) ck_whole ieee kind o sizes autosql input in
                               L [sN kd; sNat k; A (match r with Ok _ => 0 | _ => 1 end)%Z])
                            (seq 0 (count_kind kd ops))) [0; 1; 2] in
  let written := match pr with Ok _ => [] | _ => replay ops end in
  L [sStatus status; sB exact; sB (negb (o_compress o));
     sList sOp ops;
     sList (fun pb => L [sN (fst pb); sBytes (snd pb)]) (coalesce [] ops);
     L (prefixes h ops);
     L faults;
     sBytes written;
     sN (match bb_schema autosql with Ok (sql, _) => N.min (Nlen (bb_pre sql)) (Nlen written) | _ => Nlen written end)].

Definition c14_model (c : sexp) : sexp :=
  if 10 <=? getN (nthS 0 c) then c14_model_bb c else c14_model_bw c.

(* ---- the property on the implementation's output:
   out = (status trace runs prefixes torn faults) *)
Definition c14_oracle (c out : sexp) : sexp :=
  let prefixes := getL (nthS 3 out) in
  let faults := getL (nthS 5 out) in
  sB (forallb (fun p => negb (getN (nthS 2 p) =? 2)) prefixes
      && forallb (fun f => let o := getN (nthS 2 f) in (o =? 1) || (o =? 4)) faults).

Definition dispatch (k : Z) (arg : sexp) : sexp :=
  match k with
  | 0 => c14_model arg
  | 1 => c14_oracle (nthS 0 arg) (nthS 1 arg)
  | _ => L [A (-1)%Z]
  end%Z.
