(* C01 entry: model output via the shared BBI glue; oracle = the round-trip property evaluated on
   what the implementation returned. *)
From BT Require Import Base.Util Base.Sexp Base.Float Model.RTree Model.BBIFile Model.BigWigWrite Model.BBIRead Model.EntryBBI.
Local Open Scope N_scope.

Definition input_of (c : sexp) : list item := getList get_item (nthS 3 c).
Definition vals_of_chrom (inp : list item) (c : name) : list value :=
  map snd (filter (fun it => name_eqb (fst it) c) inp).
(* chromosomes in first-appearance order *)
Fixpoint first_appearance (seen : list name) (inp : list item) : list name :=
  match inp with
  | [] => rev seen
  | (c, _) :: r => if existsb (name_eqb c) seen then first_appearance seen r else first_appearance (c :: seen) r
  end.

Fixpoint index_from {X} (i : N) (l : list X) : list (N * X) :=
  match l with [] => [] | x :: r => (i, x) :: index_from (i + 1) r end.

(* expected chromosome table: (name, id, size) *)
Definition expected_chroms (sizes : list (name * N)) (inp : list item) : sexp :=
  sList (fun ic => L [sBytes (snd ic); sN (fst ic);
                      sN (match lookup (snd ic) sizes with Some l => l | None => 0 end)])
        (index_from 0 (first_appearance [] inp)).

Definition c01_oracle (c out : sexp) : sexp :=
  let status := getZ (nthS 0 out) in
  if negb (Z.eqb status 0) then sB true   (* refused: C01 speaks about accepted inputs (C13 decides refusals) *)
  else
    let sizes := get_sizes (nthS 2 c) in
    let inp := input_of c in
    let qs := getL (nthS 4 c) in
    let ans := getL (nthS 2 out) in
    sB (Nat.eqb (length qs) (length ans) &&
        forallb (fun qa =>
                   let q := fst qa in let a := snd qa in
                   let k := getN (nthS 0 q) in
                   if k =? 0 then
                     let cn := getBytes (nthS 1 q) in
                     let len := match lookup cn sizes with Some l => l | None => 0 end in
                     if (getN (nthS 2 q) =? 0) && (getN (nthS 3 q) =? len) then
                       sexp_eqb a (L [A 0%Z; sList sValue (vals_of_chrom inp cn)])
                     else true
                   else if k =? 4 then
                     sexp_eqb (nthS 6 (nthS 1 a)) (expected_chroms sizes inp) && Z.eqb (getZ (nthS 0 a)) 0
                   else true)
                (combine qs ans)).

Definition dispatch (k : Z) (arg : sexp) : sexp :=
  match k with
  | 0 => bbi_model arg
  | 1 => c01_oracle (nthS 0 arg) (nthS 1 arg)
  | _ => L [A (-1)%Z]
  end%Z.
