(* The caching reader on a bigBed as a state machine over BOTH kinds of range query a bigBed reader
   offers: get_interval (Model/BBIReadBed.v c_bb_interval, the machine C04 treats) and
   get_zoom_interval through the same cache (bigbedread.rs: every failure of zoom_cir_tree is mapped
   to ReductionLevelNotFound, as in Model/ReadBed_C10.v bb_zoom_interval; the search and the block
   reads go through the node map and the block map of Model/CachedRead.v).  Written for C10's
   composition of the history theorems with the any-layout read theorem.
   No proofs in this file. *)
From BT Require Import Base.Util Base.LE Base.Float Generated.Consts Model.RTree Model.BBIFile Model.BigWigWrite
  Model.BBIRead Model.CachedRead Model.BigBedWrite Model.BBIReadBed.
From BT Require Model.ReadBed_C10.
Local Open Scope N_scope.

Inductive bquery :=
| BQInterval (cn : name) (s e : N)
| BQZoom (cn : name) (s e res_level : N).
Inductive banswer :=
| BAInterval (r : res (list entry))
| BAZoom (r : res (list zrec)).

Section Inflate.
Variable infl : list N -> list N.

(* BigBedRead::get_zoom_interval on a caching reader, fully drained *)
Definition c_bb_zoom_interval (bs : list N) (i : info) (c : cache) (cn : name) (s e res_level : N)
  : res (list zrec) * cache :=
  match find (fun z => zh_res z =? res_level) (i_zooms i) with
  | None => (Err R_NOZOOM, c)
  | Some zh =>
      match cir_tree_root (h_big (i_hdr i)) bs (zh_index zh) with
      | Ok root =>
          match chrom_id i cn with
          | Ok chrom =>
              match c_search_blocks i bs c root chrom s e with
              | (Ok blocks, c1) => c_collect_with infl (fun d => zoom_values_of i d chrom s e) i bs c1 blocks
              | (Err x, c1) => (Err x, c1)
              | (Panic, c1) => (Panic, c1)
              | (Fuel, c1) => (Fuel, c1)
              end
          | Err x => (Err x, c) | Panic => (Panic, c) | Fuel => (Fuel, c)
          end
      | Err _ => (Err R_NOZOOM, c) | Panic => (Panic, c) | Fuel => (Fuel, c)
      end
  end.

(* the stateless bigBed reader: BBIReadBed.bb_interval and ReadBed_C10.bb_zoom_interval *)
Definition bb_fresh_answer (bs : list N) (i : info) (q : bquery) : banswer :=
  match q with
  | BQInterval cn s e => BAInterval (bb_interval infl bs i cn s e)
  | BQZoom cn s e lvl => BAZoom (ReadBed_C10.bb_zoom_interval infl bs i cn s e lvl)
  end.

Definition bb_qstep (bs : list N) (i : info) (c : cache) (q : bquery) : banswer * cache :=
  match q with
  | BQInterval cn s e => let '(a, c1) := c_bb_interval infl bs i c cn s e in (BAInterval a, c1)
  | BQZoom cn s e lvl => let '(a, c1) := c_bb_zoom_interval bs i c cn s e lvl in (BAZoom a, c1)
  end.

Fixpoint bb_qrun (bs : list N) (i : info) (c : cache) (qs : list bquery) : list banswer * cache :=
  match qs with
  | [] => ([], c)
  | q :: r => let '(a, c1) := bb_qstep bs i c q in let '(rest, c2) := bb_qrun bs i c1 r in (a :: rest, c2)
  end.
End Inflate.
