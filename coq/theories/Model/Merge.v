(* Model of bigtools/src/utils/merge.rs: [merge_into] and [ValueIter::next] / [merge_sections_many].

   Positions are [N] (u32 without overflow, DESIGN 3.1).  A value's number is an exact integer count of
   eighths ([Z]): sums are exact and comparison with zero is decidable (DESIGN 3.2; f32/f64 rounding is not
   modelled, the correspondence only uses values for which the Rust arithmetic is exact).
   The window size (DATA_SIZE = 50 000 in the code) is the parameter [W] of every function here.
   Panics are the debug-profile ones: u32 subtraction overflow and the slice-index check.  No proofs here. *)
From BT Require Import Base.Util.
Local Open Scope N_scope.

Record value := mkV { v_start : N; v_end : N; v_val : Z }.
(* what a stream yields: Ok(value) or Err(e) (error values are small class codes) *)
Inductive item := IV (v : value) | IE (code : N).

Definition isz (z : Z) : bool := Z.eqb z 0.
Definition opt_list {X} (o : option X) : list X := match o with Some x => [x] | None => [] end.

(* ------------------------------------------------------------------ merge_into, branch for branch *)
Definition merge_into (one two : value) : res (value * option value * option value * option value) :=
  let s1 := v_start one in let e1 := v_end one in let x1 := v_val one in
  let s2 := v_start two in let e2 := v_end two in let x2 := v_val two in
  if (e1 <=? s2) || (e2 <=? s1) then Panic                      (* panic!("No overlap.") *)
  else if s1 =? s2 then
    if e1 =? e2 then Ok (mkV s1 e1 (x1 + x2), None, None, None)
    else if e1 <? e2 then Ok (mkV s1 e1 (x1 + x2), None, None, Some (mkV e1 e2 x2))
    else if isz x2 then Ok (one, None, None, None)
    else Ok (mkV s2 e2 (x1 + x2), Some (mkV e2 e1 x1), None, None)
  else if s1 <? s2 then
    if e1 =? e2 then
      if isz x2 then Ok (mkV s1 e1 x1, None, None, None)
      else Ok (mkV s1 s2 x1, Some (mkV s2 e2 (x1 + x2)), None, None)
    else if e1 <? e2 then
      if isz x1 && isz x2 then Ok (one, None, None, Some (mkV e1 e2 0))
      else if isz x1 then Ok (mkV s1 s2 0, Some (mkV s2 e1 x2), None, Some (mkV e1 e2 x2))
      else if isz x2 then Ok (one, None, None, Some (mkV e1 e2 0))
      else Ok (mkV s1 s2 x1, Some (mkV s2 e1 (x1 + x2)), None, Some (mkV e1 e2 x2))
    else
      if isz x2 then Ok (one, None, None, None)
      else Ok (mkV s1 s2 x1, Some (mkV s2 e2 (x1 + x2)), Some (mkV e2 e1 x1), None)
  else
    if e1 =? e2 then
      if isz x1 then Ok (two, None, None, None)
      else Ok (mkV s2 s1 x2, Some (mkV s1 e1 (x1 + x2)), None, None)
    else if e1 <? e2 then
      if isz x1 then Ok (two, None, None, None)
      else Ok (mkV s2 s1 x2, Some (mkV s1 e1 (x1 + x2)), None, Some (mkV e1 e2 x2))
    else
      if isz x1 && isz x2 then Ok (mkV s2 e1 0, None, None, None)
      else if isz x1 then Ok (two, Some (mkV e2 e1 x1), None, None)
      else if isz x2 then Ok (mkV s2 s1 0, Some (mkV s1 e1 x1), None, None)
      else Ok (mkV s2 s1 x2, Some (mkV s1 e2 (x1 + x2)), Some (mkV e2 e1 x1), None).

(* the pieces in the order they are put into the queue: one, two, three, overhang *)
Definition pieces (r : value * option value * option value * option value) : list value :=
  let '(one, two, three, over) := r in one :: opt_list two ++ opt_list three ++ opt_list over.

(* ------------------------------------------------------------------ one stream, one window
   'section loop: pull values (the carried [last] first) while they begin inside the window
   [cs, cs+W); add each to the per-base accumulator; stop at the first value that reaches the window's end
   (it is kept in [last]) or begins after it. *)
Fixpoint add_range (ds de : nat) (x : Z) (data : list Z) : list Z :=
  match data with
  | [] => []
  | d :: r =>
      match de with
      | O => data
      | S de' => match ds with
                 | O => (d + x)%Z :: add_range O de' x r
                 | S ds' => d :: add_range ds' de' x r
                 end
      end
  end.

Inductive sec_res :=
| SecOk (data : list Z) (mdl : N) (touched : bool) (rest : list item) (last : option value)
| SecErr (code : N)
| SecPanic.

(* [touched] = not all_none; [mdl] = max_data_len *)
Fixpoint sec_loop (W cs : N) (items : list item) (data : list Z) (mdl : N) (touched : bool) : sec_res :=
  match items with
  | [] => SecOk data mdl touched [] None                      (* None => continue 'sections *)
  | IE c :: _ => SecErr c
  | IV v :: r =>
      let ds := N.max cs (v_start v) - cs in
      if W <=? ds then SecOk data mdl true r (Some v)
      else if v_end v <? cs then SecPanic                     (* next_val.end - current_start overflows *)
      else
        let de := N.min W (v_end v - cs) in
        if de <? ds then SecPanic                             (* data[data_start..data_end]: start > end *)
        else
          let data' := add_range (N.to_nat ds) (N.to_nat de) (v_val v) data in
          let mdl' := N.max mdl de in
          if W <=? v_end v - cs then SecOk data' mdl' true r (Some v)
          else sec_loop W cs r data' mdl' true
  end.

Definition stream_st : Type := list item * option value.
(* last.take() first, then section.next() *)
Definition pend_of (s : stream_st) : list item :=
  match snd s with Some v => IV v :: fst s | None => fst s end.

Inductive win_res :=
| WinOk (data : list Z) (mdl : N) (touched : bool) (secs : list stream_st)
| WinErr (code : N)
| WinPanic.

Fixpoint secs_loop (W cs : N) (secs : list stream_st) (data : list Z) (mdl : N) (touched : bool) : win_res :=
  match secs with
  | [] => WinOk data mdl touched []
  | s :: more =>
      match sec_loop W cs (pend_of s) data mdl touched with
      | SecOk data' mdl' t' rest last' =>
          match secs_loop W cs more data' mdl' t' with
          | WinOk d m t secs' => WinOk d m t ((rest, last') :: secs')
          | other => other
          end
      | SecErr c => WinErr c
      | SecPanic => WinPanic
      end
  end.

(* ------------------------------------------------------------------ run-length re-encoding with zero suppression
   [pos] = idx + current_start; [cur] = the open run (start, end, value) *)
Definition push_run (s e : N) (x : Z) : list value := if isz x then [] else [mkV s e x].

Fixpoint rle_go (pos : N) (data : list Z) (cur : option (N * N * Z)) : list value :=
  match data with
  | [] => match cur with Some (s, e, x) => push_run s e x | None => [] end
  | i :: r =>
      match cur with
      | None => rle_go (pos + 1) r (Some (pos, pos + 1, i))
      | Some (s, e, x) =>
          if Z.eqb x i then rle_go (pos + 1) r (Some (s, e + 1, x))
          else push_run s e x ++ rle_go (pos + 1) r (Some (pos, pos + 1, i))
      end
  end.

(* ------------------------------------------------------------------ insert_into_queue *)
Inductive iq_res := IqDone (q : list value) | IqAgain (q : list value) (v : value) | IqPanic.

(* the for loop over the queue; [pre] = the items already passed *)
Fixpoint iq_scan (pre q : list value) (v : value) : iq_res :=
  match q with
  | [] => IqPanic                                              (* unreachable!() *)
  | queued :: r =>
      if v_end v <=? v_start queued then IqDone (pre ++ v :: queued :: r)
      else if v_end queued <=? v_start v then iq_scan (pre ++ [queued]) r v
      else match merge_into queued v with
           | Ok (one, two, three, overhang) =>
               let q' := pre ++ one :: opt_list two ++ opt_list three ++ r in
               match overhang with Some o => IqAgain q' o | None => IqDone q' end
           | _ => IqPanic
           end
  end.

Fixpoint insert_into_queue (fuel : nat) (q : list value) (v : value) : res (list value) :=
  match fuel with
  | O => Fuel
  | S f =>
      match last_opt q with
      | None => Ok (q ++ [v])
      | Some l =>
          if v_end l <=? v_start v then Ok (q ++ [v])
          else match iq_scan [] q v with
               | IqDone q' => Ok q'
               | IqAgain q' o => insert_into_queue f q' o
               | IqPanic => Panic
               end
      end
  end.

(* next_sections.remove(len - 1) *)
Fixpoint split_last {X} (l : list X) : option (list X * X) :=
  match l with
  | [] => None
  | x :: r => match split_last r with
              | None => Some ([], x)
              | Some (r', z) => Some (x :: r', z)
              end
  end.

(* ------------------------------------------------------------------ ValueIter *)
Record vstate := mkVS {
  vs_error : bool;
  vs_secs : list stream_st;               (* sections: (iterator, last) *)
  vs_buf : option (list value);           (* next_sections *)
  vs_last : option value;                 (* last_val *)
  vs_next_start : N }.

(* the window loop of one call of next(); [mdl] (max_data_len) is declared outside the loop in the code, so
   it is carried from window to window within one call *)
Fixpoint win_loop (fuel : nat) (W : N) (secs : list stream_st) (last_val : option value) (next_start mdl : N)
  : res (option item * vstate) :=
  match fuel with
  | O => Fuel
  | S f =>
      let cs := next_start in
      let ns := cs + W in
      match secs_loop W cs secs (repeatN 0%Z (N.to_nat W)) mdl false with
      | WinPanic => Panic
      | WinErr c => Ok (Some (IE c), mkVS true secs None last_val ns)
      | WinOk data mdl' touched secs' =>
          if W <? mdl' then Panic                              (* data[..max_data_len] *)
          else
            let runs := rle_go cs (firstn (N.to_nat mdl') data) None in
            match (match last_val with
                   | Some l => insert_into_queue (S (S (length runs))) runs l
                   | None => Ok runs
                   end) with
            | Ok q =>
                match split_last q with
                | None =>
                    if touched then win_loop f W secs' None ns mdl'
                    else Ok (None, mkVS false secs' None None ns)
                | Some (q', z) =>
                    match q' with
                    | a :: rest => Ok (Some (IV a), mkVS false secs' (Some rest) (Some z) ns)
                    | [] =>
                        if touched then win_loop f W secs' (Some z) ns mdl'
                        else Ok (Some (IV z), mkVS false secs' None None ns)
                    end
                end
            | Err c => Err c
            | Panic => Panic
            | Fuel => Fuel
            end
      end
  end.

Definition vi_next (wf : nat) (W : N) (st : vstate) : res (option item * vstate) :=
  if vs_error st then Ok (None, st)
  else match vs_buf st with
       | Some (v :: r) => Ok (Some (IV v), mkVS false (vs_secs st) (Some r) (vs_last st) (vs_next_start st))
       | _ => win_loop wf W (vs_secs st) (vs_last st) (vs_next_start st) 0
       end.

(* the consumer: call next() until it returns None *)
Fixpoint vi_collect (fuel wf : nat) (W : N) (st : vstate) : res (list item) :=
  match fuel with
  | O => Fuel
  | S f =>
      match vi_next wf W st with
      | Ok (None, _) => Ok []
      | Ok (Some it, st') =>
          match vi_collect f wf W st' with
          | Ok r => Ok (it :: r)
          | other => other
          end
      | Err c => Err c
      | Panic => Panic
      | Fuel => Fuel
      end
  end.

Definition vi_init (streams : list (list item)) : vstate :=
  mkVS false (map (fun s => (s, None)) streams) None None 0.

(* fuel: windows needed <= max position / W + 3 per call; values emitted <= W per window *)
Definition item_end (it : item) : N := match it with IV v => N.max (v_start v) (v_end v) | IE _ => 0 end.
Fixpoint max_end (items : list item) : N :=
  match items with [] => 0 | it :: r => N.max (item_end it) (max_end r) end.
Fixpoint max_end_all (streams : list (list item)) : N :=
  match streams with [] => 0 | s :: r => N.max (max_end s) (max_end_all r) end.
Definition win_fuel (W : N) (streams : list (list item)) : nat := N.to_nat (max_end_all streams / W) + 3.

Definition merge_sections_many (W : N) (streams : list (list item)) : res (list item) :=
  let wf := win_fuel W streams in
  vi_collect (wf * N.to_nat W + 2) wf W (vi_init streams).

(* ------------------------------------------------------------------ specification vocabulary (definitions only)
   shared by the oracle (Entry_C15.v) and the theorems (Properties/C15.v) *)
Definition inb (v : value) (x : N) : bool := (v_start v <=? x) && (x <? v_end v).
(* the value at base x of a list of values: the first value that contains x *)
Fixpoint sig (l : list value) (x : N) : option Z :=
  match l with [] => None | v :: r => if inb v x then Some (v_val v) else sig r x end.
(* the sum of all values that contain x (equal to [sig] on disjoint lists, additive under ++) *)
Fixpoint sigz (l : list value) (x : N) : Z :=
  match l with [] => 0%Z | v :: r => ((if inb v x then v_val v else 0) + sigz r x)%Z end.
Definition cov (l : list value) (x : N) : bool := existsb (fun v => inb v x) l.
Definition oz (o : option Z) : Z := match o with Some z => z | None => 0%Z end.
(* non-empty values, in order, no two overlapping, none before [lo] *)
Fixpoint sorted_from (lo : N) (l : list value) : Prop :=
  match l with
  | [] => True
  | v :: r => lo <= v_start v /\ v_start v < v_end v /\ sorted_from (v_end v) r
  end.
Fixpoint sorted_fromb (lo : N) (l : list value) : bool :=
  match l with
  | [] => true
  | v :: r => (lo <=? v_start v) && (v_start v <? v_end v) && sorted_fromb (v_end v) r
  end.
(* the per-base sum of several streams *)
Fixpoint ssum (vss : list (list value)) (x : N) : Z :=
  match vss with [] => 0%Z | vs :: r => (oz (sig vs x) + ssum r x)%Z end.
Definition nz_opt (z : Z) : option Z := if isz z then None else Some z.
