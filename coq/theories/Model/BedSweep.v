(* Model of the bigBed coverage sweep and zoom tiling: bigbedwrite.rs process_val (checks and
   add_interval_to_summary), process_val_zoom (depth sweep + tiling + sectioning at items_per_slot),
   BigBedFullProcess / BigBedNoZoomsProcess / BigBedZoomsProcess create/destroy, after the repairs
   D3 (tail rule), D13 (empty segments ignored, NaN extremes for a chromosome without covered base),
   D1b (strict > in the tiling) and D16 (record extremes start from the first depth).

   The `overlap: IndexList<Value>` of the Rust code is the list [l] of pending depth segments.  The
   depth counter is an f32 in the Rust code (`o.value += 1.0`); it is a natural number here, which is
   the same below 2^24 entries over one base (stated as an assumption in the notes).  Sums are f64
   in the Rust code: they are [fl] values computed under an [fpmode] ([ieee] when the model is run
   against the implementation, [exact] in the theorems).

   Exported for the bigBed writer model: [bb_check_chrom], [bb_chrom_summary], [bb_total_summary],
   [bb_zoom_records].   No proofs in this file. *)
From BT Require Import Base.Util Base.Float Generated.Consts Model.BBIFile Model.BigWigWrite.
Local Open Scope N_scope.

Record entry := { e_start : N; e_end : N; e_rest : list N }.   (* rest = bytes of the remaining columns *)
Record seg := { g_start : N; g_end : N; g_val : N }.           (* depth g_val on [g_start, g_end) *)

Definition U32_MAX : N := 2 ^ 32 - 1.

(* error class codes (harness/src/bbi.rs classify) *)
Definition E_BED_START_GT_END := 40.
Definition E_BED_START_GE_CHROM := 41.
Definition E_BED_UNSORTED := 42.

(* ---- process_val: the checks ---- *)
Definition bb_check_entry (len : N) (cur : entry) (next : option entry) : res unit :=
  if e_end cur <? e_start cur then Err E_BED_START_GT_END
  else if len <=? e_start cur then Err E_BED_START_GE_CHROM
  else match next with
       | Some n => if e_start n <? e_start cur then Err E_BED_UNSORTED else Ok tt
       | None => Ok tt
       end.
Fixpoint bb_check_chrom (len : N) (es : list entry) : res unit :=
  match es with
  | [] => Ok tt
  | e :: r => do _ <- bb_check_entry len e (hd_error r); bb_check_chrom len r
  end.

(* ---- the depth sweep (shared by add_interval_to_summary and process_val_zoom) ---- *)
(* `while index.is_some()`: add 1 to every pending segment; the segment that extends past the
   entry's end is split there and the walk stops *)
Fixpoint bump (item_end : N) (l : list seg) : list seg :=
  match l with
  | [] => []
  | o :: rest =>
      if item_end <? g_end o then
        {| g_start := g_start o; g_end := item_end; g_val := g_val o + 1 |}
        :: {| g_start := item_end; g_end := g_end o; g_val := g_val o |} :: rest
      else {| g_start := g_start o; g_end := g_end o; g_val := g_val o + 1 |} :: bump item_end rest
  end.

(* `match overlap.get_last()`: the part of the entry past the last segment starts a new one *)
Definition tail_rule (s e : N) (l : list seg) : list seg :=
  match last_opt l with
  | Some o => if g_end o <? e then l ++ [{| g_start := g_end o; g_end := e; g_val := 1 |}] else l
  | None => l ++ [{| g_start := s; g_end := e; g_val := 1 |}]
  end.

(* `while overlap.get_first().map(|f| f.start < next_start)`: (emitted, still pending).  The segment
   cut at next_start is put back with start = next_start, which ends the loop. *)
Fixpoint flush (ns : N) (l : list seg) : list seg * list seg :=
  match l with
  | [] => ([], [])
  | o :: rest =>
      if g_start o <? ns then
        if g_end o <=? ns then let (em, r) := flush ns rest in (o :: em, r)
        else ([{| g_start := g_start o; g_end := ns; g_val := g_val o |}],
              {| g_start := ns; g_end := g_end o; g_val := g_val o |} :: rest)
      else ([], l)
  end.

Definition next_start (next : option entry) : N :=
  match next with Some n => e_start n | None => U32_MAX end.

(* one entry: (segments emitted, pending list afterwards) *)
Definition sweep_step (l : list seg) (cur : entry) (next : option entry) : list seg * list seg :=
  flush (next_start next) (tail_rule (e_start cur) (e_end cur) (bump (e_end cur) l)).

(* all segments one chromosome emits, in order, grouped by the entry that emitted them *)
Fixpoint sweep_groups (l : list seg) (es : list entry) : list (list seg) :=
  match es with
  | [] => []
  | e :: r => let (em, l') := sweep_step l e (hd_error r) in em :: sweep_groups l' r
  end.
Definition sweep_emitted (es : list entry) : list seg := concat (sweep_groups [] es).

(* ---- the total summary ---- *)
Definition seg_len (g : seg) : N := g_end g - g_start g.

(* the `match summary` at the end of the flush loop; empty segments are skipped *)
Definition sum_seg (fp : fpmode) (s : option summary) (g : seg) : option summary :=
  let len := seg_len g in
  if len =? 0 then s else
  let val := f_of_N (g_val g) in
  let flen := f_of_N len in
  match s with
  | None => Some {| su_items := 0; su_bases := len; su_min := val; su_max := val;
                    su_sum := fmul64 fp flen val; su_sumsq := fmul64 fp (fmul64 fp flen val) val |}
  | Some s => Some {| su_items := su_items s; su_bases := su_bases s + len;
                      su_min := fmin (su_min s) val; su_max := fmax (su_max s) val;
                      su_sum := fadd64 fp (su_sum s) (fmul64 fp flen val);
                      su_sumsq := fadd64 fp (su_sumsq s) (fmul64 fp (fmul64 fp flen val) val) |}
  end.

(* destroy(): a chromosome without covered base reports NaN extremes; total_items = entries seen *)
Definition summary_nothing : summary :=
  {| su_items := 0; su_bases := 0; su_min := FNaN; su_max := FNaN; su_sum := fzero; su_sumsq := fzero |}.
Definition with_items (s : summary) (n : N) : summary :=
  {| su_items := n; su_bases := su_bases s; su_min := su_min s; su_max := su_max s;
     su_sum := su_sum s; su_sumsq := su_sumsq s |}.

Definition bb_chrom_summary (fp : fpmode) (es : list entry) : summary :=
  with_items (match fold_left (sum_seg fp) (sweep_emitted es) None with Some s => s | None => summary_nothing end)
             (Nlen es).

(* the `advance` fold over the chromosomes in stream order (bbiwrite.rs write_vals / write_vals_no_zoom) *)
Definition bb_total_summary (fp : fpmode) (chroms : list (list entry)) : summary :=
  match fold_left (summary_merge fp) (map (bb_chrom_summary fp) chroms) None with
  | Some s => s
  | None => summary_zero
  end.

(* ---- zoom: tiling of the emitted depth segments into records of at most [size] bases ---- *)
Definition send_records (st : zstate) : zstate :=
  {| zs_live := zs_live st; zs_records := []; zs_out := zs_out st ++ [zs_records st] |}.
Definition push_live (st : zstate) (z : zrec) : zstate :=
  {| zs_live := None; zs_records := zs_records st ++ [z]; zs_out := zs_out st |}.

(* the inner `loop` for one removed segment [rs, re) of depth val *)
Fixpoint tile_loop (fuel : nat) (fp : fpmode) (ips size chrom : N) (rs re val : N) (has_next : bool)
         (add_start : N) (st : zstate) : res zstate :=
  match fuel with
  | O => Fuel
  | S f =>
      if re <=? add_start then
        if has_next then Ok st else
        let st1 := match zs_live st with Some z => push_live st z | None => st end in
        Ok (match zs_records st1 with [] => st1 | _ => send_records st1 end)
      else
        let v := f_of_N val in
        let z := match zs_live st with Some z => z | None => zrec_new chrom add_start v end in
        let next_end := z_start z + size in
        let add_end := N.min next_end re in
        let z := if add_start <? add_end then zrec_add fp z add_start add_end v else z in
        let st := if add_end =? next_end then push_live st z
                  else {| zs_live := Some z; zs_records := zs_records st; zs_out := zs_out st |} in
        let add_start' := N.max add_end rs in
        let st := if Nlen (zs_records st) =? ips then send_records st else st in
        tile_loop f fp ips size chrom rs re val has_next add_start' st
  end.

Definition tile_fuel (size : N) (g : seg) : nat := N.to_nat (seg_len g / size + 4).

Fixpoint tile_segs (fp : fpmode) (ips size chrom : N) (has_next : bool) (em : list seg) (st : zstate) : res zstate :=
  match em with
  | [] => Ok st
  | g :: r =>
      do st' <- tile_loop (tile_fuel size g) fp ips size chrom (g_start g) (g_end g) (g_val g) has_next (g_start g) st;
      tile_segs fp ips size chrom has_next r st'
  end.

(* process_val_zoom for one resolution over the entries of one chromosome *)
Fixpoint bb_zoom_chrom (fp : fpmode) (ips size chrom : N) (l : list seg) (es : list entry) (st : zstate) : res zstate :=
  match es with
  | [] => Ok st
  | e :: r =>
      let (em, l') := sweep_step l e (hd_error r) in
      do st' <- tile_segs fp ips size chrom (match r with [] => false | _ => true end) em st;
      bb_zoom_chrom fp ips size chrom l' r st'
  end.

(* the zoom sections (lists of records handed to encode_zoom_section) one chromosome contributes
   to the level of resolution [size] *)
Definition bb_zoom_records (fp : fpmode) (ips size chrom : N) (es : list entry) : res (list (list zrec)) :=
  do st <- bb_zoom_chrom fp ips size chrom [] es zstate0;
  Ok (zs_out st).

(* ---- BigBedNoZoomsProcess: how many records each resolution of the ladder would need ---- *)
Definition value_of_entry (e : entry) : value := {| v_start := e_start e; v_end := e_end e; v_bits := 0 |}.
Definition bb_chrom_zoom_counts (len : N) (es : list entry) : list (N * N) :=
  chrom_zoom_counts len (map value_of_entry es).

(* bytes of one entry in a data section (encode_section): chrom, start, end, rest, NUL *)
Definition entry_size (e : entry) : N := 12 + Nlen (e_rest e) + 1.
