(* Model of the array-filling routines behind pybigtools' `BBIRead.values`
   (pybigtools/src/lib.rs: to_array, to_entry_array, to_array_bins, to_entry_array_bins,
   to_array_zoom, to_entry_array_zoom, bin_edge, bin_index, and the fetch clamp / `match bins` /
   out-of-bounds fill of intervals_to_array and entries_to_array), after the repairs recorded in
   known-findings.txt (D11a-g).  Definitions only; proofs are in Proofs/PyArrays*.v.

   Numbers.  Positions, offsets and bin numbers are Z (the Rust i32/u32/usize/i64 values; no
   wrap-around is modelled: positions are assumed < 2^31 and products < 2^63, which the harness
   scope guarantees).  An f64 is [fl]: NaN or an exact number counted in EIGHTHS (FV 20 = 2.5);
   every value, `missing` and `oob` in scope is a multiple of 1/8 and all sums and products the
   routines form are exact in f64, so FV arithmetic is the f64 arithmetic.  The one rounded operation
   is the division that produces a mean: a cell of the result array is an [out], NaN, an infinity,
   or the exact quotient num/den (in eighths, den > 0) which the correspondence compares with the
   correctly rounded f64 quotient.  The sign of zero is not modelled (the harness prints v + 0.0).
   Since the repair 13c0bb4 bin edges and bin lookup are whole-number (i64) arithmetic in the Rust
   code, so they are modelled exactly, for every bin width; no f64 is involved in them any more. *)
From BT Require Import Base.Util.
Local Open Scope Z_scope.

Inductive fl := FNaN | FV (z : Z).
Inductive out := ONaN | OInf (neg : bool) | OQ (num den : Z).
Inductive stat := Mean | Min | Max.

Definition out_of_fl (f : fl) : out := match f with FNaN => ONaN | FV z => OQ z 1 end.
(* f64::max / f64::min ignore a NaN operand *)
Definition fmax (a b : fl) : fl :=
  match a, b with FNaN, x => x | x, FNaN => x | FV x, FV y => FV (Z.max x y) end.
Definition fmin (a b : fl) : fl :=
  match a, b with FNaN, x => x | x, FNaN => x | FV x, FV y => FV (Z.min x y) end.
Definition fadd (a b : fl) : fl := match a, b with FV x, FV y => FV (x + y) | _, _ => FNaN end.
(* v / (c as f64) *)
Definition fdiv (v : fl) (c : Z) : out :=
  match v with
  | FNaN => ONaN
  | FV z => if c =? 0 then (if z =? 0 then ONaN else OInf (z <? 0))
            else if c <? 0 then OQ (- z) (- c) else OQ z c
  end.
Definition is_nan (f : fl) : bool := match f with FNaN => true | FV _ => false end.

(* `x as usize` for a negative i32/i64 x sign-extends *)
Definition to_usize (z : Z) : Z := if z <? 0 then z + 2 ^ 64 else z.

Record wval := { w_start : Z; w_end : Z; w_val : Z }.            (* bigWig value, value in eighths *)
Record bent := { b_start : Z; b_end : Z }.                        (* bigBed entry *)
Record zrec := { z_start : Z; z_end : Z; z_bases : Z; z_min : Z; z_max : Z; z_sum : Z }. (* zoom record *)

(* ---- list helpers *)
Fixpoint map_range {X} (f : X -> X) (a n : nat) (l : list X) : list X :=   (* f on n cells from index a *)
  match l with
  | [] => []
  | x :: r => match a with
              | S a' => x :: map_range f a' n r
              | O => match n with O => l | S n' => f x :: map_range f O n' r end
              end
  end.
Fixpoint set_nth {X} (i : nat) (x : X) (l : list X) : list X :=
  match l with [] => [] | y :: r => match i with O => x :: r | S i' => y :: set_nth i' x r end end.
Fixpoint seqZ (a : Z) (n : nat) : list Z := match n with O => [] | S k => a :: seqZ (a + 1) k end.
Fixpoint foldM {S X} (f : S -> X -> res S) (l : list X) (s : S) : res S :=
  match l with [] => Ok s | x :: r => do s' <- f s x; foldM f r s' end.

(* `for i in a..b { buf[i] = f(buf[i]) }` with bounds-checked indexing (a, b already usize) *)
Definition upd_range {X} (f : X -> X) (a b : Z) (buf : list X) : res (list X) :=
  if b <=? a then Ok buf
  else if Z.of_nat (length buf) <? b then Panic
  else Ok (map_range f (Z.to_nat a) (Z.to_nat (b - a)) buf).
(* `for i in &mut buf[a as usize..b as usize] { .. = f(..) }`: the slice itself is bounds-checked *)
Definition slice_upd {X} (f : X -> X) (a b : Z) (buf : list X) : res (list X) :=
  let a' := to_usize a in let b' := to_usize b in
  if (b' <? a') || (Z.of_nat (length buf) <? b') then Panic
  else Ok (map_range f (Z.to_nat a') (Z.to_nat (b' - a')) buf).

(* ---- per-base routines *)
Definition unnan (missing : fl) (x : fl) : out := match x with FNaN => out_of_fl missing | FV z => OQ z 1 end.

(* to_array: v.fill(NAN); add each value over its bases; NAN -> missing.  n = v.len() *)
Definition to_array (start end_ : Z) (vals : list wval) (missing : fl) (n : nat) : res (list out) :=
  if negb (Z.of_nat n =? to_usize (end_ - start)) then Panic else
  do buf <- foldM (fun buf iv =>
              upd_range (fun x => match x with FNaN => FV (w_val iv) | FV y => FV (y + w_val iv) end)
                        (to_usize (w_start iv - start)) (to_usize (w_end iv - start)) buf)
            vals (repeat FNaN n);
  Ok (map (unnan missing) buf).

(* to_entry_array (after e5e7dcd: entries are clamped to the range) *)
Definition to_entry_array (start end_ : Z) (ents : list bent) (missing : fl) (n : nat) : res (list out) :=
  if negb (Z.of_nat n =? to_usize (end_ - start)) then Panic else
  do buf <- foldM (fun buf en =>
              upd_range (fun x => match x with FNaN => FV 8 | FV y => FV (y + 8) end)
                        (to_usize (Z.max (b_start en) start - start)) (to_usize (Z.min (b_end en) end_ - start)) buf)
            ents (repeat FNaN n);
  Ok (map (unnan missing) buf).

(* ---- bins: whole-number bin geometry (i64 `/` truncates; all operands are non-negative here) *)
Definition bin_edge (bin span bins : Z) : Z := Z.quot (bin * span) bins.
Definition bin_index (pos span bins : Z) : Z := to_usize (Z.quot ((pos + 1) * bins - 1) span).

(* The four binned routines are one loop over a VecDeque of (bin, bin_start, bin_end, data); they
   differ in the per-bin data, how an item updates it and how it is turned into the cell value. *)
Section Engine.
Context {I D : Type}.
Variable istart : I -> Z.                      (* (item.start as i32).max(start) - start *)
Variable iend : I -> Z.                        (* (item.end as i32).min(end) - start *)
Variable fresh : Z -> Z -> res D.              (* data of a newly pushed bin (bin_start, bin_end) *)
Variable upd : I -> Z -> Z -> D -> res D.      (* item, bin_start, bin_end *)
Variable fin : D -> out.                       (* value written when the bin leaves the deque *)
Variable span bins : Z.

Definition elem := (Z * Z * Z * D)%type.
Definition el_bin (x : elem) : Z := match x with (b, _, _, _) => b end.

(* v[bin] = x *)
Definition write (v : list out) (bin : Z) (x : out) : res (list out) :=
  if bin <? Z.of_nat (length v) then Ok (set_nth (Z.to_nat bin) x v) else Panic.

(* while front.0 < bin_start { pop_front; v[bin] = ... } *)
Fixpoint pop_lt (bs : Z) (dq : list elem) (v : list out) : res (list elem * list out) :=
  match dq with
  | [] => Ok ([], v)
  | (b, s, e, d) :: r => if b <? bs then do v' <- write v b (fin d); pop_lt bs r v' else Ok (dq, v)
  end.
(* final `while let Some(front) = bin_data.pop_front()` *)
Fixpoint pop_all (dq : list elem) (v : list out) : res (list out) :=
  match dq with
  | [] => Ok v
  | (b, s, e, d) :: r => do v' <- write v b (fin d); pop_all r v'
  end.

Fixpoint mk_bins (first : Z) (count : nat) : res (list elem) :=
  match count with
  | O => Ok []
  | S k => let s := bin_edge first span bins in
           let e := bin_edge (first + 1) span bins in
           do d <- fresh s e; do r <- mk_bins (first + 1) k; Ok ((first, s, e, d) :: r)
  end.
(* the `while let Some(bin) = back.map(..).unwrap_or(Some(bin_start))` loop: an empty deque gets
   bin_start and then everything up to bin_end, a non-empty one is extended from its back to bin_end *)
Definition push (bs be : Z) (dq : list elem) : res (list elem) :=
  match last_opt dq with
  | None => mk_bins bs (S (Z.to_nat (be - bs)))
  | Some lb => do nb <- mk_bins (el_bin lb + 1) (Z.to_nat (be - el_bin lb)); Ok (dq ++ nb)
  end.
(* `for bin in bin_start..bin_end { assert!(bin_data.iter().find(|b| b.0 == bin).is_some()) }` *)
Definition assert_present (bs be : Z) (dq : list elem) : bool :=
  forallb (fun bin => existsb (fun x => el_bin x =? bin) dq) (seqZ bs (Z.to_nat (be - bs))).
(* `for (.., bin_start, bin_end, data) in bin_data.iter_mut() { if interval_end <= *bin_start { break } .. }` *)
Fixpoint upd_prefix (it : I) (dq : list elem) : res (list elem) :=
  match dq with
  | [] => Ok []
  | (b, s, e, d) :: r =>
      if iend it <=? s then Ok dq
      else do d' <- upd it s e d; do r' <- upd_prefix it r; Ok ((b, s, e, d') :: r')
  end.

Definition step (st : list elem * list out) (it : I) : res (list elem * list out) :=
  let '(dq, v) := st in
  if iend it <=? istart it then Ok st                 (* `continue` (c1d556c) *)
  else if (bins =? 0) || (span =? 0) then Panic      (* integer division by zero *)
  else
    let bs := bin_index (istart it) span bins in
    let be := bin_index (iend it - 1) span bins in
    do p <- pop_lt bs dq v;
    do dq2 <- push bs be (fst p);
    if negb (assert_present bs be dq2) then Panic else
    do dq3 <- upd_prefix it dq2;
    Ok (dq3, snd p).

(* n = v.len() *)
Definition run_bins (items : list I) (missing : fl) (n : nat) : res (list out) :=
  if negb (Z.of_nat n =? bins) then Panic else          (* assert_eq!(v.len(), bins) *)
  do st <- foldM step items ([], repeat (out_of_fl missing) n);
  pop_all (fst st) (snd st).
End Engine.

(* -- to_array_bins: data = Option<(covered: i32, value: f64)> *)
Definition wig_upd (st : stat) (istart iend : Z) (value : Z) (bs be : Z) (d : option (Z * fl)) : res (option (Z * fl)) :=
  let '(c, v) := match d with
                 | Some x => x
                 | None => match st with Mean => (0, FV 0) | _ => (0, FNaN) end
                 end in
  Ok (Some (match st with
            | Min => (c, fmin v (FV value))
            | Max => (c, fmax v (FV value))
            | Mean => let sz := Z.min be iend - Z.max bs istart in (c + sz, fadd v (FV (sz * value)))
            end)).
Definition wig_fin (st : stat) (missing : fl) (d : option (Z * fl)) : out :=
  match d with
  | None => out_of_fl missing
  | Some (c, v) => match st with Mean => fdiv v c | _ => out_of_fl v end
  end.
Definition to_array_bins (start end_ : Z) (vals : list wval) (st : stat) (bins : Z) (missing : fl) (n : nat) : res (list out) :=
  let is_ := fun iv => Z.max (w_start iv) start - start in
  let ie := fun iv => Z.min (w_end iv) end_ - start in
  run_bins is_ ie (fun _ _ => Ok None)
           (fun iv bs be d => wig_upd st (is_ iv) (ie iv) (w_val iv) bs be d)
           (wig_fin st missing) (end_ - start) bins vals missing n.

(* -- to_entry_array_bins: data = (covered: Vec<i32>, depth: Vec<f64>), one cell per base of the bin;
      after 3951e2f the depth cells start as NAN *)
Definition bed_fresh (seed : fl) (bs be : Z) : res (list Z * list fl) :=
  if be <? bs then Panic                                (* vec![..; negative as usize]: capacity overflow *)
  else Ok (repeat 0 (Z.to_nat (be - bs)), repeat seed (Z.to_nat (be - bs))).
Definition bed_upd (istart iend : Z) (bs be : Z) (d : list Z * list fl) : res (list Z * list fl) :=
  let os := Z.max bs istart in
  let oe := Z.min be iend in
  do data <- slice_upd (fun x => fadd (fmax x (FV 0)) (FV 8)) (os - bs) (oe - bs) (snd d);
  do cov <- slice_upd (fun c => Z.max c 1) (os - bs) (oe - bs) (fst d);
  Ok (cov, data).
Definition reduce {X} (f : X -> X -> X) (l : list X) : option X :=
  match l with [] => None | x :: r => Some (fold_left f r x) end.
Definition fsum0 (l : list fl) : fl := fold_left fadd (map (fun x => fmax x (FV 0)) l) (FV 0).
Definition bed_mean (missing : fl) (d : list Z * list fl) : out :=
  if existsb (fun c => 0 <? c) (fst d) then fdiv (fsum0 (snd d)) (fold_left Z.add (fst d) 0)
  else out_of_fl missing.
Definition bed_fin (st : stat) (missing : fl) (d : list Z * list fl) : out :=
  match st with
  | Mean => bed_mean missing d
  | Min => match reduce fmin (snd d) with Some (FV z) => OQ z 1 | _ => out_of_fl missing end
  | Max => match reduce fmax (snd d) with Some (FV z) => OQ z 1 | _ => out_of_fl missing end
  end.
Definition to_entry_array_bins (start end_ : Z) (ents : list bent) (st : stat) (bins : Z) (missing : fl) (n : nat) : res (list out) :=
  let is_ := fun en => Z.max (b_start en) start - start in
  let ie := fun en => Z.min (b_end en) end_ - start in
  run_bins is_ ie (bed_fresh FNaN)
           (fun en bs be d => bed_upd (is_ en) (ie en) bs be d)
           (bed_fin st missing) (end_ - start) bins ents missing n.

(* -- to_array_zoom / to_entry_array_zoom (`exact = False`: bins from the records of a zoom level).
      zoom_mean = sum / bases_covered is an f64 division; it is modelled for records whose sum is a whole
      multiple of a positive bases_covered (the scope of the theorems and of the harness), where it is exact. *)
Definition zmean (z : zrec) : Z := Z.quot (z_sum z) (z_bases z).
Definition wigz_upd (st : stat) (istart iend : Z) (z : zrec) (bs be : Z) (d : option (Z * fl)) : res (option (Z * fl)) :=
  let sz := Z.min be iend - Z.max bs istart in
  Ok (Some (match d with
            | Some (c, v) => match st with
                             | Min => (c + sz, fmin v (FV (z_min z)))
                             | Max => (c + sz, fmax v (FV (z_max z)))
                             | Mean => (c + sz, fadd v (FV (sz * zmean z)))
                             end
            | None => match st with
                      | Min => (sz, FV (z_min z))
                      | Max => (sz, FV (z_max z))
                      | Mean => (sz, FV (sz * zmean z))
                      end
            end)).
Definition to_array_zoom (start end_ : Z) (recs : list zrec) (st : stat) (bins : Z) (missing : fl) (n : nat) : res (list out) :=
  let is_ := fun z => Z.max (z_start z) start - start in
  let ie := fun z => Z.min (z_end z) end_ - start in
  run_bins is_ ie (fun _ _ => Ok None)
           (fun z bs be d => wigz_upd st (is_ z) (ie z) z bs be d)
           (wig_fin st missing) (end_ - start) bins recs missing n.

(* after the repair of D11g: the cells start as NAN like those of to_entry_array_bins, the mean adds to
   max(cell, 0.0) (NAN -> 0.0), min / max ignore the NAN, and a bin whose cells are all NAN reports `missing` *)
Definition bedz_upd (st : stat) (istart iend : Z) (z : zrec) (bs be : Z) (d : list Z * list fl) : res (list Z * list fl) :=
  let os := Z.max bs istart in
  let oe := Z.min be iend in
  do data <- slice_upd (fun x => match st with
                                 | Mean => fadd (fmax x (FV 0)) (FV (zmean z))
                                 | Min => fmin x (FV (z_min z))
                                 | Max => fmax x (FV (z_max z))
                                 end) (os - bs) (oe - bs) (snd d);
  do cov <- slice_upd (fun c => Z.max c 1) (os - bs) (oe - bs) (fst d);
  Ok (cov, data).
Definition to_entry_array_zoom (start end_ : Z) (recs : list zrec) (st : stat) (bins : Z) (missing : fl) (n : nat) : res (list out) :=
  let is_ := fun z => Z.max (z_start z) start - start in
  let ie := fun z => Z.min (z_end z) end_ - start in
  run_bins is_ ie (bed_fresh FNaN)
           (fun z bs be d => bedz_upd st (is_ z) (ie z) z bs be d)
           (bed_fin st missing) (end_ - start) bins recs missing n.

(* ---- the wrappers intervals_to_array / entries_to_array, from the clamp on *)
(* (start.max(0) as u32, end.min(length).max(0) as u32)   (d9b37ec) *)
Definition clamp (start end_ length : Z) : Z * Z := (Z.max start 0, Z.max (Z.min end_ length) 0).
(* what the readers hand over for the fetched range [fs, fe):
   BigWigRead::get_interval (get_block_values): strictly overlapping values, clipped;
   BigBedRead::get_interval (get_block_entries) and get_zoom_interval (get_zoom_block_values): whole
   items with item.end >= fs && item.start <= fe, i.e. also items that only touch the range -- when
   their block is read at all, so [touch = false] (only strictly overlapping items) is the other extreme *)
Definition fetch_wig (vals : list wval) (fs fe : Z) : list wval :=
  map (fun v => {| w_start := Z.max (w_start v) fs; w_end := Z.min (w_end v) fe; w_val := w_val v |})
      (filter (fun v => (fs <? w_end v) && (w_start v <? fe)) vals).
Definition keep (touch : bool) (fs fe s e : Z) : bool :=
  if touch then (fs <=? e) && (s <=? fe) else (fs <? e) && (s <? fe).
Definition fetch_bed (touch : bool) (ents : list bent) (fs fe : Z) : list bent :=
  filter (fun en => keep touch fs fe (b_start en) (b_end en)) ents.
Definition fetch_zoom (touch : bool) (recs : list zrec) (fs fe : Z) : list zrec :=
  filter (fun z => keep touch fs fe (z_start z) (z_end z)) recs.

(* `for i in a..b { array[i] = oob }` *)
Definition fill_range (a b : Z) (x : out) (arr : list out) : res (list out) := upd_range (fun _ => x) a b arr.
(* the block after `let nbins = match bins {..}`: every bin holding a base outside [0, length) is oob *)
Definition oob_fill (start end_ length nbins : Z) (oob : fl) (arr : list out) : res (list out) :=
  do a1 <- (if start <? 0 then
              let interval_end := Z.min 0 end_ - start in
              let bin_end := bin_index (interval_end - 1) (end_ - start) nbins + 1 in
              fill_range 0 bin_end (out_of_fl oob) arr
            else Ok arr);
  if length <? end_ then
    let interval_start := Z.max (length - start) 0 in
    let bin_start := bin_index interval_start (end_ - start) nbins in
    fill_range bin_start (Z.of_nat (List.length a1)) (out_of_fl oob) a1
  else Ok a1.

(* Ranges with end <= start are outside the model (Err 9): the Rust code allocates
   `(end - start) as usize` cells or divides by a zero span there. *)
Definition values_wig (length : Z) (vals : list wval) (s e : Z) (bins : option Z) (st : stat) (missing oob : fl) : res (list out) :=
  if e <=? s then Err 9 else
  let nbins := match bins with Some b => b | None => to_usize (e - s) end in
  let '(fs, fe) := clamp s e length in
  let fetched := fetch_wig vals fs fe in
  do arr <- match bins with
            | Some b => to_array_bins s e fetched st b missing (Z.to_nat nbins)
            | None => to_array s e fetched missing (Z.to_nat nbins)
            end;
  oob_fill s e length nbins oob arr.
Definition values_bed (touch : bool) (length : Z) (ents : list bent) (s e : Z) (bins : option Z) (st : stat) (missing oob : fl) : res (list out) :=
  if e <=? s then Err 9 else
  let nbins := match bins with Some b => b | None => to_usize (e - s) end in
  let '(fs, fe) := clamp s e length in
  let fetched := fetch_bed touch ents fs fe in
  do arr <- match bins with
            | Some b => to_entry_array_bins s e fetched st b missing (Z.to_nat nbins)
            | None => to_entry_array s e fetched missing (Z.to_nat nbins)
            end;
  oob_fill s e length nbins oob arr.
(* exact = False with a zoom level chosen: same wrappers, zoom routine in the middle *)
Definition values_wig_zoom (touch : bool) (length : Z) (recs : list zrec) (s e bins : Z) (st : stat) (missing oob : fl) : res (list out) :=
  if e <=? s then Err 9 else
  let '(fs, fe) := clamp s e length in
  do arr <- to_array_zoom s e (fetch_zoom touch recs fs fe) st bins missing (Z.to_nat bins);
  oob_fill s e length bins oob arr.
Definition values_bed_zoom (touch : bool) (length : Z) (recs : list zrec) (s e bins : Z) (st : stat) (missing oob : fl) : res (list out) :=
  if e <=? s then Err 9 else
  let '(fs, fe) := clamp s e length in
  do arr <- to_entry_array_zoom s e (fetch_zoom touch recs fs fe) st bins missing (Z.to_nat bins);
  oob_fill s e length bins oob arr.

(* ---- what the documentation of `values` says (used by the theorems and by the oracle) *)
(* bigWig: the value of the (unique) stored interval containing the base *)
Definition wig_at (vals : list wval) (p : Z) : option Z :=
  match find (fun v => (w_start v <=? p) && (p <? w_end v)) vals with Some v => Some (w_val v) | None => None end.
(* bigBed: the number of entries overlapping the base; no entry = no data *)
Definition depth (ents : list bent) (p : Z) : Z :=
  Z.of_nat (List.length (filter (fun en => (b_start en <=? p) && (p <? b_end en)) ents)).
Definition bed_at (ents : list bent) (p : Z) : option Z :=
  if depth ents p =? 0 then None else Some (8 * depth ents p).
(* values of the covered bases of [lo, hi) *)
Definition covered_vals (sig : Z -> option Z) (lo hi : Z) : list Z :=
  flat_map (fun p => match sig p with Some z => [z] | None => [] end) (seqZ lo (Z.to_nat (hi - lo))).
Definition stat_of (st : stat) (missing : fl) (l : list Z) : out :=
  match l with
  | [] => out_of_fl missing
  | x :: r => match st with
              | Mean => OQ (fold_left Z.add l 0) (Z.of_nat (List.length l))
              | Min => OQ (fold_left Z.min r x) 1
              | Max => OQ (fold_left Z.max r x) 1
              end
  end.
(* cell i of a per-base answer for [s, e) on a chromosome of `length` bases *)
Definition base_cell (sig : Z -> option Z) (length : Z) (missing oob : fl) (p : Z) : out :=
  if (p <? 0) || (length <=? p) then out_of_fl oob
  else match sig p with Some z => OQ z 1 | None => out_of_fl missing end.
(* cell of the bin that spans [lo, hi) *)
Definition bin_cell (sig : Z -> option Z) (length : Z) (st : stat) (missing oob : fl) (lo hi : Z) : out :=
  if (lo <? 0) || (length <? hi) then out_of_fl oob
  else stat_of st missing (covered_vals sig lo hi).

(* ---- zoom mode (`exact = False`): what a bin reports, computed from the records of the zoom level.
   [zov lo hi z] = number of bases of record z inside [lo, hi).  Over the records that overlap the bin's
   span: mean = the records' means weighted by their overlap with the span, min / max = the smallest
   min_val / largest max_val; `missing` when no record overlaps.  [mval] is the mean a record contributes:
   [zmean] in to_array_zoom, [zmean0] in to_entry_array_zoom (its final sum maps every cell through
   max(0.0), which changes nothing for the non-negative depth statistics a bigBed zoom level holds). *)
Definition zov (lo hi : Z) (z : zrec) : Z := Z.min hi (z_end z) - Z.max lo (z_start z).
Definition zmean0 (z : zrec) : Z := Z.max (zmean z) 0.
Definition zoom_stat (mval : zrec -> Z) (st : stat) (missing : fl) (recs : list zrec) (lo hi : Z) : out :=
  match filter (fun z => 0 <? zov lo hi z) recs with
  | [] => out_of_fl missing
  | x :: r => match st with
              | Mean => OQ (fold_left Z.add (map (fun z => zov lo hi z * mval z) (x :: r)) 0)
                           (fold_left Z.add (map (zov lo hi) (x :: r)) 0)
              | Min => OQ (fold_left Z.min (map z_min r) (z_min x)) 1
              | Max => OQ (fold_left Z.max (map z_max r) (z_max x)) 1
              end
  end.
(* cell of the bin that spans [lo, hi) *)
Definition zoom_cell (mval : zrec -> Z) (recs : list zrec) (length : Z) (st : stat) (missing oob : fl) (lo hi : Z) : out :=
  if (lo <? 0) || (length <? hi) then out_of_fl oob
  else zoom_stat mval st missing recs lo hi.
