(* The bigWig writer as a producer of operations on its destination (C14).

   bbiwrite.rs write_blank_headers / write_info / write_mid / write_rtreeindex / write_zooms /
   write_zoom_vals, bigwigwrite.rs write_pre / write / write_multipass, seen from the sink
   `W: Write + Seek` that `BigWigWrite::new` is given: every byte goes through one
   `std::io::BufWriter<W>` (capacity 8 KiB), which is modelled explicitly here:

     write_all  small writes are appended to the buffer; a write that does not fit flushes the
                buffer first; a write of at least the capacity bypasses the buffer
     seek       (also `tell()` = seek(Current(0))) flushes the buffer, then seeks the sink
     flush      flushes the buffer, then flushes the sink
     io::copy   (temp file -> BufWriter) fills the empty buffer, flushes it, and so on
     drop       flushes the buffer and DISCARDS the error

   A run is a list of such calls, each followed by `?` in the Rust code; the interpreter [exec]
   stops at the first call that fails.  One sink operation may be made to fail ([fault]).
   How the bytes of a region are cut into write calls (per-chromosome buffers, temp files copied
   in, the write_u32/write_u64 granularity) depends on the schedule and is a parameter [chunker];
   everything proved about traces is proved for every chunker.
   The byte content is that of Model/BigWigWrite.v ([bw_parts] recomputes [assemble] keeping the
   regions apart).  No proofs in this file. *)
From BT Require Import Base.Util Base.LE Base.Float Generated.Consts Model.RTree Model.BBIFile Model.BigWigWrite.
Local Open Scope N_scope.

Definition E_IO : N := 50.          (* BBIProcessError::IoError *)
Definition CAP : N := 8192.         (* std::io::DEFAULT_BUF_SIZE = BufWriter::new's capacity *)

(* ------------------------------------------------------------------ the destination *)
Inductive sop := SSeek (pos : N) | SWrite (pos : N) (bytes : list N) | SFlush.

(* a write at [pos]; beyond the end the gap is zero-filled (Cursor<Vec<u8>>, files) *)
Definition write_at (c : list N) (pos : N) (b : list N) : list N :=
  patch_at (c ++ repeatN 0 (N.to_nat pos - length c)) pos b.
Definition apply_op (c : list N) (op : sop) : list N :=
  match op with SWrite p b => write_at c p b | _ => c end.
Definition replay (ops : list sop) : list N := fold_left apply_op ops [].

(* a crash point: [n] complete operations and, if the next one is a write, its first [c] bytes *)
Definition cut_ops (ops : list sop) (n c : nat) : list sop :=
  firstn n ops ++ match nth_error ops n with
                  | Some (SWrite p b) => [SWrite p (firstn c b)]
                  | _ => []
                  end.

(* ------------------------------------------------------------------ BufWriter<W> over a sink *)
Record st := { s_buf : list N; s_pos : N; s_file : list N; s_ops : list sop;
               s_nseek : nat; s_nwrite : nat; s_nflush : nat }.
Definition st0 : st :=
  {| s_buf := []; s_pos := 0; s_file := []; s_ops := []; s_nseek := 0; s_nwrite := 0; s_nflush := 0 |}.
Definition set_buf (b : list N) (s : st) : st :=
  {| s_buf := b; s_pos := s_pos s; s_file := s_file s; s_ops := s_ops s;
     s_nseek := s_nseek s; s_nwrite := s_nwrite s; s_nflush := s_nflush s |}.

(* the injected failure: the k-th (from 0) sink operation of a kind (0 seek, 1 write, 2 flush) *)
Definition fault := option (N * nat).
Definition hit (f : fault) (kind : N) (k : nat) : bool :=
  match f with Some (kd, n) => (kd =? kind) && Nat.eqb n k | None => false end.

Definition M := st -> res unit * st.
Definition ret : M := fun s => (Ok tt, s).
Definition bindM (m k : M) : M :=
  fun s => match m s with (Ok _, s') => k s' | (r, s') => (r, s') end.

(* counters of attempted operations, by kind *)
Definition kind_of (op : sop) : N := match op with SSeek _ => 0 | SWrite _ _ => 1 | SFlush => 2 end.
Definition cnt (kind : N) (s : st) : nat :=
  match kind with 0 => s_nseek s | 1 => s_nwrite s | _ => s_nflush s end.
Definition bump (kind : N) (s : st) : st :=
  {| s_buf := s_buf s; s_pos := s_pos s; s_file := s_file s; s_ops := s_ops s;
     s_nseek := match kind with 0 => S (s_nseek s) | _ => s_nseek s end;
     s_nwrite := match kind with 1 => S (s_nwrite s) | _ => s_nwrite s end;
     s_nflush := match kind with 0 => s_nflush s | 1 => s_nflush s | _ => S (s_nflush s) end |}.
(* the effect of an operation that succeeds *)
Definition emit (op : sop) (s : st) : st :=
  {| s_buf := s_buf s;
     s_pos := match op with SSeek p => p | SWrite p b => p + Nlen b | SFlush => s_pos s end;
     s_file := apply_op (s_file s) op;
     s_ops := s_ops s ++ [op];
     s_nseek := s_nseek s; s_nwrite := s_nwrite s; s_nflush := s_nflush s |}.
(* one operation on the sink; a failing operation has no effect on the destination *)
Definition sink (f : fault) (op : sop) : M := fun s =>
  let k := kind_of op in
  if hit f k (cnt k s) then (Err E_IO, bump k s) else (Ok tt, emit op (bump k s)).

Definition sink_write (f : fault) (b : list N) : M := fun s => sink f (SWrite (s_pos s) b) s.

Inductive seekto := ToStart (n : N) | ToCur | ToEnd.
Definition target (t : seekto) (s : st) : N :=
  match t with ToStart n => n | ToCur => s_pos s | ToEnd => Nlen (s_file s) end.
Definition sink_seek (f : fault) (t : seekto) : M := fun s => sink f (SSeek (target t s)) s.
Definition sink_flush (f : fault) : M := sink f SFlush.

Definition upd (g : st -> st) : M := fun s => (Ok tt, g s).

(* BufWriter::flush_buf: nothing to do on an empty buffer; on failure the buffer is kept *)
Definition flush_buf (f : fault) : M := fun s =>
  match s_buf s with
  | [] => ret s
  | b => bindM (sink_write f b) (upd (set_buf [])) s
  end.

Definition buffer (b : list N) : M := upd (fun s => set_buf (s_buf s ++ b) s).

(* BufWriter::write_all (and ::write: the sinks considered take everything they are given) *)
Definition bw_write_all (f : fault) (b : list N) : M := fun s =>
  let spare := CAP - Nlen (s_buf s) in
  if Nlen b <? spare then buffer b s
  else
    bindM (if spare <? Nlen b then flush_buf f else ret)
          (if CAP <=? Nlen b then sink_write f b else buffer b) s.

Definition bw_seek (f : fault) (t : seekto) : M := bindM (flush_buf f) (sink_seek f t).
Definition bw_flush (f : fault) : M := bindM (flush_buf f) (sink_flush f).

(* io::copy(file, &mut BufWriter): while the spare capacity is at least DEFAULT_BUF_SIZE read into
   it (end of input: done), otherwise flush_buf *)
Fixpoint copy_loop (fuel : nat) (f : fault) (b : list N) : M := fun s =>
  match fuel with
  | O => (Fuel, s)
  | S fu =>
      let spare := CAP - Nlen (s_buf s) in
      if CAP <=? spare then
        match b with
        | [] => ret s
        | _ => let n := N.to_nat spare in
               bindM (buffer (firstn n b)) (copy_loop fu f (skipn n b)) s
        end
      else bindM (flush_buf f) (copy_loop fu f b) s
  end.
Definition copy_fuel (b : list N) : nat := 2 * length b + 4.
Definition bw_copy (f : fault) (b : list N) : M := copy_loop (copy_fuel b) f b.

(* the calls the writer makes on its BufWriter; [unwrap]: the io::Result is unwrapped instead of
   propagated (TempFileBuffer::await_real_file) *)
Inductive call :=
| CWrite (unwrap : bool) (b : list N)
| CCopy (unwrap : bool) (b : list N)
| CSeek (t : seekto)
| CFlush.
Definition unwrapped (u : bool) (r : res unit * st) : res unit * st :=
  match r with (Err c, s) => if u then (Panic, s) else (Err c, s) | _ => r end.
Definition exec1 (f : fault) (c : call) : M :=
  match c with
  | CWrite u b => fun s => unwrapped u (bw_write_all f b s)
  | CCopy u b => fun s => unwrapped u (bw_copy f b s)
  | CSeek t => bw_seek f t
  | CFlush => bw_flush f
  end.
Fixpoint exec (f : fault) (cs : list call) : M :=
  match cs with
  | [] => ret
  | c :: r => bindM (exec1 f c) (exec f r)
  end.

(* One call of `write`: the calls, then whatever happened the BufWriter is dropped.  [status] is
   what the writer returns when no call fails (Ok, or the refusal of the input). *)
Definition run (f : fault) (status : res unit) (cs : list call) : res unit * list sop :=
  let (r, s) := exec f cs st0 in
  let (_, s') := flush_buf f s in
  (match r with Ok _ => status | _ => r end, s_ops s').

(* number of operations of a kind in a trace *)
Definition count_kind (kind : N) (ops : list sop) : nat :=
  length (filter (fun op => kind_of op =? kind) ops).

(* ------------------------------------------------------------------ the regions of the file *)
Inductive zevent :=
| ZSkip                               (* level dropped before anything was asked of the file *)
| ZTellSkip                           (* level dropped after `file.tell()` *)
| ZLevel (data ix : list N).

Definition zev_bytes (e : zevent) : list N := match e with ZLevel d ix => d ++ ix | _ => [] end.

(* write_zooms (single pass), as BBIFile.write_zooms_loop but keeping the levels apart *)
Fixpoint zoom_events (o : opts) (data_size : N) (pos : N) (zs : list zoom_level)
         (last_count : option N) (zoom_count : N) : res (list zevent * list zoom_header) :=
  match zs with
  | [] => Ok ([], [])
  | z :: rest =>
      let check := match o_manual o with None => true | Some _ => false end in
      let zoom_size := Nlen (data_bytes (zl_secs z)) in
      if check && (data_size / 2 <? zoom_size) then
        do (ev, hs) <- zoom_events o data_size pos rest last_count zoom_count; Ok (ZSkip :: ev, hs)
      else
        let secs := place pos (zl_secs z) in
        let total := Nlen secs in
        if check && (match last_count with None => false | Some lc => lc <=? total end)
        then do (ev, hs) <- zoom_events o data_size pos rest last_count zoom_count; Ok (ZTellSkip :: ev, hs)
        else
          let index_off := pos + zoom_size in
          do (ix, _) <- write_index (o_bs o) (o_ips o) index_off secs;
          let here := data_bytes (zl_secs z) ++ ix in
          let hdr := {| zh_res := zl_res z; zh_data := pos; zh_index := index_off |} in
          if check && (o_maxzooms o <=? zoom_count + 1) then Ok ([ZLevel (data_bytes (zl_secs z)) ix], [hdr])
          else
            do (ev, hs) <- zoom_events o data_size (pos + Nlen here) rest (Some total) (zoom_count + 1);
            Ok (ZLevel (data_bytes (zl_secs z)) ix :: ev, hdr :: hs)
  end.

(* write_zoom_vals (two passes), as BigWigWrite.write_zooms_two_pass *)
Fixpoint zoom_events_two (o : opts) (pos : N) (zs : list zoom_level) : res (list zevent * list zoom_header) :=
  match zs with
  | [] => Ok ([], [])
  | z :: rest =>
      let secs := place pos (zl_secs z) in
      let zoom_size := Nlen (data_bytes (zl_secs z)) in
      let index_off := pos + zoom_size in
      do (ix, _) <- write_index (o_bs o) (o_ips o) index_off secs;
      let here := data_bytes (zl_secs z) ++ ix in
      do (ev, hs) <- zoom_events_two o (pos + Nlen here) rest;
      Ok (ZLevel (data_bytes (zl_secs z)) ix :: ev, {| zh_res := zl_res z; zh_data := pos; zh_index := index_off |} :: hs)
  end.

Record parts := {
  p_pre : list N;                 (* blank headers, summary slot, count slot *)
  p_data : list N; p_ct : list N; p_ix : list N;
  p_zev : list zevent; p_zhdrs : list zoom_header;
  p_hdr : list N;                 (* common header (64 bytes) *)
  p_zdir : list N;                (* zoom directory, 24 bytes a level *)
  p_sum : list N; p_cnt : list N; p_magic : list N;
  p_so : N; p_fdo : N;            (* total_summary_offset, full_data_offset *)
  p_nchroms : N }.

Definition body (p : parts) : list N :=
  p_pre p ++ p_data p ++ p_ct p ++ p_ix p ++ flat_map zev_bytes (p_zev p).
(* the finished file *)
Definition final_bytes (p : parts) : list N :=
  let f1 := patch_at (body p) 0 (p_hdr p ++ p_zdir p) in
  let f2 := patch_at f1 (p_so p) (p_sum p) in
  let f3 := patch_at f2 (p_fdo p) (p_cnt p) in
  f3 ++ p_magic p.

(* BigWigWrite.assemble, keeping the regions *)
Definition assemble_parts (o : opts) (magic : N) (sizes : list (name * N)) (chroms : idmap) (sum : summary)
           (data : list sdata) (pre : list N) (field_count defined_fc asql_off : N)
           (zoom_part : N -> N -> res (list zevent * list zoom_header)) (data_count_of : N -> N) : res parts :=
  let pre_data := Nlen pre in
  let total_summary_offset := pre_data - 48 in
  let full_data_offset := pre_data - 8 in
  let secs := place pre_data data in
  let dbytes := data_bytes data in
  let data_size := Nlen dbytes in
  let chrom_index_start := pre_data + data_size in
  do ct <- chrom_tree_bytes sizes chroms;
  let index_start := chrom_index_start + Nlen ct in
  do (ix, _) <- write_index (o_bs o) (o_ips o) index_start secs;
  let zpos := index_start + Nlen ix in
  do (zev, zhdrs) <- zoom_part data_size zpos;
  Ok {| p_pre := pre; p_data := dbytes; p_ct := ct; p_ix := ix; p_zev := zev; p_zhdrs := zhdrs;
        p_hdr := header_bytes magic (Nlen zhdrs) chrom_index_start full_data_offset index_start
                              field_count defined_fc asql_off total_summary_offset 0;
        p_zdir := flat_map zoom_header_bytes zhdrs;
        p_sum := summary_bytes sum; p_cnt := u64 (data_count_of (Nlen secs)); p_magic := u32 magic;
        p_so := total_summary_offset; p_fdo := full_data_offset; p_nchroms := Nlen chroms |}.

Definition zoom_levels_of (fp : fpmode) (o : opts) (outs : list chrom_out) (zsizes : list N) : res (list zoom_level) :=
  mapM (fun size =>
          do secs <- concat_res (map (fun c => zoom_sections fp (o_ips o) size (co_id c) (co_vals c)) outs);
          Ok {| zl_res := size; zl_secs := secs |}) zsizes.

(* kind 0: BigWigWrite::write; otherwise write_multipass *)
Definition bw_parts (fp : fpmode) (kind : N) (o : opts) (sizes : list (name * N)) (input : list item) : res parts :=
  do (ids, outs, sum, data) <- bw_collect fp o sizes input;
  if kind =? 0 then
    do zooms <- zoom_levels_of fp o outs (zoom_sizes_single o);
    assemble_parts o BIGWIG_MAGIC sizes ids sum data bw_pre 0 0 0
      (fun data_size zpos => zoom_events o data_size zpos zooms None 0) (fun nsecs => nsecs)
  else
    let counts := total_zoom_counts outs in
    assemble_parts o BIGWIG_MAGIC sizes ids sum data bw_pre 0 0 0
      (fun data_size zpos =>
         do zooms <- zoom_levels_of fp o outs (zoom_sizes_two_pass o sum counts data_size);
         zoom_events_two o zpos zooms)
      (fun nsecs => nsecs).

(* ------------------------------------------------------------------ the calls of one `write` *)
(* how the bytes of a region reach the BufWriter: pieces (io::copy? , unwrapped? , bytes) *)
Definition chunker := N -> list N -> list (bool * bool * list N).
Definition R_DATA := 0. Definition R_CT := 1. Definition R_IXNODES := 2.
Definition R_ZDATA := 3. Definition R_ZIXNODES := 4.

Definition piece_call (pc : bool * bool * list N) : call :=
  let '(cp, u, b) := pc in if cp then CCopy u b else CWrite u b.
Definition region (ck : chunker) (r : N) (b : list N) : list call := map piece_call (ck r b).

Definition CTell : call := CSeek ToCur.
Definition W (b : list N) : call := CWrite false b.

(* write_pre: write_blank_headers, the summary slot, the count slot *)
Definition calls_pre : list call :=
  [CSeek (ToStart 0); W (repeatN 0 64); W (repeatN 0 (N.to_nat MAX_ZOOM_LEVELS * 24)); CTell;
   W (repeatN 0 40); CTell; W (u64 0); CTell].

(* write_rtreeindex: tell, the 48-byte header, tell, the nodes *)
Definition calls_index (ck : chunker) (r : N) (ix : list N) : list call :=
  [CTell; W (firstn 48 ix); CTell] ++ region ck r (skipn 48 ix).

(* write_mid *)
Definition calls_mid (ck : chunker) (p : parts) : list call :=
  [CTell; CTell] ++ region ck R_CT (p_ct p) ++ [CTell] ++ calls_index ck R_IXNODES (p_ix p).

Definition calls_level (ck : chunker) (d ix : list N) : list call :=
  [CTell] ++ region ck R_ZDATA d ++ [CTell] ++ calls_index ck R_ZIXNODES ix.
Definition calls_zevent (ck : chunker) (e : zevent) : list call :=
  match e with ZSkip => [] | ZTellSkip => [CTell] | ZLevel d ix => calls_level ck d ix end.
(* write_zooms; write_zoom_vals asks for the position once even without any level *)
Definition calls_zooms (ck : chunker) (kind : N) (p : parts) : list call :=
  if kind =? 0 then flat_map (calls_zevent ck) (p_zev p)
  else match p_zev p with [] => [CTell] | l => flat_map (calls_zevent ck) l end.

(* write_info.  [dbg]: the header-size debug assertion implemented with a seek (before the repair of
   D12, builds with debug assertions); [ff]: the final flush (the repair of D5) *)
Definition calls_info (dbg ff : bool) (p : parts) : list call :=
  [CSeek (ToStart 0); W (p_hdr p)] ++ (if dbg then [CTell] else []) ++
  [W (p_zdir p); CSeek (ToStart (p_so p)); W (p_sum p); CSeek (ToStart (p_fdo p)); W (p_cnt p);
   CSeek ToEnd; W (p_magic p)] ++ (if ff then [CFlush] else []).

(* everything before write_info's seek to the start *)
Definition calls_body (ck : chunker) (kind : N) (p : parts) : list call :=
  calls_pre ++ region ck R_DATA (p_data p) ++ calls_mid ck p ++ calls_zooms ck kind p.
Definition calls_accept (ck : chunker) (dbg ff : bool) (kind : N) (p : parts) : list call :=
  calls_body ck kind p ++ calls_info dbg ff p.

(* a refused input: write_pre has run, and some of the sections encoded before the refusal may
   have been written *)
Definition calls_refused (ck : chunker) (partial : list N) : list call :=
  calls_pre ++ region ck R_DATA partial.

(* the sections complete before the refusal: all of the chromosomes accepted, and of the refused
   one the full blocks of items_per_slot among the values before the offending one *)
Fixpoint ok_prefix (len : N) (vals : list value) : nat :=
  match vals with
  | [] => 0
  | v :: r => match check_val len v (hd_error r) with Ok _ => S (ok_prefix len r) | _ => 0 end
  end.
Definition sections_bytes (ips chrom : N) (cs : list (list value)) : list N :=
  flat_map (fun c => match encode_section chrom c with Ok s => sd_bytes s | _ => [] end) cs.
Fixpoint partial_runs (o : opts) (sizes : list (name * N)) (prev : option name) (ids : idmap)
         (rs : list (name * list value)) : list N :=
  match rs with
  | [] => []
  | (c, vals) :: rest =>
      let order_ok := match prev with
                      | Some p => if o_sort_all o then match name_cmp p c with Lt => true | _ => false end else true
                      | None => true end in
      if negb order_ok then [] else
      match lookup c sizes with
      | None => []
      | Some len =>
          let (ids', id) := get_id ids c in
          match check_chrom len vals with
          | Ok _ => sections_bytes (o_ips o) id (chunks (N.to_nat (o_ips o)) vals)
                    ++ partial_runs o sizes (Some c) ids' rest
          | _ => sections_bytes (o_ips o) id
                   (filter (fun ch => Nat.eqb (length ch) (N.to_nat (o_ips o)))
                           (chunks (N.to_nat (o_ips o)) (firstn (ok_prefix len vals) vals)))
          end
      end
  end.
Definition partial_data (o : opts) (sizes : list (name * N)) (input : list item) : list N :=
  partial_runs o sizes None [] (runs input).

(* ------------------------------------------------------------------ one call of BigWigWrite::write *)
Definition sink_run (f : fault) (ck : chunker) (dbg ff : bool) (fp : fpmode) (kind : N) (o : opts)
           (sizes : list (name * N)) (input : list item) : res unit * list sop :=
  match bw_parts fp kind o sizes input with
  | Ok p => run f (Ok tt) (calls_accept ck dbg ff kind p)
  | Err c => run f (Err c) (calls_refused ck (partial_data o sizes input))
  | Panic => run f Panic (calls_refused ck (partial_data o sizes input))
  | Fuel => run f Fuel (calls_refused ck (partial_data o sizes input))
  end.

(* the current code: no seek in the assertion, final flush *)
Definition bw_sink_run (f : fault) (ck : chunker) := sink_run f ck false true.

(* the index of the header operation in the trace of an accepted input: the operations of
   everything before write_info, and write_info's seek to the start *)
Definition header_index (ck : chunker) (kind : N) (p : parts) : nat :=
  length (snd (run None (Ok tt) (calls_body ck kind p ++ [CSeek (ToStart 0)]))).

(* the schedule in which every region arrives in one write_all *)
Definition ck_whole : chunker := fun _ b => match b with [] => [] | _ => [(false, false, b)] end.
