(* C09: the bigWig writer model with the block compressor as a parameter (DESIGN.md §3.3).
   Model/BigWigWrite.v is the uncompressed image (uncompress_buf_size = 0).  Here every data and
   zoom section goes through [compress] when options.compress is set, and the header's
   uncompress_buf_size is what bbiwrite.rs computes: the largest UNCOMPRESSED section size seen by
   write_chroms_with_zooms (data sections and the sections of every zoom level that was computed,
   including levels write_zooms later skips) in the single pass; data sections and the sections of
   the selected levels in two passes; 0 when compression is off (encode_section returns 0).
   With compress = identity and options.compress = false this is Model/BigWigWrite.v
   (Proofs/C09BufSize.v: bw_write_z_uncompressed).  No proofs in this file. *)
From BT Require Import Base.Util Base.LE Base.Float Generated.Consts Model.RTree Model.BBIFile Model.BigWigWrite.
Local Open Scope N_scope.

Section Z.
Variable compress : list N -> list N.

Definition zsec (c : bool) (s : sdata) : sdata :=
  if c then {| sd_chrom := sd_chrom s; sd_start := sd_start s; sd_end := sd_end s; sd_bytes := compress (sd_bytes s) |}
  else s.
Definition zlevel (c : bool) (z : zoom_level) : zoom_level :=
  {| zl_res := zl_res z; zl_secs := map (zsec c) (zl_secs z) |}.
Definition max_len (secs : list sdata) : N := fold_left N.max (map (fun s => Nlen (sd_bytes s)) secs) 0.
Definition ubuf_of (c : bool) (secs : list sdata) : N := if c then max_len secs else 0.

(* BigWigWrite.assemble with the buffer size: [zoom_part] also returns the zoom side's maximum *)
Definition assemble_z (o : opts) (magic : N) (sizes : list (name * N)) (chroms : idmap) (sum : summary)
           (data : list sdata) (data_ubuf : N) (pre : list N) (field_count defined_fc asql_off : N)
           (zoom_part : N -> N -> res (list N * list zoom_header * N)) (data_count_of : N -> N) : res (list N) :=
  let pre_data := Nlen pre in
  let total_summary_offset := pre_data - 48 in
  let full_data_offset := pre_data - 8 in
  let secs := place pre_data data in
  let dbytes := data_bytes data in
  let data_size := Nlen dbytes in
  let chrom_index_start := pre_data + data_size in
  do ct <- chrom_tree_bytes sizes chroms;
  let index_start := chrom_index_start + Nlen ct in
  do (ix, _) <- write_index (o_bs o) (o_ips o) index_start secs;
  let zpos := index_start + Nlen ix in
  do (zbytes, zhdrs, zubuf) <- zoom_part data_size zpos;
  let body := pre ++ dbytes ++ ct ++ ix ++ zbytes in
  let ubuf := N.max data_ubuf zubuf in
  let hdr := header_bytes magic (Nlen zhdrs) chrom_index_start full_data_offset index_start
                          field_count defined_fc asql_off total_summary_offset ubuf
             ++ flat_map zoom_header_bytes zhdrs in
  let f1 := patch_at body 0 hdr in
  let f2 := patch_at f1 total_summary_offset (summary_bytes sum) in
  let f3 := patch_at f2 full_data_offset (u64 (data_count_of (Nlen secs))) in
  Ok (f3 ++ u32 magic).

Definition bw_zoom_levels (fp : fpmode) (o : opts) (outs : list chrom_out) (zsizes : list N) : res (list zoom_level) :=
  mapM (fun size =>
          do secs <- concat_res (map (fun c => zoom_sections fp (o_ips o) size (co_id c) (co_vals c)) outs);
          Ok {| zl_res := size; zl_secs := secs |}) zsizes.

(* [c]: whether the blocks are compressed (the writers take it from options.compress: bw_write_z below) *)
Definition bw_write_zc (c : bool) (fp : fpmode) (o : opts) (sizes : list (name * N)) (input : list item) : res (list N) :=
  do (ids, outs, sum, data) <- bw_collect fp o sizes input;
  do zooms <- bw_zoom_levels fp o outs (zoom_sizes_single o);
  assemble_z o BIGWIG_MAGIC sizes ids sum (map (zsec c) data) (ubuf_of c data) bw_pre 0 0 0
             (fun data_size zpos =>
                do (b, h) <- write_zooms_loop o data_size zpos (map (zlevel c) zooms) None 0;
                Ok (b, h, ubuf_of c (flat_map zl_secs zooms)))
             (fun nsecs => nsecs).

Definition bw_write_multipass_zc (c : bool) (fp : fpmode) (o : opts) (sizes : list (name * N)) (input : list item) : res (list N) :=
  do (ids, outs, sum, data) <- bw_collect fp o sizes input;
  let counts := total_zoom_counts outs in
  assemble_z o BIGWIG_MAGIC sizes ids sum (map (zsec c) data) (ubuf_of c data) bw_pre 0 0 0
             (fun data_size zpos =>
                do zooms <- bw_zoom_levels fp o outs (zoom_sizes_two_pass o sum counts data_size);
                do (b, h) <- write_zooms_two_pass o zpos (map (zlevel c) zooms);
                Ok (b, h, ubuf_of c (flat_map zl_secs zooms)))
             (fun nsecs => nsecs).
Definition bw_write_z (fp : fpmode) (o : opts) := bw_write_zc (o_compress o) fp o.
Definition bw_write_multipass_z (fp : fpmode) (o : opts) := bw_write_multipass_zc (o_compress o) fp o.
End Z.
