(* Shared glue for the properties that write a bigBed and read it back (C02, C04; later C06, C08,
   C09, C13): case decoding, running writer + reader models, result encoding.  Implementation side:
   harness/src/bed.rs (same table).
   case = (kind opts sizes input queries autosql flags)
     kind    0 single pass (BigBedWrite::write) | 1 two passes (write_multipass)
     opts    (compress ips block_size initial_zoom max_zooms manual sort_all), manual = () | ((z ...))
     sizes   ((name len) ...)                      name = list of bytes
     input   ((name start end rest) ...)           rest = list of bytes (UTF-8)
     queries ((0 name s e)        entries overlapping [s,e], plain reader (ONE reader answers all
                                  queries of the case in order)
              (2 name s e res)    zoom records
              (3)                 total summary
              (4)                 info with the zoom directory
              (5)                 autosql()
              (6)                 item_count()
              (7 ((name s e) ...)) the whole history through ONE fresh caching reader: list of answers
              (8)                 info without zoom fields: (is_bigwig version field_count defined_fc chroms)
     autosql () | ((bytes))
     flags   bit 0: the file bytes are part of the output (only for uncompressed files)
             bit 1: the 40-byte total-summary slot is zeroed before printing and the writer model is
                    the no-sweep one (no summary, no zoom level: only meaningful for files written
                    without zoom levels); without bit 1 the model is the complete file
   output = (1 code) | (2) | (3) when the write is refused / panics / hangs, else
            (0 file-bytes-or-() (answer ...)) *)
From BT Require Import Base.Util Base.Sexp Base.LE Base.Float Model.RTree Model.BBIFile Model.BigWigWrite
  Model.BBIRead Model.CachedRead Model.BigBedWrite Model.BBIReadBed Model.EntryBBI.
Local Open Scope N_scope.

Definition get_bitem (x : sexp) : bitem :=
  (getBytes (nthS 0 x), {| e_start := getN (nthS 1 x); e_end := getN (nthS 2 x); e_rest := getBytes (nthS 3 x) |}).
Definition bed_input (c : sexp) : list bitem := getList get_bitem (nthS 3 c).
Definition bed_autosql (c : sexp) : option (list N) := getOpt getBytes (nthS 5 c).
Definition bed_flags (c : sexp) : N := getN (nthS 6 c).
Definition flag_bytes (c : sexp) : bool := N.testbit (bed_flags c) 0.
Definition flag_mask_summary (c : sexp) : bool := N.testbit (bed_flags c) 1.

Definition sEntry (x : entry) : sexp := L [sN (e_start x); sN (e_end x); sBytes (e_rest x)].
Definition sInfoLite (i : info) : sexp :=
  let h := i_hdr i in
  L [sB (h_bigwig h); sN (h_version h); sN (h_field_count h); sN (h_defined_fc h);
     sList (fun c => L [sBytes (ci_name c); sN (ci_id c); sN (ci_len c)]) (i_chroms i)].

Definition get_q3 (x : sexp) : name * N * N := (getBytes (nthS 0 x), getN (nthS 1 x), getN (nthS 2 x)).

Definition bed_answer (bs : list N) (i : info) (q : sexp) : sexp :=
  let k := getN (nthS 0 q) in
  let c := getBytes (nthS 1 q) in
  let s := getN (nthS 2 q) in
  let e := getN (nthS 3 q) in
  if k =? 0 then sRes (sList sEntry) (bb_interval idf bs i c s e)
  else if k =? 2 then sRes (sList sZrec) (zoom_interval idf bs i c s e (getN (nthS 4 q)))
  else if k =? 3 then sRes sSummary (read_summary bs i)
  else if k =? 4 then sRes sInfo (Ok i)
  else if k =? 5 then sRes (sOpt sBytes) (bb_autosql bs i)
  else if k =? 6 then sRes sN (bb_item_count bs i)
  else if k =? 7 then sList (sRes (sList sEntry)) (c_bb_history idf bs i cache0 (getList get_q3 (nthS 1 q)))
  else sRes sInfoLite (Ok i).

(* the writer model of a case: the complete file (summary and zoom levels from Model/BedSweep.v);
   with flag bit 1 the no-sweep file (summary slot zero, no zoom level).  Both pass modes produce
   the same data, chromosome tree and index; they differ in the zoom levels only. *)
Definition bed_write_model (c : sexp) : res (list N) :=
  let kind := getN (nthS 0 c) in
  let o := get_opts (nthS 1 c) in
  let sizes := get_sizes (nthS 2 c) in
  if flag_mask_summary c then bb_write_nosweep o sizes (bed_autosql c) (bed_input c)
  else if kind =? 0 then bb_write ieee o sizes (bed_autosql c) (bed_input c)
  else bb_write_multipass ieee o sizes (bed_autosql c) (bed_input c).

Definition bed_model_with (write : sexp -> res (list N)) (c : sexp) : sexp :=
  match write c with
  | Ok bs =>
      let compress := o_compress (get_opts (nthS 1 c)) in
      let file := if flag_bytes c && negb compress then sBytes bs else L [] in
      match read_info bs with
      | Ok i => L [A 0%Z; file; sList (bed_answer bs i) (getL (nthS 4 c))]
      | r => L [A 0%Z; file; sRes (fun _ => L []) r]
      end
  | Err code => L [A 1%Z; sN code]
  | Panic => L [A 2%Z]
  | Fuel => L [A 3%Z]
  end.
Definition bed_model : sexp -> sexp := bed_model_with bed_write_model.

(* ---- pieces shared by the oracles ---- *)
Fixpoint bytes_eqb (a b : list N) : bool :=
  match a, b with
  | [], [] => true
  | x :: r, y :: s => (x =? y) && bytes_eqb r s
  | _, _ => false
  end.
Definition entry_eqb (a b : entry) : bool :=
  (e_start a =? e_start b) && (e_end a =? e_end b) && bytes_eqb (e_rest a) (e_rest b).
Definition get_entry (x : sexp) : entry :=
  {| e_start := getN (nthS 0 x); e_end := getN (nthS 1 x); e_rest := getBytes (nthS 2 x) |}.
Definition entries_of_chrom (inp : list bitem) (c : name) : list entry :=
  map snd (filter (fun it => name_eqb (fst it) c) inp).
Fixpoint bfirst_appearance (seen : list name) (inp : list bitem) : list name :=
  match inp with
  | [] => rev seen
  | (c, _) :: r => if existsb (name_eqb c) seen then bfirst_appearance seen r else bfirst_appearance (c :: seen) r
  end.
Fixpoint bindex_from {X} (i : N) (l : list X) : list (N * X) :=
  match l with [] => [] | x :: r => (i, x) :: bindex_from (i + 1) r end.
(* expected chromosome table: (name, id, size), ids in first-appearance order *)
Definition bexpected_chroms (sizes : list (name * N)) (inp : list bitem) : sexp :=
  sList (fun ic => L [sBytes (snd ic); sN (fst ic);
                      sN (match lookup (snd ic) sizes with Some l => l | None => 0 end)])
        (bindex_from 0 (bfirst_appearance [] inp)).
