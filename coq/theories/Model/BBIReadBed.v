(* Model of the bigBed reader on a byte image: bigbedread.rs get_block_entries / BigBedIntervalIter
   (get_interval, fully drained, stopping at the first error) / autosql() / item_count(), plain and
   through the caching reader (bbiread.rs CachedBBIFileRead, generic part in Model/CachedRead.v).
   read_info, the chromosome tree, the index search and block access are Model/BBIRead.v.
   Decompression is the parameter [infl] (identity for uncompressed files).
   Not modelled: String::from_utf8 on the rest field / the autoSql (rest and schema are opaque byte
   strings here; the writer only ever stores valid UTF-8).
   No proofs in this file. *)
From BT Require Import Base.Util Base.LE Base.Float Generated.Consts Model.RTree Model.BBIFile Model.BigWigWrite
  Model.BBIRead Model.CachedRead Model.BigBedWrite.
Local Open Scope N_scope.

(* bytes.iter().find_position(NUL): (bytes before the first NUL, bytes after it) *)
Fixpoint split_nul (l : list N) : option (list N * list N) :=
  match l with
  | [] => None
  | b :: r => if b =? 0 then Some ([], r)
              else match split_nul r with
                   | Some (a, t) => Some (b :: a, t)
                   | None => None
                   end
  end.

(* the read_entry loop of get_block_entries.  Every call consumes at least the 12 header bytes, so
   the byte count is enough fuel.  Without a NUL the rest is all remaining bytes and they are NOT
   consumed (bytes.to_vec()). *)
Fixpoint parse_entries (fuel : nat) (big : bool) (expected : N) (d : list N) : res (list entry) :=
  match fuel with
  | O => Fuel
  | S f =>
      if (length d <? 12)%nat then Ok [] else
      let cid := dec big (firstn 4 d) in
      let cs := dec big (firstn 4 (skipn 4 d)) in
      let ce := dec big (firstn 4 (skipn 8 d)) in
      let d1 := skipn 12 d in
      if (cs =? 0) && (ce =? 0) then Err R_INVALID             (* "Chrom start and end both equal 0." *)
      else if negb (cid =? expected) then Panic                (* assert_eq!(chrom_id, expected_chrom) *)
      else
        let '(rest, d2) := match split_nul d1 with Some (a, t) => (a, t) | None => (d1, d1) end in
        do more <- parse_entries f big expected d2;
        Ok ({| e_start := cs; e_end := ce; e_rest := rest |} :: more)
  end.

(* entry.end >= start && entry.start <= end *)
Definition bkeep (s e : N) (x : entry) : bool := (s <=? e_end x) && (e_start x <=? e).

Definition block_entries_of (i : info) (d : list N) (chrom s e : N) : res (list entry) :=
  do all <- parse_entries (S (length d)) (h_big (i_hdr i)) chrom d;
  Ok (filter (bkeep s e) all).

Section Inflate.
Variable infl : list N -> list N.

Definition block_entries (i : info) (bs : list N) (b : block) (chrom s e : N) : res (option (list entry)) :=
  do d <- block_data infl i bs b;
  do es <- block_entries_of i d chrom s e;
  Ok (Some es).

(* BigBedRead::get_interval, drained until the first error *)
Definition bb_interval (bs : list N) (i : info) (c : name) (s e : N) : res (list entry) :=
  do chrom <- chrom_id i c;
  do root <- cir_tree_root (h_big (i_hdr i)) bs (h_full_index_off (i_hdr i));
  do blocks <- search_blocks i bs root chrom s e;
  collect_blocks (fun b => block_entries i bs b chrom s e) blocks.

(* ---- the same through the caching reader ---- *)
Fixpoint c_bb_collect (i : info) (bs : list N) (c : cache) (chrom s e : N) (l : list block) : res (list entry) * cache :=
  match l with
  | [] => (Ok [], c)
  | b :: r =>
      match c_block_data infl i bs c b with
      | (Ok d, c1) =>
          match block_entries_of i d chrom s e with
          | Ok a =>
              match c_bb_collect i bs c1 chrom s e r with
              | (Ok rest, c2) => (Ok (a ++ rest), c2)
              | x => x
              end
          | Err x => (Err x, c1) | Panic => (Panic, c1) | Fuel => (Fuel, c1)
          end
      | (Err x, c1) => (Err x, c1) | (Panic, c1) => (Panic, c1) | (Fuel, c1) => (Fuel, c1)
      end
  end.

Definition c_bb_interval (bs : list N) (i : info) (c : cache) (cn : name) (s e : N) : res (list entry) * cache :=
  match chrom_id i cn with
  | Ok chrom =>
      match cir_tree_root (h_big (i_hdr i)) bs (h_full_index_off (i_hdr i)) with
      | Ok root =>
          match c_search_loop (S (length bs)) (h_big (i_hdr i)) bs c [root] chrom s e with
          | (Ok blocks, c1) => c_bb_collect i bs c1 chrom s e blocks
          | (Err _, c1) => (Err R_IO, c1)
          | (Panic, c1) => (Panic, c1)
          | (Fuel, c1) => (Fuel, c1)
          end
      | Err x => (Err x, c) | Panic => (Panic, c) | Fuel => (Fuel, c)
      end
  | Err x => (Err x, c) | Panic => (Panic, c) | Fuel => (Fuel, c)
  end.

(* a query history against one caching reader: the answers in order *)
Fixpoint c_bb_history (bs : list N) (i : info) (c : cache) (qs : list (name * N * N)) : list (res (list entry)) :=
  match qs with
  | [] => []
  | (cn, s, e) :: r => let '(a, c1) := c_bb_interval bs i c cn s e in a :: c_bb_history bs i c1 r
  end.
End Inflate.

(* ---- autosql(): None when the header offset is 0; else the bytes from the offset up to and
   including the first NUL (or to the end of the file), minus the last byte (buffer.pop()) ---- *)
Fixpoint through_nul (l : list N) : list N :=
  match l with
  | [] => []
  | b :: r => if b =? 0 then [b] else b :: through_nul r
  end.
Definition bb_autosql (bs : list N) (i : info) : res (option (list N)) :=
  let off := h_asql_off (i_hdr i) in
  if off =? 0 then Ok None
  else Ok (Some (removelast (through_nul (skipn (N.to_nat off) bs)))).

(* item_count(): the u64 at full_data_offset *)
Definition bb_item_count (bs : list N) (i : info) : res N :=
  do c <- rdo (slice bs (h_full_data_off (i_hdr i)) 8);
  Ok (dec (h_big (i_hdr i)) c).
