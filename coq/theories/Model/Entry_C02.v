(* C02 entry: model output via the shared bigBed glue; oracle = the round-trip property evaluated on
   what the implementation returned (full-span reads return the input entries in input order, the
   item count is the number of entries, the autoSql comes back verbatim, the chromosome table lists
   the chromosomes that had data with the supplied sizes). *)
From BT Require Import Base.Util Base.Sexp Base.Float Generated.Consts Model.RTree Model.BBIFile Model.BigWigWrite Model.BBIRead
  Model.BigBedWrite Model.BBIReadBed Model.EntryBBI Model.EntryBed.
Local Open Scope N_scope.

Definition full_span_ok (sizes : list (name * N)) (inp : list bitem) (cn : name) (s e : N) (a : sexp) : bool :=
  let len := match lookup cn sizes with Some l => l | None => 0 end in
  if (s =? 0) && (e =? len) then sexp_eqb a (L [A 0%Z; sList sEntry (entries_of_chrom inp cn)]) else true.

Definition c02_oracle (c out : sexp) : sexp :=
  let status := getZ (nthS 0 out) in
  if negb (Z.eqb status 0) then sB true   (* refused: C02 speaks about accepted inputs (C13 decides refusals) *)
  else
    let sizes := get_sizes (nthS 2 c) in
    let inp := bed_input c in
    let qs := getL (nthS 4 c) in
    let ans := getL (nthS 2 out) in
    sB (Nat.eqb (length qs) (length ans) &&
        forallb (fun qa =>
                   let q := fst qa in let a := snd qa in
                   let k := getN (nthS 0 q) in
                   if k =? 0 then full_span_ok sizes inp (getBytes (nthS 1 q)) (getN (nthS 2 q)) (getN (nthS 3 q)) a
                   else if k =? 5 then
                     sexp_eqb a (L [A 0%Z; L [sBytes (match bed_autosql c with Some s => s | None => AUTOSQL_BED3 end)]])
                   else if k =? 6 then sexp_eqb a (L [A 0%Z; sN (Nlen inp)])
                   else if k =? 7 then
                     let hs := getL (nthS 1 q) in
                     let has := getL a in
                     Nat.eqb (length hs) (length has) &&
                     forallb (fun ha => let '(cn, s, e) := get_q3 (fst ha) in full_span_ok sizes inp cn s e (snd ha))
                             (combine hs has)
                   else if k =? 8 then
                     Z.eqb (getZ (nthS 0 a)) 0 && sexp_eqb (nthS 4 (nthS 1 a)) (bexpected_chroms sizes inp)
                   else true)
                (combine qs ans)).

Definition dispatch (k : Z) (arg : sexp) : sexp :=
  match k with
  | 0 => bed_model arg
  | 1 => c02_oracle (nthS 0 arg) (nthS 1 arg)
  | _ => L [A (-1)%Z]
  end%Z.
