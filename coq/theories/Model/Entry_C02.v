(* C02 entry: model output via the shared bigBed glue; oracle = the round-trip property evaluated on
   what the implementation returned (full-span reads return the input entries in input order, the
   item count is the number of entries, the autoSql comes back verbatim, the chromosome table lists
   the chromosomes that had data with the supplied sizes). *)
From BT Require Import Base.Util Base.Sexp Base.LE Base.Float Generated.Consts Model.RTree Model.BBIFile Model.BigWigWrite Model.BBIRead
  Model.BigBedWrite Model.BBIReadBed Model.EntryBBI Model.EntryBed.
From BT Require Import Model.CachedRead Model.BigWigWriteZ Model.BigBedWriteZ Spec.FormatDecode Spec.Inflate.
Local Open Scope N_scope.

Definition full_span_ok (sizes : list (name * N)) (inp : list bitem) (cn : name) (s e : N) (a : sexp) : bool :=
  let len := match lookup cn sizes with Some l => l | None => 0 end in
  if (s =? 0) && (e =? len) then sexp_eqb a (L [A 0%Z; sList sEntry (entries_of_chrom inp cn)]) else true.

Definition c02_oracle (c out : sexp) : sexp :=
  let status := getZ (nthS 0 out) in
  if negb (Z.eqb status 0) then sB true   (* refused: C02 speaks about accepted inputs (C13 decides refusals) *)
  else
    let sizes := get_sizes (nthS 2 c) in
    let inp := bed_input c in
    let qs := getL (nthS 4 c) in
    let ans := getL (nthS 2 out) in
    sB (Nat.eqb (length qs) (length ans) &&
        forallb (fun qa =>
                   let q := fst qa in let a := snd qa in
                   let k := getN (nthS 0 q) in
                   if k =? 0 then full_span_ok sizes inp (getBytes (nthS 1 q)) (getN (nthS 2 q)) (getN (nthS 3 q)) a
                   else if k =? 5 then
                     sexp_eqb a (L [A 0%Z; L [sBytes (match bed_autosql c with Some s => s | None => AUTOSQL_BED3 end)]])
                   else if k =? 6 then sexp_eqb a (L [A 0%Z; sN (Nlen inp)])
                   else if k =? 7 then
                     let hs := getL (nthS 1 q) in
                     let has := getL a in
                     Nat.eqb (length hs) (length has) &&
                     forallb (fun ha => let '(cn, s, e) := get_q3 (fst ha) in full_span_ok sizes inp cn s e (snd ha))
                             (combine hs has)
                   else if k =? 8 then
                     Z.eqb (getZ (nthS 0 a)) 0 && sexp_eqb (nthS 4 (nthS 1 a)) (bexpected_chroms sizes inp)
                   else true)
                (combine qs ans)).

(* ---- entry 2: the REPLAY COMPRESSOR comparison for compressed files (case flag bit 2) ----
   The implementation's output carries the bytes of the real (libdeflate-compressed) file as a 4th element.
   Every block range of that file (main index leaves and the leaves of every zoom index, found by the independent
   decoder's pass A, Spec/FormatDecode.block_ranges) is inflated with Spec/Inflate.zlib_decode; the table
   {inflated block -> the real compressed block} instantiates the compressor parameter of Model/BigBedWriteZ.v, and
   the model's file must then be the real file, byte for byte: every raw section the model builds is a block of the
   real file after inflation (see [replay_cmp] for sections missing from the table), at the model's offset, with the model's index, zoom selection on the compressed sizes, and uncompress_buf_size.
   Then the READER model answers the case's queries on those bytes with Spec/Inflate.zlib_decode as its decompressor
   (the compressed path of block_data: uncompress_buf_size > 0), to be compared with the real reader's answers.
   Answer: (1 blocks ubuf answers) equal | (0 2 ...) a block is no zlib stream | (0 3 first-difference model-length
   real-length) | (0 4) the model refuses | (0 1) pass A refuses the real file. *)
Definition zinfl (b : list N) : list N := match zlib_decode b with Some d => d | None => [] end.
(* EntryBed.bed_answer with the decompressor *)
Definition bed_answer_z (bs : list N) (i : info) (q : sexp) : sexp :=
  let k := getN (nthS 0 q) in
  let c := getBytes (nthS 1 q) in
  let s := getN (nthS 2 q) in
  let e := getN (nthS 3 q) in
  if k =? 0 then sRes (sList sEntry) (bb_interval zinfl bs i c s e)
  else if k =? 2 then sRes (sList sZrec) (zoom_interval zinfl bs i c s e (getN (nthS 4 q)))
  else if k =? 3 then sRes sSummary (read_summary bs i)
  else if k =? 4 then sRes sInfo (Ok i)
  else if k =? 5 then sRes (sOpt sBytes) (bb_autosql bs i)
  else if k =? 6 then sRes sN (bb_item_count bs i)
  else if k =? 7 then sList (sRes (sList sEntry)) (c_bb_history zinfl bs i cache0 (getList get_q3 (nthS 1 q)))
  else sRes sInfoLite (Ok i).
(* A section that is no block of the real file is "compressed" to [big] zero bytes, [big] = the length of the real
   file: in the single pass with automatic zoom selection every candidate level is computed and compressed but
   write_zooms leaves out those whose compressed size exceeds half the data size (or whose section count does not
   drop); the compressed size of a level that was never written cannot be seen in the file, so the replay
   compressor makes such a level too big to be kept.  (Consequence: a level the real code leaves out by the size rule
   is left out by the replayed model as well - that decision is not checked by this comparison; a level the real code
   KEEPS must be kept by the model with its true compressed sizes, and data sections are always written.) *)
Definition replay_cmp (table : list (list N * list N)) (big : N) (b : list N) : list N :=
  match find (fun e => bytes_eqb (fst e) b) table with Some e => snd e | None => repeatN 0 (N.to_nat big) end.
Fixpoint first_diff (i : N) (a b : list N) : option N :=
  match a, b with
  | [], [] => None
  | x :: r, y :: s => if x =? y then first_diff (i + 1) r s else Some i
  | _, _ => Some i
  end.
Definition c02_replay (c out : sexp) : sexp :=
  let real := getBytes (nthS 3 out) in
  match block_ranges real with
  | None => L [A 0%Z; A 1%Z]
  | Some (ubuf, rs) =>
      let blocks := map (fun r => match slice real (fst r) (N.to_nat (snd r)) with
                                  | Some blk => (zlib_decode blk, blk) | None => (None, []) end) rs in
      if existsb (fun p => match fst p with None => true | Some _ => false end) blocks
      then L [A 0%Z; A 2%Z; sN (Nlen rs)]
      else
        let table := map (fun p => (match fst p with Some d => d | None => [] end, snd p)) blocks in
        let kind := getN (nthS 0 c) in
        let o := get_opts (nthS 1 c) in
        let sizes := get_sizes (nthS 2 c) in
        let w := if kind =? 0 then bb_write_z (replay_cmp table (Nlen real)) ieee o sizes (bed_autosql c) (bed_input c)
                 else bb_write_multipass_z (replay_cmp table (Nlen real)) ieee o sizes (bed_autosql c) (bed_input c) in
        match w with
        | Ok bs => match first_diff 0 bs real with
                   | None =>
                       L [A 1%Z; sN (Nlen rs); sN ubuf;
                          match read_info bs with
                          | Ok i => sList (bed_answer_z bs i) (getL (nthS 4 c))
                          | r => sRes (fun _ => L []) r
                          end]
                   | Some d => L [A 0%Z; A 3%Z; sN d; sN (Nlen bs); sN (Nlen real)]
                   end
        | _ => L [A 0%Z; A 4%Z]
        end
  end.

Definition dispatch (k : Z) (arg : sexp) : sexp :=
  match k with
  | 0 => bed_model arg
  | 1 => c02_oracle (nthS 0 arg) (nthS 1 arg)
  | 2 => c02_replay (nthS 0 arg) (nthS 1 arg)
  | _ => L [A (-1)%Z]
  end%Z.
