(* Dispatch table of the extracted model driver: entry id -> function on S-expressions.
   id = 10 * property number + k   (k = 0 model output, 1 oracle on (case, impl output), 2.. extra) *)
From BT Require Import Base.Util Base.Sexp.
From BT Require Import Model.EntryC05.

Definition dispatch (id : Z) (arg : sexp) : sexp :=
  match id with
  | 50 => c05_model arg
  | 51 => c05_oracle (nthS 0 arg) (nthS 1 arg)
  | _ => L [A (-1)%Z]
  end%Z.
