(* Model of bigtools/src/bed/autosql.rs: the autoSql generator [bed_autosql] over the tables
   translated into Generated/Consts.v, and the autoSql parser [parse::parse_autosql], followed
   branch for branch.  Models only: no proofs in this file.

   Characters.  A schema is a [list N] of characters.  On ASCII input (every element < 128) a
   character is a byte and the classification functions below are exactly Rust's
   [char::is_whitespace], [is_alphabetic], [is_alphanumeric] and [str::to_lowercase].  Elements
   >= 128 are treated as opaque non-blank, non-alphabetic characters: Unicode classification
   beyond ASCII is outside the model (DESIGN.md section 4); such input is only checked on the
   real code for "returns, does not panic or hang".  The real code is safe on every [&str]:
   every cursor value comes from [char_indices()] or [data.len()], so no slice is ever taken off
   a character boundary.

   Cursor coordinates.  The Rust parser is [Parser { data, start_cursor, end_cursor }].  Nothing
   it computes depends on absolute positions, only on [data[start_cursor..]], on
   [end_cursor - start_cursor] and on [data.len() - start_cursor].  The model keeps exactly
   that: [rest = data[start_cursor..]] and [elen = end_cursor - start_cursor]; so
   "end_cursor = data.len()" is [elen := length rest], "start_cursor = end_cursor" is
   [rest := skipn elen rest; elen := 0].  [start_cursor <= data.len()] holds by construction in
   the Rust code (it is only ever assigned a [char_indices] index, [data.len()], or an
   [end_cursor] that has just been used successfully as a slice bound); the slice
   [data[start_cursor..end_cursor]] panics in Rust when [end_cursor > data.len()], which is
   [elen > length rest] here and is modelled as [Panic] ([slice], [take]).

   Loops.  Every [loop { .. }] of the Rust code is a fixpoint on its own fuel argument that
   returns [Fuel] when it runs out.  Each loop is entered with the caller's whole budget
   [fuel]; Proofs/AutoSqlTotal.v shows that [length data + AUTOSQL_DECL_CAP + 2] is always
   enough.  Errors are the class codes [E_*] (the variant index of [ParseError], from 1). *)
From BT Require Import Base.Util Generated.Consts.
Local Open Scope nat_scope.

(* ------------------------------------------------------------------ characters and strings *)

Definition is_ws (c : N) : bool := ((9 <=? c) && (c <=? 13) || (c =? 32))%N.
Definition is_word_delimiter (c : N) : bool :=
  (is_ws c || (c =? 59) || (c =? 40) || (c =? 41) || (c =? 91) || (c =? 93) || (c =? 44))%N.
Definition is_alpha (c : N) : bool := ((65 <=? c) && (c <=? 90) || (97 <=? c) && (c <=? 122))%N.
Definition is_alnum (c : N) : bool := (is_alpha c || (48 <=? c) && (c <=? 57))%N.
Definition to_lower (c : N) : N := (if (65 <=? c) && (c <=? 90) then c + 32 else c)%N.

Fixpoint beq (a b : list N) : bool :=
  match a, b with
  | [], [] => true
  | x :: a', y :: b' => N.eqb x y && beq a' b'
  | _, _ => false
  end.

(* keywords and punctuation the parser compares against, as character lists (Coq's [string] is not used in
   Model files because the shared extraction driver reserves that type name); Proofs/AutoSqlLex.v checks
   each against its spelling. *)
Definition K_lparen : list N := [40]%N.   (* ( *)
Definition K_rparen : list N := [41]%N.   (* ) *)
Definition K_semi : list N := [59]%N.   (* ; *)
Definition K_lbrack : list N := [91]%N.   (* [ *)
Definition K_rbrack : list N := [93]%N.   (* ] *)
Definition K_int : list N := [105; 110; 116]%N.   (* int *)
Definition K_set : list N := [115; 101; 116]%N.   (* set *)
Definition K_auto : list N := [97; 117; 116; 111]%N.   (* auto *)
Definition K_byte : list N := [98; 121; 116; 101]%N.   (* byte *)
Definition K_char : list N := [99; 104; 97; 114]%N.   (* char *)
Definition K_enum : list N := [101; 110; 117; 109]%N.   (* enum *)
Definition K_uint : list N := [117; 105; 110; 116]%N.   (* uint *)
Definition K_float : list N := [102; 108; 111; 97; 116]%N.   (* float *)
Definition K_index : list N := [105; 110; 100; 101; 120]%N.   (* index *)
Definition K_short : list N := [115; 104; 111; 114; 116]%N.   (* short *)
Definition K_table : list N := [116; 97; 98; 108; 101]%N.   (* table *)
Definition K_ubyte : list N := [117; 98; 121; 116; 101]%N.   (* ubyte *)
Definition K_bigint : list N := [98; 105; 103; 105; 110; 116]%N.   (* bigint *)
Definition K_double : list N := [100; 111; 117; 98; 108; 101]%N.   (* double *)
Definition K_object : list N := [111; 98; 106; 101; 99; 116]%N.   (* object *)
Definition K_simple : list N := [115; 105; 109; 112; 108; 101]%N.   (* simple *)
Definition K_string : list N := [115; 116; 114; 105; 110; 103]%N.   (* string *)
Definition K_unique : list N := [117; 110; 105; 113; 117; 101]%N.   (* unique *)
Definition K_ushort : list N := [117; 115; 104; 111; 114; 116]%N.   (* ushort *)
Definition K_lstring : list N := [108; 115; 116; 114; 105; 110; 103]%N.   (* lstring *)
Definition K_primary : list N := [112; 114; 105; 109; 97; 114; 121]%N.   (* primary *)

(* ------------------------------------------------------------------ ParseError classes *)

Definition E_InvalidDeclareType : N := 1.
Definition E_InvalidDeclareName : N := 2.
Definition E_InvalidDeclareBrackets : N := 3.
Definition E_InvalidFieldSizeClose : N := 4.
Definition E_InvalidFieldCommentSeparater : N := 5.
Definition E_InvalidFieldValuesBrackets : N := 6.
Definition E_InvalidIndexSizeBrackets : N := 7.

(* ------------------------------------------------------------------ the parsed structure *)

Inductive decl_type := Simple | Object | Table.
Inductive index_type := Primary | Index (size : option (list N)) | Unique.
Record declare_name := mkDN { dn_name : list N; dn_index : option index_type; dn_auto : bool }.
Inductive field_type :=
| TInt | TUint | TShort | TUshort | TByte | TUbyte | TFloat | TDouble | TChar | TString | TLstring | TBigint
| TEnum (values : list (list N)) | TSet (values : list (list N))
| TDecl (dt : decl_type) (dn : declare_name).
Record field := mkField {
  f_type : field_type; f_size : option (list N); f_name : list N;
  f_index : option index_type; f_auto : bool; f_comment : list N }.
Record declaration := mkDecl {
  d_type : decl_type; d_name : declare_name; d_comment : list N; d_fields : list field }.

(* ------------------------------------------------------------------ mod parser *)

Record parser := mkP { rest : list N; elen : nat }.

Definition parser_of (data : list N) : parser := mkP data 0.

(* &self.data[self.start_cursor..self.end_cursor] *)
Definition slice (p : parser) : res (list N) :=
  if elen p <=? length (rest p) then Ok (firstn (elen p) (rest p)) else Panic.

(* fn take_whitespace: each turn re-creates the iterator at start_cursor *)
Fixpoint take_whitespace (fuel : nat) (p : parser) : res parser :=
  match fuel with
  | O => Fuel
  | S f =>
    match rest p with
    | [] => Ok (mkP [] 0)                                  (* None: end_cursor = start_cursor; return *)
    | c :: r =>
      if negb (is_ws c) then Ok p                          (* break (end_cursor is left alone) *)
      else match r with
           | _ :: _ => take_whitespace f (mkP r 0)         (* start_cursor += next_index; end_cursor = start_cursor *)
           | [] => take_whitespace f (mkP [] 0)            (* start_cursor = data.len(); end_cursor = start_cursor *)
           end
    end
  end.

(* fn take *)
Definition take (p : parser) : res (list N * parser) :=
  if elen p <=? length (rest p)
  then Ok (firstn (elen p) (rest p), mkP (skipn (elen p) (rest p)) 0)
  else Panic.

(* fn peek_one *)
Definition peek_one (fuel : nat) (p : parser) : res (list N * parser) :=
  do p1 <- take_whitespace fuel p;
  match rest p1 with
  | [] => Ok ([], mkP (rest p1) (length (rest p1)))        (* end_cursor = data.len(); return "" *)
  | _ :: r =>
    let p2 := match r with
              | _ :: _ => mkP (rest p1) 1                   (* end_cursor = index + start_cursor *)
              | [] => mkP (rest p1) (length (rest p1))      (* end_cursor = data.len() *)
              end in
    do w <- slice p2; Ok (w, p2)
  end.

(* the closure in peek_word_internal: both arms are the same function *)
Definition delim (ignore_special : bool) (c : N) : bool :=
  if ignore_special then is_word_delimiter c else is_word_delimiter c.

(* the loop of peek_word_internal.  [remaining] = data[start..] is fixed; [j] = start_cursor - start
   (moved only by the whitespace arm); the [chars] iterator is (next index [i], characters [l]). *)
Fixpoint peek_word_loop (fuel : nat) (ignore_special : bool) (remaining : list N) (j i : nat) (l : list N)
  : res (list N * parser) :=
  match fuel with
  | O => Fuel
  | S f =>
    match l with
    | [] =>                                                 (* None: end_cursor = data.len(); return remaining *)
      Ok (remaining, mkP (skipn j remaining) (length remaining - j))
    | c :: l' =>
      let again :=
        (* if char.is_whitespace() { chars.peek().map(|c| self.start_cursor = start + c.0); } ; next turn *)
        let j' := if is_ws c then match l' with _ :: _ => S i | [] => j end else j in
        peek_word_loop f ignore_special remaining j' (S i) l' in
      if negb (is_ws c) then
        let '(index, is_next_whitespace) :=
          match l' with
          | c2 :: _ => (S i, delim ignore_special c2)
          | [] => (length remaining, true)
          end in
        if is_next_whitespace then
          (* end_cursor = index; return &data[start_cursor..end_cursor] *)
          if (j <=? index) && (index <=? length remaining)
          then Ok (firstn (index - j) (skipn j remaining), mkP (skipn j remaining) (index - j))
          else Panic
        else again
      else again
    end
  end.

Definition peek_word_internal (fuel : nat) (ignore_special : bool) (p : parser) : res (list N * parser) :=
  do p1 <- take_whitespace fuel p;
  peek_word_loop fuel ignore_special (rest p1) 0 0 (rest p1).

Definition peek_word (fuel : nat) (p : parser) : res (list N * parser) := peek_word_internal fuel false p.

(* the loop of peek_quoted_string; [i] is the index of the next character of [chars] *)
Fixpoint quoted_loop (fuel : nat) (remaining : list N) (i : nat) (l : list N) : res (list N * parser) :=
  match fuel with
  | O => Fuel
  | S f =>
    match l with
    | c :: l' =>
      if negb (c =? 34)%N then quoted_loop f remaining (S i) l'
      else
        let p' := match l' with
                  | _ :: _ => mkP remaining (S i)           (* end_cursor = index + start_cursor *)
                  | [] => mkP remaining (length remaining)  (* end_cursor = data.len() *)
                  end in
        do w <- slice p'; Ok (w, p')
    | [] =>                                                 (* next() = None, then peek() = None *)
      let p' := mkP remaining (length remaining) in
      do w <- slice p'; Ok (w, p')
    end
  end.

Definition peek_quoted_string (fuel : nat) (p : parser) : res (list N * parser) :=
  do p1 <- take_whitespace fuel p;
  match rest p1 with
  | c :: l => if (c =? 34)%N then quoted_loop fuel (rest p1) 1 l
              else Ok ([], mkP (rest p1) 0)                 (* end_cursor = start_cursor; return "" *)
  | [] => Ok ([], mkP (rest p1) 0)
  end.

Definition eat_word (fuel : nat) (p : parser) : res (list N * parser) :=
  do (_, p1) <- peek_word fuel p; take p1.
Definition eat_one (fuel : nat) (p : parser) : res (list N * parser) :=
  do (_, p1) <- peek_one fuel p; take p1.
Definition eat_quoted_string (fuel : nat) (p : parser) : res (list N * parser) :=
  do (_, p1) <- peek_quoted_string fuel p; take p1.

(* ------------------------------------------------------------------ index type and `auto`
   The same statements appear twice in the Rust source (DeclareName::parse and parse_field_list). *)
Definition parse_index_auto (fuel : nat) (p : parser) : res ((option index_type * bool) * parser) :=
  do (next_word, p1) <- peek_word fuel p;
  do (index_type, p2) <-
    (if beq next_word K_primary then do (_, q) <- eat_word fuel p1; Ok (Some Primary, q)
     else if beq next_word K_index then
       do (_, q) <- eat_word fuel p1;
       do (next, q1) <- peek_one fuel q;
       if beq next K_lbrack then
         do (_, q2) <- eat_one fuel q1;
         do (size, q3) <- eat_word fuel q2;
         do (close, q4) <- eat_one fuel q3;
         if negb (beq close K_rbrack) then Err E_InvalidIndexSizeBrackets
         else Ok (Some (Index (Some size)), q4)
       else Ok (Some (Index None), q1)
     else if beq next_word K_unique then do (_, q) <- eat_word fuel p1; Ok (Some Unique, q)
     else Ok (None, p1));
  do (next_word2, p3) <- peek_word fuel p2;
  if beq next_word2 K_auto then do (_, q) <- eat_word fuel p3; Ok ((index_type, true), q)
  else Ok ((index_type, false), p3).

(* DeclareName::parse *)
Definition declare_name_parse (fuel : nat) (p : parser) : res (declare_name * parser) :=
  do (name, p1) <- eat_word fuel p;
  let first := match name with c :: _ => c | [] => 32%N end in      (* chars().next().unwrap_or(' ') *)
  if negb (is_alpha first) || existsb (fun c => negb (is_alnum c)) name then Err E_InvalidDeclareName
  else
    do (ia, p2) <- parse_index_auto fuel p1;
    Ok (mkDN name (fst ia) (snd ia), p2).

(* the value loop of enum( / set( (the two copies in the Rust source are identical), with the
   repair of D9: an empty value, which only the end of input produces, is an error *)
Fixpoint values_loop (lf fuel : nat) (p : parser) (values : list (list N)) : res (list (list N) * parser) :=
  match lf with
  | O => Fuel
  | S f =>
    do (value, p1) <- eat_word fuel p;
    if beq value K_rparen then Ok (values, p1)
    else if match value with [] => true | _ => false end then Err E_InvalidFieldValuesBrackets
    else
      let values' := values ++ [value] in
      do (close, p2) <- eat_one fuel p1;
      if beq close K_rparen then Ok (values', p2)
      else values_loop f fuel p2 values'
  end.

(* FieldType::try_parse.  The Rust `match field_type { "int" => .., .. }` is a classification of the
   lower-cased word followed by one of four kinds of arm. *)
Inductive type_word :=
| WBasic (t : field_type)                           (* falls through to parser.take(); Ok(Some(t)) *)
| WValues (mk : list (list N) -> field_type)        (* "enum" / "set" *)
| WDecl (dt : decl_type)                            (* "simple" / "object" / "table" *)
| WOther.                                           (* _ => return Ok(None) *)
Definition classify_type_word (lw : list N) : type_word :=
  if beq lw K_int then WBasic TInt
  else if beq lw K_uint then WBasic TUint
  else if beq lw K_short then WBasic TShort
  else if beq lw K_ushort then WBasic TUshort
  else if beq lw K_byte then WBasic TByte
  else if beq lw K_ubyte then WBasic TUbyte
  else if beq lw K_float then WBasic TFloat
  else if beq lw K_double then WBasic TDouble
  else if beq lw K_char then WBasic TChar
  else if beq lw K_string then WBasic TString
  else if beq lw K_lstring then WBasic TLstring
  else if beq lw K_bigint then WBasic TBigint
  else if beq lw K_enum then WValues TEnum
  else if beq lw K_set then WValues TSet
  else if beq lw K_simple then WDecl Simple
  else if beq lw K_object then WDecl Object
  else if beq lw K_table then WDecl Object                 (* sic: the Rust code records Object *)
  else WOther.

Definition try_parse (fuel : nat) (p : parser) : res (option field_type * parser) :=
  do (w, p1) <- peek_word fuel p;
  match classify_type_word (map to_lower w) with                (* peek_word().to_lowercase() *)
  | WBasic t => do (_, q) <- take p1; Ok (Some t, q)
  | WValues mk =>
    do (_, q) <- take p1;
    do (open_bracket, q1) <- eat_one fuel q;
    if negb (beq open_bracket K_lparen) then Err E_InvalidFieldValuesBrackets
    else do (vs, q2) <- values_loop fuel fuel q1 []; Ok (Some (mk vs), q2)
  | WDecl dt =>
    do (_, q) <- take p1;
    do (dn, q1) <- declare_name_parse fuel q;
    Ok (Some (TDecl dt dn), q1)
  | WOther => Ok (None, p1)
  end.

(* parse_field_list *)
Fixpoint field_list_loop (lf fuel : nat) (p : parser) (fields : list field) : res (list field * parser) :=
  match lf with
  | O => Fuel
  | S f =>
    do (oft, p1) <- try_parse fuel p;
    match oft with
    | None => Ok (fields, p1)
    | Some ft =>
      do (next_word, p2) <- peek_one fuel p1;
      do (sn, p3) <-
        (if beq next_word K_lbrack then
           do (_, q) <- eat_one fuel p2;
           do (size, q1) <- eat_word fuel q;
           do (close, q2) <- eat_one fuel q1;
           if negb (beq close K_rbrack) then Err E_InvalidFieldSizeClose
           else do (name, q3) <- eat_word fuel q2; Ok ((Some size, name), q3)
         else do (name, q) <- eat_word fuel p2; Ok ((None, name), q));
      do (ia, p4) <- parse_index_auto fuel p3;
      do (semicolon, p5) <- eat_one fuel p4;
      if negb (beq semicolon K_semi) then Err E_InvalidFieldCommentSeparater
      else
        do (comment, p6) <- eat_quoted_string fuel p5;
        let fields' := fields ++ [mkField ft (fst sn) (snd sn) (fst ia) (snd ia) comment] in
        do (nx, p7) <- peek_one fuel p6;
        if beq nx K_rparen then Ok (fields', p7)
        else field_list_loop f fuel p7 fields'
    end
  end.

Definition parse_field_list (fuel : nat) (p : parser) : res (list field * parser) :=
  field_list_loop fuel fuel p [].

(* parse_declaration *)
Definition parse_declaration (fuel : nat) (p : parser) : res (option declaration * parser) :=
  do (declare_type, p1) <- eat_word fuel p;
  let continue (dt : decl_type) :=
    do (dn, p2) <- declare_name_parse fuel p1;
    do (comment, p3) <- eat_quoted_string fuel p2;
    do (opening_bracket, p4) <- eat_one fuel p3;
    if negb (beq opening_bracket K_lparen) then Err E_InvalidDeclareBrackets
    else
      do (fields, p5) <- parse_field_list fuel p4;
      do (closing_bracket, p6) <- eat_one fuel p5;
      if negb (beq closing_bracket K_rparen) then Err E_InvalidDeclareBrackets
      else Ok (Some (mkDecl dt dn comment fields), p6) in
  if beq declare_type K_simple then continue Simple
  else if beq declare_type K_object then continue Object
  else if beq declare_type K_table then continue Table
  else if beq declare_type [] then Ok (None, p1)
  else Err E_InvalidDeclareType.

(* parse_declaration_list: `if i > 3 { break }` caps the result at four declarations *)
Fixpoint decl_list_loop (lf fuel : nat) (i : N) (p : parser) (declarations : list declaration)
  : res (list declaration) :=
  match lf with
  | O => Fuel
  | S f =>
    if (AUTOSQL_DECL_CAP <? i)%N then Ok declarations
    else
      do (dec, p1) <- parse_declaration fuel p;
      match dec with
      | Some d => decl_list_loop f fuel (i + 1)%N p1 (declarations ++ [d])
      | None => Ok declarations
      end
  end.

Definition parse_autosql (fuel : nat) (data : list N) : res (list declaration) :=
  decl_list_loop fuel fuel 0%N (parser_of data) [].

(* the budget that is always enough (Proofs/AutoSqlTotal.v) *)
Definition parse_fuel (data : list N) : nat := length data + N.to_nat AUTOSQL_DECL_CAP + 2.
Definition parse (data : list N) : res (list declaration) := parse_autosql (parse_fuel data) data.

(* ------------------------------------------------------------------ bed_autosql *)

(* `{}` of a usize: decimal digits, most significant first *)
Fixpoint uint_bytes (u : Decimal.uint) : list N :=
  match u with
  | Decimal.Nil => []
  | Decimal.D0 u => 48%N :: uint_bytes u | Decimal.D1 u => 49%N :: uint_bytes u
  | Decimal.D2 u => 50%N :: uint_bytes u | Decimal.D3 u => 51%N :: uint_bytes u
  | Decimal.D4 u => 52%N :: uint_bytes u | Decimal.D5 u => 53%N :: uint_bytes u
  | Decimal.D6 u => 54%N :: uint_bytes u | Decimal.D7 u => 55%N :: uint_bytes u
  | Decimal.D8 u => 56%N :: uint_bytes u | Decimal.D9 u => 57%N :: uint_bytes u
  end.
Definition dec_digits (n : N) : list N := uint_bytes (N.to_uint n).

(* rest.split('\t').count(), or 0 for the empty rest *)
Fixpoint count_sep (l : list N) : nat :=
  match l with [] => 0 | c :: r => if (c =? AUTOSQL_COLUMN_SEP)%N then S (count_sep r) else count_sep r end.
Definition extra_fields (rest : list N) : nat :=
  match rest with [] => 0 | _ => S (count_sep rest) end.

(* format!("   lstring field{};\t\"Undocumented field\"\n", i + 3 + 1) *)
Definition undoc_line (i : nat) : list N :=
  AUTOSQL_UNDOC_PREFIX ++ dec_digits (N.of_nat i + AUTOSQL_UNDOC_OFFSET)%N ++ AUTOSQL_UNDOC_SUFFIX.

(* the text for a rest with [extra] columns: header, FIELDS[0..min], one line per i in len..max, ')' *)
Definition bed_autosql_n (extra : nat) : list N :=
  let nf := length AUTOSQL_FIELDS in
  AUTOSQL_BED_HEADER
  ++ concat (firstn (Nat.min extra nf) AUTOSQL_FIELDS)
  ++ concat (map undoc_line (seq nf (Nat.max extra nf - nf)))
  ++ [AUTOSQL_CLOSE].

Definition bed_autosql (rest : list N) : list N := bed_autosql_n (extra_fields rest).

(* ------------------------------------------------------------------ BigBedWrite::write_pre: the header's field count
   parse the schema (the supplied one or the library default), take the LAST declaration's number
   of fields, fall back to 3 when the schema does not parse or declares nothing; `as u16`;
   a NUL byte in the schema is refused (CString::new).  Returns the stored text and the count. *)
Definition E_NulInSchema : N := 1.
Definition write_pre_schema (autosql : option (list N)) : res (list N * N) :=
  let sql := match autosql with Some s => s | None => AUTOSQL_LIBRARY_DEFAULT end in
  do field_count <-
    match parse sql with
    | Ok declarations =>
      match rev declarations with
      | d :: _ => Ok (N.of_nat (length (d_fields d)))
      | [] => Ok AUTOSQL_FALLBACK_FIELD_COUNT
      end
    | Err _ => Ok AUTOSQL_FALLBACK_FIELD_COUNT
    | Panic => Panic
    | Fuel => Fuel
    end;
  if existsb (N.eqb 0) sql then Err E_NulInSchema
  else Ok (sql, (field_count mod 65536)%N).

(* ------------------------------------------------------------------ specification-side measure
   "the schema text declares k fields", independently of the parser: the number of ';' outside
   double-quoted comments (every field declaration ends in exactly one). *)
Fixpoint count_semis (inq : bool) (l : list N) : nat :=
  match l with
  | [] => 0
  | c :: r =>
    if (c =? 34)%N then count_semis (negb inq) r
    else if (c =? 59)%N && negb inq then S (count_semis inq r)
    else count_semis inq r
  end.
Definition declared_fields (text : list N) : nat := count_semis false text.
