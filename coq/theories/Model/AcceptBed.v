(* C13, bigBed whole call: the verdict the rules prescribe for BigBedWrite::write / write_multipass
   as a function of (options, autoSql, entry stream), in the vocabulary of Model/Accept.v.
   The byte-exact writer model is Model/BigBedWrite.v (bb_write / bb_write_multipass); its entries
   carry the rest of the line, which no rule looks at: [bb_strip] forgets it.
   Order of the refusals in the code: bbiwrite.rs check_options (class 80), bigbedwrite.rs
   write_pre (a NUL byte in the autoSql text: CString::new, class 43), then the input pass.
   No proofs in this file. *)
From BT Require Import Base.Util Base.Float Generated.Consts Model.RTree Model.BBIFile Model.BigWigWrite Model.Accept.
From BT Require Model.BigBedWrite.
Local Open Scope N_scope.

Definition bb_strip (e : BigBedWrite.entry) : entry :=
  {| e_start := BigBedWrite.e_start e; e_end := BigBedWrite.e_end e |}.
Definition bb_items (input : list BigBedWrite.bitem) : list (name * entry) :=
  map (fun it => (fst it, bb_strip (snd it))) input.

(* the text write_pre stores: the supplied autoSql, else the library's BED3 declaration *)
Definition schema_text (autosql : option (list N)) : list N :=
  match autosql with Some s => s | None => AUTOSQL_LIBRARY_DEFAULT end.
Definition has_nul (s : list N) : bool := existsb (N.eqb 0) s.
Definition E_AUTOSQL_NUL := 43.

(* what is in front of the input pass: option guards, then the autoSql text *)
Definition bb_front (o : opts) (autosql : option (list N)) (r : res unit) : res unit :=
  if negb (opts_ok o) then Err E_OPTIONS
  else if has_nul (schema_text autosql) then Err E_AUTOSQL_NUL
  else r.

Definition bb_file_rule (o : opts) (sizes : list (name * N)) (autosql : option (list N))
           (items : list (name * entry)) : res unit :=
  bb_front o autosql (rule_verdict bb_val_class (o_sort_all o) sizes items).
