(* The four converters of property C16 as functions from TEXT to the BYTES of the written file and from the BYTES of a
   file to TEXT: the text layer of Model/CliText.v composed with the byte-exact writer and reader models.

     bedgraphtobigwig   chrom.sizes loop, parse_bedgraph on every line, BigWigWrite::write / write_multipass
                        (Model/BigWigWrite.v bw_write / bw_write_multipass: the exact bytes of the uncompressed file)
     bedtobigbed        chrom.sizes loop, the autoSql (--autosql, else bed_autosql of the FIRST line's extra columns,
                        Model/AutoSql.v), parse_bed on every line, BigBedWrite::write / write_multipass (Model/BigBedWrite.v)
     bigwigtobedgraph   BigWigRead::open (read_info + file type), the --chrom/--start/--end rules of write_bg_singlethreaded,
                        chroms() in TABLE order (the order of the chromosome tree leaf), one get_interval per chromosome
                        (Model/BBIRead.v bw_interval on the bytes), one line per value
     bigbedtobed        BigBedRead::open, the same rules, Model/BBIReadBed.v bb_interval on the bytes, one line per entry

   Taken as arguments (outside every model): [pf] = str::parse::<f32> (value token -> f32 bit pattern), [pr] = ryu (bit pattern ->
   value text), [infl] = the decompressor (the modelled writers emit uncompressed files, for which the reader never calls it).
   Order of errors: the real writers parse lazily, so of a malformed line and an earlier rule violation the real tool reports
   the earlier one; here all lines are parsed first (as in CliText.bedgraph_to_bigwig).  Both are an error exit; only Ok/not-Ok
   and the Ok value are meant (the interleaving is C13_bw_text / C13_bb_text).  A reader error in the middle of the output
   leaves a partial text file behind in the real tool; the model returns the error alone.
   Thread counts, --parallel, --inmemory do not appear: C11 (same bytes / same text for every schedule).
   No proofs in this file. *)
From BT Require Import Base.Util Base.Float Generated.Consts Model.RTree Model.BBIFile Model.BigWigWrite Model.BBIRead
  Model.AutoSql Model.BigBedWrite Model.BBIReadBed Model.CliText.
Local Open Scope N_scope.

(* ------------------------------------------------------------------ records of the two worlds *)
Definition to_entry (e : bed_entry) : entry := {| e_start := be_start e; e_end := be_end e; e_rest := be_rest e |}.
Definition of_entry (e : entry) : bed_entry := {| be_start := e_start e; be_end := e_end e; be_rest := e_rest e |}.
Definition to_bitems (l : list (name * bed_entry)) : list bitem := map (fun it => (fst it, to_entry (snd it))) l.

(* ------------------------------------------------------------------ text -> bytes *)
Definition bedgraphtobigwig_file (pf : list N -> option N) (fp : fpmode) (o : opts) (two_pass : bool)
           (cs_text in_text : list N) : res (list N) :=
  do sizes <- parse_chrom_sizes cs_text;
  do items <- mapM (parse_bedgraph pf) (lines in_text);
  if two_pass then bw_write_multipass fp o sizes items else bw_write fp o sizes items.

(* outb.autosql: the --autosql file's text, else generated from the first line (None for an empty file) *)
Definition bed_tool_autosql (user : option (list N)) (in_text : list N) : res (option (list N)) :=
  match user with
  | Some s => Ok (Some s)
  | None =>
      match lines in_text with
      | [] => Ok None
      | l :: _ => do x <- parse_bed l; Ok (Some (bed_autosql (be_rest (snd x))))
      end
  end.

Definition bedtobigbed_file (fp : fpmode) (o : opts) (two_pass : bool) (user_autosql : option (list N))
           (cs_text in_text : list N) : res (list N) :=
  do sizes <- parse_chrom_sizes cs_text;
  do autosql <- bed_tool_autosql user_autosql in_text;
  do items <- mapM parse_bed (lines in_text);
  if two_pass then bb_write_multipass fp o sizes autosql (to_bitems items)
  else bb_write fp o sizes autosql (to_bitems items).

(* ------------------------------------------------------------------ bytes -> records -> text *)
(* BigWigRead::open / BigBedRead::open: read_info, then the file type *)
Definition open_bigwig (bs : list N) : res info :=
  do i <- read_info bs; if h_bigwig (i_hdr i) then Ok i else Err R_MAGIC.
Definition open_bigbed (bs : list N) : res info :=
  do i <- read_info bs; if h_bigwig (i_hdr i) then Err R_MAGIC else Ok i.

(* write_bg_singlethreaded / write_bg, write_bed_singlethreaded / write_bed, on an opened file:
   --start/--end without --chrom: a message, nothing written, exit 0;
   --chrom not in the table: a message, nothing written, exit 0;
   otherwise get_interval(name, start or 0, end or length) for the selected chromosomes, in table order *)
Definition tool_read_file {X : Type} (interval : name -> N -> N -> res (list X)) (i : info)
           (chrom : option name) (start fin : option N) : res (list (name * X)) :=
  let one (ci : chrom_info) (s e : N) : res (list (name * X)) :=
    do vs <- interval (ci_name ci) s e; Ok (map (fun v => (ci_name ci, v)) vs) in
  match chrom with
  | None =>
      match start, fin with
      | None, None => do parts <- mapM (fun ci => one ci 0 (ci_len ci)) (i_chroms i); Ok (concat parts)
      | _, _ => Ok []
      end
  | Some c =>
      match find (fun ci => name_eqb (ci_name ci) c) (i_chroms i) with
      | None => Ok []
      | Some ci => one ci (match start with Some s => s | None => 0 end) (match fin with Some e => e | None => ci_len ci end)
      end
  end.

Section Readers.
Variable infl : list N -> list N.

Definition bigwigtobedgraph_records (bs : list N) (chrom : option name) (start fin : option N) : res (list (name * value)) :=
  do i <- open_bigwig bs; tool_read_file (bw_interval infl bs i) i chrom start fin.

Definition bigbedtobed_records (bs : list N) (chrom : option name) (start fin : option N) : res (list (name * bed_entry)) :=
  do i <- open_bigbed bs;
  do l <- tool_read_file (bb_interval infl bs i) i chrom start fin;
  Ok (map (fun it => (fst it, of_entry (snd it))) l).

(* "{}\t{}\t{}\t{}\n" with the value printed by [pr] *)
Definition format_bedgraph_records (pr : N -> list N) (l : list (name * value)) : list N :=
  flat_map (fun it => format_bedgraph_line (fst it) (v_start (snd it)) (v_end (snd it)) (pr (v_bits (snd it))) ++ [NL]) l.

Definition bigwigtobedgraph_file (pr : N -> list N) (bs : list N) (chrom : option name) (start fin : option N) : res (list N) :=
  do l <- bigwigtobedgraph_records bs chrom start fin; Ok (format_bedgraph_records pr l).

Definition bigbedtobed_file (bs : list N) (chrom : option name) (start fin : option N) : res (list N) :=
  do l <- bigbedtobed_records bs chrom start fin; Ok (format_bed_text l).
End Readers.
