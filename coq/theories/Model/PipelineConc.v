(* The writer pipeline of bbiwrite.rs with the staging buffers IN FULL: the machine of Model/Pipeline.v
   (part 1) in which the staging buffer of every chromosome is no longer abstracted by its contract but
   is the machine of Model/TempBuf.v itself (one state per chromosome, one transition per shared-memory
   access of tempfilebuffer.rs).  Proofs/PipelineRefine.v shows that this machine refines the abstract one
   (forward simulation with stuttering; the abstraction function forgets the buffers).

   What is added to a state of Model/Pipeline.v, per chromosome k:
     x_buf   the TempFileBuffer / TempFileBufferWriter pair created by future_channel: a TempBuf.st.
             PRODUCER = the write task (write_data), through its BufWriter; CONSUMER = the splice task.
     x_bw    the BufWriter between write_data and the TempFileBufferWriter: bytes accepted from
             `data_file.write_all(&section.data)` and not yet passed on with a `write()` call.
     x_loop  write_data has left its loop (channel closed and drained) and is in
             `data_file.into_inner()`: the rest of x_bw is flushed, then the writer is dropped.
   The producer's calls [p_todo] are fixed in advance: ANY list of write()/flush() calls whose bytes
   are the chromosome's section bytes (BufWriter cuts them where it likes); a write(w) can only be
   entered when w is at the front of x_bw (the BufWriter cannot pass on what it was not given), and the
   drop only after the loop has ended.  [c_wdone] of the abstract chromosome now means exactly
   "Drop for TempFileBufferWriter has run" (it is set by the transition that runs it), which is what the
   splice task's `data_write_future.await` waits for: the task returns right after the drop.

   Tasks: CMain, CProd k, CEnc k i as in Model/Pipeline.v;
     CWrite k   write_data takes the head handle and write_all()s the section into the BufWriter / sees
                the channel closed and leaves the loop
     CBuf k     one shared-memory access of the writer half: update() of a write(), the local write
                after it, or the Drop
     CSplice    SRecv:      receive chromosome k; data.switch(file)             = consumer step CSwitch
                SAwaitTask: data_write_future.await                             (enabled once dropped)
                SAwaitFile: file = data.await_real_file()                       = consumer steps: take
                            [closed] (disabled while None: the Condvar wait), then swap the mailbox
     CPoll      an is_real_file_ready() poll between switch and await_real_file.  The writers never poll
                ([np] = 0); the parameter shows that polls (the converters' idiom) change nothing.
   The destination handed to switch is the splice task's file AS IT IS at that moment; what it holds
   after await_real_file is whatever the buffer machine delivers ([c_dest]).  No proofs in this file. *)
From BT Require Import Base.Util Model.RTree Model.BBIFile Model.Pipeline.
From BT Require Model.TempBuf.

Record cextra := mkx { x_bw : bytes; x_loop : bool; x_buf : TempBuf.st }.
Record cst := mkcs { k_p : pst; k_x : list cextra }.

Inductive ctask :=
| CMain | CProd (k : nat) | CEnc (k i : nat) | CWrite (k : nat) | CBuf (k : nat) | CSplice | CPoll.

(* the splice task's calls on one staging buffer *)
Definition cprog (np : nat) : list TempBuf.cop :=
  TempBuf.CSwitch :: repeat TempBuf.CReady np ++ [TempBuf.CAwait].

Fixpoint prefixb (w l : bytes) : bool :=
  match w, l with
  | [], _ => true
  | a :: w', b :: l' => N.eqb a b && prefixb w' l'
  | _ :: _, [] => false
  end.

(* ------------------------------------------------------------------ the write task and its BufWriter *)
Definition cwrite_step (fifo : bool) (c : chrom) (x : cextra) : option (chrom * cextra) :=
  if x_loop x then None else
  match c_fifo c with
  | [] => if c_open c then None                                   (* frx.next().await: empty, not closed *)
          else Some (c, mkx (x_bw x) true (x_buf x))               (* None: the loop ends *)
  | q => match (if fifo then take_head q else take_first_done q) with
         | Some (s, q') => Some (mkc (c_todo c) (c_open c) q' (c_out c ++ [s]) false,
                                 mkx (x_bw x ++ sd_bytes s) false (x_buf x))
         | None => None                                            (* section_raw.await *)
         end
  end.

Definition set_wdone (c : chrom) : chrom := mkc (c_todo c) (c_open c) (c_fifo c) (c_out c) true.

(* may the writer half make its next shared access, and what is left in the BufWriter afterwards *)
Definition bw_guard (x : cextra) : option bytes :=
  let b := x_buf x in
  match TempBuf.p_todo b with
  | [] => if x_loop x then Some (x_bw x) else None                 (* Drop: only after into_inner() *)
  | TempBuf.PFlush :: _ => Some (x_bw x)
  | TempBuf.PWrite w :: _ =>
      if TempBuf.p_mid b then Some (skipn (length w) (x_bw x))     (* the local write: w leaves the BufWriter *)
      else if prefixb w (x_bw x) then Some (x_bw x) else None      (* write(w): w must be what the BufWriter holds *)
  end.

Definition cbuf_step (c : chrom) (x : cextra) : option (chrom * cextra) :=
  match bw_guard x with
  | None => None
  | Some bw' =>
      match TempBuf.step_p (x_buf x) with
      | None => None
      | Some b' => Some (if TempBuf.p_dropped b' then set_wdone c else c, mkx bw' (x_loop x) b')
      end
  end.

Definition con_both (k : nat) (f : chrom -> cextra -> option (chrom * cextra)) (s : cst) : option cst :=
  let p := k_p s in
  if (k <? p_started p)%nat then
    match nth_error (p_chroms p) k, nth_error (k_x s) k with
    | Some c, Some x =>
        match f c x with
        | Some (c', x') => Some (mkcs (mkp (set_nth k c' (p_chroms p)) (p_started p) (p_advanced p) (p_closed p)
                                           (sp_k p) (sp_pc p) (sp_file p))
                                      (set_nth k x' (k_x s)))
        | None => None
        end
    | _, _ => None
    end
  else None.

(* ------------------------------------------------------------------ the splice task *)
Definition set_pc (p : pst) (pc : spc) : pst :=
  mkp (p_chroms p) (p_started p) (p_advanced p) (p_closed p) (sp_k p) pc (sp_file p).
Definition set_buf (x : cextra) (b : TempBuf.st) : cextra := mkx (x_bw x) (x_loop x) b.

Definition csplice_step (s : cst) : option cst :=
  let p := k_p s in
  match sp_pc p with
  | SRecv =>
      if (sp_k p <? p_started p)%nat then
        match nth_error (k_x s) (sp_k p) with
        | Some x => match TempBuf.step_c (sp_file p) (x_buf x) with          (* data.switch(file) *)
                    | Some b' => Some (mkcs (set_pc p SAwaitTask) (set_nth (sp_k p) (set_buf x b') (k_x s)))
                    | None => None
                    end
        | None => None
        end
      else if p_closed p then Some (mkcs (set_pc p SDone) (k_x s)) else None
  | SAwaitTask =>
      match nth_error (k_x s) (sp_k p) with
      | Some x => if TempBuf.p_dropped (x_buf x) then Some (mkcs (set_pc p SAwaitFile) (k_x s)) else None
      | None => None
      end
  | SAwaitFile =>
      match nth_error (k_x s) (sp_k p) with
      | Some x =>
          match TempBuf.step_c (sp_file p) (x_buf x) with                   (* inside data.await_real_file() *)
          | Some b' =>
              let xs' := set_nth (sp_k p) (set_buf x b') (k_x s) in
              match TempBuf.c_dest b' with
              | Some r => Some (mkcs (mkp (p_chroms p) (p_started p) (p_advanced p) (p_closed p) (S (sp_k p)) SRecv r) xs')
              | None => Some (mkcs p xs')
              end
          | None => None                                                    (* Condvar::wait *)
          end
      | None => None
      end
  | SDone => None
  end.

Definition cpoll_step (s : cst) : option cst :=
  let p := k_p s in
  match sp_pc p with
  | SAwaitTask =>
      match nth_error (k_x s) (sp_k p) with
      | Some x =>
          match TempBuf.c_prog (x_buf x) with
          | TempBuf.CReady :: _ =>
              match TempBuf.step_c (sp_file p) (x_buf x) with
              | Some b' => Some (mkcs p (set_nth (sp_k p) (set_buf x b') (k_x s)))
              | None => None
              end
          | _ => None
          end
      | None => None
      end
  | _ => None
  end.

(* ------------------------------------------------------------------ the system *)
Definition lift_p (s : cst) (o : option pst) : option cst :=
  match o with Some p' => Some (mkcs p' (k_x s)) | None => None end.

Definition cstep (g : params) (t : ctask) (s : cst) : option cst :=
  match t with
  | CMain => lift_p s (main_step (g_win g) (k_p s))
  | CProd k => lift_p s (on_chrom k (prod_step (g_cap g)) (k_p s))
  | CEnc k i => lift_p s (on_chrom k (enc_step i) (k_p s))
  | CWrite k => con_both k (cwrite_step (g_fifo g)) s
  | CBuf k => con_both k cbuf_step s
  | CSplice => csplice_step s
  | CPoll => cpoll_step s
  end.
Definition cstep_or_stay (g : params) (t : ctask) (s : cst) : cst :=
  match cstep g t s with Some s' => s' | None => s end.
Fixpoint crun (g : params) (sched : list ctask) (s : cst) : cst :=
  match sched with [] => s | t :: r => crun g r (cstep_or_stay g t s) end.

(* [opss]: for every chromosome the write()/flush() calls its BufWriter will make *)
Definition cinit (np : nat) (pre : bytes) (Ss : list (list sdata)) (opss : list (list TempBuf.pop)) : cst :=
  mkcs (init pre Ss) (map (fun ops => mkx [] false (TempBuf.init ops (cprog np))) opss).
Definition cterminal (s : cst) : bool := terminal (k_p s).

(* the abstraction function: forget the buffers *)
Definition cabs (s : cst) : pst := k_p s.

(* one write() call per section (what a BufWriter with a small capacity does) *)
Definition ops_per_section (secs : list sdata) : list TempBuf.pop := map (fun s => TempBuf.PWrite (sd_bytes s)) secs.

Definition all_ctasks (K cap : nat) : list ctask :=
  CMain :: CSplice :: CPoll ::
  flat_map (fun k => CProd k :: CWrite k :: CBuf k :: map (CEnc k) (seq 0 cap)) (seq 0 K).
Fixpoint crounds (n : nat) (l : list ctask) : list ctask :=
  match n with O => [] | S m => l ++ crounds m l end.
