(* Model of bigtools/src/utils/file/tempfilebuffer.rs: the staging buffer
   (TempFileBuffer / TempFileBufferWriter) as a labelled transition system of two threads.

   One transition per access to memory shared between the two handles.  The shared memory is
     real_file : Arc<AtomicCell<Option<R>>>                      -> [mailbox]
     closed    : Arc<(Mutex<Option<BufferState<R>>>, Condvar)>   -> [closed]
   Everything else ([buffer_state] of the writer, the destination handed to expect_closed_write)
   is private to one thread.  No proofs in this file.

   Contents of an R / a Vec<u8> / a temporary file = the list of bytes written to it so far.
   BufferState::InMemory(Vec<u8>) and BufferState::Temp(File) are ONE constructor here, [Staged b]:
   both are append-only byte stores that are read back from offset 0 exactly once (write_all(&data) /
   seek(Start(0)); io::copy), and the only place where the code distinguishes them other than by
   the I/O routine used is which of them update() creates ([inmemory]).  For Temp the file cursor is
   at the end of the file whenever len() reads it (only write() moves it; seek(Start(0)) occurs
   immediately before the copy that consumes the file), so seek(Current(0)) = number of staged
   bytes = data.len().  The model therefore does not take [inmemory]; the correspondence harness
   runs the real type in both modes against this one machine.

   Not modelled (assumed): AtomicCell::swap is atomic and sequentially consistent; Mutex gives
   mutual exclusion, so a critical section is one transition; Condvar::wait returns at the latest
   when notified and the code re-tests its predicate in a loop, so a waiting call is "disabled
   while closed = None" and spurious wake-ups are invisible; I/O errors of the underlying
   files (tempfile() failing, short writes, write errors) do not occur. *)
From BT Require Import Base.Util.

Definition bytes := list N.

(* enum BufferState<R> { NotStarted, InMemory(Vec<u8>) | Temp(File), Real(R) } *)
Inductive bstate := NotStarted | Staged (b : bytes) | Real (d : bytes).

(* what the producer thread does with its TempFileBufferWriter, call by call; then it drops it *)
Inductive pop := PWrite (w : bytes) | PFlush.
(* what the consumer thread does with its TempFileBuffer, call by call *)
Inductive cop :=
| CSwitch       (* switch(dest) *)
| CReady        (* is_real_file_ready() *)
| CLen          (* len() *)
| CAwait        (* await_real_file() *)
| CExpect.      (* expect_closed_write(&mut dest) *)
(* what the consumer sees *)
Inductive obs := OReady (b : bool) | OLen (n : N).
(* await_real_file / expect_closed_write make two shared accesses: take [closed] (under the
   lock), then swap the mailbox.  Between the two the consumer is here. *)
Inductive cmid := CIdle | CAwaitTaken (x : bstate) | CExpectTaken (x : bstate).

Record st := mkst {
  mailbox : option bytes;      (* real_file *)
  closed : option bstate;      (* *closed.0.lock() *)
  p_state : bstate;            (* writer.buffer_state *)
  p_todo : list pop;           (* remaining calls of the producer *)
  p_mid : bool;                (* inside write(): update() has returned, the local write has not happened *)
  p_dropped : bool;            (* Drop for TempFileBufferWriter has run *)
  c_prog : list cop;           (* remaining calls of the consumer *)
  c_mid : cmid;
  c_obs : list obs;            (* results of is_real_file_ready()/len() so far, in order *)
  c_dest : option bytes;       (* contents of the destination once await_real_file returned it /
                                  expect_closed_write returned *)
  panicked : bool              (* some panic!/unreachable!/assert! branch was taken *)
}.

Inductive tid := TP | TC.

(* ---------------------------------------------------------------- producer *)
(* impl Write for TempFileBufferWriter: write() = self.update()?; then a write into whatever
   buffer_state now is.  update() makes the call's only shared access, real_file.swap(None):
     NotStarted: Some(f) -> Real(f);  None -> InMemory(Vec::new()) | Temp(tempfile()?)
     InMemory(data): Some(f) -> f.write_all(&data); Real(f)        None -> unchanged
     Temp(file):     Some(f) -> file.seek(Start(0)); io::copy(file, f); Real(f)   None -> unchanged
     Real(_): no shared access at all
   flush(): no shared access, no effect on contents.
   Drop: lock; *closed = Some(mem::replace(&mut self.buffer_state, NotStarted)); notify_one; unlock. *)
Definition step_p (s : st) : option st :=
  let '(mkst mb cl ps todo mid dr prog cm ob de pn) := s in
  if dr then None else
  match todo with
  | [] => Some (mkst mb (Some ps) NotStarted [] false true prog cm ob de pn)
  | PFlush :: rest => Some (mkst mb cl ps rest false false prog cm ob de pn)
  | PWrite w :: rest =>
      if mid then
        match ps with
        | NotStarted => (* unreachable!(): the panic unwinds through the owner of the writer, whose Drop then runs *)
            Some (mkst mb cl ps [] false false prog cm ob de true)
        | Staged b => Some (mkst mb cl (Staged (b ++ w)) rest false false prog cm ob de pn)
        | Real d => Some (mkst mb cl (Real (d ++ w)) rest false false prog cm ob de pn)
        end
      else
        match ps with
        | NotStarted =>
            match mb with
            | Some d => Some (mkst None cl (Real d) todo true false prog cm ob de pn)
            | None => Some (mkst None cl (Staged []) todo true false prog cm ob de pn)
            end
        | Staged b =>
            match mb with
            | Some d => Some (mkst None cl (Real (d ++ b)) todo true false prog cm ob de pn)
            | None => Some (mkst None cl (Staged b) todo true false prog cm ob de pn)
            end
        | Real _ => Some (mkst mb cl ps todo true false prog cm ob de pn)
        end
  end.

(* ---------------------------------------------------------------- consumer *)
(* [d0] = contents of the destination before the staging buffer is involved: the R passed to
   switch(), or the O passed to expect_closed_write().
   A call that waits on the condition variable (len, await_real_file, expect_closed_write:
   `while closed.is_none() { closed = cvar.wait(closed) }`) is disabled while closed = None.
   A panic ends the consumer's program (the handle is dropped by the unwinding). *)
Definition c_panic (mb : option bytes) (cl : option bstate) ps todo mid dr ob de : st :=
  mkst mb cl ps todo mid dr [] CIdle ob de true.

Definition step_c (d0 : bytes) (s : st) : option st :=
  let '(mkst mb cl ps todo mid dr prog cm ob de pn) := s in
  match cm with
  | CAwaitTaken x =>
      (* let real_file = self.real_file.swap(None); match (real_file, closed) { ... } *)
      match mb, x with
      | Some d, Staged b => Some (mkst None cl ps todo mid dr [] CIdle ob (Some (d ++ b)) pn)
      | Some d, NotStarted => Some (mkst None cl ps todo mid dr [] CIdle ob (Some d) pn)
      | Some _, Real _ => Some (c_panic None cl ps todo mid dr ob de)         (* unreachable!() *)
      | None, Real d => Some (mkst None cl ps todo mid dr [] CIdle ob (Some d) pn)
      | None, _ => Some (c_panic None cl ps todo mid dr ob de)                (* "Should have switched already." *)
      end
  | CExpectTaken x =>
      (* let real_file = self.real_file.swap(None); assert!(real_file.is_none()); match closed { ... } *)
      match mb with
      | Some _ => Some (c_panic None cl ps todo mid dr ob de)                 (* "Should only be writing to real file." *)
      | None =>
          match x with
          | Staged b => Some (mkst None cl ps todo mid dr [] CIdle ob (Some (d0 ++ b)) pn)
          | NotStarted => Some (mkst None cl ps todo mid dr [] CIdle ob (Some d0) pn)
          | Real _ => Some (c_panic None cl ps todo mid dr ob de)             (* "Should only be writing to real file." *)
          end
      end
  | CIdle =>
      match prog with
      | [] => None
      | CSwitch :: rest =>
          (* if self.real_file.swap(Some(new_file)).is_some() { panic!("Can only switch once.") } *)
          match mb with
          | Some _ => Some (c_panic (Some d0) cl ps todo mid dr ob de)
          | None => Some (mkst (Some d0) cl ps todo mid dr rest CIdle ob de pn)
          end
      | CReady :: rest =>
          (* lock; closed.is_some() *)
          Some (mkst mb cl ps todo mid dr rest CIdle
                     (ob ++ [OReady (match cl with Some _ => true | None => false end)]) de pn)
      | CLen :: rest =>
          match cl with
          | None => None                                                       (* cvar.wait *)
          | Some (Real _) => Some (c_panic mb cl ps todo mid dr ob de)         (* "Should not have switched already." *)
          | Some (Staged b) => Some (mkst mb cl ps todo mid dr rest CIdle (ob ++ [OLen (Nlen b)]) de pn)
          | Some NotStarted => Some (mkst mb cl ps todo mid dr rest CIdle (ob ++ [OLen 0%N]) de pn)
          end
      | CAwait :: rest =>
          match cl with
          | None => None                                                       (* cvar.wait *)
          | Some x => Some (mkst mb None ps todo mid dr rest (CAwaitTaken x) ob de pn)   (* closed.take().unwrap() *)
          end
      | CExpect :: rest =>
          match cl with
          | None => None                                                       (* cvar.wait *)
          | Some x => Some (mkst mb None ps todo mid dr rest (CExpectTaken x) ob de pn)
          end
      end
  end.

Definition step (d0 : bytes) (t : tid) (s : st) : option st :=
  match t with TP => step_p s | TC => step_c d0 s end.

(* A schedule is ANY list of thread ids; choosing a thread whose next step is disabled (a
   finished thread, or a consumer waiting on the condition variable) leaves the state unchanged. *)
Definition step_or_stay (d0 : bytes) (t : tid) (s : st) : st :=
  match step d0 t s with Some s' => s' | None => s end.
Fixpoint run (d0 : bytes) (sched : list tid) (s : st) : st :=
  match sched with [] => s | t :: r => run d0 r (step_or_stay d0 t s) end.

Definition init (ops : list pop) (prog : list cop) : st :=
  mkst None None NotStarted ops false false prog CIdle [] None false.

Definition is_idle (m : cmid) : bool := match m with CIdle => true | _ => false end.
Definition no_ops {X} (l : list X) : bool := match l with [] => true | _ => false end.
(* both threads are finished *)
Definition terminal (s : st) : bool := p_dropped s && no_ops (c_prog s) && is_idle (c_mid s).

(* the bytes the producer writes, in order *)
Definition op_bytes (o : pop) : bytes := match o with PWrite w => w | PFlush => [] end.
Definition written (ops : list pop) : bytes := concat (map op_bytes ops).

(* Legal consumer programs (what the callers in bbiwrite.rs / bigwigtobedgraph.rs / bigbedtobed.rs
   do): readiness polls anywhere; len() only before a switch; at most one switch;
   await_real_file only after the switch and last (it consumes the handle);
   expect_closed_write only without a switch and last.  [sw] = a switch has already happened.
     (a) [CSwitch; CAwait]   (b) [CExpect]   (c) [CLen] / [CLen; CExpect]
     (d) any of these with CReady inserted anywhere, e.g. [CSwitch; CReady; CReady; CAwait]. *)
Fixpoint legal (sw : bool) (p : list cop) : bool :=
  match p with
  | [] => true
  | CReady :: r => legal sw r
  | CLen :: r => negb sw && legal sw r
  | CSwitch :: r => negb sw && legal true r
  | CAwait :: r => sw && no_ops r
  | CExpect :: r => negb sw && no_ops r
  end.
(* the program ends by handing over a destination *)
Definition consuming (o : cop) : bool := match o with CAwait | CExpect => true | _ => false end.
Definition consumes (p : list cop) : bool := existsb consuming p.

(* After a schedule, let first the producer and then the consumer run to the end (a fixed fair
   continuation), so that every schedule list is a complete case.  The bounds are the number of
   steps the remaining calls can take: two per call, one for the drop / a pending second half. *)
Definition finish_sched (s : st) : list tid :=
  repeat TP (2 * length (p_todo s) + 2) ++ repeat TC (2 * length (c_prog s) + 1).
Definition finish (d0 : bytes) (s : st) : st := run d0 (finish_sched s) s.

(* outcome of a complete run: panic, hang (not terminal although both threads were given all
   the steps they could need), or the observations and the destination *)
Definition outcome (d0 : bytes) (ops : list pop) (prog : list cop) (sched : list tid)
  : res (list obs * option bytes) :=
  let s := finish d0 (run d0 sched (init ops prog)) in
  if panicked s then Panic
  else if terminal s then Ok (c_obs s, c_dest s)
  else Fuel.

(* ---------------------------------------------------------------- the call-level machine
   What ONE thread that executes whole public calls in schedule order does (this is how the
   correspondence harness drives the real type): a call is executed completely at the schedule
   position of its first step; if the call has a second step in the machine above (the local
   write after update(), the mailbox swap after the take), the thread's next slot in the schedule
   only marks the call as returned.  Proofs/TempBufAtomic.v shows that along every schedule
   this machine is in the state of the fine-grained machine with the pending second halves
   completed, so that driving the code call by call loses no interleaving. *)
Record cst := mkc { k_st : st; k_pflag : bool; k_cflag : bool }.

Definition taken (m : cmid) : bool := negb (is_idle m).

Definition cstep (d0 : bytes) (t : tid) (k : cst) : option cst :=
  let '(mkc s pf cf) := k in
  match t with
  | TP =>
      if pf then Some (mkc s false cf) else
      match step_p s with
      | None => None
      | Some s1 =>
          if p_mid s1 then match step_p s1 with Some s2 => Some (mkc s2 true cf) | None => None end
          else Some (mkc s1 false cf)
      end
  | TC =>
      if cf then Some (mkc s pf false) else
      match step_c d0 s with
      | None => None
      | Some s1 =>
          if taken (c_mid s1) then match step_c d0 s1 with Some s2 => Some (mkc s2 pf true) | None => None end
          else Some (mkc s1 pf false)
      end
  end.
Definition cstep_or_stay (d0 : bytes) (t : tid) (k : cst) : cst :=
  match cstep d0 t k with Some k' => k' | None => k end.
Fixpoint crun (d0 : bytes) (sched : list tid) (k : cst) : cst :=
  match sched with [] => k | t :: r => crun d0 r (cstep_or_stay d0 t k) end.
Definition cinit (ops : list pop) (prog : list cop) : cst := mkc (init ops prog) false false.

(* the fine-grained state with the pending second halves carried out *)
Definition complete_p (s : st) : st :=
  if p_mid s then match step_p s with Some s' => s' | None => s end else s.
Definition complete_c (d0 : bytes) (s : st) : st :=
  if taken (c_mid s) then match step_c d0 s with Some s' => s' | None => s end else s.
Definition complete (d0 : bytes) (s : st) : st := complete_c d0 (complete_p s).
