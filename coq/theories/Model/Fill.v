(* Model of bigtools/src/utils/fill.rs: [FillValues::next], [fill], [fill_start_to_end].
   The value payload ([v_val]) is never computed with here: it is copied, and the added values carry 0
   (the bit pattern of 0.0f32 when the payload is read as raw bits, the number 0 when read as eighths). *)
From BT Require Import Base.Util Model.Merge.
Local Open Scope N_scope.

Record fstate := mkFS {
  fs_iter : list item;                 (* the inner iterator: what it still yields *)
  fs_last_val : option value;
  fs_expected_end : option N;
  fs_last_end : N }.

Definition fv_next (st : fstate) : option item * fstate :=
  match fs_last_val st with
  | Some last =>
      (Some (IV last), mkFS (fs_iter st) None (fs_expected_end st) (v_end last))
  | None =>
      match fs_iter st with
      | IV next :: r =>
          if fs_last_end st <? v_start next then
            (Some (IV (mkV (fs_last_end st) (v_start next) 0)),
             mkFS r (Some next) (fs_expected_end st) (v_start next))
          else
            (Some (IV next), mkFS r None (fs_expected_end st) (v_end next))
      | IE c :: r => (Some (IE c), mkFS r None (fs_expected_end st) (fs_last_end st))
      | [] =>
          match fs_expected_end st with
          | None => (None, st)
          | Some e =>
              if fs_last_end st <? e then
                (Some (IV (mkV (fs_last_end st) e 0)), mkFS [] None (Some e) e)
              else (None, st)
          end
      end
  end.

Fixpoint fv_collect (fuel : nat) (st : fstate) : res (list item) :=
  match fuel with
  | O => Fuel
  | S f =>
      match fv_next st with
      | (None, _) => Ok []
      | (Some it, st') =>
          match fv_collect f st' with
          | Ok r => Ok (it :: r)
          | other => other
          end
      end
  end.

(* every inner item costs at most two calls; one more for the tail value and one for the final None *)
Definition fill_fuel (items : list item) : nat := 2 * length items + 3.

Definition fill (items : list item) : res (list item) :=
  fv_collect (fill_fuel items) (mkFS items None None 0).

Definition fill_start_to_end (items : list item) (start end_ : N) : res (list item) :=
  fv_collect (fill_fuel items) (mkFS items None (Some end_) start).
