(* Shared glue for the properties that write a file and read it back (C01, C03, C06, C07, C09, ...):
   case decoding, running writer + reader models, result encoding.
   case = (kind opts sizes input queries)
     kind    0 bigWig single pass | 1 bigWig two passes
     opts    (compress ips block_size initial_zoom max_zooms manual sort_all), manual = () | ((z ...))
     sizes   ((name len) ...)          name = list of bytes
     input   ((name start end f32bits) ...)
     queries ((0 name s e) interval | (1 name s e) per-base values | (2 name s e res) zoom records
              | (3) summary | (4) info ...)
   output = (1 code) | (2) | (3) when the write is refused / panics / hangs, else
            (0 file-bytes-or-() (answer ...)) ; file bytes only for uncompressed files *)
From BT Require Import Base.Util Base.Sexp Base.LE Base.Float Model.RTree Model.BBIFile Model.BigWigWrite Model.BBIRead.
Local Open Scope N_scope.

Definition get_opts (s : sexp) : opts :=
  {| o_compress := getB (nthS 0 s); o_ips := getN (nthS 1 s); o_bs := getN (nthS 2 s);
     o_izoom := getN (nthS 3 s); o_maxzooms := getN (nthS 4 s);
     o_manual := getOpt (getList getN) (nthS 5 s); o_sort_all := getB (nthS 6 s) |}.
Definition get_sizes (s : sexp) : list (name * N) := getList (fun x => (getBytes (nthS 0 x), getN (nthS 1 x))) s.
Definition get_item (x : sexp) : item :=
  (getBytes (nthS 0 x), {| v_start := getN (nthS 1 x); v_end := getN (nthS 2 x); v_bits := getN (nthS 3 x) |}).

Definition sRes {X} (f : X -> sexp) (r : res X) : sexp :=
  match r with
  | Ok x => L [A 0%Z; f x]
  | Err c => L [A 1%Z; sN c]
  | Panic => L [A 2%Z]
  | Fuel => L [A 3%Z]
  end.
Definition sValue (v : value) : sexp := L [sN (v_start v); sN (v_end v); sN (v_bits v)].
Definition sSummary (s : summary) : sexp :=
  L [sN (su_items s); sN (su_bases s); sN (bits_of_f64 (su_min s)); sN (bits_of_f64 (su_max s));
     sN (bits_of_f64 (su_sum s)); sN (bits_of_f64 (su_sumsq s))].
Definition sZrec (z : zrec) : sexp :=
  L [sN (z_start z); sN (z_end z); sN (su_bases (z_sum z)); sN (bits_of_f64 (su_min (z_sum z)));
     sN (bits_of_f64 (su_max (z_sum z))); sN (bits_of_f64 (su_sum (z_sum z))); sN (bits_of_f64 (su_sumsq (z_sum z)))].
Definition sInfo (i : info) : sexp :=
  let h := i_hdr i in
  L [sB (h_bigwig h); sN (h_version h); sN (h_zoom_levels h); sN (h_field_count h); sN (h_defined_fc h);
     sList (fun z => sN (zh_res z)) (i_zooms i);
     sList (fun c => L [sBytes (ci_name c); sN (ci_id c); sN (ci_len c)]) (i_chroms i)].

Definition idf (l : list N) : list N := l.

Definition answer (bs : list N) (i : info) (q : sexp) : sexp :=
  let k := getN (nthS 0 q) in
  let c := getBytes (nthS 1 q) in
  let s := getN (nthS 2 q) in
  let e := getN (nthS 3 q) in
  if k =? 0 then sRes (sList sValue) (bw_interval idf bs i c s e)
  else if k =? 1 then sRes (sList (sOpt sN)) (bw_values idf bs i c s e)
  else if k =? 2 then sRes (sList sZrec) (zoom_interval idf bs i c s e (getN (nthS 4 q)))
  else if k =? 3 then sRes sSummary (read_summary bs i)
  else sRes sInfo (Ok i).

Definition write_model (c : sexp) : res (list N) :=
  let kind := getN (nthS 0 c) in
  let o := get_opts (nthS 1 c) in
  (* the byte image is that of the uncompressed file *)
  let o' := {| o_compress := o_compress o; o_ips := o_ips o; o_bs := o_bs o; o_izoom := o_izoom o;
               o_maxzooms := o_maxzooms o; o_manual := o_manual o; o_sort_all := o_sort_all o |} in
  let sizes := get_sizes (nthS 2 c) in
  let input := getList get_item (nthS 3 c) in
  if kind =? 0 then bw_write ieee o' sizes input
  else bw_write_multipass ieee o' sizes input.

Definition bbi_model (c : sexp) : sexp :=
  match write_model c with
  | Ok bs =>
      let compress := o_compress (get_opts (nthS 1 c)) in
      match read_info bs with
      | Ok i => L [A 0%Z; (if compress then L [] else sBytes bs); sList (answer bs i) (getL (nthS 4 c))]
      | r => L [A 0%Z; (if compress then L [] else sBytes bs); sRes (fun _ => L []) r]
      end
  | Err code => L [A 1%Z; sN code]
  | Panic => L [A 2%Z]
  | Fuel => L [A 3%Z]
  end.
