(* C02/C04/C09: the bigBed writer model with the block compressor as a parameter (DESIGN.md §3.3), the
   bigBed twin of Model/BigWigWriteZ.v.
   Model/BigBedWrite.v is the uncompressed image (uncompress_buf_size = 0).  Here every data section
   (bigbedwrite.rs encode_section) and every zoom section (bbiwrite.rs encode_zoom_section) goes
   through [compress] when options.compress is set, and the header's uncompress_buf_size is what
   bbiwrite.rs / bigbedwrite.rs compute:
     BigBedWrite::write            write_vals -> write_chroms_with_zooms: the largest UNCOMPRESSED section
                                   size over the data sections and the sections of EVERY zoom level that
                                   BigBedFullProcess computed (also levels write_zooms later skips);
     BigBedWrite::write_multipass  write_vals_no_zoom -> write_chroms_without_zooms: the maximum over the data
                                   sections; then `uncompress_buf_size.max(zoom_uncompress_buf_size)` with
                                   write_zoom_vals' maximum over the sections of the SELECTED levels (0 when no
                                   level is selected: the early `return Ok((file, vec![], 0))`);
     0 when compression is off (both encoders return 0 then).
   The sizes the writers look at are the sizes of what was written, i.e. COMPRESSED sizes: write_zooms'
   skipping rules (zoom_size against data_size / the previous level) and, in two passes, the automatic
   level selection of write_zoom_vals (data_size is the compressed data size; the estimate
   `reduced_size /= 2` under options.compress is inside zoom_sizes_two_pass).
   Shared with bigWig: [zsec], [zlevel], [ubuf_of], [assemble_z] (Model/BigWigWriteZ.v), the zoom
   writers of Model/BigWigWrite.v; bigBed specific: Model/BigBedWrite.v (checks, sectioning, encode_section,
   write_pre) and Model/BedSweep.v (summary and zoom records).
   With options.compress = false this is Model/BigBedWrite.v (Proofs/BedFileZ.v: bb_write_z_uncompressed).
   No proofs in this file. *)
From BT Require Import Base.Util Base.LE Base.Float Generated.Consts Model.RTree Model.BBIFile Model.BigWigWrite
  Model.BigWigWriteZ Model.BigBedWrite.
Local Open Scope N_scope.

Section Z.
Variable compress : list N -> list N.

(* bb_write_gen with a block store: [c] = are the blocks compressed; [zoom_part] also returns the zoom
   side's maximum uncompressed section size *)
Definition bb_write_gen_z (c : bool) (sweep : list bchrom -> summary)
           (zoom_part : list bchrom -> summary -> N -> N -> res (list N * list zoom_header * N))
           (o : opts) (sizes : list (name * N)) (autosql : option (list N)) (input : list bitem) : res (list N) :=
  (* bbiwrite.rs check_options, before anything is written *)
  if (o_bs o <? 2) || (o_ips o <? 1) then Err E_BED_OPTIONS else
  do (sql, fc) <- bb_schema autosql;
  do (ids, outs) <- bb_collect o sizes input;
  do data <- bb_data o outs;
  let sum := sweep outs in
  assemble_z o BIGBED_MAGIC sizes ids sum (map (zsec compress c) data) (ubuf_of c data) (bb_pre sql) fc fc ASQL_OFFSET
             (zoom_part outs sum) (fun _ => bb_total_items outs).

(* BigBedWrite::write: every candidate level is computed (and encoded: its sections count for the
   buffer size), write_zooms selects on the written (compressed) sizes *)
Definition bb_zoom_single_z (c : bool) (fp : fpmode) (o : opts) (outs : list bchrom) (sum : summary) (data_size zpos : N)
  : res (list N * list zoom_header * N) :=
  do zooms <- mapM (bb_zoom_level fp o outs) (zoom_sizes_single o);
  do (b, h) <- write_zooms_loop o data_size zpos (map (zlevel compress c) zooms) None 0;
  Ok (b, h, ubuf_of c (flat_map zl_secs zooms)).

(* BigBedWrite::write_multipass: write_zoom_vals selects the resolutions from the (compressed) data
   size and writes every selected level *)
Definition bb_zoom_two_pass_z (c : bool) (fp : fpmode) (o : opts) (outs : list bchrom) (sum : summary) (data_size zpos : N)
  : res (list N * list zoom_header * N) :=
  let zsizes := zoom_sizes_two_pass o sum (total_zoom_counts (map chrom_out_of outs)) data_size in
  do zooms <- mapM (bb_zoom_level fp o outs) zsizes;
  do (b, h) <- write_zooms_two_pass o zpos (map (zlevel compress c) zooms);
  Ok (b, h, ubuf_of c (flat_map zl_secs zooms)).

Definition bb_write_zc (c : bool) (fp : fpmode) (o : opts)
  : list (name * N) -> option (list N) -> list bitem -> res (list N) :=
  bb_write_gen_z c (bb_sweep fp) (bb_zoom_single_z c fp o) o.
Definition bb_write_multipass_zc (c : bool) (fp : fpmode) (o : opts)
  : list (name * N) -> option (list N) -> list bitem -> res (list N) :=
  bb_write_gen_z c (bb_sweep fp) (bb_zoom_two_pass_z c fp o) o.

(* the writers take the flag from options.compress *)
Definition bb_write_z (fp : fpmode) (o : opts) := bb_write_zc (o_compress o) fp o.
Definition bb_write_multipass_z (fp : fpmode) (o : opts) := bb_write_multipass_zc (o_compress o) fp o.
End Z.
