(* Model of index_chroms (bigtools/src/bed/indexer.rs) after the repair c270203, on a file given
   as its lines.  No proofs here.

   A line is (chromosome, length in bytes including its newline; the last line may lack the
   newline, its length is then what is there).  Chromosome 0 stands for a line parse_line
   rejects (missing or non-numeric start/end): every such line is an InvalidData error when it
   is the line a probe parses.  Lines have positive length in every real file.

   The IndexList the Rust code mutates is rendered functionally: every insertion of a call
   do_index(prev, next) is made after [prev], after an entry that call inserted itself, or by
   its two recursive calls on (prev, curr) and (curr, next); so the call's net effect is a list
   of entries spliced between [prev] and its successor, which is what [do_index] returns.

   The partial line after a probe's seek is skipped on bytes (read_until; the repair of the
   read_line that failed inside a multi-byte character), every other line is read from its start,
   so read_line's UTF-8 validation never fails on valid UTF-8 input.  Not modelled: I/O errors. *)
From BT Require Import Base.Util Model.FileView Model.Chunker.
Local Open Scope N_scope.

Definition line := (N * N)%type.     (* chromosome id (0: malformed line), length *)
Definition file := list line.
Definition entry := (N * N)%type.    (* byte offset, chromosome id *)

Definition fsize (f : file) : N := sumN (map snd f).

(* file.seek(Start(pos)); file.read_line(line): skips the rest of the line containing byte
   pos.  Returns the position reached and the lines that follow.  [off] = offset of the head
   of [f].  At or beyond the end of the file nothing is read and the position stays. *)
Fixpoint skip_line (f : file) (off pos : N) : N * file :=
  match f with
  | [] => (N.max off pos, [])
  | l :: r => if pos <? off + snd l then (off + snd l, r) else skip_line r (off + snd l) pos
  end.

(* file.read_line(line); parse_line(line): "" at the end of the file is Ok(None) *)
Definition parse_next (rest : file) : res (option N) :=
  match rest with
  | [] => Ok None
  | l :: _ => if fst l =? 0 then Err 1 else Ok (Some (fst l))
  end.

(* the repair's loop: while tell < next_tell { read a line; parse; record a change of chromosome } *)
Fixpoint scan_seg (rest : file) (tell next_tell lastc : N) : res (list entry) :=
  match rest with
  | [] => Ok []                                  (* tell >= next_tell, or read_line returned "" *)
  | l :: r =>
      if tell <? next_tell then
        if fst l =? 0 then Err 1
        else if fst l =? lastc then scan_seg r (tell + snd l) next_tell lastc
        else do more <- scan_seg r (tell + snd l) next_tell (fst l); Ok ((tell, fst l) :: more)
      else Ok []
  end.

(* do_index; [limit] is the Rust parameter of the same name (panic at 0), which also makes the
   recursion structural.  Result: the entries inserted between prev and next, in list order. *)
Fixpoint do_index (limit : nat) (f : file) (file_size : N) (prev : entry) (next : option entry)
  : res (list entry) :=
  match limit with
  | O => Panic                                   (* "Recursive depth limit reached" *)
  | S lim =>
      let next_tell := match next with Some n => fst n | None => file_size end in
      let mid := (next_tell + fst prev) / 2 in
      let '(tell, rest) := skip_line f 0 mid in
      let scan := let '(t0, rest0) := skip_line f 0 (fst prev) in scan_seg rest0 t0 next_tell (snd prev) in
      do pc <- parse_next rest;
      match pc with
      | Some c =>
          if tell <? next_tell then
            let curr := (tell, c) in
            let left := negb (c =? snd prev) && (tell <? next_tell) in
            let right := match next with
                         | Some n => negb (c =? snd n) && (tell <? fst n)
                         | None => true
                         end in
            do L <- (if left then do_index lim f file_size prev (Some curr) else Ok []);
            do R <- (if right then do_index lim f file_size curr next else Ok []);
            Ok (L ++ curr :: R)
          else scan
      | None => scan
      end
  end.

(* Vec::dedup_by_key(|e| e.1): of consecutive entries with the same chromosome keep the first *)
Fixpoint dd (c : N) (l : list entry) : list entry :=
  match l with
  | [] => []
  | x :: r => if snd x =? c then dd c r else x :: dd (snd x) r
  end.
Definition dedup_chrom (l : list entry) : list entry :=
  match l with [] => [] | x :: r => x :: dd (snd x) r end.

(* Vec::sort on (offset, name): any sort gives the same list because equal keys are equal
   elements.  Names are compared through their ids here; entries with equal offsets are the
   same line and carry the same name, so the name order is never consulted between
   different names. *)
Definition entry_leb (a b : entry) : bool := (fst a <? fst b) || ((fst a =? fst b) && (snd a <=? snd b)).
Fixpoint insert_sorted (x : entry) (l : list entry) : list entry :=
  match l with
  | [] => [x]
  | y :: r => if entry_leb x y then x :: l else y :: insert_sorted x r
  end.
Definition sort_entries (l : list entry) : list entry := fold_right insert_sorted [] l.

Definition depth_limit : nat := 100.   (* the literal in index_chroms's call of do_index *)

Definition index_chroms (limit : nat) (f : file) : res (option (list entry)) :=
  match f with
  | [] => Err 1                                   (* "Empty file" *)
  | l :: _ =>
      if fst l =? 0 then Err 1
      else
        let first := (0, fst l) in
        do ins <- do_index limit f (fsize f) first None;
        let chroms := dedup_chrom (first :: ins) in
        let deduped := dedup_chrom (sort_entries chroms) in
        if Nat.eqb (length chroms) (length deduped) then Ok (Some chroms) else Ok None
  end.

(* ---- reference definitions (what the index should be) ---- *)
Fixpoint entries (off : N) (f : file) : list entry :=
  match f with [] => [] | l :: r => (off, fst l) :: entries (off + snd l) r end.
(* the first line of every maximal run of lines on one chromosome *)
Definition run_starts (f : file) : list entry := dedup_chrom (entries 0 f).

Fixpoint drop_chrom (c : N) (f : file) : file :=
  match f with [] => [] | l :: r => if fst l =? c then drop_chrom c r else f end.
(* decidable form of: each chromosome's lines are contiguous *)
Fixpoint groupedb (f : file) : bool :=
  match f with
  | [] => true
  | l :: r => negb (existsb (fun x => fst x =? fst l) (drop_chrom (fst l) r)) && groupedb r
  end.
Definition wf_lineb (l : line) : bool := negb (fst l =? 0) && (1 <=? snd l).
(* each chromosome's lines are contiguous: between two lines of one chromosome there is no other *)
Definition grouped (f : file) : Prop :=
  forall p a m b s, f = p ++ a :: m ++ b :: s -> fst a = fst b -> forall x, In x m -> fst x = fst a.
(* a line parse_line accepts, of at least one byte *)
Definition wf_line (l : line) : Prop := fst l <> 0 /\ 1 <= snd l.

(* what a BufReader over FileView::new(file, lo, hi) delivers line by line when lo and hi are
   line starts: the lines starting in [lo, hi) ([hi] = None: to the end of the file) *)
Fixpoint lines_between (f : file) (off lo : N) (hi : option N) : file :=
  match f with
  | [] => []
  | l :: r =>
      let keep := (lo <=? off) && match hi with Some h => off <? h | None => true end in
      if keep then l :: lines_between r (off + snd l) lo hi else lines_between r (off + snd l) lo hi
  end.
Fixpoint view_streams (f : file) (ix : list entry) : list file :=
  match ix with
  | [] => []
  | e :: r => lines_between f 0 (fst e) (match r with n :: _ => Some (fst n) | [] => None end) :: view_streams f r
  end.

(* ---- the line-level file of a byte-level file ----
   [key l]: what parse_line makes of the raw line l (bytes up to and including its newline): 0 when
   it is rejected, else an id of the chromosome name (the bytes before the first TAB).  Every text is
   covered, with any classification of its lines: the theorems quantify over [key]. *)
Definition abs_line (key : list N -> N) (l : list N) : line := (key l, Nlen l).
Definition lfile (key : list N -> N) (bytes : list N) : file := map (abs_line key) (split_lines bytes).

(* maximal runs of consecutive elements with equal key, in order *)
Fixpoint groups {X} (k : X -> N) (l : list X) : list (list X) :=
  match l with
  | [] => []
  | x :: r =>
      match groups k r with
      | (y :: g) :: gs => if k x =? k y then (x :: y :: g) :: gs else [x] :: (y :: g) :: gs
      | _ => [[x]]
      end
  end.

(* the key of the first element of a group; maximal runs: every group is non-empty, has one key, and
   differs in key from the group after it *)
Definition ghd {X} (k : X -> N) (g : list X) : N := match g with x :: _ => k x | [] => 0 end.
Fixpoint runs_ok {X} (k : X -> N) (gs : list (list X)) : Prop :=
  match gs with
  | [] => True
  | g :: r => g <> [] /\ (forall x, In x g -> k x = ghd k g) /\
              match r with g' :: _ => ghd k g' <> ghd k g | [] => True end /\
              runs_ok k r
  end.
(* index entries of consecutive segments of raw lines laid out from byte [off]: (byte offset of the
   segment, key of its first line) *)
Fixpoint seg_starts (key : list N -> N) (off : N) (segs : list (list (list N))) : list entry :=
  match segs with
  | [] => []
  | g :: r => (off, ghd key g) :: seg_starts key (off + Nlen (concat g)) r
  end.

(* what the parallel source (bbi/beddata.rs, BedParserParallelStreamingIterator) reads: for the index
   entries in order, BufReader::new(FileView::new(file, curr.0, next.map(|n| n.0).unwrap_or(u64::MAX)))
   line by line; task i reads with the size schedule [sz i] *)
Fixpoint par_streams_from (i : nat) (fuel : nat) (bytes : list N) (sz : nat -> nat -> N) (ix : list entry)
  : list (res (list (list N))) :=
  match ix with
  | [] => []
  | e :: r =>
      view_lines fuel bytes (sz i) (fst e) (match r with n :: _ => fst n | [] => u64_max end)
      :: par_streams_from (S i) fuel bytes sz r
  end.
Definition par_streams := par_streams_from O.
