(* Model of the bigWig writer: bigwigwrite.rs process_val / process_val_zoom / encode_section /
   BigWigWrite::write / write_multipass, bbiwrite.rs write_vals / write_vals_no_zoom /
   write_zoom_vals / write_mid, beddata.rs BedParserStreamingIterator::process_to_bbi (serial source).
   The model is a pure function from (options, chromosome sizes, value stream) to the bytes of the
   output file (uncompressed: compression is a parameter of the format, see DESIGN.md §3.3).
   No proofs in this file. *)
From BT Require Import Base.Util Base.LE Base.Float Generated.Consts Model.RTree Model.BBIFile.
Local Open Scope N_scope.

Record value := { v_start : N; v_end : N; v_bits : N }.   (* value = f32 bit pattern *)
Definition v_val (v : value) : fl := f32_of_bits (v_bits v).

(* error class codes (DESIGN.md C13) *)
Definition E_EMPTY := 10.        (* SourceError: input is empty *)
Definition E_CHROM_ORDER := 11.  (* SourceError: chromosomes out of order *)
Definition E_CHROM_SPLIT := 12.  (* InvalidInput: a chromosome appears in two separate runs *)
Definition E_UNKNOWN_CHROM := 20.
Definition E_START_GT_END := 30.
Definition E_END_GT_CHROM := 31.
Definition E_OVERLAP := 32.

(* ---- process_val: checks + summary ---- *)
Definition check_val (len : N) (cur : value) (next : option value) : res unit :=
  if v_end cur <? v_start cur then Err E_START_GT_END
  else if len <? v_end cur then Err E_END_GT_CHROM
  else match next with
       | Some n => if v_start n <? v_end cur then Err E_OVERLAP else Ok tt
       | None => Ok tt
       end.

Definition summary_add (fp : fpmode) (s : summary) (cur : value) : summary :=
  let len := f_of_N (v_end cur - v_start cur) in
  let val := v_val cur in
  {| su_items := su_items s + 1;
     su_bases := su_bases s + (v_end cur - v_start cur);
     su_min := fmin (su_min s) val; su_max := fmax (su_max s) val;
     su_sum := fadd64 fp (su_sum s) (fmul64 fp len val);
     su_sumsq := fadd64 fp (su_sumsq s) (fmul64 fp (fmul64 fp len val) val) |}.

(* encode_section (uncompressed) *)
Definition value_bytes (v : value) : list N := u32 (v_start v) ++ u32 (v_end v) ++ u32 (v_bits v).
Definition encode_section (chrom_id : N) (items : list value) : res sdata :=
  match items with
  | [] => Panic
  | f :: _ =>
      let e := v_end (last items f) in
      Ok {| sd_chrom := chrom_id; sd_start := v_start f; sd_end := e;
            sd_bytes := u32 chrom_id ++ u32 (v_start f) ++ u32 e ++ u32 0 ++ u32 0 ++ u8 1 ++ u8 0 ++ u16 (Nlen items)
                        ++ flat_map value_bytes items |}
  end.

(* ---- process_val_zoom for one zoom size ---- *)
Record zstate := { zs_live : option zrec; zs_records : list zrec; zs_out : list (list zrec) }.
Definition zstate0 : zstate := {| zs_live := None; zs_records := []; zs_out := [] |}.

Definition zrec_new (chrom add_start : N) (val : fl) : zrec :=
  {| z_chrom := chrom; z_start := add_start; z_end := add_start;
     z_sum := {| su_items := 0; su_bases := 0; su_min := val; su_max := val; su_sum := fzero; su_sumsq := fzero |} |}.
Definition zrec_add (fp : fpmode) (z : zrec) (add_start add_end : N) (val : fl) : zrec :=
  let added := f_of_N (add_end - add_start) in
  let s := z_sum z in
  {| z_chrom := z_chrom z; z_start := z_start z; z_end := add_end;
     z_sum := {| su_items := su_items s + 1; su_bases := su_bases s + (add_end - add_start);
                 su_min := fmin (su_min s) val; su_max := fmax (su_max s) val;
                 su_sum := fadd64 fp (su_sum s) (fmul64 fp added val);
                 su_sumsq := fadd64 fp (su_sumsq s) (fmul64 fp (fmul64 fp added val) val) |} |}.

Fixpoint zoom_loop (fuel : nat) (fp : fpmode) (ips size chrom : N) (cur : value) (has_next : bool)
         (add_start : N) (st : zstate) : res zstate :=
  match fuel with
  | O => Fuel
  | S f =>
      (* write the section if full; or if this is the last value, nothing is live, and there are records *)
      let st :=
        if ((v_end cur <=? add_start) && negb (match zs_live st with Some _ => true | None => false end)
            && negb has_next && negb (match zs_records st with [] => true | _ => false end))
           || (Nlen (zs_records st) =? ips)
        then {| zs_live := zs_live st; zs_records := []; zs_out := zs_out st ++ [zs_records st] |}
        else st in
      if v_end cur <=? add_start then
        if has_next then Ok st else
        match zs_live st with
        | Some z => zoom_loop f fp ips size chrom cur has_next add_start
                      {| zs_live := None; zs_records := zs_records st ++ [z]; zs_out := zs_out st |}
        | None => Ok st
        end
      else
        let val := v_val cur in
        let z := match zs_live st with Some z => z | None => zrec_new chrom add_start val end in
        let next_end := z_start z + size in
        let add_end := N.min next_end (v_end cur) in
        let z := if add_start <? add_end then zrec_add fp z add_start add_end val else z in
        let st := if add_end =? next_end
                  then {| zs_live := None; zs_records := zs_records st ++ [z]; zs_out := zs_out st |}
                  else {| zs_live := Some z; zs_records := zs_records st; zs_out := zs_out st |} in
        zoom_loop f fp ips size chrom cur has_next (N.max add_end add_start) st
  end.

Definition zoom_fuel (size : N) (cur : value) : nat :=
  N.to_nat (2 * ((v_end cur - v_start cur) / size) + 8).

Definition zoom_step (fp : fpmode) (ips size chrom : N) (st : zstate) (cur : value) (has_next : bool) : res zstate :=
  zoom_loop (zoom_fuel size cur) fp ips size chrom cur has_next (v_start cur) st.

Fixpoint zoom_chrom (fp : fpmode) (ips size chrom : N) (vals : list value) (st : zstate) : res zstate :=
  match vals with
  | [] => Ok st
  | v :: r =>
      do st' <- zoom_step fp ips size chrom st v (match r with [] => false | _ => true end);
      zoom_chrom fp ips size chrom r st'
  end.

Fixpoint mapM {X Y} (f : X -> res Y) (l : list X) : res (list Y) :=
  match l with
  | [] => Ok []
  | x :: r => do y <- f x; do ys <- mapM f r; Ok (y :: ys)
  end.

(* the zoom sections one chromosome contributes to one level *)
Definition zoom_sections (fp : fpmode) (ips size chrom : N) (vals : list value) : res (list sdata) :=
  do st <- zoom_chrom fp ips size chrom vals zstate0;
  mapM (encode_zoom_section fp) (zs_out st).

(* ---- one chromosome: checks in stream order, summary, data sections ---- *)
Fixpoint check_chrom (len : N) (vals : list value) : res unit :=
  match vals with
  | [] => Ok tt
  | v :: r => do _ <- check_val len v (hd_error r); check_chrom len r
  end.

Definition chrom_summary (fp : fpmode) (vals : list value) : summary :=
  let s := fold_left (summary_add fp) vals summary_init in
  if su_items s =? 0 then {| su_items := 0; su_bases := su_bases s; su_min := fzero; su_max := fzero;
                             su_sum := su_sum s; su_sumsq := su_sumsq s |} else s.

Definition data_sections (ips chrom : N) (vals : list value) : res (list sdata) :=
  mapM (encode_section chrom) (chunks (N.to_nat ips) vals).

(* ---- the serial source: runs of equal chromosome names, with the order checks ---- *)
Definition item := (name * value)%type.
Fixpoint runs_aux (cur : name) (acc : list value) (l : list item) : list (name * list value) :=
  match l with
  | [] => [(cur, rev acc)]
  | (c, v) :: r => if name_eqb c cur then runs_aux cur (v :: acc) r
                   else (cur, rev acc) :: runs_aux c [v] r
  end.
Definition runs (l : list item) : list (name * list value) :=
  match l with [] => [] | (c, v) :: r => runs_aux c [v] r end.

Record chrom_out := { co_id : N; co_name : name; co_len : N; co_vals : list value }.

(* process_to_bbi in stream order: for each run: (order check against the previous run), lookup
   of the size (unknown chromosome), id assignment, then the per-value checks *)
Fixpoint process_runs (o : opts) (sizes : list (name * N)) (prev : option name) (ids : idmap)
         (rs : list (name * list value)) : res (idmap * list chrom_out) :=
  match rs with
  | [] => Ok (ids, [])
  | (c, vals) :: rest =>
      let order_ok := match prev with
                      | Some p => if o_sort_all o then match name_cmp p c with Lt => true | _ => false end else true
                      | None => true end in
      if negb order_ok then Err E_CHROM_ORDER else
      match lookup c sizes with
      | None => Err E_UNKNOWN_CHROM
      | Some len =>
          (* a chromosome whose run reappears is refused (/repo 4ea85d7): checked after the size
             lookup and before an id is handed out *)
          match lookup c ids with
          | Some _ => Err E_CHROM_SPLIT
          | None =>
              let (ids', id) := get_id ids c in
              do _ <- check_chrom len vals;
              do (ids'', outs) <- process_runs o sizes (Some c) ids' rest;
              Ok (ids'', {| co_id := id; co_name := c; co_len := len; co_vals := vals |} :: outs)
          end
      end
  end.

(* ---- whole file, single pass (BigWigWrite::write) ---- *)
Definition PRE_DATA : N := 64 + MAX_ZOOM_LEVELS * 24 + 40 + 8.

Definition concat_res {X} (l : list (res (list X))) : res (list X) :=
  fold_right (fun r acc => do a <- r; do b <- acc; Ok (a ++ b)) (Ok []) l.

Record bw_parts := {
  bp_chroms : idmap; bp_summary : summary; bp_data : list sdata; bp_zooms : list zoom_level }.

Definition assemble (o : opts) (magic : N) (sizes : list (name * N)) (chroms : idmap) (sum : summary)
           (data : list sdata) (pre : list N) (field_count defined_fc asql_off : N)
           (zoom_part : N -> N -> res (list N * list zoom_header)) (data_count_of : N -> N) : res (list N) :=
  let pre_data := Nlen pre in
  let total_summary_offset := pre_data - 48 in
  let full_data_offset := pre_data - 8 in
  let secs := place pre_data data in
  let dbytes := data_bytes data in
  let data_size := Nlen dbytes in
  let chrom_index_start := pre_data + data_size in
  do ct <- chrom_tree_bytes sizes chroms;
  let index_start := chrom_index_start + Nlen ct in
  do (ix, _) <- write_index (o_bs o) (o_ips o) index_start secs;
  let zpos := index_start + Nlen ix in
  do (zbytes, zhdrs) <- zoom_part data_size zpos;
  let body := pre ++ dbytes ++ ct ++ ix ++ zbytes in
  let ubuf := 0 in   (* uncompressed *)
  let hdr := header_bytes magic (Nlen zhdrs) chrom_index_start full_data_offset index_start
                          field_count defined_fc asql_off total_summary_offset ubuf
             ++ flat_map zoom_header_bytes zhdrs in
  let f1 := patch_at body 0 hdr in
  let f2 := patch_at f1 total_summary_offset (summary_bytes sum) in
  let f3 := patch_at f2 full_data_offset (u64 (data_count_of (Nlen secs))) in
  Ok (f3 ++ u32 magic).

Definition bw_pre : list N := blank_headers ++ repeatN 0 40 ++ u64 0.

Definition bw_collect (fp : fpmode) (o : opts) (sizes : list (name * N)) (input : list item)
  : res (idmap * list chrom_out * summary * list sdata) :=
  match input with
  | [] => Err E_EMPTY
  | _ =>
      do (ids, outs) <- process_runs o sizes None [] (runs input);
      let sum := match fold_left (summary_merge fp) (map (fun c => chrom_summary fp (co_vals c)) outs) None with
                 | Some s => s | None => summary_zero end in
      do data <- concat_res (map (fun c => data_sections (o_ips o) (co_id c) (co_vals c)) outs);
      Ok (ids, outs, sum, data)
  end.

Definition bw_write (fp : fpmode) (o : opts) (sizes : list (name * N)) (input : list item) : res (list N) :=
  do (ids, outs, sum, data) <- bw_collect fp o sizes input;
  let zsizes := zoom_sizes_single o in
  do zooms <- mapM (fun size =>
                      do secs <- concat_res (map (fun c => zoom_sections fp (o_ips o) size (co_id c) (co_vals c)) outs);
                      Ok {| zl_res := size; zl_secs := secs |}) zsizes;
  assemble o BIGWIG_MAGIC sizes ids sum data bw_pre 0 0 0
           (fun data_size zpos => write_zooms_loop o data_size zpos zooms None 0)
           (fun nsecs => nsecs).

(* ---- two passes (write_multipass) ---- *)
(* BigWigNoZoomsProcess: how many records each resolution of the ladder would need *)
Fixpoint ladder (fuel : nat) (z : N) (stop : N -> bool) : list N :=
  match fuel with O => [] | S f => if stop z then [] else z :: ladder f (z * ZOOM_COUNT_FACTOR) stop end.
Definition U64_MAX : N := 2 ^ 64 - 1.
Definition chrom_ladder (len : N) : list N :=
  ladder 40 ZOOM_COUNT_FIRST (fun z => negb ((z <=? U64_MAX / 4) && (z <=? len * 4))).
Definition total_ladder : list N := ladder 40 ZOOM_COUNT_FIRST (fun z => U64_MAX <=? z).

Record zcount := { zc_res : N; zc_end : N; zc_count : N }.
(* while current_val.end > current_end: count += 1; current_end += resolution *)
Definition zcount_step (z : zcount) (v : value) : zcount :=
  let z1 := if zc_end z <=? v_start v
            then {| zc_res := zc_res z; zc_end := v_start v + zc_res z; zc_count := zc_count z + 1 |} else z in
  if zc_end z1 <? v_end v then
    let k := (v_end v - zc_end z1 + zc_res z1 - 1) / zc_res z1 in
    {| zc_res := zc_res z1; zc_end := zc_end z1 + k * zc_res z1; zc_count := zc_count z1 + k |}
  else z1.
Definition chrom_zoom_counts (len : N) (vals : list value) : list (N * N) :=
  map (fun r => let z := fold_left zcount_step vals {| zc_res := r; zc_end := 0; zc_count := 0 |} in (r, zc_count z))
      (chrom_ladder len).
Fixpoint lookupN (k : N) (l : list (N * N)) : option N :=
  match l with [] => None | (k', v) :: r => if k =? k' then Some v else lookupN k r end.
Definition total_zoom_counts (outs : list chrom_out) : list (N * N) :=
  map (fun r => (r, sumN (map (fun c => match lookupN r (chrom_zoom_counts (co_len c) (co_vals c)) with
                                        | Some n => n | None => 1 end) outs)))
      total_ladder.

(* (bases_covered as f64 / total_items as f64) as u32: truncation; 0/0 = NaN -> 0; saturating *)
Definition average_size (sum : summary) : N :=
  if su_items sum =? 0 then 0 else N.min (su_bases sum / su_items sum) (2 ^ 32 - 1).

Fixpoint skip_while {X} (p : X -> bool) (l : list X) : list X :=
  match l with [] => [] | x :: r => if p x then skip_while p r else l end.
Fixpoint take_while {X} (p : X -> bool) (l : list X) : list X :=
  match l with [] => [] | x :: r => if p x then x :: take_while p r else [] end.

Definition zoom_sizes_two_pass (o : opts) (sum : summary) (counts : list (N * N)) (data_size : N) : list N :=
  match o_manual o with
  | Some zs => firstn (N.to_nat MAX_ZOOM_LEVELS) (sort_dedup (filter (fun z => negb (z =? 0)) zs))
  | None =>
      let min_first := N.max (average_size sum) 10 * 4 in
      let l1 := skip_while (fun z => min_first <? fst z) counts in
      let l2 := skip_while (fun z => let red := snd z * 32 in
                                     let red := if o_compress o then red / 2 else red in
                                     data_size / 2 <? red) l1 in
      map fst (take_while (fun z => fst z <=? 2 ^ 32 - 1) (firstn (N.to_nat (N.min (o_maxzooms o) MAX_ZOOM_LEVELS)) l2))
  end.

(* write_zoom_vals: every selected level is written (no skipping), data then index *)
Fixpoint write_zooms_two_pass (o : opts) (pos : N) (zs : list zoom_level) : res (list N * list zoom_header) :=
  match zs with
  | [] => Ok ([], [])
  | z :: rest =>
      let secs := place pos (zl_secs z) in
      let zoom_size := Nlen (data_bytes (zl_secs z)) in
      let index_off := pos + zoom_size in
      do (ix, _) <- write_index (o_bs o) (o_ips o) index_off secs;
      let here := data_bytes (zl_secs z) ++ ix in
      do (more, hs) <- write_zooms_two_pass o (pos + Nlen here) rest;
      Ok (here ++ more, {| zh_res := zl_res z; zh_data := pos; zh_index := index_off |} :: hs)
  end.

Definition bw_write_multipass (fp : fpmode) (o : opts) (sizes : list (name * N)) (input : list item) : res (list N) :=
  do (ids, outs, sum, data) <- bw_collect fp o sizes input;
  let counts := total_zoom_counts outs in
  assemble o BIGWIG_MAGIC sizes ids sum data bw_pre 0 0 0
           (fun data_size zpos =>
              let zsizes := zoom_sizes_two_pass o sum counts data_size in
              do zooms <- mapM (fun size =>
                  do secs <- concat_res (map (fun c => zoom_sections fp (o_ips o) size (co_id c) (co_vals c)) outs);
                  Ok {| zl_res := size; zl_secs := secs |}) zsizes;
              write_zooms_two_pass o zpos zooms)
           (fun nsecs => nsecs).
