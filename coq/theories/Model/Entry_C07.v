(* C07 entry.  Model output: write with the bigWig writer model, read the zoom directory and
   every zoom record of every listed level back with the reader model (same shape as
   harness/src/bin/c07.rs prints).  Oracle: the property itself, recomputed naively PER BASE from
   the case's input values, evaluated on what the implementation returned.
   case   = (kind opts sizes input queries)     see Model/EntryBBI.v; queries = ((2 name s e res) ...)
   output = (1 code) | (2) | (3) | (0 (res ...) ((res ((name len answer) ...)) ...) (answer ...))
   answer = (0 ((start end covered min max sum sumsq) ...)) | (1 code)      floats as f64 bit patterns *)
From BT Require Import Base.Util Base.Sexp Base.Float Model.RTree Model.BBIFile Model.BigWigWrite Model.BBIRead Model.EntryBBI.
Local Open Scope N_scope.

(* ---------------------------------------------------------------- model output *)
Definition c07_model (c : sexp) : sexp :=
  match write_model c with
  | Ok bs =>
      match read_info bs with
      | Ok i =>
          L [A 0%Z;
             sList (fun z => sN (zh_res z)) (i_zooms i);
             sList (fun z => L [sN (zh_res z);
                                sList (fun ci => L [sBytes (ci_name ci); sN (ci_len ci);
                                                    sRes (sList sZrec)
                                                         (zoom_interval idf bs i (ci_name ci) 0 (ci_len ci) (zh_res z))])
                                      (i_chroms i)])
                   (i_zooms i);
             sList (answer bs i) (getL (nthS 4 c))]
      | r => L [A 0%Z; sRes (fun _ => L []) r]
      end
  | Err code => L [A 1%Z; sN code]
  | Panic => L [A 2%Z]
  | Fuel => L [A 3%Z]
  end.

(* ---------------------------------------------------------------- oracle *)
Record zr := { r_s : N; r_e : N; r_cov : N; r_min : N; r_max : N; r_sum : N; r_sq : N }.
Definition get_zr (s : sexp) : zr :=
  {| r_s := getN (nthS 0 s); r_e := getN (nthS 1 s); r_cov := getN (nthS 2 s); r_min := getN (nthS 3 s);
     r_max := getN (nthS 4 s); r_sum := getN (nthS 5 s); r_sq := getN (nthS 6 s) |}.

Definition input_of (c : sexp) : list item := getList get_item (nthS 3 c).
Definition vals_of_chrom (inp : list item) (c : name) : list value :=
  map snd (filter (fun it => name_eqb (fst it) c) inp).
Fixpoint first_appearance (seen : list name) (inp : list item) : list name :=
  match inp with
  | [] => rev seen
  | (c, _) :: r => if existsb (name_eqb c) seen then first_appearance seen r else first_appearance (c :: seen) r
  end.

(* the stored value covering base p, if any *)
Definition val_at (vals : list value) (p : N) : option value :=
  find (fun v => (v_start v <=? p) && (p <? v_end v)) vals.
Fixpoint nseq (s : N) (n : nat) : list N := match n with O => [] | S k => s :: nseq (s + 1) k end.
(* one entry per base of [s,e) that has data *)
Definition bases_in (vals : list value) (s e : N) : list value :=
  flat_map (fun p => match val_at vals p with Some v => [v] | None => [] end) (nseq s (N.to_nat (e - s))).

(* a value on which every intermediate of the writer's f64 arithmetic is exact whatever the order
   of accumulation: a multiple of 1/8 of magnitude at most 1024 (chromosomes are < 2^20 bases) *)
Definition nice_fl (x : fl) : bool :=
  match x with
  | FFin m e =>
      (if (0 <=? e + 3)%Z then true else Z.eqb (Z.modulo m (Z.shiftl 1 (- (e + 3)))) 0)
      && (if (0 <=? e)%Z then Z.leb (Z.abs m * Z.shiftl 1 e) 1024 else Z.leb (Z.abs m) (Z.shiftl 1024 (- e)))
  | _ => false
  end.
Definition is_finite (x : fl) : bool := match x with FFin _ _ => true | _ => false end.

Definition check_rec (nice : bool) (res len : N) (vals : list value) (r : zr) : bool :=
  if negb ((r_s r <? r_e r) && (r_e r - r_s r <=? res) && (r_e r <=? len)) then false else
  let d := bases_in vals (r_s r) (r_e r) in
  if negb (r_cov r =? Nlen d) then false else      (* bases without data are never counted *)
  match d with
  | [] => (r_sum r =? 0) && (r_sq r =? 0)
  | v0 :: rest =>
      let mn := fold_left (fun a v => fmin a (v_val v)) rest (v_val v0) in
      let mx := fold_left (fun a v => fmax a (v_val v)) rest (v_val v0) in
      (r_min r =? bits_of_f64 mn) && (r_max r =? bits_of_f64 mx) &&
      (if nice then
         let sm := fold_left (fun a v => fadd64 exact a (v_val v)) d fzero in
         let sq := fold_left (fun a v => fadd64 exact a (fmul64 exact (v_val v) (v_val v))) d fzero in
         (r_sum r =? bits_of_f64 (to_f32 ieee sm)) && (r_sq r =? bits_of_f64 (to_f32 ieee sq))
       else true)
  end.

Fixpoint ordered_from (lo : N) (l : list zr) : bool :=
  match l with [] => true | r :: t => (lo <=? r_s r) && ordered_from (r_e r) t end.

Definition check_chrom_level (nice : bool) (res len : N) (vals : list value) (recs : list zr) : bool :=
  if negb (ordered_from 0 recs) then false else
  if negb (forallb (check_rec nice res len vals) recs) then false else
  (* with the two checks above: every base with data lies in exactly one record *)
  sumN (map r_cov recs) =? sumN (map (fun v => v_end v - v_start v) vals).

Fixpoint increasing_from (lo : N) (l : list N) : bool :=
  match l with [] => true | x :: t => (lo <? x) && increasing_from x t end.

Definition find_chrom_answer (nm : name) (cas : list sexp) : option sexp :=
  find (fun ca => name_eqb (getBytes (nthS 0 ca)) nm) cas.

Definition c07_oracle (c out : sexp) : sexp :=
  let status := getZ (nthS 0 out) in
  if Z.eqb status 1 then sB true             (* refused with an error value: C13's business *)
  else if negb (Z.eqb status 0) then sB false (* panic / no return: the accumulator is total (C07_chrom_terminates,
                                                 C07_sections_encoded), so the writer must return on every case *)
  else
    let sizes := get_sizes (nthS 2 c) in
    let inp := input_of c in
    let nice := forallb (fun it => nice_fl (v_val (snd it))) inp
                && forallb (fun s => snd s <? 2 ^ 20) sizes in
    let levels := getList getN (nthS 1 out) in
    let per_level := getL (nthS 2 out) in
    let names := first_appearance [] inp in
    if negb (increasing_from 0 levels) then sB false else
    if negb (Nat.eqb (length levels) (length per_level)) then sB false else
    let level_ok (lp : N * sexp) : bool :=
      let res := fst lp in
      let cas := getL (nthS 1 (snd lp)) in
      if negb (getN (nthS 0 (snd lp)) =? res) then false else
      (* every chromosome with data is present *)
      if negb (forallb (fun nm => match find_chrom_answer nm cas with Some _ => true | None => false end) names) then false else
      forallb (fun ca =>
                 let nm := getBytes (nthS 0 ca) in
                 let len := getN (nthS 1 ca) in
                 let ans := nthS 2 ca in
                 if negb (Z.eqb (getZ (nthS 0 ans)) 0) then false else
                 if negb (match lookup nm sizes with Some l => l =? len | None => false end) then false else
                 check_chrom_level nice res len (vals_of_chrom inp nm) (getList get_zr (nthS 1 ans)))
              cas in
    if negb (forallb level_ok (combine levels per_level)) then sB false else
    (* range queries: every record of the level that intersects the range is returned, and nothing
       that the level does not hold *)
    let qs := getL (nthS 4 c) in
    let answers := getL (nthS 3 out) in
    if negb (Nat.eqb (length qs) (length answers)) then sB false else
    sB (forallb (fun qa =>
          let q := fst qa in let a := snd qa in
          if negb (getN (nthS 0 q) =? 2) then true else
          let nm := getBytes (nthS 1 q) in
          let s := getN (nthS 2 q) in
          let e := getN (nthS 3 q) in
          let res := getN (nthS 4 q) in
          match find (fun lp => fst lp =? res) (combine levels per_level) with
          | None => true
          | Some lp =>
              match find_chrom_answer nm (getL (nthS 1 (snd lp))) with
              | None => true
              | Some ca =>
                  let full := getL (nthS 1 (nthS 2 ca)) in
                  let got := getL (nthS 1 a) in
                  Z.eqb (getZ (nthS 0 a)) 0
                  && forallb (fun rs => let r := get_zr rs in
                                        if (s <? r_e r) && (r_s r <? e) then existsb (sexp_eqb rs) got else true) full
                  && forallb (fun x => existsb (sexp_eqb x) full) got
              end
          end) (combine qs answers)).

Definition dispatch (k : Z) (arg : sexp) : sexp :=
  match k with
  | 0 => c07_model arg
  | 1 => c07_oracle (nthS 0 arg) (nthS 1 arg)
  | _ => L [A (-1)%Z]
  end%Z.
