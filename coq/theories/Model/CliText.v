(* Model of the text and argument side of the command-line converters (property C16):
     bed/bedparser.rs        parse_bed, parse_bedgraph (fields split on tab, u32 from_str, trim_end)
     utils/file/streaming_linereader.rs   line segmentation (read_line + trim_end)
     utils/cli/bedgraphtobigwig.rs, bedtobigbed.rs   the chrom.sizes reader (lines / split_whitespace / parse::<u32>().unwrap())
     utils/cli/bigwigtobedgraph.rs write_bg_singlethreaded / write_bg, bigbedtobed.rs write_bed_singlethreaded / write_bed:
                              chromosome selection, --chrom/--start/--end defaults, one get_interval per chromosome, line format
     utils/cli.rs            compat_arg_mut over the GENERATED table (Generated/Consts.v), compat_args (multicall dispatch)
   Strings are lists of bytes (valid UTF-8 is assumed; [trim_end] recognises the UTF-8 encodings of every
   Unicode White_Space character, as str::trim_end does).  Outside the model: clap, ryu (f32 -> text),
   str::parse::<f32> (a parameter [fparse] of parse_bedgraph), Unicode lower-casing and split_whitespace beyond ASCII.
   No proofs in this file. *)
From BT Require Import Base.Util Generated.Consts Model.BBIFile Model.BigWigWrite Model.BBIRead.
Local Open Scope N_scope.

Definition TAB : N := 9.
Definition NL : N := 10.

(* ------------------------------------------------------------------ decimal u32 *)
(* core::fmt for integers: digits are produced from the least significant one *)
Fixpoint lsd_digits (fuel : nat) (n : N) : list N :=
  match fuel with
  | O => []
  | S f => (n mod 10) :: (if n <? 10 then [] else lsd_digits f (n / 10))
  end.
Definition dec_fuel (n : N) : nat := S (N.to_nat (N.log2 n)).
Definition print_dec (n : N) : list N := rev (map (fun d => 48 + d) (lsd_digits (dec_fuel n) n)).

Definition U32_MAX : N := 4294967295.
Definition is_digit (c : N) : bool := (48 <=? c) && (c <=? 57).
(* checked_mul(10) / checked_add(digit): any overflow is an error *)
Fixpoint parse_digits (acc : N) (l : list N) : option N :=
  match l with
  | [] => Some acc
  | c :: r => if is_digit c then
                let a := acc * 10 + (c - 48) in
                if U32_MAX <? a then None else parse_digits a r
              else None
  end.
(* <u32 as FromStr>::from_str: empty -> error; one leading '+' is accepted when digits follow; '-' is an
   invalid digit for an unsigned type *)
Definition parse_u32 (l : list N) : option N :=
  match l with
  | [] => None
  | c :: r => if (c =? 43) && negb (match r with [] => true | _ => false end) then parse_digits 0 r
              else parse_digits 0 l
  end.

(* ------------------------------------------------------------------ str::trim_end on UTF-8 bytes *)
Definition ws1 (a : N) : bool := ((9 <=? a) && (a <=? 13)) || (a =? 32).
(* U+0085, U+00A0 *)
Definition ws2 (b a : N) : bool := (b =? 194) && ((a =? 133) || (a =? 160)).
(* U+1680, U+2000..U+200A, U+2028, U+2029, U+202F, U+205F, U+3000 *)
Definition ws3 (c b a : N) : bool :=
  ((c =? 225) && (b =? 154) && (a =? 128)) ||
  ((c =? 226) && (b =? 128) && (((128 <=? a) && (a <=? 138)) || (a =? 168) || (a =? 169) || (a =? 175))) ||
  ((c =? 226) && (b =? 129) && (a =? 159)) ||
  ((c =? 227) && (b =? 128) && (a =? 128)).
(* on the reversed string: drop white-space characters from the front *)
Fixpoint trim_rev (l : list N) : list N :=
  match l with
  | [] => []
  | a :: l1 =>
      if ws1 a then trim_rev l1 else
      match l1 with
      | [] => l
      | b :: l2 =>
          if ws2 b a then trim_rev l2 else
          match l2 with
          | [] => l
          | c :: l3 => if ws3 c b a then trim_rev l3 else l
          end
      end
  end.
Definition trim_end (l : list N) : list N := rev (trim_rev (rev l)).

(* ------------------------------------------------------------------ splitting *)
(* the piece before the first separator, and what follows it (None: no separator) *)
Fixpoint split_first (sep : N) (l : list N) : list N * option (list N) :=
  match l with
  | [] => ([], None)
  | c :: r => if c =? sep then ([], Some r)
              else let (a, b) := split_first sep r in (c :: a, b)
  end.

(* BufRead::read_line segmentation: pieces end at '\n'; a last piece without '\n' counts when it is not empty *)
Fixpoint lines (l : list N) : list (list N) :=
  match l with
  | [] => []
  | c :: r => if c =? NL then [] :: lines r
              else match lines r with
                   | [] => [[c]]
                   | x :: xs => (c :: x) :: xs
                   end
  end.

(* ------------------------------------------------------------------ bedparser.rs *)
Record bed_entry := { be_start : N; be_end : N; be_rest : list N }.

Definition P_MISSING_START : N := 1.
Definition P_INVALID_START : N := 2.
Definition P_MISSING_END : N := 3.
Definition P_INVALID_END : N := 4.
Definition P_MISSING_VALUE : N := 5.
Definition P_INVALID_VALUE : N := 6.

(* chrom, start, end and what follows the third tab *)
Definition parse_three (s : list N) : res (list N * N * N * option (list N)) :=
  let (chrom, r1) := split_first TAB s in
  match r1 with
  | None => Err P_MISSING_START
  | Some a =>
      let (st, r2) := split_first TAB a in
      match parse_u32 st with
      | None => Err P_INVALID_START
      | Some start =>
          match r2 with
          | None => Err P_MISSING_END
          | Some b =>
              let (en, r3) := split_first TAB b in
              match parse_u32 en with
              | None => Err P_INVALID_END
              | Some e => Ok (chrom, start, e, r3)
              end
          end
      end
  end.

(* parse_bed: s.trim_end().splitn(4, '\t') *)
Definition parse_bed (line : list N) : res (list N * bed_entry) :=
  do x <- parse_three (trim_end line);
  let '(chrom, start, e, r3) := x in
  Ok (chrom, {| be_start := start; be_end := e; be_rest := match r3 with Some c => c | None => [] end |}).

(* parse_bedgraph: s.trim_end().splitn(5, '\t'); the value text goes through [fparse] (str::parse::<f32>, not modelled):
   it returns the f32 bit pattern *)
Definition parse_bedgraph (fparse : list N -> option N) (line : list N) : res (list N * value) :=
  do x <- parse_three (trim_end line);
  let '(chrom, start, e, r3) := x in
  match r3 with
  | None => Err P_MISSING_VALUE
  | Some c =>
      match fparse (fst (split_first TAB c)) with
      | None => Err P_INVALID_VALUE
      | Some bits => Ok (chrom, {| v_start := start; v_end := e; v_bits := bits |})
      end
  end.

(* the lines the converters print (uwrite! "{}\t{}\t{}\t{}\n" / "{}\t{}\t{}\n" when rest is empty) *)
Definition format_bed_line (c : list N) (e : bed_entry) : list N :=
  c ++ [TAB] ++ print_dec (be_start e) ++ [TAB] ++ print_dec (be_end e)
    ++ match be_rest e with [] => [] | r => TAB :: r end.
Definition format_bed (c : list N) (e : bed_entry) : list N := format_bed_line c e ++ [NL].
Definition format_bed_text (l : list (list N * bed_entry)) : list N :=
  flat_map (fun ce => format_bed (fst ce) (snd ce)) l.
(* bedGraph line with the value text supplied (ryu is not modelled) *)
Definition format_bedgraph_line (c : list N) (s e : N) (vtext : list N) : list N :=
  c ++ [TAB] ++ print_dec s ++ [TAB] ++ print_dec e ++ [TAB] ++ vtext.

(* ------------------------------------------------------------------ chrom.sizes *)
(* BufRead::lines: the '\n' and one '\r' before it are removed *)
Definition strip_cr (l : list N) : list N :=
  match rev l with
  | 13 :: r => rev r
  | _ => l
  end.
Fixpoint skip_ws (l : list N) : list N :=
  match l with
  | [] => []
  | c :: r => if ws1 c then skip_ws r else l
  end.
Fixpoint take_token (l : list N) : list N * list N :=
  match l with
  | [] => ([], [])
  | c :: r => if ws1 c then ([], l) else let (a, b) := take_token r in (c :: a, b)
  end.
(* split_whitespace().next() (ASCII white space) *)
Definition next_token (l : list N) : option (list N * list N) :=
  match skip_ws l with
  | [] => None
  | l' => Some (take_token l')
  end.
(* .expect("Missing chrom") / .expect("Missing size") / .parse::<u32>().unwrap() *)
Definition parse_sizes_line (line : list N) : res (list N * N) :=
  match next_token line with
  | None => Panic
  | Some (chrom, r) =>
      match next_token r with
      | None => Panic
      | Some (sz, _) =>
          match parse_u32 sz with
          | None => Panic
          | Some n => Ok (chrom, n)
          end
      end
  end.
(* collected into a HashMap: a later line for the same name replaces an earlier one.  The result is an
   association list with the LATEST line first, so that [lookup] sees what the map holds. *)
Definition parse_chrom_sizes (text : list N) : res (list (name * N)) :=
  fold_left (fun acc line =>
               do m <- acc;
               match line with
               | [] => Ok m
               | _ => do kv <- parse_sizes_line line; Ok (kv :: m)
               end)
            (map strip_cr (lines text)) (Ok []).
Definition format_sizes_line (kv : name * N) : list N := fst kv ++ [TAB] ++ print_dec (snd kv) ++ [NL].
Definition format_sizes (l : list (name * N)) : list N := flat_map format_sizes_line l.

(* ------------------------------------------------------------------ compat_arg_mut / compat_args *)
Fixpoint is_prefix (p l : list N) : bool :=
  match p, l with
  | [], _ => true
  | x :: p', y :: l' => (x =? y) && is_prefix p' l'
  | _ :: _, [] => false
  end.
(* str::replace: non-overlapping matches from the left *)
Fixpoint replace_all (fuel : nat) (k r l : list N) : list N :=
  match fuel with
  | O => l
  | S f =>
      match l with
      | [] => []
      | c :: t => if is_prefix k l then r ++ replace_all f k r (skipn (length k) l)
                  else c :: replace_all f k r t
      end
  end.
Definition compat_arg (a : list N) : res (list N) :=
  match find (fun kv => is_prefix (fst kv) a) COMPAT_REPLACE with
  | Some (k, r) =>
      Ok (if COMPAT_REPLACE_ALL then replace_all (S (length a)) k r a else r ++ skipn (length k) a)
  | None =>
      if existsb (fun k => is_prefix k a) COMPAT_IGNORE then Ok []
      else if existsb (fun k => is_prefix k a) COMPAT_UNIMPLEMENTED then Panic
      else Ok a
  end.

Definition ascii_lower (c : N) : N := if (65 <=? c) && (c <=? 90) then c + 32 else c.
Definition lower (l : list N) : list N := map ascii_lower l.
Definition bytes_eqb (a b : list N) : bool := name_eqb a b.
Definition ends_with (l suffix : list N) : bool := is_prefix (rev suffix) (rev l).
(* Path::file_name for '/'-separated paths: the last component that is not "." ; None for no component or ".." *)
Fixpoint split_all (sep : N) (l : list N) : list (list N) :=
  match l with
  | [] => [[]]
  | c :: r => if c =? sep then [] :: split_all sep r
              else match split_all sep r with
                   | [] => [[c]]
                   | x :: xs => (c :: x) :: xs
                   end
  end.
Definition file_name (p : list N) : option (list N) :=
  match rev (filter (fun c => negb (bytes_eqb c [] || bytes_eqb c [46])) (split_all 47 p)) with
  | [] => None
  | c :: _ => if bytes_eqb c [46; 46] then None else Some c
  end.

Definition is_nil {X} (l : list X) : bool := match l with [] => true | _ => false end.
(* compat_args_vec: every argument is rewritten in order; one that the ignore rule blanked is dropped *)
Definition compat_args_vec (l : list (list N)) : res (list (list N)) :=
  do outs <- mapM compat_arg l;
  Ok (map snd (filter (fun io => negb (is_nil (snd io) && negb (is_nil (fst io)))) (combine l outs))).

Definition C_MERGE_NOT_MODELLED : N := 99.
(* compat_args on a complete argv.  bigwigmerge's positional rewriting is outside this model (Err 99). *)
Definition compat_args (argv : list (list N)) : res (list (list N)) :=
  let dispatch (command : list N) (start args : list (list N)) : res (list (list N)) :=
    if bytes_eqb command COMPAT_MERGE_COMMAND then Err C_MERGE_NOT_MODELLED
    else if existsb (bytes_eqb command) COMPAT_COMMANDS then compat_args_vec (start ++ args)
    else Ok (start ++ args) in
  match argv with
  | [] => Ok []
  | first :: rest =>
      if ends_with (lower first) COMPAT_MULTICALL then
        match rest with
        | [] => Ok [first]
        | second :: args =>
            let second' := if bytes_eqb (lower second) [45; 118] then second else lower second in
            match file_name second' with
            | None => Ok (first :: second' :: args)
            | Some c => dispatch (lower c) [first; second'] args
            end
        end
      else
        match file_name first with
        | None => Ok (first :: rest)
        | Some c => dispatch (lower c) [lower first] rest
        end
  end.

(* ------------------------------------------------------------------ the converters at record level *)
Section Runs.
Context {X : Type}.
(* maximal runs of equal chromosome names, in stream order (BedParser state machine) *)
Fixpoint runs_aux_g (cur : name) (acc : list X) (l : list (name * X)) : list (name * list X) :=
  match l with
  | [] => [(cur, rev acc)]
  | (c, v) :: r => if name_eqb c cur then runs_aux_g cur (v :: acc) r
                   else (cur, rev acc) :: runs_aux_g c [v] r
  end.
Definition runs_g (l : list (name * X)) : list (name * list X) :=
  match l with [] => [] | (c, v) :: r => runs_aux_g c [v] r end.

(* one written chromosome: name, length, items *)
Record wchrom := { wc_name : name; wc_len : N; wc_items : list X }.

(* process_to_bbi with InputSortType::ALL: chromosome names strictly increasing, known to chrom.sizes, items accepted *)
Fixpoint accept_runs (check : N -> list X -> res unit) (sizes : list (name * N)) (prev : option name)
         (rs : list (name * list X)) : res (list wchrom) :=
  match rs with
  | [] => Ok []
  | (c, items) :: rest =>
      let order_ok := match prev with
                      | Some p => match name_cmp p c with Lt => true | _ => false end
                      | None => true
                      end in
      if negb order_ok then Err E_CHROM_ORDER else
      match lookup c sizes with
      | None => Err E_UNKNOWN_CHROM
      | Some len =>
          do _ <- check len items;
          do outs <- accept_runs check sizes (Some c) rest;
          Ok ({| wc_name := c; wc_len := len; wc_items := items |} :: outs)
      end
  end.

(* the writer: empty input is refused *)
Definition accept (check : N -> list X -> res unit) (sizes : list (name * N)) (items : list (name * X)) : res (list wchrom) :=
  match items with
  | [] => Err E_EMPTY
  | _ => accept_runs check sizes None (runs_g items)
  end.

(* chroms() of the reader: the chromosome tree is keyed and ordered by name *)
Fixpoint insert_by_name (w : wchrom) (l : list wchrom) : list wchrom :=
  match l with
  | [] => [w]
  | x :: r => match name_cmp (wc_name w) (wc_name x) with
              | Gt => x :: insert_by_name w r
              | _ => w :: l
              end
  end.
Definition sort_by_name (l : list wchrom) : list wchrom := fold_right insert_by_name [] l.

(* bigwigtobedgraph / bigbedtobed without an overlap bed:
   --start/--end without --chrom: a message, nothing written, exit 0;
   --chrom not in the file: a message, nothing written, exit 0;
   otherwise one get_interval(name, start or 0, end or length) per selected chromosome, in chroms() order. *)
Definition tool_read (query : list X -> N -> N -> list X) (file : list wchrom)
           (chrom : option name) (start fin : option N) : list (name * X) :=
  match chrom with
  | None =>
      match start, fin with
      | None, None =>
          flat_map (fun w => map (fun v => (wc_name w, v)) (query (wc_items w) 0 (wc_len w))) (sort_by_name file)
      | _, _ => []
      end
  | Some c =>
      match find (fun w => name_eqb (wc_name w) c) (sort_by_name file) with
      | None => []
      | Some w =>
          let s := match start with Some s => s | None => 0 end in
          let e := match fin with Some e => e | None => wc_len w end in
          map (fun v => (wc_name w, v)) (query (wc_items w) s e)
      end
  end.
End Runs.
Arguments wchrom X : clear implicits.

(* ---- bigWig: get_interval = the blocks the index reports (inclusive test on [first start, last end]), each
   clipped and filtered by get_block_values (Model/BBIRead.v clip_filter) ---- *)
Definition bw_block_hit (s e : N) (c : list value) : bool :=
  match c with
  | [] => false
  | f :: _ => (s <=? v_end (last c f)) && (v_start f <=? e)
  end.
Definition bw_query (ips : nat) (vals : list value) (s e : N) : list value :=
  flat_map (clip_filter s e) (filter (bw_block_hit s e) (chunks ips vals)).

(* ---- bigBed: process_val checks, section spans, get_block_entries filter ---- *)
Definition bb_check_val (len : N) (cur : bed_entry) (next : option bed_entry) : res unit :=
  if be_end cur <? be_start cur then Err E_START_GT_END
  else if len <=? be_start cur then Err E_END_GT_CHROM
  else match next with
       | Some n => if be_start n <? be_start cur then Err E_OVERLAP else Ok tt
       | None => Ok tt
       end.
Fixpoint bb_check_chrom (len : N) (l : list bed_entry) : res unit :=
  match l with
  | [] => Ok tt
  | v :: r => do _ <- bb_check_val len v (hd_error r); bb_check_chrom len r
  end.
Definition bb_keep (s e : N) (x : bed_entry) : bool := (s <=? be_end x) && (be_start x <=? e).
Definition max_end (l : list bed_entry) : N := fold_right (fun x m => N.max (be_end x) m) 0 l.
(* section span: first start .. largest end *)
Definition bb_block_hit (s e : N) (c : list bed_entry) : bool :=
  match c with
  | [] => false
  | f :: _ => (s <=? max_end c) && (be_start f <=? e)
  end.
Definition bb_query (ips : nat) (l : list bed_entry) (s e : N) : list bed_entry :=
  flat_map (filter (bb_keep s e)) (filter (bb_block_hit s e) (chunks ips l)).

(* ---- the two pipelines, text to records ---- *)
Definition bedgraph_to_bigwig (fparse : list N -> option N) (cs_text in_text : list N) : res (list (wchrom value)) :=
  do sizes <- parse_chrom_sizes cs_text;
  do items <- mapM (parse_bedgraph fparse) (lines in_text);
  accept check_chrom sizes items.
(* without --autosql the schema is generated from the first line, read before the conversion starts; a first line
   that does not parse is returned as an error there (repaired in /repo c6ef97a: it was `.unwrap()`, a panic) *)
Definition bed_to_bigbed (has_autosql : bool) (cs_text in_text : list N) : res (list (wchrom bed_entry)) :=
  do sizes <- parse_chrom_sizes cs_text;
  do _ <- (if has_autosql then Ok tt
           else match lines in_text with
                | [] => Ok tt
                | l :: _ => do _ <- parse_bed l; Ok tt
                end);
  do items <- mapM parse_bed (lines in_text);
  accept bb_check_chrom sizes items.

Definition bigwig_to_bedgraph (ips : nat) (file : list (wchrom value)) (chrom : option name) (start fin : option N)
  : list (name * value) := tool_read (bw_query ips) file chrom start fin.
Definition bigbed_to_bed (ips : nat) (file : list (wchrom bed_entry)) (chrom : option name) (start fin : option N)
  : list (name * bed_entry) := tool_read (bb_query ips) file chrom start fin.
