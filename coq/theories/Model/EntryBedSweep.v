(* Shared glue of C06 and C08 for bigBed: the observables of a written bigBed (total summary, item
   count, zoom levels, zoom records per chromosome, zoom range queries) computed from the sweep
   model without going through the byte image (that is C02/C09's business), and the naive per-base
   statistics the oracles compare the implementation with.
   case   = (kind opts sizes input queries)     kind 2 single pass | 3 two passes (0/1: bigWig, EntryBBI.v)
            input = ((name start end rest-bytes) ...)    queries = ((chrom-index s e resolution) ...)
   output = (1 code) | (2) | (3) | (0 summary item_count (res ...) zooms answers)
            zooms = per level, per chromosome (first-appearance order): (0 (record ...))
            record = (start end bases min max sum sumsq), statistics as f64 bit patterns of the stored f32 *)
From BT Require Import Base.Util Base.Sexp Base.LE Base.Float Generated.Consts Model.RTree Model.BBIFile
  Model.BigWigWrite Model.BBIRead Model.EntryBBI Model.BedSweep Spec.Depth.
Local Open Scope N_scope.

Definition get_entry (x : sexp) : name * entry :=
  (getBytes (nthS 0 x), {| e_start := getN (nthS 1 x); e_end := getN (nthS 2 x); e_rest := getBytes (nthS 3 x) |}).

(* the serial source: runs of equal chromosome names (as BigWigWrite.runs, for entries) *)
Fixpoint eruns_aux (cur : name) (acc : list entry) (l : list (name * entry)) : list (name * list entry) :=
  match l with
  | [] => [(cur, rev acc)]
  | (c, v) :: r => if name_eqb c cur then eruns_aux cur (v :: acc) r
                   else (cur, rev acc) :: eruns_aux c [v] r
  end.
Definition eruns (l : list (name * entry)) : list (name * list entry) :=
  match l with [] => [] | (c, v) :: r => eruns_aux c [v] r end.

Record bchrom := { bc_id : N; bc_name : name; bc_len : N; bc_es : list entry }.

Fixpoint bb_process_runs (o : opts) (sizes : list (name * N)) (prev : option name) (ids : idmap)
         (rs : list (name * list entry)) : res (idmap * list bchrom) :=
  match rs with
  | [] => Ok (ids, [])
  | (c, es) :: rest =>
      let order_ok := match prev with
                      | Some p => if o_sort_all o then match name_cmp p c with Lt => true | _ => false end else true
                      | None => true end in
      if negb order_ok then Err E_CHROM_ORDER else
      match lookup c sizes with
      | None => Err E_UNKNOWN_CHROM
      | Some len =>
          (* a chromosome whose run reappears is refused (/repo 4ea85d7) *)
          match lookup c ids with
          | Some _ => Err E_CHROM_SPLIT
          | None =>
              let (ids', id) := get_id ids c in
              do _ <- bb_check_chrom len es;
              do (ids'', outs) <- bb_process_runs o sizes (Some c) ids' rest;
              Ok (ids'', {| bc_id := id; bc_name := c; bc_len := len; bc_es := es |} :: outs)
          end
      end
  end.

(* one zoom level: resolution and its sections (lists of records) in file order *)
Definition level := (N * list (list zrec))%type.

Definition level_of (fp : fpmode) (o : opts) (cs : list bchrom) (size : N) : res level :=
  do secs <- concat_res (map (fun c => bb_zoom_records fp (o_ips o) size (bc_id c) (bc_es c)) cs);
  Ok (size, secs).

(* write_zooms (single pass) on sizes only: 32 bytes per record, uncompressed *)
Fixpoint select_single (o : opts) (data_size : N) (zs : list level) (last_count : option N) (zoom_count : N) : list level :=
  match zs with
  | [] => []
  | z :: rest =>
      let check := match o_manual o with None => true | Some _ => false end in
      let zoom_size := 32 * Nlen (concat (snd z)) in
      if check && (data_size / 2 <? zoom_size) then select_single o data_size rest last_count zoom_count
      else
        let total := Nlen (snd z) in
        if check && (match last_count with None => false | Some lc => lc <=? total end)
        then select_single o data_size rest last_count zoom_count
        else if check && (o_maxzooms o <=? zoom_count + 1) then [z]
        else z :: select_single o data_size rest (Some total) (zoom_count + 1)
  end.

Definition chrom_out_of (c : bchrom) : chrom_out :=
  {| co_id := bc_id c; co_name := bc_name c; co_len := bc_len c; co_vals := map value_of_entry (bc_es c) |}.

(* (summary, levels written, chromosomes in stream order) *)
Definition bb_file (fp : fpmode) (two_pass : bool) (o : opts) (sizes : list (name * N)) (input : list (name * entry))
  : res (summary * list level * list bchrom) :=
  match input with
  | [] => Err E_EMPTY
  | _ =>
      do (ids, cs) <- bb_process_runs o sizes None [] (eruns input);
      let sum := bb_total_summary fp (map bc_es cs) in
      let data_size := sumN (map (fun c => sumN (map entry_size (bc_es c))) cs) in
      if two_pass then
        let zsizes := zoom_sizes_two_pass o sum (total_zoom_counts (map chrom_out_of cs)) data_size in
        do levels <- mapM (level_of fp o cs) zsizes;
        Ok (sum, levels, cs)
      else
        do levels <- mapM (level_of fp o cs) (zoom_sizes_single o);
        Ok (sum, select_single o data_size levels None 0, cs)
  end.

(* a record as the reader returns it: the statistics went through f32 *)
Definition sZrec32 (fp : fpmode) (z : zrec) : sexp :=
  let s := z_sum z in
  L [sN (z_start z); sN (z_end z); sN (su_bases s);
     sN (bits_of_f64 (to_f32 fp (su_min s))); sN (bits_of_f64 (to_f32 fp (su_max s)));
     sN (bits_of_f64 (to_f32 fp (su_sum s))); sN (bits_of_f64 (to_f32 fp (su_sumsq s)))].

Definition recs_of (l : level) (c : bchrom) : list zrec :=
  filter (fun z => z_chrom z =? bc_id c) (concat (snd l)).

(* get_zoom_interval: every record of the chromosome with s <= end and start <= e (the reader's
   inclusive tests on blocks and on records; by C05 the index search finds every such block) *)
Definition zoom_answer (fp : fpmode) (levels : list level) (cs : list bchrom) (q : sexp) : sexp :=
  let ci := getNat (nthS 0 q) in
  let s := getN (nthS 1 q) in
  let e := getN (nthS 2 q) in
  let r := getN (nthS 3 q) in
  match nth_error cs ci with
  | None => L [A 1%Z; sN R_NOCHROM]
  | Some c =>
      match find (fun l => fst l =? r) levels with
      | None => L [A 1%Z; sN R_NOZOOM]
      | Some l => L [A 0%Z; sList (sZrec32 fp) (filter (fun z => (s <=? z_end z) && (z_start z <=? e)) (recs_of l c))]
      end
  end.

Definition bb_model (c : sexp) : sexp :=
  let kind := getN (nthS 0 c) in
  let o := get_opts (nthS 1 c) in
  let sizes := get_sizes (nthS 2 c) in
  let input := getList get_entry (nthS 3 c) in
  match bb_file ieee (kind =? 3) o sizes input with
  | Ok (sum, levels, cs) =>
      L [A 0%Z; sSummary sum; sN (su_items sum); sList (fun l => sN (fst l)) levels;
         sList (fun l => sList (fun c => L [A 0%Z; sList (sZrec32 ieee) (recs_of l c)]) cs) levels;
         sList (zoom_answer ieee levels cs) (getL (nthS 4 c))]
  | Err code => L [A 1%Z; sN code]
  | Panic => L [A 2%Z]
  | Fuel => L [A 3%Z]
  end.

(* dispatch on the kind *)
Definition c0608_model (c : sexp) : sexp :=
  if getN (nthS 0 c) <? 2 then bbi_model c else bb_model c.

(* ---- naive per-base statistics, for the oracles ---- *)
(* chromosomes of the case in first-appearance order with their entries *)
Definition case_chroms (c : sexp) : list (name * list entry) := eruns (getList get_entry (nthS 3 c)).

(* depth of every base 0 .. max_end-1 of one chromosome *)
Definition depth_list (es : list entry) : list N := map (depth es) (range 0 (N.to_nat (max_end es))).

Definition idN (x : N) : N := x.
(* statistics of a slice [s, e) of a depth list *)
Definition slice_of (dl : list N) (s e : N) : list N := firstn (N.to_nat (e - s)) (skipn (N.to_nat s) dl).

Definition f64bits_of_N (n : N) : N := bits_of_f64 (f_of_N n).
(* what the reader returns for a stored f32 holding the (rounded) whole number n *)
Definition f32bits_of_N (n : N) : N := bits_of_f64 (to_f32 ieee (f_of_N n)).
