(* C04 entry: model output via the shared bigBed glue (exact answers); oracle = the property at its
   own strength, evaluated on what the implementation returned: the answer to a range query [s,e) is
   a sub-list of the chromosome's stored entries (stored order, no entry more often than stored) that
   contains every entry strictly overlapping the range (start < e and s < end) and no entry lying
   wholly outside [s,e] (end < s or e < start); entries merely touching a boundary may be included
   or omitted.  The same for every answer of a history through the caching reader. *)
From BT Require Import Base.Util Base.Sexp Base.Float Model.RTree Model.BBIFile Model.BigWigWrite Model.BBIRead
  Model.BigBedWrite Model.BBIReadBed Model.EntryBBI Model.EntryBed.
Local Open Scope N_scope.

Definition must_have (s e : N) (x : entry) : bool := (e_start x <? e) && (s <? e_end x).
Definition must_not (s e : N) (x : entry) : bool := (e_end x <? s) || (e <? e_start x).

(* walk the stored entries; [ans] must be consumed exactly *)
Fixpoint answer_ok (s e : N) (stored ans : list entry) : bool :=
  match stored with
  | [] => match ans with [] => true | _ => false end
  | x :: r =>
      match ans with
      | a :: ar =>
          if entry_eqb a x then negb (must_not s e x) && answer_ok s e r ar
          else negb (must_have s e x) && answer_ok s e r ans
      | [] => negb (must_have s e x) && answer_ok s e r []
      end
  end.

Definition range_answer_ok (inp : list bitem) (known_chrom : name -> bool) (cn : name) (s e : N) (a : sexp) : bool :=
  if negb (known_chrom cn) then true        (* a chromosome without data: any refusal is fine *)
  else Z.eqb (getZ (nthS 0 a)) 0 && answer_ok s e (entries_of_chrom inp cn) (getList get_entry (nthS 1 a)).

Definition c04_oracle (c out : sexp) : sexp :=
  let status := getZ (nthS 0 out) in
  if negb (Z.eqb status 0) then sB true   (* refused: C04 speaks about files that were written *)
  else
    let inp := bed_input c in
    let known cn := existsb (fun it => name_eqb (fst it) cn) inp in
    let qs := getL (nthS 4 c) in
    let ans := getL (nthS 2 out) in
    sB (Nat.eqb (length qs) (length ans) &&
        forallb (fun qa =>
                   let q := fst qa in let a := snd qa in
                   let k := getN (nthS 0 q) in
                   if k =? 0 then range_answer_ok inp known (getBytes (nthS 1 q)) (getN (nthS 2 q)) (getN (nthS 3 q)) a
                   else if k =? 7 then
                     let hs := getL (nthS 1 q) in
                     let has := getL a in
                     Nat.eqb (length hs) (length has) &&
                     forallb (fun ha => let '(cn, s, e) := get_q3 (fst ha) in range_answer_ok inp known cn s e (snd ha))
                             (combine hs has)
                   else true)
                (combine qs ans)).

Definition dispatch (k : Z) (arg : sexp) : sexp :=
  match k with
  | 0 => bed_model arg
  | 1 => c04_oracle (nthS 0 arg) (nthS 1 arg)
  | _ => L [A (-1)%Z]
  end%Z.
