(* The binary64 side of the sums that Model/PyArrays.v forms in exact arithmetic (its [fl] counts in
   eighths, its mean cell is the exact quotient [OQ num den]).  pybigtools/src/lib.rs accumulates in
   f64; here the same accumulations are written with the IEEE operations of Base/Float.v
   (round-to-nearest-even on exact dyadics), next to the exact sums they are compared with:

     to_array_bins, Summary::Mean     v += (overlap_size as f64) * (interval.value as f64);  c += overlap_size;
                                      v[bin] = v / (c as f64)
     to_entry_array_bins              cell = cell.max(0.0) + 1.0                   (one f64 cell per base of the bin)
                 Summary::Mean        cells.map(|c| c.max(0.0)).sum::<f64>() / (covered.sum::<i32>() as f64)

   Definitions only; proofs are in Proofs/PyArraysIeee.v. *)
From BT Require Import Base.Util Base.Float Model.PyArrays.
Local Open Scope Z_scope.

(* the binary64 number z/8 (z = a value of the model, in eighths); 0 is carried as FFin 0 0, as every
   operation of Base/Float.v returns it *)
Definition f8 (z : Z) : Float.fl := if z =? 0 then fzero else FFin z (-3).

(* ---- to_array_bins: one bin's contributions (overlap size, value) in the order the items arrive *)
Definition sum_step64 (fp : fpmode) (a : Float.fl) (t : Z * Float.fl) : Float.fl :=
  fadd64 fp a (fmul64 fp (f_of_Z (fst t)) (snd t)).
Definition py_sum_ieee (fp : fpmode) (l : list (Z * Float.fl)) : Float.fl := fold_left (sum_step64 fp) l fzero.
(* ... and the sum Model/PyArrays.v forms (eighths), the number of covered bases *)
Definition py_sum_exact (l : list (Z * Z)) : Z := fold_left (fun a t => a + fst t * snd t) l 0.
Definition py_count (l : list (Z * Z)) : Z := fold_left (fun a t => a + fst t) l 0.
Definition py_mean_ieee (fp : fpmode) (l : list (Z * Float.fl)) : Float.fl :=
  fdiv64 fp (py_sum_ieee fp l) (f_of_Z (fold_left (fun a t => a + fst t) l 0)).

(* the mean arm of wig_upd / wig_fin on (covered: i32, value: f64) *)
Definition wig_mean_upd64 (fp : fpmode) (istart iend : Z) (value : Float.fl) (bs be : Z) (d : option (Z * Float.fl))
  : option (Z * Float.fl) :=
  let cv := match d with Some x => x | None => (0, fzero) end in
  let sz := Z.min be iend - Z.max bs istart in
  Some (fst cv + sz, fadd64 fp (snd cv) (fmul64 fp (f_of_Z sz) value)).
Definition wig_mean_fin64 (fp : fpmode) (missing : Float.fl) (d : option (Z * Float.fl)) : Float.fl :=
  match d with None => missing | Some (c, v) => fdiv64 fp v (f_of_Z c) end.
(* what a bin receives from an item: (overlap size, value in eighths) *)
Definition wig_contribs (is_ ie : wval -> Z) (bs be : Z) (items : list wval) : list (Z * Z) :=
  map (fun iv => (Z.min be (ie iv) - Z.max bs (is_ iv), w_val iv)) items.

(* ---- to_entry_array_bins: the per-base depth cells of one bin *)
Definition bed_cell_upd64 (fp : fpmode) (x : Float.fl) : Float.fl := fadd64 fp (Float.fmax x fzero) (FFin 1 0).
Definition bed_sum64 (fp : fpmode) (cells : list Float.fl) : Float.fl :=
  fold_left (fadd64 fp) (map (fun x => Float.fmax x fzero) cells) fzero.
Definition bed_mean64 (fp : fpmode) (missing : Float.fl) (cov : list Z) (cells : list Float.fl) : Float.fl :=
  if existsb (fun c => 0 <? c) cov then fdiv64 fp (bed_sum64 fp cells) (f_of_Z (fold_left Z.add cov 0)) else missing.
(* the exact sum of Model/PyArrays.v [fsum0] as a number (eighths) *)
Definition cell_z (x : PyArrays.fl) : Z := match x with PyArrays.FNaN => 0 | FV z => Z.max z 0 end.
Definition bed_sum_exact (cells : list PyArrays.fl) : Z := fold_left Z.add (map cell_z cells) 0.

(* ---- the generator's domain (tools/vlib/props/C20.py: VALS8 are multiples of 1/8 far below 1024;
   ranges far below 2^24 bases): decidable *)
Definition py_in_domain (l : list (Z * Z)) : bool :=
  forallb (fun t => (0 <=? fst t) && (Z.abs (snd t) <=? 8192)) l && (py_count l <=? 2 ^ 24).
(* depth cells: at most 2^24 bases in a bin, every cell NaN or a multiple of 1/8 of size at most 2^24 *)
Definition py_cells_in_domain (cells : list PyArrays.fl) : bool :=
  forallb (fun x => match x with PyArrays.FNaN => true | FV z => Z.abs z <=? 8 * 2 ^ 24 end) cells
  && (Z.of_nat (length cells) <=? 2 ^ 24).
