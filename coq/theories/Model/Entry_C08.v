(* C08 entry: model output = the sweep model's observables; oracle = the property evaluated naively
   on what the implementation's reader returned: for every level and chromosome the records are in
   order, disjoint, non-empty, at most one resolution long; each record's covered/min/max/sum/sumsq
   equal those of the per-base depth (computed base by base) on its span; the covered counts add up to
   the chromosome's covered bases (so every covered base lies in exactly one record); resolutions
   strictly increase; a range query returns records of the level only and every record meeting the range. *)
From BT Require Import Base.Util Base.Sexp Base.Float Model.RTree Model.BBIFile Model.BigWigWrite Model.BBIRead
  Model.EntryBBI Model.BedSweep Spec.Depth Model.EntryBedSweep.
Local Open Scope N_scope.

Definition rec_stats_ok (dl : list N) (z : sexp) : bool :=
  let s := getN (nthS 0 z) in
  let e := getN (nthS 1 z) in
  let sl := slice_of dl s e in
  (getN (nthS 2 z) =? st_cov idN sl) &&
  match st_min idN sl with Some m => getN (nthS 3 z) =? f32bits_of_N m | None => true end &&
  match st_max idN sl with Some m => getN (nthS 4 z) =? f32bits_of_N m | None => true end &&
  (getN (nthS 5 z) =? f32bits_of_N (st_sum idN sl)) &&
  (getN (nthS 6 z) =? f32bits_of_N (st_sumsq idN sl)).

Fixpoint recs_ok (res : N) (dl : list N) (lo : N) (rs : list sexp) : bool :=
  match rs with
  | [] => true
  | z :: r =>
      let s := getN (nthS 0 z) in
      let e := getN (nthS 1 z) in
      (lo <=? s) && (s <? e) && (e - s <=? res) && rec_stats_ok dl z && recs_ok res dl e r
  end.

Definition chrom_level_ok (res : N) (dl : list N) (ans : sexp) : bool :=
  let rs := getL (nthS 1 ans) in
  (getZ (nthS 0 ans) =? 0)%Z && recs_ok res dl 0 rs &&
  (sumN (map (fun z => getN (nthS 2 z)) rs) =? st_cov idN dl).

Fixpoint strictly_increasing (l : list N) : bool :=
  match l with
  | a :: (b :: _) as r => (a <? b) && strictly_increasing r
  | _ => true
  end.

Fixpoint index_of (r : N) (l : list N) (i : nat) : option nat :=
  match l with [] => None | x :: t => if x =? r then Some i else index_of r t (S i) end.

Definition query_ok (nchroms : nat) (levels : list N) (zooms : list sexp) (q a : sexp) : bool :=
  let ci := getNat (nthS 0 q) in
  if Nat.leb nchroms ci then true else     (* no such chromosome: nothing to say *)
  let s := getN (nthS 1 q) in
  let e := getN (nthS 2 q) in
  match index_of (getN (nthS 3 q)) levels 0 with
  | None => true
  | Some li =>
      let full := getL (nthS 1 (nthS ci (nth li zooms (L [])))) in
      let got := getL (nthS 1 a) in
      (getZ (nthS 0 a) =? 0)%Z &&
      forallb (fun z => existsb (sexp_eqb z) full) got &&
      forallb (fun z => if (getN (nthS 0 z) <? e) && (s <? getN (nthS 1 z)) then existsb (sexp_eqb z) got else true) full
  end.

Definition c08_ok (c out : sexp) : bool :=
  let dls := map (fun ch => depth_list (snd ch)) (case_chroms c) in
  let levels := getList getN (nthS 3 out) in
  let zooms := getL (nthS 4 out) in
  let qs := getL (nthS 4 c) in
  let ans := getL (nthS 5 out) in
  strictly_increasing levels && Nat.eqb (length levels) (length zooms) &&
  forallb (fun lz => let per := getL (snd lz) in
                     Nat.eqb (length per) (length dls) &&
                     forallb (fun da => chrom_level_ok (fst lz) (fst da) (snd da)) (combine dls per))
          (combine levels zooms) &&
  Nat.eqb (length qs) (length ans) &&
  forallb (fun qa => query_ok (length dls) levels zooms (fst qa) (snd qa)) (combine qs ans).

Definition c08_oracle (c out : sexp) : sexp :=
  if negb (Z.eqb (getZ (nthS 0 out)) 0) then sB true     (* refused: C08 speaks about accepted inputs *)
  else sB (c08_ok c out).

Definition dispatch (k : Z) (arg : sexp) : sexp :=
  match k with
  | 0 => bb_model arg
  | 1 => c08_oracle (nthS 0 arg) (nthS 1 arg)
  | _ => L [A (-1)%Z]
  end%Z.
