(* C01 — bigWig write/read round trip.  Statements only, each closed by [exact].

   Level reached so far (list level): what the writer's input checks guarantee about the values
   of a chromosome, that cutting them into blocks of items_per_slot and reading back only the
   blocks the index reports loses nothing, and that a full-span read returns every value
   unchanged and in order except zero-length values at position 0 / at the chromosome end
   (known finding K1).  The byte level (encode section -> bytes -> decode section, index bytes ->
   search) is Properties/C05.v plus the byte-exact correspondence of Model/BigWigWrite.v and
   Model/BBIRead.v with the real writer and reader. *)
From BT Require Import Base.Util Base.Float Model.RTree Model.BBIFile Model.BigWigWrite Model.BBIRead
  Proofs.Chunks Proofs.BigWigQuery.
Local Open Scope N_scope.

(* the writer's per-chromosome check accepts exactly the well-formed value lists:
   start <= end <= chromosome length for every value, and no value starts before its
   predecessor ends *)
Theorem C01_accept_iff : forall len vals, check_chrom len vals = Ok tt <-> wf_vals len vals.
Proof. intros len vals. split; [exact (check_chrom_wf len vals)|exact (wf_check_chrom len vals)]. Qed.
Print Assumptions C01_accept_iff.

(* for every block size: answering a range query from the blocks the index test selects is
   answering it from the whole value list, in order *)
Theorem C01_query_sections : forall len ips s e vals, (0 < ips)%nat -> wf_vals len vals ->
  flat_map (clip_filter s e) (filter (chunk_hit s e) (chunks ips vals)) = clip_filter s e vals.
Proof. exact query_sections. Qed.
Print Assumptions C01_query_sections.

(* full-span read: every accepted value comes back bit-identical and in order, except
   zero-length values at 0 or at the chromosome end *)
Theorem C01_full_span_read : forall len vals, wf_vals len vals ->
  clip_filter 0 len vals = filter (fun v => negb (boundary_zero len v)) vals.
Proof. exact full_span_read. Qed.
Print Assumptions C01_full_span_read.

Theorem C01_roundtrip_exact : forall len vals, wf_vals len vals ->
  Forall (fun v => boundary_zero len v = false) vals -> clip_filter 0 len vals = vals.
Proof. exact full_span_read_exact. Qed.
Print Assumptions C01_roundtrip_exact.

(* ------------------------------------------------------------------------------------------
   Whole-file round trip: the list-level theorems above composed with the byte-exact writer model
   (Model/BigWigWrite.v: bw_write = BigWigWrite::write, bw_write_multipass = write_multipass; the
   output is the exact byte image of the uncompressed file) and the reader model on bytes
   (Model/BBIRead.v: read_info, bw_interval = get_interval fully drained).
   Proofs: Proofs/FileRegions.v (regions of an image), BigWigFile.v (assemble inverted: the file is
   pre' ++ data ++ chromosome tree ++ index ++ zooms ++ magic, the three write_info patches stay
   inside the first 352 bytes), BigWigFileChroms.v (ids, chromosome tree codec), BigWigFileData.v
   (section codec, sortedness), BigWigFileRoundTrip.v (composition with C05's
   search_bytes_eq_scan), BigWigFileThms.v (the two writers).

   Hypotheses, all of them guards of the Rust types or of the property's own wording:
   - opts_ok o        : 2 <= block_size <= 65535 and 1 <= items_per_slot <= 65535 (the node and
                        section item counts are u16 fields);
   (No hypothesis on the zoom options: since /repo adc453b both writers keep at most
    MAX_ZOOM_LEVELS = 10 levels, so write_info's directory stays inside the reserved 304 bytes;
    before that repair the proof needed "at most 10 levels" as a hypothesis - see notes/C01.md.)
   - input_ok sizes inp : chromosome names contain no zero byte (the key is zero padded and the
                        reader trims zeros) and are shorter than 2^32; fewer than 65536 chromosomes
                        (the chromosome tree is one leaf block with a u16 count); chromosome lengths
                        and value bit patterns are < 2^32 (u32 / f32).  "One run per chromosome" is
                        no longer a hypothesis: since /repo 6b10d42 a chromosome whose run reappears
                        is refused, so acceptance implies it (C01_accepted_one_run_per_chromosome);
   - Nlen bs < 2^64   : file offsets are u64.
   [infl] (the decompressor) is arbitrary: the modelled writer emits uncompressed files
   (uncompress_buf_size = 0), for which the reader never calls it. *)
From BT Require Import Base.LE Proofs.RTreeCodec Proofs.FileRegions Proofs.BigWigFile Proofs.BigWigFileChroms
  Proofs.BigWigFileData Proofs.BigWigFileRoundTrip Proofs.BigWigFileThms.

(* the file written by either writer is opened by read_info (never Err/Panic/Fuel): little-endian
   bigWig, version 4, uncompressed, data count at 344, summary at 304, as many zoom directory
   entries as the header announces (at most 10) *)
Theorem C01_read_info : forall fp o sizes inp bs,
  opts_ok o -> input_ok sizes inp -> Nlen bs < U64 ->
  bw_write fp o sizes inp = Ok bs \/ bw_write_multipass fp o sizes inp = Ok bs ->
  exists i, read_info bs = Ok i
    /\ h_big (i_hdr i) = false /\ h_bigwig (i_hdr i) = true /\ h_version (i_hdr i) = 4
    /\ h_ubuf (i_hdr i) = 0 /\ h_full_data_off (i_hdr i) = PRE_DATA - 8 /\ h_summary_off (i_hdr i) = PRE_DATA - 48
    /\ h_zoom_levels (i_hdr i) = Nlen (i_zooms i) /\ Nlen (i_zooms i) <= 10.
Proof.
  intros fp o sizes inp bs Ho Hi Hs H. exact (roundtrip_read_info sizes inp bs (write_roundtrip_for fp o sizes inp bs Ho Hi Hs H)).
Qed.
Print Assumptions C01_read_info.

(* the chromosome table read back is exactly the chromosomes that had data, numbered 0,1,2,... in
   the order of their runs in the input (= first-appearance order, one run per chromosome), with
   the supplied lengths:  expected_chroms sizes inp = map (ci_of sizes) (number 0 (map fst (runs inp))) *)
Theorem C01_chrom_table : forall fp o sizes inp bs i,
  opts_ok o -> input_ok sizes inp -> Nlen bs < U64 ->
  bw_write fp o sizes inp = Ok bs \/ bw_write_multipass fp o sizes inp = Ok bs ->
  read_info bs = Ok i ->
  i_chroms i = map (fun ci => {| ci_name := fst ci; ci_id := snd ci;
                                 ci_len := match lookup (fst ci) sizes with Some l => l | None => 0 end |})
                   (number 0 (map fst (runs inp))).
Proof.
  intros fp o sizes inp bs i Ho Hi Hs H Hri.
  exact (roundtrip_chroms sizes inp bs i (write_roundtrip_for fp o sizes inp bs Ho Hi Hs H) Hri).
Qed.
Print Assumptions C01_chrom_table.

(* every run (c, vs) of the input was accepted by the per-chromosome check against the supplied length *)
Theorem C01_accepted_runs : forall fp o sizes inp bs,
  opts_ok o -> input_ok sizes inp -> Nlen bs < U64 ->
  bw_write fp o sizes inp = Ok bs \/ bw_write_multipass fp o sizes inp = Ok bs ->
  forall c vs, In (c, vs) (runs inp) -> exists len, lookup c sizes = Some len /\ wf_vals len vs /\ vs <> [].
Proof. intros fp o sizes inp bs Ho Hi Hs. exact (write_accepted fp o sizes inp bs). Qed.
Print Assumptions C01_accepted_runs.

(* an accepted input has every chromosome in ONE run, whatever the sort mode *)
Theorem C01_accepted_one_run_per_chromosome : forall fp o sizes inp bs,
  bw_write fp o sizes inp = Ok bs \/ bw_write_multipass fp o sizes inp = Ok bs -> NoDup (map fst (runs inp)).
Proof. exact write_grouped. Qed.
Print Assumptions C01_accepted_one_run_per_chromosome.

(* any range query on the written bytes, for every chromosome that had data: exactly the values
   overlapping [s,e), clipped, in order, bit-identical (header -> chromosome tree -> index search on
   bytes -> block reads -> section decode -> clip), for both writers *)
Theorem C01_query : forall fp o sizes inp bs i infl c vs s e,
  opts_ok o -> input_ok sizes inp -> Nlen bs < U64 ->
  bw_write fp o sizes inp = Ok bs \/ bw_write_multipass fp o sizes inp = Ok bs ->
  read_info bs = Ok i -> In (c, vs) (runs inp) ->
  bw_interval infl bs i c s e = Ok (clip_filter s e vs).
Proof.
  intros fp o sizes inp bs i infl c vs s e Ho Hi Hs H Hri Hin.
  exact (roundtrip_query sizes inp bs i infl c vs s e (write_roundtrip_for fp o sizes inp bs Ho Hi Hs H) Hri Hin).
Qed.
Print Assumptions C01_query.

(* THE ROUND TRIP (single pass): reading the full span of a chromosome that had data returns its
   accepted values, same triples, same order, bit-identical values, except zero-length values at
   position 0 / at the chromosome end (known finding K1, C01_zero_length_boundary_refuted) *)
Theorem C01_roundtrip : forall fp o sizes inp bs i infl c vs len,
  opts_ok o -> input_ok sizes inp -> Nlen bs < U64 ->
  bw_write fp o sizes inp = Ok bs ->
  read_info bs = Ok i -> In (c, vs) (runs inp) -> lookup c sizes = Some len ->
  bw_interval infl bs i c 0 len = Ok (filter (fun v => negb (boundary_zero len v)) vs).
Proof.
  intros fp o sizes inp bs i infl c vs len Ho Hi Hs H.
  exact (write_full_span fp o sizes inp bs Ho Hi Hs (or_introl H) i infl c vs len).
Qed.
Print Assumptions C01_roundtrip.

(* ... and for the two-pass writer *)
Theorem C01_roundtrip_multipass : forall fp o sizes inp bs i infl c vs len,
  opts_ok o -> input_ok sizes inp -> Nlen bs < U64 ->
  bw_write_multipass fp o sizes inp = Ok bs ->
  read_info bs = Ok i -> In (c, vs) (runs inp) -> lookup c sizes = Some len ->
  bw_interval infl bs i c 0 len = Ok (filter (fun v => negb (boundary_zero len v)) vs).
Proof.
  intros fp o sizes inp bs i infl c vs len Ho Hi Hs H.
  exact (write_full_span fp o sizes inp bs Ho Hi Hs (or_intror H) i infl c vs len).
Qed.
Print Assumptions C01_roundtrip_multipass.

(* without boundary zero-length values the file returns the list itself *)
Theorem C01_roundtrip_file_exact : forall fp o sizes inp bs i infl c vs len,
  opts_ok o -> input_ok sizes inp -> Nlen bs < U64 ->
  bw_write fp o sizes inp = Ok bs \/ bw_write_multipass fp o sizes inp = Ok bs ->
  read_info bs = Ok i -> In (c, vs) (runs inp) -> lookup c sizes = Some len ->
  Forall (fun v => boundary_zero len v = false) vs -> bw_interval infl bs i c 0 len = Ok vs.
Proof.
  intros fp o sizes inp bs i infl c vs len Ho Hi Hs H.
  exact (write_full_span_exact fp o sizes inp bs Ho Hi Hs H i infl c vs len).
Qed.
Print Assumptions C01_roundtrip_file_exact.

(* the two writers differ only in the first 352 bytes (zoom count / zoom directory) and in the zoom
   part: data sections, chromosome tree and main index are byte-identical and sit at the same offsets *)
Theorem C01_same_regions : forall fp o sizes inp bs1 bs2,
  bw_write fp o sizes inp = Ok bs1 -> bw_write_multipass fp o sizes inp = Ok bs2 ->
  exists data ct ix pre1 pre2 z1 z2,
    bs1 = pre1 ++ data ++ ct ++ ix ++ z1 /\ bs2 = pre2 ++ data ++ ct ++ ix ++ z2
    /\ length pre1 = 352%nat /\ length pre2 = 352%nat.
Proof. exact bw_same_regions. Qed.
Print Assumptions C01_same_regions.

(* ---- the same, stated on the input itself (Proofs/BigWigFileInput.v) ----
   vals_of inp c   = the input's values for chromosome c, in input order;
   first_app names = the distinct names in first-appearance order;
   "one run per chromosome" is implied by the fact that the input was accepted. *)
From BT Require Import Proofs.BigWigFileInput.

Theorem C01_chrom_table_on_input : forall fp o sizes inp bs,
  opts_ok o -> input_ok sizes inp -> Nlen bs < U64 ->
  bw_write fp o sizes inp = Ok bs \/ bw_write_multipass fp o sizes inp = Ok bs ->
  forall i, read_info bs = Ok i ->
  i_chroms i = map (fun ci => {| ci_name := fst ci; ci_id := snd ci;
                                 ci_len := match lookup (fst ci) sizes with Some l => l | None => 0 end |})
                   (number 0 (first_app (map fst inp))).
Proof. exact on_input_chroms. Qed.
Print Assumptions C01_chrom_table_on_input.

Theorem C01_query_on_input : forall fp o sizes inp bs,
  opts_ok o -> input_ok sizes inp -> Nlen bs < U64 ->
  bw_write fp o sizes inp = Ok bs \/ bw_write_multipass fp o sizes inp = Ok bs ->
  forall i infl c s e, read_info bs = Ok i -> In c (map fst inp) ->
  bw_interval infl bs i c s e = Ok (clip_filter s e (vals_of inp c)).
Proof. exact on_input_query. Qed.
Print Assumptions C01_query_on_input.

Theorem C01_roundtrip_on_input : forall fp o sizes inp bs,
  opts_ok o -> input_ok sizes inp -> Nlen bs < U64 ->
  bw_write fp o sizes inp = Ok bs \/ bw_write_multipass fp o sizes inp = Ok bs ->
  forall i infl c len, read_info bs = Ok i -> In c (map fst inp) -> lookup c sizes = Some len ->
  bw_interval infl bs i c 0 len = Ok (filter (fun v => negb (boundary_zero len v)) (vals_of inp c)).
Proof. exact on_input_roundtrip. Qed.
Print Assumptions C01_roundtrip_on_input.

(* K1: a zero-length value at position 0 is accepted by the writer and not read back *)
Definition k1_opts : opts :=
  {| o_compress := false; o_ips := 2; o_bs := 2; o_izoom := 10; o_maxzooms := 2; o_manual := None; o_sort_all := true |}.
Theorem C01_zero_length_boundary_refuted :
  exists sizes inp bs i c vs len,
    bw_write ieee k1_opts sizes inp = Ok bs /\ read_info bs = Ok i /\ In (c, vs) (runs inp)
    /\ lookup c sizes = Some len /\ bw_interval (fun x => x) bs i c 0 len = Ok [] /\ vs <> [].
Proof.
  exists [([97], 100)], [([97], {| v_start := 0; v_end := 0; v_bits := 1065353216 |})].
  eexists. eexists. exists [97], [{| v_start := 0; v_end := 0; v_bits := 1065353216 |}], 100.
  split; [vm_compute; reflexivity|]. split; [vm_compute; reflexivity|].
  split; [left; reflexivity|]. split; [reflexivity|]. split; [vm_compute; reflexivity|discriminate].
Qed.
Print Assumptions C01_zero_length_boundary_refuted.

(* The split-chromosome input (chromosome "a" comes back after "b", order check off) used to be
   accepted and to lose a:[20,30) on read (finding F2, confirmed on the real code); since /repo
   6b10d42 both writers refuse it *)
Definition split_opts : opts :=
  {| o_compress := false; o_ips := 2; o_bs := 2; o_izoom := 10; o_maxzooms := 2; o_manual := None; o_sort_all := false |}.
Definition split_inp : list item :=
  let v a b := {| v_start := a; v_end := b; v_bits := 1065353216 |} in
  [([97], v 0 10); ([98], v 0 5); ([98], v 5 6); ([98], v 7 8); ([97], v 20 30)].
Theorem C01_split_chromosome_refused :
  bw_write ieee split_opts [([97], 100); ([98], 50)] split_inp = Err E_CHROM_SPLIT
  /\ bw_write_multipass ieee split_opts [([97], 100); ([98], 50)] split_inp = Err E_CHROM_SPLIT.
Proof. split; vm_compute; reflexivity. Qed.
Print Assumptions C01_split_chromosome_refused.

(* Non-vacuity: a two-chromosome, three-section input (items_per_slot = 2: chromosome "a" has
   three values = two sections, "b" one) meets every hypothesis, with both writers; and the reader
   run on the computed bytes returns the values (computed, not derived). *)
Definition ex_opts : opts := k1_opts.
Definition ex_sizes : list (name * N) := [([97], 100); ([98], 50)].
Definition ex_a : list value :=
  [{| v_start := 0; v_end := 10; v_bits := 1065353216 |}; {| v_start := 10; v_end := 20; v_bits := 3212836864 |};
   {| v_start := 30; v_end := 100; v_bits := 2139095039 |}].
Definition ex_b : list value := [{| v_start := 5; v_end := 6; v_bits := 1 |}].
Definition ex_inp : list item := map (pair [97]) ex_a ++ map (pair [98]) ex_b.

Example C01_example_hyps :
  opts_ok ex_opts /\ input_ok ex_sizes ex_inp
  /\ runs ex_inp = [([97], ex_a); ([98], ex_b)]
  /\ (exists bs, bw_write ieee ex_opts ex_sizes ex_inp = Ok bs /\ Nlen bs < U64)
  /\ (exists bs, bw_write_multipass ieee ex_opts ex_sizes ex_inp = Ok bs /\ Nlen bs < U64).
Proof.
  assert (Hr : runs ex_inp = [([97], ex_a); ([98], ex_b)]) by reflexivity.
  split; [unfold opts_ok; cbn; lia|]. split.
  - unfold input_ok. rewrite Hr. cbn [map fst].
    split; [repeat constructor; try discriminate; reflexivity|]. split; [reflexivity|].
    split; [unfold ex_sizes; repeat constructor|unfold ex_inp, ex_a, ex_b; cbn [map app]; repeat constructor].
  - split; [exact Hr|]. split; eexists; (split; [vm_compute; reflexivity|reflexivity]).
Qed.
Example C01_example_run :
  match bw_write ieee ex_opts ex_sizes ex_inp with
  | Ok bs => match read_info bs with
             | Ok i => map (fun c => (ci_name c, ci_id c, ci_len c)) (i_chroms i) = [([97], 0, 100); ([98], 1, 50)]
                       /\ bw_interval (fun x => x) bs i [97] 0 100 = Ok ex_a
                       /\ bw_interval (fun x => x) bs i [98] 0 50 = Ok ex_b
             | _ => False end
  | _ => False end.
Proof. vm_compute. repeat split; reflexivity. Qed.
