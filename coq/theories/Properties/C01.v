(* C01 — bigWig write/read round trip.  Statements only, each closed by [exact].

   Level reached so far (list level): what the writer's input checks guarantee about the values
   of a chromosome, that cutting them into blocks of items_per_slot and reading back only the
   blocks the index reports loses nothing, and that a full-span read returns every value
   unchanged and in order except zero-length values at position 0 / at the chromosome end
   (known finding K1).  The byte level (encode section -> bytes -> decode section, index bytes ->
   search) is Properties/C05.v plus the byte-exact correspondence of Model/BigWigWrite.v and
   Model/BBIRead.v with the real writer and reader. *)
From BT Require Import Base.Util Base.Float Model.RTree Model.BBIFile Model.BigWigWrite Model.BBIRead
  Proofs.Chunks Proofs.BigWigQuery.
Local Open Scope N_scope.

(* the writer's per-chromosome check accepts exactly the well-formed value lists:
   start <= end <= chromosome length for every value, and no value starts before its
   predecessor ends *)
Theorem C01_accept_iff : forall len vals, check_chrom len vals = Ok tt <-> wf_vals len vals.
Proof. intros len vals. split; [exact (check_chrom_wf len vals)|exact (wf_check_chrom len vals)]. Qed.
Print Assumptions C01_accept_iff.

(* for every block size: answering a range query from the blocks the index test selects is
   answering it from the whole value list, in order *)
Theorem C01_query_sections : forall len ips s e vals, (0 < ips)%nat -> wf_vals len vals ->
  flat_map (clip_filter s e) (filter (chunk_hit s e) (chunks ips vals)) = clip_filter s e vals.
Proof. exact query_sections. Qed.
Print Assumptions C01_query_sections.

(* full-span read: every accepted value comes back bit-identical and in order, except
   zero-length values at 0 or at the chromosome end *)
Theorem C01_full_span_read : forall len vals, wf_vals len vals ->
  clip_filter 0 len vals = filter (fun v => negb (boundary_zero len v)) vals.
Proof. exact full_span_read. Qed.
Print Assumptions C01_full_span_read.

Theorem C01_roundtrip_exact : forall len vals, wf_vals len vals ->
  Forall (fun v => boundary_zero len v = false) vals -> clip_filter 0 len vals = vals.
Proof. exact full_span_read_exact. Qed.
Print Assumptions C01_roundtrip_exact.
