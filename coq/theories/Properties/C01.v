(* C01 — bigWig write/read round trip.  Statements only, each closed by [exact].

   Level reached so far (list level): what the writer's input checks guarantee about the values
   of a chromosome, that cutting them into blocks of items_per_slot and reading back only the
   blocks the index reports loses nothing, and that a full-span read returns every value
   unchanged and in order except zero-length values at position 0 / at the chromosome end
   (known finding K1).  The byte level (encode section -> bytes -> decode section, index bytes ->
   search) is Properties/C05.v plus the byte-exact correspondence of Model/BigWigWrite.v and
   Model/BBIRead.v with the real writer and reader. *)
From BT Require Import Base.Util Base.Float Model.RTree Model.BBIFile Model.BigWigWrite Model.BBIRead
  Proofs.Chunks Proofs.BigWigQuery.
Local Open Scope N_scope.

(* the writer's per-chromosome check accepts exactly the well-formed value lists:
   start <= end <= chromosome length for every value, and no value starts before its
   predecessor ends *)
Theorem C01_accept_iff : forall len vals, check_chrom len vals = Ok tt <-> wf_vals len vals.
Proof. intros len vals. split; [exact (check_chrom_wf len vals)|exact (wf_check_chrom len vals)]. Qed.
Print Assumptions C01_accept_iff.

(* for every block size: answering a range query from the blocks the index test selects is
   answering it from the whole value list, in order *)
Theorem C01_query_sections : forall len ips s e vals, (0 < ips)%nat -> wf_vals len vals ->
  flat_map (clip_filter s e) (filter (chunk_hit s e) (chunks ips vals)) = clip_filter s e vals.
Proof. exact query_sections. Qed.
Print Assumptions C01_query_sections.

(* full-span read: every accepted value comes back bit-identical and in order, except
   zero-length values at 0 or at the chromosome end *)
Theorem C01_full_span_read : forall len vals, wf_vals len vals ->
  clip_filter 0 len vals = filter (fun v => negb (boundary_zero len v)) vals.
Proof. exact full_span_read. Qed.
Print Assumptions C01_full_span_read.

Theorem C01_roundtrip_exact : forall len vals, wf_vals len vals ->
  Forall (fun v => boundary_zero len v = false) vals -> clip_filter 0 len vals = vals.
Proof. exact full_span_read_exact. Qed.
Print Assumptions C01_roundtrip_exact.

(* ------------------------------------------------------------------------------------------
   Whole-file round trip: the list-level theorems above composed with the byte-exact writer model
   (Model/BigWigWrite.v: bw_write = BigWigWrite::write, bw_write_multipass = write_multipass; the
   output is the exact byte image of the uncompressed file) and the reader model on bytes
   (Model/BBIRead.v: read_info, bw_interval = get_interval fully drained).
   Proofs: Proofs/FileRegions.v (regions of an image), BigWigFile.v (assemble inverted: the file is
   pre' ++ data ++ chromosome tree ++ index ++ zooms ++ magic, the three write_info patches stay
   inside the first 352 bytes), BigWigFileChroms.v (ids, chromosome tree codec), BigWigFileData.v
   (section codec, sortedness), BigWigFileRoundTrip.v (composition with C05's
   search_bytes_eq_scan), BigWigFileThms.v (the two writers).

   Hypotheses, all of them guards of the Rust types or of the property's own wording:
   - opts_ok o        : 2 <= block_size <= 65535 and 1 <= items_per_slot <= 65535 (the node and
                        section item counts are u16 fields);
   (No hypothesis on the zoom options: since /repo 3a3ac98 both writers keep at most
    MAX_ZOOM_LEVELS = 10 levels, so write_info's directory stays inside the reserved 304 bytes;
    before that repair the proof needed "at most 10 levels" as a hypothesis - see notes/C01.md.)
   - input_ok sizes inp : chromosome names contain no zero byte (the key is zero padded and the
                        reader trims zeros) and are shorter than 2^32; fewer than 65536 chromosomes
                        (the chromosome tree is one leaf block with a u16 count); chromosome lengths
                        and value bit patterns are < 2^32 (u32 / f32).  "One run per chromosome" is
                        no longer a hypothesis: since /repo 4ea85d7 a chromosome whose run reappears
                        is refused, so acceptance implies it (C01_accepted_one_run_per_chromosome);
   - Nlen bs < 2^64   : file offsets are u64.
   [infl] (the decompressor) is arbitrary: the modelled writer emits uncompressed files
   (uncompress_buf_size = 0), for which the reader never calls it.  Compressed files: the section
   COMPRESSED FILES further down (C01_*_compressed), for every round-tripping compressor. *)
From BT Require Import Base.LE Proofs.RTreeCodec Proofs.FileRegions Proofs.BigWigFile Proofs.BigWigFileChroms
  Proofs.BigWigFileData Proofs.BigWigFileRoundTrip Proofs.BigWigFileThms.

(* the file written by either writer is opened by read_info (never Err/Panic/Fuel): little-endian
   bigWig, version 4, uncompressed, data count at 344, summary at 304, as many zoom directory
   entries as the header announces (at most 10) *)
Theorem C01_read_info : forall fp o sizes inp bs,
  opts_ok o -> input_ok sizes inp -> Nlen bs < U64 ->
  bw_write fp o sizes inp = Ok bs \/ bw_write_multipass fp o sizes inp = Ok bs ->
  exists i, read_info bs = Ok i
    /\ h_big (i_hdr i) = false /\ h_bigwig (i_hdr i) = true /\ h_version (i_hdr i) = 4
    /\ h_ubuf (i_hdr i) = 0 /\ h_full_data_off (i_hdr i) = PRE_DATA - 8 /\ h_summary_off (i_hdr i) = PRE_DATA - 48
    /\ h_zoom_levels (i_hdr i) = Nlen (i_zooms i) /\ Nlen (i_zooms i) <= 10.
Proof.
  intros fp o sizes inp bs Ho Hi Hs H. exact (roundtrip_read_info sizes inp bs (write_roundtrip_for fp o sizes inp bs Ho Hi Hs H)).
Qed.
Print Assumptions C01_read_info.

(* the chromosome table read back is exactly the chromosomes that had data, numbered 0,1,2,... in
   the order of their runs in the input (= first-appearance order, one run per chromosome), with
   the supplied lengths:  expected_chroms sizes inp = map (ci_of sizes) (number 0 (map fst (runs inp))) *)
Theorem C01_chrom_table : forall fp o sizes inp bs i,
  opts_ok o -> input_ok sizes inp -> Nlen bs < U64 ->
  bw_write fp o sizes inp = Ok bs \/ bw_write_multipass fp o sizes inp = Ok bs ->
  read_info bs = Ok i ->
  i_chroms i = map (fun ci => {| ci_name := fst ci; ci_id := snd ci;
                                 ci_len := match lookup (fst ci) sizes with Some l => l | None => 0 end |})
                   (number 0 (map fst (runs inp))).
Proof.
  intros fp o sizes inp bs i Ho Hi Hs H Hri.
  exact (roundtrip_chroms sizes inp bs i (write_roundtrip_for fp o sizes inp bs Ho Hi Hs H) Hri).
Qed.
Print Assumptions C01_chrom_table.

(* every run (c, vs) of the input was accepted by the per-chromosome check against the supplied length *)
Theorem C01_accepted_runs : forall fp o sizes inp bs,
  opts_ok o -> input_ok sizes inp -> Nlen bs < U64 ->
  bw_write fp o sizes inp = Ok bs \/ bw_write_multipass fp o sizes inp = Ok bs ->
  forall c vs, In (c, vs) (runs inp) -> exists len, lookup c sizes = Some len /\ wf_vals len vs /\ vs <> [].
Proof. intros fp o sizes inp bs Ho Hi Hs. exact (write_accepted fp o sizes inp bs). Qed.
Print Assumptions C01_accepted_runs.

(* an accepted input has every chromosome in ONE run, whatever the sort mode *)
Theorem C01_accepted_one_run_per_chromosome : forall fp o sizes inp bs,
  bw_write fp o sizes inp = Ok bs \/ bw_write_multipass fp o sizes inp = Ok bs -> NoDup (map fst (runs inp)).
Proof. exact write_grouped. Qed.
Print Assumptions C01_accepted_one_run_per_chromosome.

(* any range query on the written bytes, for every chromosome that had data: exactly the values
   overlapping [s,e), clipped, in order, bit-identical (header -> chromosome tree -> index search on
   bytes -> block reads -> section decode -> clip), for both writers *)
Theorem C01_query : forall fp o sizes inp bs i infl c vs s e,
  opts_ok o -> input_ok sizes inp -> Nlen bs < U64 ->
  bw_write fp o sizes inp = Ok bs \/ bw_write_multipass fp o sizes inp = Ok bs ->
  read_info bs = Ok i -> In (c, vs) (runs inp) ->
  bw_interval infl bs i c s e = Ok (clip_filter s e vs).
Proof.
  intros fp o sizes inp bs i infl c vs s e Ho Hi Hs H Hri Hin.
  exact (roundtrip_query sizes inp bs i infl c vs s e (write_roundtrip_for fp o sizes inp bs Ho Hi Hs H) Hri Hin).
Qed.
Print Assumptions C01_query.

(* Consequence for callers: a non-empty query [s,e) inside a wider one [s',e') returns exactly the wider
   answer clip-filtered again (same values, same order, bit-identical) - zooming in client-side and asking
   the file again are interchangeable (Proofs/BwNarrow.clip_filter_narrow). *)
From BT Require Proofs.BwNarrow.
Theorem C01_query_narrow : forall fp o sizes inp bs i infl c vs s e s' e',
  opts_ok o -> input_ok sizes inp -> Nlen bs < U64 ->
  bw_write fp o sizes inp = Ok bs \/ bw_write_multipass fp o sizes inp = Ok bs ->
  read_info bs = Ok i -> In (c, vs) (runs inp) -> s' <= s -> e <= e' -> s < e ->
  exists wide, bw_interval infl bs i c s' e' = Ok wide
    /\ bw_interval infl bs i c s e = Ok (clip_filter s e wide).
Proof.
  intros fp o sizes inp bs i infl c vs s e s' e' Ho Hi Hs H Hri Hin H1 H2 H3.
  exists (clip_filter s' e' vs). split.
  - exact (C01_query fp o sizes inp bs i infl c vs s' e' Ho Hi Hs H Hri Hin).
  - rewrite (C01_query fp o sizes inp bs i infl c vs s e Ho Hi Hs H Hri Hin). f_equal.
    symmetry. apply Proofs.BwNarrow.clip_filter_narrow; assumption.
Qed.
Print Assumptions C01_query_narrow.

(* THE ROUND TRIP (single pass): reading the full span of a chromosome that had data returns its
   accepted values, same triples, same order, bit-identical values, except zero-length values at
   position 0 / at the chromosome end (known finding K1, C01_zero_length_boundary_refuted) *)
Theorem C01_roundtrip : forall fp o sizes inp bs i infl c vs len,
  opts_ok o -> input_ok sizes inp -> Nlen bs < U64 ->
  bw_write fp o sizes inp = Ok bs ->
  read_info bs = Ok i -> In (c, vs) (runs inp) -> lookup c sizes = Some len ->
  bw_interval infl bs i c 0 len = Ok (filter (fun v => negb (boundary_zero len v)) vs).
Proof.
  intros fp o sizes inp bs i infl c vs len Ho Hi Hs H.
  exact (write_full_span fp o sizes inp bs Ho Hi Hs (or_introl H) i infl c vs len).
Qed.
Print Assumptions C01_roundtrip.

(* ... and for the two-pass writer *)
Theorem C01_roundtrip_multipass : forall fp o sizes inp bs i infl c vs len,
  opts_ok o -> input_ok sizes inp -> Nlen bs < U64 ->
  bw_write_multipass fp o sizes inp = Ok bs ->
  read_info bs = Ok i -> In (c, vs) (runs inp) -> lookup c sizes = Some len ->
  bw_interval infl bs i c 0 len = Ok (filter (fun v => negb (boundary_zero len v)) vs).
Proof.
  intros fp o sizes inp bs i infl c vs len Ho Hi Hs H.
  exact (write_full_span fp o sizes inp bs Ho Hi Hs (or_intror H) i infl c vs len).
Qed.
Print Assumptions C01_roundtrip_multipass.

(* without boundary zero-length values the file returns the list itself *)
Theorem C01_roundtrip_file_exact : forall fp o sizes inp bs i infl c vs len,
  opts_ok o -> input_ok sizes inp -> Nlen bs < U64 ->
  bw_write fp o sizes inp = Ok bs \/ bw_write_multipass fp o sizes inp = Ok bs ->
  read_info bs = Ok i -> In (c, vs) (runs inp) -> lookup c sizes = Some len ->
  Forall (fun v => boundary_zero len v = false) vs -> bw_interval infl bs i c 0 len = Ok vs.
Proof.
  intros fp o sizes inp bs i infl c vs len Ho Hi Hs H.
  exact (write_full_span_exact fp o sizes inp bs Ho Hi Hs H i infl c vs len).
Qed.
Print Assumptions C01_roundtrip_file_exact.

(* the two writers differ only in the first 352 bytes (zoom count / zoom directory) and in the zoom
   part: data sections, chromosome tree and main index are byte-identical and sit at the same offsets *)
Theorem C01_same_regions : forall fp o sizes inp bs1 bs2,
  bw_write fp o sizes inp = Ok bs1 -> bw_write_multipass fp o sizes inp = Ok bs2 ->
  exists data ct ix pre1 pre2 z1 z2,
    bs1 = pre1 ++ data ++ ct ++ ix ++ z1 /\ bs2 = pre2 ++ data ++ ct ++ ix ++ z2
    /\ length pre1 = 352%nat /\ length pre2 = 352%nat.
Proof. exact bw_same_regions. Qed.
Print Assumptions C01_same_regions.

(* ---- the same, stated on the input itself (Proofs/BigWigFileInput.v) ----
   vals_of inp c   = the input's values for chromosome c, in input order;
   first_app names = the distinct names in first-appearance order;
   "one run per chromosome" is implied by the fact that the input was accepted. *)
From BT Require Import Proofs.BigWigFileInput.

Theorem C01_chrom_table_on_input : forall fp o sizes inp bs,
  opts_ok o -> input_ok sizes inp -> Nlen bs < U64 ->
  bw_write fp o sizes inp = Ok bs \/ bw_write_multipass fp o sizes inp = Ok bs ->
  forall i, read_info bs = Ok i ->
  i_chroms i = map (fun ci => {| ci_name := fst ci; ci_id := snd ci;
                                 ci_len := match lookup (fst ci) sizes with Some l => l | None => 0 end |})
                   (number 0 (first_app (map fst inp))).
Proof. exact on_input_chroms. Qed.
Print Assumptions C01_chrom_table_on_input.

Theorem C01_query_on_input : forall fp o sizes inp bs,
  opts_ok o -> input_ok sizes inp -> Nlen bs < U64 ->
  bw_write fp o sizes inp = Ok bs \/ bw_write_multipass fp o sizes inp = Ok bs ->
  forall i infl c s e, read_info bs = Ok i -> In c (map fst inp) ->
  bw_interval infl bs i c s e = Ok (clip_filter s e (vals_of inp c)).
Proof. exact on_input_query. Qed.
Print Assumptions C01_query_on_input.

Theorem C01_roundtrip_on_input : forall fp o sizes inp bs,
  opts_ok o -> input_ok sizes inp -> Nlen bs < U64 ->
  bw_write fp o sizes inp = Ok bs \/ bw_write_multipass fp o sizes inp = Ok bs ->
  forall i infl c len, read_info bs = Ok i -> In c (map fst inp) -> lookup c sizes = Some len ->
  bw_interval infl bs i c 0 len = Ok (filter (fun v => negb (boundary_zero len v)) (vals_of inp c)).
Proof. exact on_input_roundtrip. Qed.
Print Assumptions C01_roundtrip_on_input.

(* K1: a zero-length value at position 0 is accepted by the writer and not read back *)
Definition k1_opts : opts :=
  {| o_compress := false; o_ips := 2; o_bs := 2; o_izoom := 10; o_maxzooms := 2; o_manual := None; o_sort_all := true |}.
Theorem C01_zero_length_boundary_refuted :
  exists sizes inp bs i c vs len,
    bw_write ieee k1_opts sizes inp = Ok bs /\ read_info bs = Ok i /\ In (c, vs) (runs inp)
    /\ lookup c sizes = Some len /\ bw_interval (fun x => x) bs i c 0 len = Ok [] /\ vs <> [].
Proof.
  exists [([97], 100)], [([97], {| v_start := 0; v_end := 0; v_bits := 1065353216 |})].
  eexists. eexists. exists [97], [{| v_start := 0; v_end := 0; v_bits := 1065353216 |}], 100.
  split; [vm_compute; reflexivity|]. split; [vm_compute; reflexivity|].
  split; [left; reflexivity|]. split; [reflexivity|]. split; [vm_compute; reflexivity|discriminate].
Qed.
Print Assumptions C01_zero_length_boundary_refuted.

(* The split-chromosome input (chromosome "a" comes back after "b", order check off) used to be
   accepted and to lose a:[20,30) on read (finding F2, confirmed on the real code); since /repo
   4ea85d7 both writers refuse it *)
Definition split_opts : opts :=
  {| o_compress := false; o_ips := 2; o_bs := 2; o_izoom := 10; o_maxzooms := 2; o_manual := None; o_sort_all := false |}.
Definition split_inp : list item :=
  let v a b := {| v_start := a; v_end := b; v_bits := 1065353216 |} in
  [([97], v 0 10); ([98], v 0 5); ([98], v 5 6); ([98], v 7 8); ([97], v 20 30)].
Theorem C01_split_chromosome_refused :
  bw_write ieee split_opts [([97], 100); ([98], 50)] split_inp = Err E_CHROM_SPLIT
  /\ bw_write_multipass ieee split_opts [([97], 100); ([98], 50)] split_inp = Err E_CHROM_SPLIT.
Proof. split; vm_compute; reflexivity. Qed.
Print Assumptions C01_split_chromosome_refused.

(* Non-vacuity: a two-chromosome, three-section input (items_per_slot = 2: chromosome "a" has
   three values = two sections, "b" one) meets every hypothesis, with both writers; and the reader
   run on the computed bytes returns the values (computed, not derived). *)
Definition ex_opts : opts := k1_opts.
Definition ex_sizes : list (name * N) := [([97], 100); ([98], 50)].
Definition ex_a : list value :=
  [{| v_start := 0; v_end := 10; v_bits := 1065353216 |}; {| v_start := 10; v_end := 20; v_bits := 3212836864 |};
   {| v_start := 30; v_end := 100; v_bits := 2139095039 |}].
Definition ex_b : list value := [{| v_start := 5; v_end := 6; v_bits := 1 |}].
Definition ex_inp : list item := map (pair [97]) ex_a ++ map (pair [98]) ex_b.

Example C01_example_hyps :
  opts_ok ex_opts /\ input_ok ex_sizes ex_inp
  /\ runs ex_inp = [([97], ex_a); ([98], ex_b)]
  /\ (exists bs, bw_write ieee ex_opts ex_sizes ex_inp = Ok bs /\ Nlen bs < U64)
  /\ (exists bs, bw_write_multipass ieee ex_opts ex_sizes ex_inp = Ok bs /\ Nlen bs < U64).
Proof.
  assert (Hr : runs ex_inp = [([97], ex_a); ([98], ex_b)]) by reflexivity.
  split; [unfold opts_ok; cbn; lia|]. split.
  - unfold input_ok. rewrite Hr. cbn [map fst].
    split; [repeat constructor; try discriminate; reflexivity|]. split; [reflexivity|].
    split; [unfold ex_sizes; repeat constructor|unfold ex_inp, ex_a, ex_b; cbn [map app]; repeat constructor].
  - split; [exact Hr|]. split; eexists; (split; [vm_compute; reflexivity|reflexivity]).
Qed.
Example C01_example_run :
  match bw_write ieee ex_opts ex_sizes ex_inp with
  | Ok bs => match read_info bs with
             | Ok i => map (fun c => (ci_name c, ci_id c, ci_len c)) (i_chroms i) = [([97], 0, 100); ([98], 1, 50)]
                       /\ bw_interval (fun x => x) bs i [97] 0 100 = Ok ex_a
                       /\ bw_interval (fun x => x) bs i [98] 0 50 = Ok ex_b
             | _ => False end
  | _ => False end.
Proof. vm_compute. repeat split; reflexivity. Qed.

(* ------------------------------------------------------------------------------------------
   COMPRESSED FILES ("for every combination of compression, ...").
   Model/BigWigWriteZ.v (owned by C09) is the writer model with the block compressor as a parameter:
   bw_write_z cmp / bw_write_multipass_z cmp pass every data and zoom section through [cmp] when
   options.compress is set, write uncompress_buf_size as bbiwrite.rs computes it, lay everything
   behind the first block out at the offsets the COMPRESSED sizes give, and (two passes) select the
   automatic zoom levels from the compressed data size, as write_multipass does.  With compression
   off they ARE bw_write / bw_write_multipass (C09_model_uncompressed).

   The theorems below are the whole-file theorems above for those bytes, for EVERY compressor [cmp]
   and EVERY decompressor [infl] such that   o_compress o = true -> forall b, infl (cmp b) = b
   (nothing else is asked of the pair: no size bound, no injectivity beyond the round trip, compressed
   blocks may even be empty; when options.compress is off the hypothesis is void and the statements
   are the uncompressed ones).  Same hypotheses on options / input / file length as above.
   Proofs: Proofs/BigWigFileZ.v (layout from C09's assemble_z_inv; header, chromosome tree, C05's
   search_bytes_eq_scan on the index over the compressed blocks, block read through [infl], section
   codec), Proofs/BigWigFileZInput.v.

   What this says about the code: libdeflater is not modelled; "compress_to_vec then
   decompress_to_vec_bounded is the identity" is the hypothesis on (cmp, infl).  The correspondence
   check compares real compressed files through the real reader (answers = model answers = oracle);
   block-level inflation of real files by an independent zlib is C09's check. *)
From BT Require Import Model.BigWigWriteZ Proofs.BigWigFileZ Proofs.BigWigFileZInput.

(* the compressed file opens; the buffer size the reader will allocate is 0 exactly when compression
   is off and fits the u32 header field; the chromosome table is the one of C01_chrom_table *)
Theorem C01_read_info_compressed : forall cmp fp o sizes inp bs,
  opts_ok o -> input_ok sizes inp -> Nlen bs < U64 ->
  bw_write_z cmp fp o sizes inp = Ok bs \/ bw_write_multipass_z cmp fp o sizes inp = Ok bs ->
  exists i, read_info bs = Ok i
    /\ h_big (i_hdr i) = false /\ h_bigwig (i_hdr i) = true /\ h_version (i_hdr i) = 4
    /\ (h_ubuf (i_hdr i) = 0 <-> o_compress o = false) /\ h_ubuf (i_hdr i) < U32
    /\ h_full_data_off (i_hdr i) = PRE_DATA - 8 /\ h_summary_off (i_hdr i) = PRE_DATA - 48
    /\ h_zoom_levels (i_hdr i) = Nlen (i_zooms i) /\ Nlen (i_zooms i) <= 10
    /\ i_chroms i = map (fun ci => {| ci_name := fst ci; ci_id := snd ci;
                                      ci_len := match lookup (fst ci) sizes with Some l => l | None => 0 end |})
                        (number 0 (map fst (runs inp))).
Proof. intros cmp fp o sizes inp bs Ho Hi Hs H. exact (z_read_info cmp fp o sizes inp bs Ho Hi Hs H). Qed.
Print Assumptions C01_read_info_compressed.

(* the uncompress_buf_size the READER sees is >= the uncompressed size of every block of the file:
   every data section and every section of every zoom level computed (single pass: including levels
   write_zooms then skips; two passes: the levels selected from the compressed data size), so
   inflating any block into a buffer of that size cannot overflow (cf. C09_buf_size, which states it
   for the header bytes) *)
Theorem C01_buf_size_compressed : forall cmp fp o sizes inp bs,
  bw_write_z cmp fp o sizes inp = Ok bs -> opts_ok o -> input_ok sizes inp -> Nlen bs < U64 ->
  exists ids outs sum data zooms,
    bw_collect fp o sizes inp = Ok (ids, outs, sum, data)
    /\ bw_zoom_levels fp o outs (zoom_sizes_single o) = Ok zooms
    /\ forall i, read_info bs = Ok i -> o_compress o = true ->
         Forall (fun s => Nlen (sd_bytes s) <= h_ubuf (i_hdr i)) (data ++ flat_map zl_secs zooms).
Proof. exact z_buf_covers_single. Qed.
Print Assumptions C01_buf_size_compressed.

Theorem C01_buf_size_compressed_multipass : forall cmp fp o sizes inp bs,
  bw_write_multipass_z cmp fp o sizes inp = Ok bs -> opts_ok o -> input_ok sizes inp -> Nlen bs < U64 ->
  exists ids outs sum data zooms,
    bw_collect fp o sizes inp = Ok (ids, outs, sum, data)
    /\ bw_zoom_levels fp o outs (zoom_sizes_two_pass o sum (total_zoom_counts outs)
                                   (Nlen (data_bytes (map (zsec cmp (o_compress o)) data)))) = Ok zooms
    /\ forall i, read_info bs = Ok i -> o_compress o = true ->
         Forall (fun s => Nlen (sd_bytes s) <= h_ubuf (i_hdr i)) (data ++ flat_map zl_secs zooms).
Proof. exact z_buf_covers_multipass. Qed.
Print Assumptions C01_buf_size_compressed_multipass.

Theorem C01_chrom_table_compressed : forall cmp fp o sizes inp bs i,
  opts_ok o -> input_ok sizes inp -> Nlen bs < U64 ->
  bw_write_z cmp fp o sizes inp = Ok bs \/ bw_write_multipass_z cmp fp o sizes inp = Ok bs ->
  read_info bs = Ok i ->
  i_chroms i = map (fun ci => {| ci_name := fst ci; ci_id := snd ci;
                                 ci_len := match lookup (fst ci) sizes with Some l => l | None => 0 end |})
                   (number 0 (map fst (runs inp))).
Proof. intros cmp fp o sizes inp bs i Ho Hi Hs H. exact (z_chroms cmp fp o sizes inp bs Ho Hi Hs H i). Qed.
Print Assumptions C01_chrom_table_compressed.

Theorem C01_accepted_runs_compressed : forall cmp fp o sizes inp bs,
  opts_ok o -> input_ok sizes inp -> Nlen bs < U64 ->
  bw_write_z cmp fp o sizes inp = Ok bs \/ bw_write_multipass_z cmp fp o sizes inp = Ok bs ->
  forall c vs, In (c, vs) (runs inp) -> exists len, lookup c sizes = Some len /\ wf_vals len vs /\ vs <> [].
Proof. intros cmp fp o sizes inp bs Ho Hi Hs H. exact (z_accepted cmp fp o sizes inp bs Ho Hi Hs H). Qed.
Print Assumptions C01_accepted_runs_compressed.

(* any range query on the compressed bytes: header -> chromosome tree -> index search on bytes ->
   block read -> inflate -> section decode -> clip = the clipped overlapping input values *)
Theorem C01_query_compressed : forall cmp infl fp o sizes inp bs i c vs s e,
  (o_compress o = true -> forall b, infl (cmp b) = b) ->
  opts_ok o -> input_ok sizes inp -> Nlen bs < U64 ->
  bw_write_z cmp fp o sizes inp = Ok bs \/ bw_write_multipass_z cmp fp o sizes inp = Ok bs ->
  read_info bs = Ok i -> In (c, vs) (runs inp) ->
  bw_interval infl bs i c s e = Ok (clip_filter s e vs).
Proof.
  intros cmp infl fp o sizes inp bs i c vs s e Hrt Ho Hi Hs H.
  exact (z_query cmp fp o sizes inp bs Ho Hi Hs H infl Hrt i c vs s e).
Qed.
Print Assumptions C01_query_compressed.

(* THE ROUND TRIP on compressed files, both writers *)
Theorem C01_roundtrip_compressed : forall cmp infl fp o sizes inp bs i c vs len,
  (o_compress o = true -> forall b, infl (cmp b) = b) ->
  opts_ok o -> input_ok sizes inp -> Nlen bs < U64 ->
  bw_write_z cmp fp o sizes inp = Ok bs \/ bw_write_multipass_z cmp fp o sizes inp = Ok bs ->
  read_info bs = Ok i -> In (c, vs) (runs inp) -> lookup c sizes = Some len ->
  bw_interval infl bs i c 0 len = Ok (filter (fun v => negb (boundary_zero len v)) vs).
Proof.
  intros cmp infl fp o sizes inp bs i c vs len Hrt Ho Hi Hs H.
  exact (z_full_span cmp fp o sizes inp bs Ho Hi Hs H infl Hrt i c vs len).
Qed.
Print Assumptions C01_roundtrip_compressed.

Theorem C01_roundtrip_file_exact_compressed : forall cmp infl fp o sizes inp bs i c vs len,
  (o_compress o = true -> forall b, infl (cmp b) = b) ->
  opts_ok o -> input_ok sizes inp -> Nlen bs < U64 ->
  bw_write_z cmp fp o sizes inp = Ok bs \/ bw_write_multipass_z cmp fp o sizes inp = Ok bs ->
  read_info bs = Ok i -> In (c, vs) (runs inp) -> lookup c sizes = Some len ->
  Forall (fun v => boundary_zero len v = false) vs -> bw_interval infl bs i c 0 len = Ok vs.
Proof.
  intros cmp infl fp o sizes inp bs i c vs len Hrt Ho Hi Hs H.
  exact (z_full_span_exact cmp fp o sizes inp bs Ho Hi Hs H infl Hrt i c vs len).
Qed.
Print Assumptions C01_roundtrip_file_exact_compressed.

(* ... stated on the input itself *)
Theorem C01_chrom_table_compressed_on_input : forall cmp fp o sizes inp bs,
  opts_ok o -> input_ok sizes inp -> Nlen bs < U64 ->
  bw_write_z cmp fp o sizes inp = Ok bs \/ bw_write_multipass_z cmp fp o sizes inp = Ok bs ->
  forall i, read_info bs = Ok i ->
  i_chroms i = map (fun ci => {| ci_name := fst ci; ci_id := snd ci;
                                 ci_len := match lookup (fst ci) sizes with Some l => l | None => 0 end |})
                   (number 0 (first_app (map fst inp))).
Proof. exact z_on_input_chroms. Qed.
Print Assumptions C01_chrom_table_compressed_on_input.

Theorem C01_query_compressed_on_input : forall cmp infl fp o sizes inp bs,
  (o_compress o = true -> forall b, infl (cmp b) = b) ->
  opts_ok o -> input_ok sizes inp -> Nlen bs < U64 ->
  bw_write_z cmp fp o sizes inp = Ok bs \/ bw_write_multipass_z cmp fp o sizes inp = Ok bs ->
  forall i c s e, read_info bs = Ok i -> In c (map fst inp) ->
  bw_interval infl bs i c s e = Ok (clip_filter s e (vals_of inp c)).
Proof. exact z_on_input_query. Qed.
Print Assumptions C01_query_compressed_on_input.

Theorem C01_roundtrip_compressed_on_input : forall cmp infl fp o sizes inp bs,
  (o_compress o = true -> forall b, infl (cmp b) = b) ->
  opts_ok o -> input_ok sizes inp -> Nlen bs < U64 ->
  bw_write_z cmp fp o sizes inp = Ok bs \/ bw_write_multipass_z cmp fp o sizes inp = Ok bs ->
  forall i c len, read_info bs = Ok i -> In c (map fst inp) -> lookup c sizes = Some len ->
  bw_interval infl bs i c 0 len = Ok (filter (fun v => negb (boundary_zero len v)) (vals_of inp c)).
Proof. exact z_on_input_roundtrip. Qed.
Print Assumptions C01_roundtrip_compressed_on_input.

(* Non-vacuity: the example input above written COMPRESSED (options.compress on, two manual zoom
   levels so that zoom sections exist) with a toy compressor (two marker bytes + the block reversed;
   toy_infl inverts it: toy_rt) meets every hypothesis with both writers; the compressed file is not
   the uncompressed one (every block grows by 2 bytes, so all later offsets move); the header's buffer
   size is 64 (the largest uncompressed block, a zoom section of two records); and the reader run on
   the computed bytes, inflating with toy_infl, returns the values (computed, not derived) - while
   with the identity as decompressor it does not. *)
Definition exz_opts : opts :=
  {| o_compress := true; o_ips := 2; o_bs := 2; o_izoom := 10; o_maxzooms := 10; o_manual := Some [5; 40]; o_sort_all := true |}.
Example C01_compressed_example_hyps :
  (forall b, toy_infl (toy_cmp b) = b)
  /\ opts_ok exz_opts /\ input_ok ex_sizes ex_inp
  /\ (exists bs, bw_write_z toy_cmp ieee exz_opts ex_sizes ex_inp = Ok bs /\ Nlen bs < U64
                 /\ bw_write ieee exz_opts ex_sizes ex_inp <> Ok bs)
  /\ (exists bs, bw_write_multipass_z toy_cmp ieee exz_opts ex_sizes ex_inp = Ok bs /\ Nlen bs < U64).
Proof.
  split; [exact toy_rt|]. split; [unfold opts_ok; cbn; lia|].
  split; [exact (proj1 (proj2 C01_example_hyps))|].
  split; eexists; (split; [vm_compute; reflexivity|]); [split; [reflexivity|]|reflexivity].
  vm_compute. intros E. discriminate E.
Qed.
Example C01_compressed_example_run :
  match bw_write_z toy_cmp ieee exz_opts ex_sizes ex_inp, bw_write_multipass_z toy_cmp ieee exz_opts ex_sizes ex_inp with
  | Ok bs, Ok bs2 =>
      match read_info bs, read_info bs2 with
      | Ok i, Ok i2 =>
          map (fun c => (ci_name c, ci_id c, ci_len c)) (i_chroms i) = [([97], 0, 100); ([98], 1, 50)]
          /\ h_ubuf (i_hdr i) = 64 /\ Nlen (i_zooms i) = 2
          /\ bw_interval toy_infl bs i [97] 0 100 = Ok ex_a
          /\ bw_interval toy_infl bs i [98] 0 50 = Ok ex_b
          /\ bw_interval toy_infl bs i [97] 15 40 = Ok [{| v_start := 15; v_end := 20; v_bits := 3212836864 |};
                                                       {| v_start := 30; v_end := 40; v_bits := 2139095039 |}]
          /\ bw_interval (fun x => x) bs i [97] 0 100 <> Ok ex_a
          /\ bw_interval toy_infl bs2 i2 [97] 0 100 = Ok ex_a
          /\ bw_interval toy_infl bs2 i2 [98] 0 50 = Ok ex_b
      | _, _ => False end
  | _, _ => False end.
Proof. vm_compute. repeat split; try reflexivity. intros E; discriminate E. Qed.
