(* C01 — bigWig write/read round trip.  Statements only. *)
From BT Require Import Base.Util.
