(* C12 — the staging buffer delivers every byte once, in order, under every interleaving.
   Only statements, closed by [exact], with Print Assumptions beneath each.

   Machine: Model/TempBuf.v (one transition per shared-memory access of tempfilebuffer.rs).
   Quantifiers: every initial destination contents [d0], every producer history [ops] (any number
   of writes of any sizes and flushes, then the drop), every legal consumer program [prog]
   (Model.TempBuf.legal: (a) switch; await_real_file, (b) expect_closed_write, (c) len(),
   (d) is_real_file_ready() anywhere, and their legal combinations), every schedule [sched]
   (any list of thread ids; a disabled step stutters).  Staging in memory and in a temporary
   file are the same machine (see the header of Model/TempBuf.v). *)
From BT Require Import Base.Util Model.TempBuf Proofs.TempBufInv Proofs.TempBufThms.

(* Delivery.  Whatever the destination handed back by await_real_file / filled by
   expect_closed_write contains, at any moment of any run, is dest0 followed by every written
   byte, once, in order; and when both threads are finished and the program ends in one of these
   two calls, the destination has been delivered. *)
Theorem C12_delivery : forall d0 ops prog sched, legal false prog = true ->
  let s := run d0 sched (init ops prog) in
  (forall r, c_dest s = Some r -> r = d0 ++ written ops) /\
  (consumes prog = true -> terminal s = true -> c_dest s = Some (d0 ++ written ops)).
Proof. exact tempbuf_delivery. Qed.
Print Assumptions C12_delivery.

(* The same for a plain list of writes: destination = dest0 ++ concat writes. *)
Theorem C12_delivery_writes : forall d0 ws prog sched, legal false prog = true -> consumes prog = true ->
  let s := run d0 sched (init (map PWrite ws) prog) in
  terminal s = true -> c_dest s = Some (d0 ++ concat ws).
Proof.
  intros d0 ws prog sched Hl Hc s Ht. rewrite <- written_writes.
  exact (proj2 (tempbuf_delivery d0 (map PWrite ws) prog sched Hl) Hc Ht).
Qed.
Print Assumptions C12_delivery_writes.

(* No reachable state has taken a panic!/unreachable!/assert! branch. *)
Theorem C12_no_panic : forall d0 ops prog sched, legal false prog = true ->
  panicked (run d0 sched (init ops prog)) = false.
Proof. exact tempbuf_no_panic. Qed.
Print Assumptions C12_no_panic.

(* Progress: every reachable state in which some thread is unfinished has an enabled transition;
   the producer can always move until it has dropped; from the moment it has dropped the
   consumer can always move (no call of the consumer blocks any more: waiting returns as soon
   as the producer is done, and there is no deadlock). *)
Theorem C12_progress : forall d0 ops prog sched, legal false prog = true ->
  let s := run d0 sched (init ops prog) in
  terminal s = false ->
  (exists t s', step d0 t s = Some s') /\
  (p_dropped s = false -> exists s', step d0 TP s = Some s') /\
  (p_dropped s = true -> exists s', step d0 TC s = Some s').
Proof. exact tempbuf_progress. Qed.
Print Assumptions C12_progress.

(* From every reachable state, letting the producer and then the consumer run (two steps per
   remaining call) ends with both threads finished and no panic: no schedule prefix can lead
   into a state from which the protocol cannot complete. *)
Theorem C12_completion : forall d0 ops prog sched, legal false prog = true ->
  let s := finish d0 (run d0 sched (init ops prog)) in
  terminal s = true /\ panicked s = false.
Proof. exact tempbuf_completion. Qed.
Print Assumptions C12_completion.

(* Every value len() returns is the number of bytes written. *)
Theorem C12_len : forall d0 ops prog sched, legal false prog = true ->
  Forall (len_ok (Nlen (written ops))) (c_obs (run d0 sched (init ops prog))).
Proof. exact tempbuf_len. Qed.
Print Assumptions C12_len.

(* is_real_file_ready() answers true only after the producer has dropped its handle. *)
Theorem C12_ready_sound : forall d0 ops prog sched, legal false prog = true ->
  let s := run d0 sched (init ops prog) in
  In (OReady true) (c_obs s) -> p_dropped s = true.
Proof. exact tempbuf_ready_sound. Qed.
Print Assumptions C12_ready_sound.

(* What the executable model prints for a case (Model/Entry_C12.v) is therefore always an Ok
   outcome carrying the full destination: the oracle evaluated on the model's own output holds. *)
Theorem C12_outcome : forall d0 ops prog sched, legal false prog = true ->
  exists ob, outcome d0 ops prog sched =
             Ok (ob, if consumes prog then Some (d0 ++ written ops) else None)
             /\ Forall (len_ok (Nlen (written ops))) ob.
Proof. exact tempbuf_outcome. Qed.
Print Assumptions C12_outcome.

(* ---------------------------------------------------------------- non-vacuity *)
Local Open Scope N_scope.

(* the four consumer programs of the property are legal *)
Example C12_legal_programs :
  legal false [CSwitch; CAwait] = true /\ legal false [CExpect] = true /\
  legal false [CLen] = true /\ legal false [CLen; CExpect] = true /\
  legal false [CReady; CSwitch; CReady; CReady; CAwait] = true /\
  legal false [CReady; CLen; CReady; CExpect] = true /\ legal false [CLen; CSwitch; CAwait] = true.
Proof. repeat split. Qed.

(* three writes, the switch lands after the first one (between update() and the local write of
   the second): the producer migrates [1;2] on its next update and writes the rest through *)
Example C12_example_switch_mid :
  let s := run [9] [TP; TP; TP; TC; TC; TP; TP; TP; TP; TP; TC; TC] (init [PWrite [1; 2]; PWrite [3]; PFlush; PWrite [4; 5]] [CSwitch; CAwait]) in
  terminal s = true /\ c_dest s = Some [9; 1; 2; 3; 4; 5] /\ panicked s = false.
Proof. vm_compute. repeat split. Qed.

(* the switch lands after the drop: the consumer finishes the copy itself *)
Example C12_example_switch_after_drop :
  let s := run [9] [TP; TP; TP; TP; TP; TC; TC; TC; TC; TC] (init [PWrite [1; 2]; PWrite [3]] [CReady; CSwitch; CReady; CAwait]) in
  terminal s = true /\ c_dest s = Some [9; 1; 2; 3] /\ c_obs s = [OReady true; OReady true].
Proof. vm_compute. repeat split. Qed.

(* the switch lands before the first write: nothing is ever staged *)
Example C12_example_switch_first :
  let s := run [9] [TC; TP; TC; TP; TP; TP; TC; TP; TC; TC] (init [PWrite [1; 2]; PWrite [3]] [CSwitch; CReady; CAwait]) in
  terminal s = true /\ c_dest s = Some [9; 1; 2; 3] /\ c_obs s = [OReady false].
Proof. vm_compute. repeat split. Qed.

(* len() then expect_closed_write; the consumer's early steps are disabled and stutter *)
Example C12_example_len_expect :
  let s := run [7; 8] [TC; TP; TC; TP; TP; TP; TP; TC; TC; TC] (init [PWrite [1; 2]; PWrite [3]] [CLen; CExpect]) in
  terminal s = true /\ c_dest s = Some [7; 8; 1; 2; 3] /\ c_obs s = [OLen 3].
Proof. vm_compute. repeat split. Qed.

(* a run that is not finished: the progress theorem's hypothesis is satisfiable *)
Example C12_example_nonterminal :
  terminal (run [9] [TP; TC; TC; TC] (init [PWrite [1]] [CSwitch; CAwait])) = false.
Proof. vm_compute. reflexivity. Qed.

(* The legality hypothesis is needed: awaiting without a switch, a second switch while the first
   destination is still in the mailbox, and len() after the producer took the destination all
   panic in the model (as they do in the code). *)
Example C12_illegal_programs_panic :
  panicked (run [] [TP; TC; TC] (init [] [CAwait])) = true /\
  panicked (run [] [TC; TC] (init [] [CSwitch; CSwitch])) = true /\
  panicked (run [] [TC; TP; TP; TP; TC] (init [PWrite [1]] [CSwitch; CLen])) = true.
Proof. vm_compute. repeat split. Qed.
