(* Statement pins for C15: each property theorem is re-checked against the statement recorded here. *)
From BT Require Import Base.Util.
From BT Require Model.Merge Proofs.MergeSig Proofs.MergeInto Properties.C15.

Module PinC15.
Import Model.Merge Proofs.MergeSig Proofs.MergeInto Properties.C15.
Local Open Scope N_scope.
Check (C15_merge_into : forall one two,
  v_start one < v_end one -> v_start two < v_end two ->
  v_start two < v_end one -> v_start one < v_end two ->
  exists r, merge_into one two = Ok r /\
    sorted_from (N.min (v_start one) (v_start two)) (pieces r) /\
    forall x, sig (pieces r) x = if cov [one; two] x then Some (sigz [one; two] x) else None).
Check (C15_merge_into_no_overlap : forall one two,
  v_end one <= v_start two \/ v_end two <= v_start one -> merge_into one two = Panic).
End PinC15.
