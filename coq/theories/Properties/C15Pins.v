(* Statement pins for C15: each property theorem is re-checked against the statement recorded here, so a
   theorem cannot be weakened in its own file without this file failing to compile. *)
From BT Require Import Base.Util.
From BT Require Model.Merge Model.Fill Model.MergeTool Proofs.MergeSig Proofs.MergeInto Proofs.MergeWin Proofs.MergeMany
  Proofs.FillOk Proofs.MergeToolOk Proofs.MergeToolRun Generated.Consts Properties.C15.
From BT Require Model.Entry_C15.

Module PinC15.
Import Model.Merge Model.Fill Model.MergeTool Proofs.MergeSig Proofs.MergeInto Proofs.MergeWin Proofs.MergeMany
  Proofs.FillOk Proofs.MergeToolOk Proofs.MergeToolRun Generated.Consts Properties.C15.
Local Open Scope N_scope.
Check (C15_merge_into : forall one two,
  v_start one < v_end one -> v_start two < v_end two ->
  v_start two < v_end one -> v_start one < v_end two ->
  exists r, merge_into one two = Ok r /\
    sorted_from (N.min (v_start one) (v_start two)) (pieces r) /\
    forall x, sig (pieces r) x = if cov [one; two] x then Some (sigz [one; two] x) else None).
Check (C15_value_codec_roundtrip : forall z : Z,
  (Z.abs z < 2 ^ 24)%Z -> Model.Entry_C15.eighths_of_bits (Model.Entry_C15.bits_of8 z) = Some z).
Check (C15_merge_into_no_overlap : forall one two,
  v_end one <= v_start two \/ v_end two <= v_start one -> merge_into one two = Panic).
Check (C15_merge_many : forall W vss, 0 < W -> Forall (sorted_from 0) vss ->
  exists out, merge_sections_many W (map (map IV) vss) = Ok (map IV out) /\
    sorted_from 0 out /\ Forall (fun v => v_val v <> 0%Z) out /\
    forall x, sig out x = nz_opt (ssum vss x)).
Check (C15_merge_many_code_window : forall vss, Forall (sorted_from 0) vss ->
  exists out, merge_sections_many MERGE_DATA_SIZE (map (map IV) vss) = Ok (map IV out) /\
    sorted_from 0 out /\ Forall (fun v => v_val v <> 0%Z) out /\
    forall x, sig out x = nz_opt (ssum vss x)).
Check (C15_fill : forall vs, sorted_from 0 vs ->
  exists out, fill (map IV vs) = Ok (map IV out) /\ tiles 0 (end_from 0 vs) out /\ zeros_added vs out).
Check (C15_fill_start_to_end : forall vs start end_, sorted_from start vs -> end_from start vs <= end_ ->
  exists out, fill_start_to_end (map IV vs) start end_ = Ok (map IV out) /\ tiles start end_ out /\ zeros_added vs out).
Check (C15_fill_signal : forall ins outs s e, zeros_added ins outs -> tiles s e outs ->
  forall x, sigz outs x = sigz ins x /\ cov outs x = (s <=? x) && (x <? e)).
Check (C15_tool_pipeline : forall W maxfds size bws thr adj clip,
  0 < W -> Forall (sorted_from 0) bws -> Forall (fun vs => end_from 0 vs <= size) bws ->
  (length bws <= maxfds)%nat ->
  exists merged out, merge_sections_many W (map (map IV) bws) = Ok (map IV merged) /\
    out = filter (fun v => above (Some thr) (v_val v)) (map (clip_adjust clip (unwrap_or0 adj)) merged) /\
    tool_chrom W maxfds size bws thr adj clip = Ok (map IV out) /\
    sorted_from 0 out /\ forall x, sig out x = tool_expected bws thr adj clip x).
Check (C15_tool_chunked : forall W maxfds size bws thr adj clip,
  0 < W -> (2 <= maxfds)%nat -> Forall (sorted_from 0) bws -> Forall (fun vs => end_from 0 vs <= size) bws ->
  (maxfds < length bws)%nat ->
  exists out, tool_chrom W maxfds size bws thr adj clip = Ok (map IV out) /\
    sorted_from 0 out /\ forall x, sig out x = tool_expected bws thr adj clip x).
Check (C15_output_names : forall stem suf t name,
  (to_lower suf = s_dot_bw \/ to_lower suf = s_dot_bigwig -> detect_output None (stem ++ suf) = Some OBigWig) /\
  (to_lower suf = s_dot_bedgraph -> detect_output None (stem ++ suf) = Some OBedGraph) /\
  (to_lower t = s_bigwig -> detect_output (Some t) name = Some OBigWig) /\
  (to_lower t = s_bedgraph -> detect_output (Some t) name = Some OBedGraph) /\
  detect_output None (stem ++ [46; 98; 119]) = Some OBigWig /\
  detect_output None (stem ++ [46; 98; 105; 103; 87; 105; 103]) = Some OBigWig /\
  detect_output None (stem ++ [46; 98; 101; 100; 71; 114; 97; 112; 104]) = Some OBedGraph).
Check (C15_tool_run : forall W maxfds files thr adj clip ty name,
  0 < W -> (2 <= maxfds)%nat -> files_ok files ->
  (exists table,
     chrom_table (all_names files) files [] = Ok table /\
     Forall (entry_ok files) table /\
     (forall f c, In f files -> In c f -> bt_has (fst (fst c)) table = true) /\
     match detect_output ty name with
     | None => tool_run W maxfds files thr adj clip ty name = Ok None
     | Some t => exists outs, tool_run W maxfds files thr adj clip ty name = Ok (Some (t, rows_spec table outs)) /\
                              Forall2 (out_ok thr adj clip) table outs
     end)
  \/ (chrom_table (all_names files) files [] = Err 1 /\ tool_run W maxfds files thr adj clip ty name = Err 1)).
Check (C15_outputs_agree : forall W maxfds files thr adj clip ty1 name1 ty2 name2 t1 rows1 t2 rows2,
  tool_run W maxfds files thr adj clip ty1 name1 = Ok (Some (t1, rows1)) ->
  tool_run W maxfds files thr adj clip ty2 name2 = Ok (Some (t2, rows2)) -> rows1 = rows2).

(* the definitions the statements rest on, pinned by value *)
Check (eq_refl : files_ok = fun files => Forall (Forall (fun c => sorted_from 0 (snd c) /\ end_from 0 (snd c) <= snd (fst c))) files).
Check (eq_refl : entry_ok = fun files e =>
  snd e = chrom_inputs (fst (fst e)) files /\
  Forall (sorted_from 0) (snd e) /\ Forall (fun vs => end_from 0 vs <= snd (fst e)) (snd e)).
Check (eq_refl : chrom_inputs = fun name files =>
  flat_map (fun f => match find_chrom name f with Some c => [snd c] | None => [] end) files).
Check (eq_refl : out_ok = fun thr adj clip e out =>
  sorted_from 0 out /\ forall x, sig out x = tool_expected (snd e) thr adj clip x).
Check (eq_refl : inb = fun v x => (v_start v <=? x) && (x <? v_end v)).
Check (eq_refl : nz_opt = fun z => if isz z then None else Some z).
Check (eq_refl : isz = fun z => Z.eqb z 0).
Check (eq_refl : oz = fun o => match o with Some z => z | None => 0%Z end).
Check (eq_refl : cov = fun l x => existsb (fun v => inb v x) l).
Check (eq_refl : sig [mkV 2 5 7%Z; mkV 4 9 1%Z] 4 = Some 7%Z).
Check (eq_refl : sigz [mkV 2 5 7%Z; mkV 4 9 1%Z] 4 = 8%Z).
Check (eq_refl : ssum [[mkV 2 5 7%Z]; []; [mkV 4 9 1%Z]] 4 = 8%Z).
Check (eq_refl : sorted_from 3 [mkV 3 5 0%Z; mkV 5 6 1%Z] = (3 <= 3 /\ 3 < 5 /\ 5 <= 5 /\ 5 < 6 /\ True)).
Check (eq_refl : tiles 3 6 [mkV 3 5 0%Z; mkV 5 6 1%Z] = (3 = 3 /\ 3 < 5 /\ 5 = 5 /\ 5 < 6 /\ 6 = 6)).
Check (eq_refl : end_from 3 [mkV 3 5 0%Z; mkV 5 6 1%Z] = 6).
Check (eq_refl : above = fun threshold x => match threshold with Some t => Z.ltb t x | None => true end).
Check (eq_refl : tool_expected = fun bws thr adj clip x =>
  let s := ssum bws x in
  if isz s then None
  else let v := ((match clip with Some c => Z.min c s | None => s end) + unwrap_or0 adj)%Z in
       if Z.ltb thr v then Some v else None).
Check (eq_refl : s_dot_bw = [46; 98; 119]).
Check (eq_refl : s_dot_bigwig = [46; 98; 105; 103; 119; 105; 103]).
Check (eq_refl : s_dot_bedgraph = [46; 98; 101; 100; 103; 114; 97; 112; 104]).
Check (eq_refl : s_bigwig = [98; 105; 103; 119; 105; 103]).
Check (eq_refl : s_bedgraph = [98; 101; 100; 103; 114; 97; 112; 104]).
Check (za_nil : zeros_added [] []).
Check (za_keep : forall v ins outs, zeros_added ins outs -> zeros_added (v :: ins) (v :: outs)).
Check (za_zero : forall s e ins outs, zeros_added ins outs -> zeros_added ins (mkV s e 0%Z :: outs)).
End PinC15.

(* evaluation glue: sharing the table and rows between output names = one tool run per output name *)
From BT Require Proofs.EntryC15Glue.
Check Proofs.EntryC15Glue.tool_run_shared_eq.


From BT Require Generated.Consts Model.Entry_C15.
Check (C15.C15_constants_from_source :
  Entry_C15.MAX_BW_FDS = 976%nat /\ (2 <= Entry_C15.MAX_BW_FDS)%nat /\
  MergeTool.s_dot_bw = Consts.MERGE_SUFFIX_BW /\ MergeTool.s_dot_bigwig = Consts.MERGE_SUFFIX_BIGWIG /\ MergeTool.s_dot_bedgraph = Consts.MERGE_SUFFIX_BEDGRAPH).


(* ---- the merge tool on files (appended; Proofs/MergeToolFile.v): statements and the definitions they rest on ---- *)
From BT Require Base.Float Model.BBIFile Model.BigWigWrite Model.BBIRead Proofs.RTreeCodec Proofs.BigWigQuery Proofs.BigWigFileChroms
  Proofs.BigWigFileRoundTrip Proofs.BigWigFileInput Proofs.MergeToolFile.
Module PinC15File.
Import Model.Merge Model.MergeTool Proofs.MergeSig Proofs.FillOk Proofs.MergeToolOk Proofs.MergeToolRun Properties.C15.
Local Open Scope N_scope.
Check (C15_file_view : forall fp o sizes inp bs,
  BigWigFileRoundTrip.opts_ok o -> BigWigFileRoundTrip.input_ok sizes inp -> Nlen bs < RTreeCodec.U64 ->
  BigWigWrite.bw_write fp o sizes inp = Ok bs \/ BigWigWrite.bw_write_multipass fp o sizes inp = Ok bs ->
  forall num infl,
  MergeToolFile.file_view num infl bs =
  Ok (map (fun c => (c, BigWigFileChroms.len_of sizes c,
                     map (MergeToolFile.conv num)
                       (filter (fun v => negb (BigWigQuery.boundary_zero (BigWigFileChroms.len_of sizes c) v))
                          (BigWigFileInput.vals_of inp c))))
          (BigWigFileInput.first_app (map fst inp)))).
Check (C15_tool_inputs_of_files : forall num infl wl bss, Forall2 MergeToolFile.written wl bss ->
  MergeToolFile.tool_inputs_of_files num infl bss = Ok (MergeToolFile.read_files num wl)).
Check (C15_tool_files : forall W maxfds num infl wl bss thr adj clip ty name,
  0 < W -> (2 <= maxfds)%nat -> Forall2 MergeToolFile.written wl bss ->
  Forall (fun w => MergeToolFile.zero_only_at_boundary (MergeToolFile.wi_sizes w) (MergeToolFile.wi_inp w)) wl ->
  let files := MergeToolFile.read_files num wl in
  MergeToolFile.tool_inputs_of_files num infl bss = Ok files /\
  (forall f c, In f files -> In c f -> query (snd c) 0 (snd (fst c)) = snd c) /\
  ((exists table,
      chrom_table (all_names files) files [] = Ok table /\
      Forall (fun e => snd e = chrom_inputs (fst (fst e)) files) table /\
      (forall w c, In w wl -> In c (map fst (MergeToolFile.wi_inp w)) -> bt_has c table = true) /\
      match detect_output ty name with
      | None => MergeToolFile.tool_run_files W maxfds num infl bss thr adj clip ty name = Ok None
      | Some t => exists outs,
          MergeToolFile.tool_run_files W maxfds num infl bss thr adj clip ty name = Ok (Some (t, rows_spec table outs)) /\
          Forall2 (MergeToolFile.out_ok_orig num wl thr adj clip) table outs
      end)
   \/ (chrom_table (all_names files) files [] = Err 1 /\
       MergeToolFile.tool_run_files W maxfds num infl bss thr adj clip ty name = Err 1 /\ ~ MergeToolFile.sizes_agree wl))).
Check (C15_tool_files_sizes_agree : forall W maxfds num infl wl bss thr adj clip ty name,
  0 < W -> (2 <= maxfds)%nat -> Forall2 MergeToolFile.written wl bss ->
  Forall (fun w => MergeToolFile.zero_only_at_boundary (MergeToolFile.wi_sizes w) (MergeToolFile.wi_inp w)) wl ->
  MergeToolFile.sizes_agree wl ->
  exists table,
    chrom_table (all_names (MergeToolFile.read_files num wl)) (MergeToolFile.read_files num wl) [] = Ok table /\
    (forall w c, In w wl -> In c (map fst (MergeToolFile.wi_inp w)) -> bt_has c table = true) /\
    match detect_output ty name with
    | None => MergeToolFile.tool_run_files W maxfds num infl bss thr adj clip ty name = Ok None
    | Some t => exists outs,
        MergeToolFile.tool_run_files W maxfds num infl bss thr adj clip ty name = Ok (Some (t, rows_spec table outs)) /\
        Forall2 (MergeToolFile.out_ok_orig num wl thr adj clip) table outs
    end).
Check (eq_refl : MergeToolFile.conv = fun (num : N -> Z) (v : BigWigWrite.value) =>
  mkV (BigWigWrite.v_start v) (BigWigWrite.v_end v) (num (BigWigWrite.v_bits v))).
Check (eq_refl : MergeToolFile.file_chrom = fun num infl bs i ci =>
  match BBIRead.bw_interval infl bs i (BBIRead.ci_name ci) 0 (BBIRead.ci_len ci) with
  | Ok vs => Ok (BBIRead.ci_name ci, BBIRead.ci_len ci, map (MergeToolFile.conv num) vs)
  | Err c => Err c | Panic => Panic | Fuel => Fuel end).
Check (eq_refl : MergeToolFile.file_view = fun num infl bs =>
  match BBIRead.read_info bs with
  | Ok i => BigWigWrite.mapM (MergeToolFile.file_chrom num infl bs i) (BBIRead.i_chroms i)
  | Err c => Err c | Panic => Panic | Fuel => Fuel end).
Check (eq_refl : MergeToolFile.tool_inputs_of_files = fun num infl bss => BigWigWrite.mapM (MergeToolFile.file_view num infl) bss).
Check (eq_refl : MergeToolFile.tool_run_files = fun W maxfds num infl bss thr adj clip ty name =>
  match MergeToolFile.tool_inputs_of_files num infl bss with
  | Ok files => tool_run W maxfds files thr adj clip ty name
  | Err c => Err c | Panic => Panic | Fuel => Fuel end).
Check (eq_refl : MergeToolFile.written = fun w bs =>
  BigWigFileRoundTrip.opts_ok (MergeToolFile.wi_opts w) /\
  BigWigFileRoundTrip.input_ok (MergeToolFile.wi_sizes w) (MergeToolFile.wi_inp w) /\ Nlen bs < RTreeCodec.U64 /\
  (BigWigWrite.bw_write (MergeToolFile.wi_fp w) (MergeToolFile.wi_opts w) (MergeToolFile.wi_sizes w) (MergeToolFile.wi_inp w) = Ok bs \/
   BigWigWrite.bw_write_multipass (MergeToolFile.wi_fp w) (MergeToolFile.wi_opts w) (MergeToolFile.wi_sizes w) (MergeToolFile.wi_inp w) = Ok bs)).
Check (eq_refl : MergeToolFile.zero_only_at_boundary = fun sizes (inp : list BigWigWrite.item) =>
  forall c, In c (map fst inp) ->
    Forall (fun v : BigWigWrite.value => BigWigWrite.v_start v = BigWigWrite.v_end v ->
              BigWigQuery.boundary_zero (BigWigFileChroms.len_of sizes c) v = true) (BigWigFileInput.vals_of inp c)).
Check (eq_refl : MergeToolFile.sizes_agree = fun wl =>
  forall w1 w2 c, In w1 wl -> In w2 wl -> In c (map fst (MergeToolFile.wi_inp w1)) -> In c (map fst (MergeToolFile.wi_inp w2)) ->
    BigWigFileChroms.len_of (MergeToolFile.wi_sizes w1) c = BigWigFileChroms.len_of (MergeToolFile.wi_sizes w2) c).
Check (eq_refl : MergeToolFile.orig_chrom = fun num sizes inp c =>
  (c, BigWigFileChroms.len_of sizes c, map (MergeToolFile.conv num) (BigWigFileInput.vals_of inp c))).
Check (eq_refl : MergeToolFile.read_chrom = fun num sizes inp c =>
  (c, BigWigFileChroms.len_of sizes c,
   map (MergeToolFile.conv num) (filter (fun v => negb (BigWigQuery.boundary_zero (BigWigFileChroms.len_of sizes c) v)) (BigWigFileInput.vals_of inp c)))).
Check (eq_refl : MergeToolFile.orig_file = fun num sizes (inp : list BigWigWrite.item) =>
  map (MergeToolFile.orig_chrom num sizes inp) (BigWigFileInput.first_app (map fst inp))).
Check (eq_refl : MergeToolFile.read_file = fun num sizes (inp : list BigWigWrite.item) =>
  map (MergeToolFile.read_chrom num sizes inp) (BigWigFileInput.first_app (map fst inp))).
Check (eq_refl : MergeToolFile.orig_files = fun num wl =>
  map (fun w => MergeToolFile.orig_file num (MergeToolFile.wi_sizes w) (MergeToolFile.wi_inp w)) wl).
Check (eq_refl : MergeToolFile.read_files = fun num wl =>
  map (fun w => MergeToolFile.read_file num (MergeToolFile.wi_sizes w) (MergeToolFile.wi_inp w)) wl).
Check (eq_refl : MergeToolFile.expected_of_inputs = fun num wl nm thr adj clip x =>
  tool_expected (chrom_inputs nm (MergeToolFile.orig_files num wl)) thr adj clip x).
Check (eq_refl : MergeToolFile.out_ok_orig = fun num wl thr adj clip (e : chrom_entry) (out : list value) =>
  sorted_from 0 out /\ forall x, sig out x = MergeToolFile.expected_of_inputs num wl (fst (fst e)) thr adj clip x).
End PinC15File.
