(* Statement pins for C12: each property theorem is re-checked against the statement recorded
   here, so a theorem cannot be weakened in its own file without this file failing to compile. *)
From BT Require Import Base.Util.
From BT Require Model.TempBuf Proofs.TempBufInv Proofs.TempBufThms Properties.C12.

Module PinC12.
Import Model.TempBuf Proofs.TempBufInv Proofs.TempBufThms Properties.C12.
Check (C12_delivery : forall d0 ops prog sched, legal false prog = true ->
  let s := run d0 sched (init ops prog) in
  (forall r, c_dest s = Some r -> r = d0 ++ written ops) /\
  (consumes prog = true -> terminal s = true -> c_dest s = Some (d0 ++ written ops))).
Check (C12_delivery_writes : forall d0 ws prog sched, legal false prog = true -> consumes prog = true ->
  let s := run d0 sched (init (map PWrite ws) prog) in
  terminal s = true -> c_dest s = Some (d0 ++ concat ws)).
Check (C12_no_panic : forall d0 ops prog sched, legal false prog = true ->
  panicked (run d0 sched (init ops prog)) = false).
Check (C12_progress : forall d0 ops prog sched, legal false prog = true ->
  let s := run d0 sched (init ops prog) in
  terminal s = false ->
  (exists t s', step d0 t s = Some s') /\
  (p_dropped s = false -> exists s', step d0 TP s = Some s') /\
  (p_dropped s = true -> exists s', step d0 TC s = Some s')).
Check (C12_completion : forall d0 ops prog sched, legal false prog = true ->
  let s := finish d0 (run d0 sched (init ops prog)) in
  terminal s = true /\ panicked s = false).
Check (C12_len : forall d0 ops prog sched, legal false prog = true ->
  Forall (len_ok (Nlen (written ops))) (c_obs (run d0 sched (init ops prog)))).
Check (C12_ready_sound : forall d0 ops prog sched, legal false prog = true ->
  let s := run d0 sched (init ops prog) in
  In (OReady true) (c_obs s) -> p_dropped s = true).
Check (C12_outcome : forall d0 ops prog sched, legal false prog = true ->
  exists ob, outcome d0 ops prog sched =
             Ok (ob, if consumes prog then Some (d0 ++ written ops) else None)
             /\ Forall (len_ok (Nlen (written ops))) ob).
(* the definitions the statements rest on, pinned by evaluation *)
Check (eq_refl : legal false [CSwitch; CAwait; CReady] = false).
Check (eq_refl : legal false [CSwitch; CLen] = false).
Check (eq_refl : legal false [CExpect; CExpect] = false).
Check (eq_refl : terminal (init [] []) = false).
Check (eq_refl : written [PWrite [1%N]; PFlush; PWrite [2%N; 3%N]] = [1%N; 2%N; 3%N]).
End PinC12.
