(* Statement pins: each property theorem is re-checked against the statement recorded here, so
   a theorem cannot be weakened in its own file without this file failing to compile. *)
From BT Require Import Base.Util.
From BT Require Model.RTree Proofs.RTreeAbs Proofs.RTreeBuild Properties.C05.

Module PinC05.
Import Model.RTree Proofs.RTreeAbs Proofs.RTreeBuild Properties.C05.
Local Open Scope N_scope.
Check (C05_search_tree_eq_scan : forall q qs qe t, covered t ->
  search_tree q qs qe t = filter (fun s => overlaps q qs qe (sect_span s)) (leaves t)).
Check (C05_build_ok : forall b secs, (2 <= b)%nat -> secs <> [] -> sorted_starts (map sect_span secs) ->
  exists t lv, build b secs = Ok (t, lv) /\ covered t /\ leaves t = secs
               /\ Forall (fun s => inside (sect_span s) (span_of t)) secs).
Check (C05_search_built_eq_scan : forall b secs, (2 <= b)%nat -> secs <> [] -> sorted_starts (map sect_span secs) ->
  exists t lv, build b secs = Ok (t, lv) /\
    forall q qs qe, map (fun s => (s_off s, s_size s)) (search_tree q qs qe t) = scan secs q qs qe).
Check (C05_build_empty : forall b, (0 < b)%nat -> build b [] = Ok (Leaf [], 0%nat)).
End PinC05.

(* second half of C05: bytes written, read back by the pointer-chasing search *)
From BT Require Base.LE Proofs.RTreeCodec Proofs.RTreeSearch Proofs.RTreeShape Proofs.RTreeLayout.
Module PinC05Bytes.
Import Base.LE Model.RTree Proofs.RTreeAbs Proofs.RTreeBuild Proofs.RTreeCodec Proofs.RTreeSearch
  Proofs.RTreeShape Proofs.RTreeLayout Properties.C05.
Local Open Scope N_scope.
Check (C05_dec_enc_le : forall w x, x < 256 ^ N.of_nat w -> dec_le (enc_le w x) = x).
Check (C05_read_leaf : forall img off l, has_at img off (leaf_bytes l) -> Nlen l < U16 -> Forall sect_ok l ->
  read_node false img off = Ok (PLeaf (map li_of l))).
Check (C05_read_inner : forall img off items, has_at img off (inner_bytes items) -> Nlen items < U16 ->
  Forall (fun it => span_ok (fst it) /\ snd it < U64) items ->
  read_node false img off = Ok (PInner items)).
Check (C05_search_represented : forall img q qs qe h t root, rep h img root t ->
  forall fuel, (tsize t < fuel)%nat ->
    search_bytes fuel false img root q qs qe = Ok (blocks_of (search_tree q qs qe t))).
Check (C05_chunks_all_but_last_full : forall (b : nat) (l : list sect), (0 < b)%nat ->
  abl (fun c => length c = b) (chunks b l)).
Check (C05_built_shape : forall b secs t lv, (0 < b)%nat -> secs <> [] -> Forall sect_ok secs ->
  build b secs = Ok (t, lv) ->
  height lv t /\ forall d, (d <= lv)%nat ->
    abl (fun n => nsize n = nfull (N.of_nat b) d) (level_nodes lv d t) /\ Forall (node_ok b) (level_nodes lv d t)).
Check (C05_layout_represents : forall (b ips pos : N) (secs : list sect) t levels,
  0 < b < U16 -> secs <> [] -> Forall sect_ok secs ->
  build (N.to_nat b) secs = Ok (t, levels) ->
  exists bs, rtree_bytes b ips pos t levels (Nlen secs) = Ok bs
    /\ 48 + 4 * N.of_nat (tsize t) <= Nlen bs
    /\ (pos + Nlen bs <= U64 -> forall pre post, Nlen pre = pos ->
          rep levels (pre ++ bs ++ post) (pos + 48) t)).
Check (C05_search_bytes_eq_scan : forall (b ips pos : N) (secs : list sect),
  2 <= b <= 65535 -> secs <> [] -> sorted_starts (map sect_span secs) -> Forall sect_ok secs ->
  exists bs levels, write_index b ips pos secs = Ok (bs, levels)
    /\ (pos + Nlen bs <= U64 ->
        forall pre post q qs qe fuel, Nlen pre = pos -> (length bs <= fuel)%nat ->
          search_bytes fuel false (pre ++ bs ++ post) (pos + 48) q qs qe = Ok (scan secs q qs qe))).
Check (C05_search_bytes_widen : forall (b ips pos : N) (secs : list sect),
  2 <= b <= 65535 -> secs <> [] -> sorted_starts (map sect_span secs) -> Forall sect_ok secs ->
  exists bs levels, write_index b ips pos secs = Ok (bs, levels)
    /\ (pos + Nlen bs <= U64 ->
        forall pre post q qs qe qs' qe' fuel, Nlen pre = pos -> (length bs <= fuel)%nat ->
          qs' <= qs -> qe <= qe' ->
          exists r r', search_bytes fuel false (pre ++ bs ++ post) (pos + 48) q qs qe = Ok r
            /\ search_bytes fuel false (pre ++ bs ++ post) (pos + 48) q qs' qe' = Ok r'
            /\ incl r r')).
Check (C05_scan_widen_refilter : forall secs q qs qe qs' qe', qs' <= qs -> qe <= qe' ->
  filter (fun s => overlaps q qs qe (sect_span s)) secs =
  filter (fun s => overlaps q qs qe (sect_span s)) (filter (fun s => overlaps q qs' qe' (sect_span s)) secs)).
(* the definitions the statements rest on, pinned by value *)
Check (eq_refl : U16 = 65536).
Check (eq_refl : U32 = 4294967296).
Check (eq_refl : U64 = 18446744073709551616).
Check (eq_refl : sect_ok = fun s => s_chrom s < U32 /\ s_start s < U32 /\ s_end s < U32 /\ s_off s < U64 /\ s_size s < U64).
Check (eq_refl : has_at = fun img off x => exists A B, img = A ++ x ++ B /\ length A = N.to_nat off).
End PinC05Bytes.
