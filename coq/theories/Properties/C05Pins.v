(* Statement pins: each property theorem is re-checked against the statement recorded here, so
   a theorem cannot be weakened in its own file without this file failing to compile. *)
From BT Require Import Base.Util.
From BT Require Model.RTree Proofs.RTreeAbs Proofs.RTreeBuild Properties.C05.

Module PinC05.
Import Model.RTree Proofs.RTreeAbs Proofs.RTreeBuild Properties.C05.
Local Open Scope N_scope.
Check (C05_search_tree_eq_scan : forall q qs qe t, covered t ->
  search_tree q qs qe t = filter (fun s => overlaps q qs qe (sect_span s)) (leaves t)).
Check (C05_build_ok : forall b secs, (2 <= b)%nat -> secs <> [] -> sorted_starts (map sect_span secs) ->
  exists t lv, build b secs = Ok (t, lv) /\ covered t /\ leaves t = secs
               /\ Forall (fun s => inside (sect_span s) (span_of t)) secs).
Check (C05_search_built_eq_scan : forall b secs, (2 <= b)%nat -> secs <> [] -> sorted_starts (map sect_span secs) ->
  exists t lv, build b secs = Ok (t, lv) /\
    forall q qs qe, map (fun s => (s_off s, s_size s)) (search_tree q qs qe t) = scan secs q qs qe).
Check (C05_build_empty : forall b, (0 < b)%nat -> build b [] = Ok (Leaf [], 0%nat)).
End PinC05.
