(* C08 — bigBed zoom levels are faithful reductions of coverage depth.
   Only statements, closed by [exact] / projections, with Print Assumptions beneath each.
   The records are those of Model/BedSweep.v bb_zoom_records (depth sweep + tiling + sectioning) in
   exact arithmetic; R = concat secs is the record sequence of one chromosome at one resolution,
   for every items_per_slot, every resolution >= 1 and every accepted entry list. *)
From BT Require Import Base.Util Base.Float Model.RTree Model.BBIFile Model.BigWigWrite Model.BedSweep Spec.Depth
  Model.EntryBedSweep Proofs.DepthStats Proofs.SweepRLE Proofs.BedSummary Proofs.BedTile Proofs.ZoomLevels.
From BT Require Import Generated.Consts Model.BBIRead Proofs.RTreeCodec Proofs.ZoomQuery Proofs.ZoomBwLevels
  Proofs.C08FileGeom Proofs.C08FileCodec Proofs.C08FileQuery.
From BT Require Model.BigBedWrite Proofs.BedZoomFit Proofs.BedEndToEnd Proofs.RTreeBuild.
From Coq Require Sorting.Sorted.
Local Open Scope N_scope.

(* shared with C06: the sweep emits the run-length encoding of the depth *)
Theorem C08_sweep_eq_rle_depth : forall U es,
  U <= U32_MAX -> Forall (entry_ok U) es -> starts_sorted es ->
  segs_sorted 0 (sweep_emitted es) /\ Forall (seg_ok U) (sweep_emitted es) /\
  (forall x, x < U32_MAX -> segs_depth (sweep_emitted es) x = depth es x).
Proof. exact sweep_eq_rle_depth. Qed.
Print Assumptions C08_sweep_eq_rle_depth.

(* what the writer accepts is what the theorems below need (positions are u32: len, ends <= U <= 2^32-1) *)
Theorem C08_accepted_valid : forall U len es, U <= U32_MAX -> len <= U32_MAX -> Forall (fun e => e_end e <= U) es ->
  bb_check_chrom len es = Ok tt -> valid_zoom_chrom U es.
Proof.
  intros U len es HU Hlen Hend Hc. destruct (check_chrom_valid len es Hc) as (A & B).
  split; [exact HU | split; [|split; [exact A|]]]; rewrite Forall_forall in *; intros e He.
  - split; [apply (B e He) | apply (Hend e He)].
  - destruct (B e He). lia.
Qed.
Print Assumptions C08_accepted_valid.

(* records are in order, non-empty and disjoint: each starts at or after the end of the one before *)
Theorem C08_ordered_disjoint : forall U ips size chrom es secs,
  1 <= size -> valid_zoom_chrom U es -> bb_zoom_records exact ips size chrom es = Ok secs ->
  recs_sorted 0 (concat secs) /\
  (forall l1 z1 l2 z2 l3, concat secs = l1 ++ z1 :: l2 ++ z2 :: l3 -> z_end z1 <= z_start z2).
Proof.
  intros U ips size chrom es secs Hs Hv Hr.
  destruct (zoom_records_spec U ips size chrom es secs Hs Hv Hr) as (A & _).
  split; [exact A|]. intros l1 z1 l2 z2 l3 E. rewrite E in A. eapply recs_sorted_pairwise. exact A.
Qed.
Print Assumptions C08_ordered_disjoint.

(* at most one resolution long, on the right chromosome *)
Theorem C08_len_le_res : forall U ips size chrom es secs,
  1 <= size -> valid_zoom_chrom U es -> bb_zoom_records exact ips size chrom es = Ok secs ->
  Forall (fun z => z_end z - z_start z <= size /\ z_chrom z = chrom) (concat secs).
Proof.
  intros U ips size chrom es secs Hs Hv Hr.
  exact (proj1 (proj2 (zoom_records_spec U ips size chrom es secs Hs Hv Hr))).
Qed.
Print Assumptions C08_len_le_res.

(* every covered base lies in a record (in exactly one, by C08_ordered_disjoint); bases that are not
   covered are never counted: the covered count of a record is the number of its bases with depth > 0
   (first component of C08_stats) *)
Theorem C08_partition : forall U ips size chrom es secs,
  1 <= size -> valid_zoom_chrom U es -> bb_zoom_records exact ips size chrom es = Ok secs ->
  forall x, 0 < depth es x -> covered_by (concat secs) x.
Proof.
  intros U ips size chrom es secs Hs Hv Hr.
  exact (proj2 (proj2 (proj2 (zoom_records_spec U ips size chrom es secs Hs Hv Hr)))).
Qed.
Print Assumptions C08_partition.

(* covered / sum / sumsq / min / max of every record are those of the depth function on its span *)
Theorem C08_stats : forall U ips size chrom es secs,
  1 <= size -> valid_zoom_chrom U es -> bb_zoom_records exact ips size chrom es = Ok secs ->
  Forall (zstats_spec (depth es)) (concat secs).
Proof.
  intros U ips size chrom es secs Hs Hv Hr.
  exact (proj1 (proj2 (proj2 (zoom_records_spec U ips size chrom es secs Hs Hv Hr)))).
Qed.
Print Assumptions C08_stats.

(* the tiling loop terminates with the fuel the model gives it, for every input and arithmetic mode:
   the writer model never hangs or panics in process_val_zoom when the resolution is not 0 *)
Theorem C08_tiling_terminates : forall fp ips size chrom es, 1 <= size ->
  exists secs, bb_zoom_records fp ips size chrom es = Ok secs.
Proof. exact zoom_records_total. Qed.
Print Assumptions C08_tiling_terminates.

(* the resolutions of the levels written are strictly increasing, single pass and two passes,
   automatic and manual lists *)
Theorem C08_levels_increasing : forall fp two_pass o sizes input sum levels cs,
  bb_file fp two_pass o sizes input = Ok (sum, levels, cs) -> sincr (map fst levels).
Proof. exact levels_increasing. Qed.
Print Assumptions C08_levels_increasing.

(* File level: every level the file-level model writes has a resolution >= 1 and consists, chromosome
   by chromosome in stream order, of exactly the sections bb_zoom_records yields for that chromosome at
   that resolution -- so the theorems above apply to every level of every accepted file, single pass
   (after the level selection of write_zooms) and two passes. *)
Theorem C08_file_levels : forall fp two_pass o sizes input sum levels cs,
  bb_file fp two_pass o sizes input = Ok (sum, levels, cs) ->
  Forall (fun l => 1 <= fst l) levels /\ Forall (level_from fp o cs) levels.
Proof. intros. split; [eapply levels_positive | eapply levels_from_records]; eassumption. Qed.
Print Assumptions C08_file_levels.

(* ==== on the BYTES of the written file (Model/BigBedWrite.v bb_write / bb_write_multipass, every arithmetic mode) ====
   Hypotheses ([zoom_file_hyps], all satisfiable: C08_file_example): field widths only -- block_size <= 65535, fewer
   than 65536 chromosomes, names NUL-free and shorter than 2^32, entry ends and chromosome sizes below 2^32, file at
   most 2^64 bytes; [zoom_res_u32]: the requested resolutions are below 2^32 (single pass: the normalised size list;
   two passes: a manual list; the automatic two-pass ladder is cut there by the code).  Nothing is asked of the
   entries beyond being accepted by the writer: overlapping, nested, identical, zero-length (also [0,0)) all covered. *)

(* the zoom directory read back from the file: strictly increasing from >= 1, at most MAX_ZOOM_LEVELS entries *)
Theorem C08_file_levels_increasing : forall two_pass fp o sizes autosql input f,
  BedZoomFit.bb_write_either two_pass fp o sizes autosql input = Ok f ->
  zoom_file_hyps o sizes input f -> zoom_res_u32 two_pass o ->
  exists i, read_info f = Ok i /\ inc_from 0 (map zh_res (i_zooms i)) /\ Nlen (i_zooms i) <= MAX_ZOOM_LEVELS.
Proof.
  intros two_pass fp o sizes autosql input f Hw Hh Hu.
  destruct (zoom_query_on_file two_pass fp o sizes autosql input f Hw Hh Hu) as (i & A & B & C & _).
  exists i. auto.
Qed.
Print Assumptions C08_file_levels_increasing.

(* FULL zoom query: for every resolution r of the directory, every chromosome c that had entries ([bruns]: the
   runs of the input, = the per-chromosome entry lists), every range [s, e] and every inflate function (the file
   is uncompressed): the reader -- directory lookup, index root, pointer-chasing R-tree search on the index bytes
   (C05), block reads, record decode, record filter -- returns exactly the records [bb_zoom_records] yields for c
   (under the id the chromosome tree gives c) at resolution r that pass the reader's inclusive overlap test, in
   order, each once; what the f32 storage does to a record is [zrec_read]: chromosome, start, end and covered count
   come back unchanged, every statistic x comes back as f32_of_bits (bits_of_f32 (to_f32 fp x)) ([f32_stored]; the
   item count is not stored and reads as 0).  The records are those C08_ordered_disjoint .. C08_stats
   characterise (fp = exact; for any other mode the same chromosomes/starts/ends/covered counts:
   C08_geometry_any_mode).  Sections sorted by (chromosome, start) -- C05's hypothesis -- is PROVED for what the
   writer lays out: records of a chromosome ordered (tiling invariant), chromosome ids increasing in file order. *)
Theorem C08_zoom_query : forall two_pass fp o sizes autosql input f,
  BedZoomFit.bb_write_either two_pass fp o sizes autosql input = Ok f ->
  zoom_file_hyps o sizes input f -> zoom_res_u32 two_pass o ->
  exists i, read_info f = Ok i /\
    forall r, In r (map zh_res (i_zooms i)) -> 1 <= r /\
    forall infl c es s e, In (c, es) (BigBedWrite.bruns input) ->
      exists q secs, chrom_id i c = Ok q
        /\ bb_zoom_records fp (o_ips o) r q (map BigBedWrite.to_sw es) = Ok secs
        /\ zoom_interval infl f i c s e r
           = Ok (map (zrec_read fp) (filter (fun z => (s <=? z_end z) && (z_start z <=? e)) (concat secs))).
Proof.
  intros two_pass fp o sizes autosql input f Hw Hh Hu.
  destruct (zoom_query_on_file two_pass fp o sizes autosql input f Hw Hh Hu) as (i & A & _ & _ & D).
  exists i. split; [exact A|exact D].
Qed.
Print Assumptions C08_zoom_query.

(* the property's wording: a zoom range query returns every record intersecting the range (and only
   records of the level that touch it) *)
Theorem C08_zoom_query_complete : forall two_pass fp o sizes autosql input f,
  BedZoomFit.bb_write_either two_pass fp o sizes autosql input = Ok f ->
  zoom_file_hyps o sizes input f -> zoom_res_u32 two_pass o ->
  exists i, read_info f = Ok i /\
    forall r, In r (map zh_res (i_zooms i)) ->
    forall infl c es s e, In (c, es) (BigBedWrite.bruns input) ->
      exists q secs ans, chrom_id i c = Ok q
        /\ bb_zoom_records fp (o_ips o) r q (map BigBedWrite.to_sw es) = Ok secs
        /\ zoom_interval infl f i c s e r = Ok ans
        /\ (forall z, In z (concat secs) -> z_start z < e -> s < z_end z -> In (zrec_read fp z) ans)
        /\ (forall a, In a ans -> exists z, In z (concat secs) /\ a = zrec_read fp z /\ s <= z_end z /\ z_start z <= e).
Proof.
  intros two_pass fp o sizes autosql input f Hw Hh Hu.
  destruct (zoom_query_on_file two_pass fp o sizes autosql input f Hw Hh Hu) as (i & A & _ & _ & D).
  exists i. split; [exact A|]. intros r Hr infl c es s e Hce. destruct (D r Hr) as [_ D'].
  destruct (D' infl c es s e Hce) as (q & secs & Hq & Hs & Hz). exists q, secs. eexists. split; [exact Hq|]. split; [exact Hs|].
  split; [exact Hz|]. split.
  - intros z Hin H1 H2. apply in_map. apply filter_In. split; [exact Hin|].
    apply andb_true_iff. split; apply N.leb_le; lia.
  - intros a Ha. apply in_map_iff in Ha as [z [<- Hz']]. apply filter_In in Hz' as [Hin Hk].
    apply andb_true_iff in Hk as [H1 H2]. apply N.leb_le in H1, H2. exists z. auto.
Qed.
Print Assumptions C08_zoom_query_complete.

(* chromosome, start, end and covered count of every record, and the cut into sections, do not depend on the
   arithmetic mode: the run under any fp is geometry-equal to the exact run the theorems above are about *)
Theorem C08_geometry_any_mode : forall fp fp' ips size chrom es secs,
  bb_zoom_records fp ips size chrom es = Ok secs ->
  exists secs', bb_zoom_records fp' ips size chrom es = Ok secs' /\ Forall2 (Forall2 geq) secs secs'.
Proof. exact zoom_records_geq. Qed.
Print Assumptions C08_geometry_any_mode.

(* C05's hypothesis for what the writer lays out, stand-alone (used inside C08_zoom_query): the placed sections
   of a level are sorted by (chromosome, start) when the chromosome ids increase in file order (they are 0,1,2,..
   for an accepted input) and every chromosome's entries are accepted ones (C08_accepted_valid), every mode *)
Theorem C08_level_sections_sorted : forall fp ips size (chs : list (N * list entry)) per sds pos,
  1 <= size -> Sorted.StronglySorted N.lt (map fst chs) ->
  Forall (fun c => valid_zoom_chrom U32_MAX (snd c)) chs ->
  Forall2 (fun c recs => bb_zoom_records fp ips size (fst c) (snd c) = Ok recs) chs per ->
  mapM (encode_zoom_section fp) (concat per) = Ok sds ->
  RTreeBuild.sorted_starts (map sect_span (place pos sds)).
Proof. exact bb_level_sections_sorted. Qed.
Print Assumptions C08_level_sections_sorted.

(* the list-level core of the query theorem (C07's argument on any record lists): sections whose recorded span
   [first start, last end] misses the range hold no record the reader's filter keeps *)
Theorem C08_zoom_query_sections : forall q s e (secs : list (list zrec)), Forall sec_ok secs ->
  flat_map (filter (zkeep q s e)) (filter (zsec_hit q s e) secs) = filter (zkeep q s e) (concat secs).
Proof. exact zoom_query_sections. Qed.
Print Assumptions C08_zoom_query_sections.

(* ---- non-vacuity ---- *)
Definition ent (s e : N) : entry := {| e_start := s; e_end := e; e_rest := [] |}.
(* overlapping, identical, zero-length entries, a gap of exactly one resolution, a long entry *)
Definition ex_es := [ent 0 5; ent 0 5; ent 3 3; ent 3 12; ent 22 23; ent 30 61].
Example C08_example_hyps :
  valid_zoom_chrom 100 ex_es /\ bb_check_chrom 100 ex_es = Ok tt /\
  exists secs, bb_zoom_records exact 2 10 7 ex_es = Ok secs /\
    map (map (fun z => (z_start z, z_end z, su_bases (z_sum z), su_max (z_sum z), su_sum (z_sum z)))) secs
    = [[(0, 10, 10, FFin 3 0, FFin 17 0); (10, 12, 2, FFin 1 0, FFin 2 0)];
       [(22, 32, 3, FFin 1 0, FFin 3 0); (32, 42, 10, FFin 1 0, FFin 10 0)];
       [(42, 52, 10, FFin 1 0, FFin 10 0); (52, 61, 9, FFin 1 0, FFin 9 0)]].
Proof.
  split; [|split].
  - unfold valid_zoom_chrom, U32_MAX, entry_ok. repeat split; repeat constructor; cbn; lia.
  - reflexivity.
  - eexists. split; vm_compute; reflexivity.
Qed.
(* record [22,32) holds 3 covered bases (22, 30, 31): the 7 uncovered bases between are not counted *)

(* ---- non-vacuity at file level: a concrete bigBed, both writers, IEEE arithmetic ----
   two chromosomes; "a" as above, "b" with a [0,0) entry and a short one; manual list [10; 0; 4; 10] (a zero and a
   duplicate: read back as [4; 10]); items_per_slot 2, block_size 2 (the level-4 index of "a" has several levels).
   The hypotheses of C08_zoom_query hold, and the reader run on the 2279 bytes returns, for "a" 5..31 at
   resolution 10, the three records meeting the range with the statistics of C08_example_hyps as f32 bit
   patterns (min 1.0, max 3.0, sum 17.0, sumsq 35.0 for [0,10)), for "b" the single record [7,9). *)
Definition fx_o : opts :=
  {| o_compress := false; o_ips := 2; o_bs := 2; o_izoom := 10; o_maxzooms := 10; o_manual := Some [10; 0; 4; 10]; o_sort_all := true |}.
Definition bent (s e : N) : BigBedWrite.entry := {| BigBedWrite.e_start := s; BigBedWrite.e_end := e; BigBedWrite.e_rest := [] |}.
Definition fx_input : list BigBedWrite.bitem :=
  map (fun x => ([97], x)) [bent 0 5; bent 0 5; bent 3 3; bent 3 12; bent 22 23; bent 30 61]
  ++ map (fun x => ([98], x)) [bent 0 0; bent 7 9].
Definition fx_sizes : list (name * N) := [([97], 100); ([98], 50)].
Definition zview (z : zrec) :=
  (z_start z, z_end z, su_bases (z_sum z), bits_of_f32 (su_min (z_sum z)), bits_of_f32 (su_max (z_sum z)),
   bits_of_f32 (su_sum (z_sum z)), bits_of_f32 (su_sumsq (z_sum z))).
Definition fx_run (two_pass : bool) :=
  match BedZoomFit.bb_write_either two_pass ieee fx_o fx_sizes None fx_input with
  | Ok f => match read_info f with
            | Ok i => Some (Nlen f, map zh_res (i_zooms i),
                            match zoom_interval (fun x => x) f i [97] 5 31 10 with Ok a => Some (map zview a) | _ => None end,
                            match zoom_interval (fun x => x) f i [98] 0 50 4 with Ok a => Some (map zview a) | _ => None end)
            | _ => None end
  | _ => None end.

Example C08_file_example_run : forall two_pass,
  fx_run two_pass = Some (2279, [4; 10],
    Some [(0, 10, 10, 1065353216, 1077936128, 1099431936, 1108082688);
          (10, 12, 2, 1065353216, 1065353216, 1073741824, 1073741824);
          (22, 32, 3, 1065353216, 1065353216, 1077936128, 1077936128)],
    Some [(7, 9, 2, 1065353216, 1065353216, 1073741824, 1073741824)]).
Proof. intros [|]; vm_compute; reflexivity. Qed.

Example C08_file_example_hyps : forall two_pass,
  exists f, BedZoomFit.bb_write_either two_pass ieee fx_o fx_sizes None fx_input = Ok f
            /\ zoom_file_hyps fx_o fx_sizes fx_input f /\ zoom_res_u32 two_pass fx_o.
Proof.
  intros two_pass.
  assert (E : exists f, BedZoomFit.bb_write_either two_pass ieee fx_o fx_sizes None fx_input = Ok f /\ Nlen f = 2279).
  { destruct two_pass; (eexists; split; [vm_compute; reflexivity|vm_compute; reflexivity]). }
  destruct E as (f & E & Hl). exists f. split; [exact E|]. split.
  - unfold zoom_file_hyps. rewrite Hl. split; [cbn; lia|]. split; [vm_compute; reflexivity|]. split; [|split].
    + unfold fx_input. repeat constructor; cbn [fst snd BigBedWrite.e_end bent]; try (unfold U32; vm_compute; reflexivity); discriminate.
    + repeat constructor; cbn; unfold U32; lia.
    + unfold U64. lia.
  - destruct two_pass; unfold zoom_res_u32.
    + unfold ZoomFile.manual_u32. cbn [o_manual fx_o]. repeat constructor; unfold U32; lia.
    + assert (Es : zoom_sizes_single fx_o = [4; 10]) by (vm_compute; reflexivity). rewrite Es. repeat constructor; unfold U32; lia.
Qed.

(* ================= the IEEE run IS the exact run below 2^53 (Proofs/FloatExactBed.v) =================
   Depths are whole numbers; every statistic of a record is a whole number.  As long as the sum of squared
   depths of the chromosome is below 2^53, no binary64 operation of the tiling rounds: the IEEE instance of
   the model (the one compared bit for bit with the implementation) returns exactly the records of the exact
   instance, so C08_ordered_disjoint .. C08_stats hold for it verbatim.  (The f32 depth counter of the code
   is a natural number in the model: fewer than 2^24 entries over one base, see the notes.) *)
From BT Require Proofs.BedIeee Proofs.FloatExactBed.

Theorem C08_records_ieee : forall U ips size chrom es, 1 <= size -> BedSummary.valid_chrom U es ->
  st_sumsq (depth es) (span 0 U) < BedIeee.P53 ->
  bb_zoom_records ieee ips size chrom es = bb_zoom_records exact ips size chrom es.
Proof. exact FloatExactBed.bb_zoom_records_ieee. Qed.
Print Assumptions C08_records_ieee.

(* C08_stats (and order, shape, partition) for the IEEE instance *)
Theorem C08_stats_ieee : forall U ips size chrom es secs, 1 <= size -> valid_zoom_chrom U es ->
  st_sumsq (depth es) (span 0 U) < BedIeee.P53 ->
  bb_zoom_records ieee ips size chrom es = Ok secs ->
  bb_zoom_records exact ips size chrom es = Ok secs /\
  let R := concat secs in
  recs_sorted 0 R /\ Forall (zshape size chrom) R /\ Forall (zstats_spec (depth es)) R /\
  (forall x, 0 < depth es x -> covered_by R x).
Proof. exact FloatExactBed.zoom_records_spec_ieee. Qed.
Print Assumptions C08_stats_ieee.

Example C08_example_ieee :
  let es := [ {| e_start := 0; e_end := 10; e_rest := [] |}; {| e_start := 0; e_end := 10; e_rest := [] |};
              {| e_start := 5; e_end := 15; e_rest := [] |}; {| e_start := 20; e_end := 22; e_rest := [] |} ] in
  valid_zoom_chrom 30 es /\ st_sumsq (depth es) (span 0 30) < BedIeee.P53 /\
  exists secs, bb_zoom_records ieee 2 4 0 es = Ok secs /\ length (concat secs) = 5%nat.
Proof.
  cbv zeta. split; [|split; [vm_compute; reflexivity|]].
  - unfold valid_zoom_chrom, U32_MAX, entry_ok. repeat split; repeat constructor; cbn; lia.
  - eexists. split; [vm_compute; reflexivity|]. vm_compute. reflexivity.
Qed.
