(* C08 — bigBed zoom levels are faithful reductions of coverage depth.
   Only statements, closed by [exact] / projections, with Print Assumptions beneath each.
   The records are those of Model/BedSweep.v bb_zoom_records (depth sweep + tiling + sectioning) in
   exact arithmetic; R = concat secs is the record sequence of one chromosome at one resolution,
   for every items_per_slot, every resolution >= 1 and every accepted entry list. *)
From BT Require Import Base.Util Base.Float Model.RTree Model.BBIFile Model.BigWigWrite Model.BedSweep Spec.Depth
  Model.EntryBedSweep Proofs.DepthStats Proofs.SweepRLE Proofs.BedSummary Proofs.BedTile Proofs.ZoomLevels.
Local Open Scope N_scope.

(* shared with C06: the sweep emits the run-length encoding of the depth *)
Theorem C08_sweep_eq_rle_depth : forall U es,
  U <= U32_MAX -> Forall (entry_ok U) es -> starts_sorted es ->
  segs_sorted 0 (sweep_emitted es) /\ Forall (seg_ok U) (sweep_emitted es) /\
  (forall x, x < U32_MAX -> segs_depth (sweep_emitted es) x = depth es x).
Proof. exact sweep_eq_rle_depth. Qed.
Print Assumptions C08_sweep_eq_rle_depth.

(* what the writer accepts is what the theorems below need (positions are u32: len, ends <= U <= 2^32-1) *)
Theorem C08_accepted_valid : forall U len es, U <= U32_MAX -> len <= U32_MAX -> Forall (fun e => e_end e <= U) es ->
  bb_check_chrom len es = Ok tt -> valid_zoom_chrom U es.
Proof.
  intros U len es HU Hlen Hend Hc. destruct (check_chrom_valid len es Hc) as (A & B).
  split; [exact HU | split; [|split; [exact A|]]]; rewrite Forall_forall in *; intros e He.
  - split; [apply (B e He) | apply (Hend e He)].
  - destruct (B e He). lia.
Qed.
Print Assumptions C08_accepted_valid.

(* records are in order, non-empty and disjoint: each starts at or after the end of the one before *)
Theorem C08_ordered_disjoint : forall U ips size chrom es secs,
  1 <= size -> valid_zoom_chrom U es -> bb_zoom_records exact ips size chrom es = Ok secs ->
  recs_sorted 0 (concat secs) /\
  (forall l1 z1 l2 z2 l3, concat secs = l1 ++ z1 :: l2 ++ z2 :: l3 -> z_end z1 <= z_start z2).
Proof.
  intros U ips size chrom es secs Hs Hv Hr.
  destruct (zoom_records_spec U ips size chrom es secs Hs Hv Hr) as (A & _).
  split; [exact A|]. intros l1 z1 l2 z2 l3 E. rewrite E in A. eapply recs_sorted_pairwise. exact A.
Qed.
Print Assumptions C08_ordered_disjoint.

(* at most one resolution long, on the right chromosome *)
Theorem C08_len_le_res : forall U ips size chrom es secs,
  1 <= size -> valid_zoom_chrom U es -> bb_zoom_records exact ips size chrom es = Ok secs ->
  Forall (fun z => z_end z - z_start z <= size /\ z_chrom z = chrom) (concat secs).
Proof.
  intros U ips size chrom es secs Hs Hv Hr.
  exact (proj1 (proj2 (zoom_records_spec U ips size chrom es secs Hs Hv Hr))).
Qed.
Print Assumptions C08_len_le_res.

(* every covered base lies in a record (in exactly one, by C08_ordered_disjoint); bases that are not
   covered are never counted: the covered count of a record is the number of its bases with depth > 0
   (first component of C08_stats) *)
Theorem C08_partition : forall U ips size chrom es secs,
  1 <= size -> valid_zoom_chrom U es -> bb_zoom_records exact ips size chrom es = Ok secs ->
  forall x, 0 < depth es x -> covered_by (concat secs) x.
Proof.
  intros U ips size chrom es secs Hs Hv Hr.
  exact (proj2 (proj2 (proj2 (zoom_records_spec U ips size chrom es secs Hs Hv Hr)))).
Qed.
Print Assumptions C08_partition.

(* covered / sum / sumsq / min / max of every record are those of the depth function on its span *)
Theorem C08_stats : forall U ips size chrom es secs,
  1 <= size -> valid_zoom_chrom U es -> bb_zoom_records exact ips size chrom es = Ok secs ->
  Forall (zstats_spec (depth es)) (concat secs).
Proof.
  intros U ips size chrom es secs Hs Hv Hr.
  exact (proj1 (proj2 (proj2 (zoom_records_spec U ips size chrom es secs Hs Hv Hr)))).
Qed.
Print Assumptions C08_stats.

(* the tiling loop terminates with the fuel the model gives it, for every input and arithmetic mode:
   the writer model never hangs or panics in process_val_zoom when the resolution is not 0 *)
Theorem C08_tiling_terminates : forall fp ips size chrom es, 1 <= size ->
  exists secs, bb_zoom_records fp ips size chrom es = Ok secs.
Proof. exact zoom_records_total. Qed.
Print Assumptions C08_tiling_terminates.

(* the resolutions of the levels written are strictly increasing, single pass and two passes,
   automatic and manual lists *)
Theorem C08_levels_increasing : forall fp two_pass o sizes input sum levels cs,
  bb_file fp two_pass o sizes input = Ok (sum, levels, cs) -> sincr (map fst levels).
Proof. exact levels_increasing. Qed.
Print Assumptions C08_levels_increasing.

(* File level: every level the file-level model writes has a resolution >= 1 and consists, chromosome
   by chromosome in stream order, of exactly the sections bb_zoom_records yields for that chromosome at
   that resolution -- so the theorems above apply to every level of every accepted file, single pass
   (after the level selection of write_zooms) and two passes. *)
Theorem C08_file_levels : forall fp two_pass o sizes input sum levels cs,
  bb_file fp two_pass o sizes input = Ok (sum, levels, cs) ->
  Forall (fun l => 1 <= fst l) levels /\ Forall (level_from fp o cs) levels.
Proof. intros. split; [eapply levels_positive | eapply levels_from_records]; eassumption. Qed.
Print Assumptions C08_file_levels.

(* Zoom query, the part that is about the records: the reader's inclusive test keeps every record that
   meets the range [s, e).  FULL STATEMENT (not proved here): get_zoom_interval on the written file
   returns every record of the level meeting the range; it needs in addition that the index search
   returns every block meeting the range (C05_search_bytes_eq_scan, proved) and that the zoom sections'
   recorded spans contain their records (first start / last end of an ordered list: C08_ordered_disjoint),
   composed through the byte image of the bigBed writer (C02/C09).  Validated on the real reader by the
   correspondence check (range queries on record boundaries). *)
Theorem C08_zoom_query_partial : forall (recs : list zrec) s e z,
  In z recs -> z_start z < e -> s < z_end z ->
  In z (filter (fun z => (s <=? z_end z) && (z_start z <=? e)) recs).
Proof.
  intros recs s e z Hin H1 H2. apply filter_In. split; [exact Hin|].
  destruct (N.leb_spec s (z_end z)); destruct (N.leb_spec (z_start z) e); cbn [andb]; try reflexivity; exfalso; lia.
Qed.
Print Assumptions C08_zoom_query_partial.

(* ---- non-vacuity ---- *)
Definition ent (s e : N) : entry := {| e_start := s; e_end := e; e_rest := [] |}.
(* overlapping, identical, zero-length entries, a gap of exactly one resolution, a long entry *)
Definition ex_es := [ent 0 5; ent 0 5; ent 3 3; ent 3 12; ent 22 23; ent 30 61].
Example C08_example_hyps :
  valid_zoom_chrom 100 ex_es /\ bb_check_chrom 100 ex_es = Ok tt /\
  exists secs, bb_zoom_records exact 2 10 7 ex_es = Ok secs /\
    map (map (fun z => (z_start z, z_end z, su_bases (z_sum z), su_max (z_sum z), su_sum (z_sum z)))) secs
    = [[(0, 10, 10, FFin 3 0, FFin 17 0); (10, 12, 2, FFin 1 0, FFin 2 0)];
       [(22, 32, 3, FFin 1 0, FFin 3 0); (32, 42, 10, FFin 1 0, FFin 10 0)];
       [(42, 52, 10, FFin 1 0, FFin 10 0); (52, 61, 9, FFin 1 0, FFin 9 0)]].
Proof.
  split; [|split].
  - unfold valid_zoom_chrom, U32_MAX, entry_ok. repeat split; repeat constructor; cbn; lia.
  - reflexivity.
  - eexists. split; vm_compute; reflexivity.
Qed.
(* record [22,32) holds 3 covered bases (22, 30, 31): the 7 uncovered bases between are not counted *)
