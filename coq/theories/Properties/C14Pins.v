(* Statement pins: each property theorem is re-checked against the statement recorded here, so
   a theorem cannot be weakened in its own file without this file failing to compile. *)
From BT Require Import Base.Util.
From BT Require Base.LE Base.Float Generated.Consts Model.RTree Model.BBIFile Model.BigWigWrite Model.BBIRead Model.SinkTrace
  Proofs.BigWigFileRoundTrip Proofs.RTreeCodec Proofs.BigWigQuery
  Proofs.SinkBytes Proofs.SinkExec Proofs.SinkPhases Proofs.SinkServe Properties.C14.

Module PinC14.
Import Base.LE Base.Float Generated.Consts Model.RTree Model.BBIFile Model.BigWigWrite Model.BBIRead Model.SinkTrace
  Proofs.BigWigFileRoundTrip Proofs.RTreeCodec Proofs.BigWigQuery
  Proofs.SinkBytes Proofs.SinkExec Proofs.SinkPhases Proofs.SinkServe Properties.C14.
Local Open Scope N_scope.

(* the notions the statements use, pinned too *)
Check (eq_refl : chunker_ok = fun ck => forall r b, concat (map (fun pc => snd pc) (ck r b)) = b).
Check (eq_refl : rejected = fun bs => read_info bs = Err R_IO \/ read_info bs = Err R_MAGIC).
Check (eq_refl : complete_state = fun p X =>
  (length (body p) <= length X <= length (body p) + 4)%nat
  /\ forall i, (i < length (body p))%nat -> ~ (304 <= i < 352)%nat -> nth i X 0 = nth i (final_bytes p) 0).
Check (eq_refl : cut_ops = fun ops n c =>
  firstn n ops ++ match nth_error ops n with Some (SWrite p b) => [SWrite p (firstn c b)] | _ => [] end).

Check (eq_refl : serves = fun sizes inp F X =>
  exists i, read_info F = Ok i /\ read_info X = Ok i
    /\ forall infl c vs s e, In (c, vs) (runs inp) ->
         bw_interval infl X i c s e = Ok (clip_filter s e vs)
         /\ bw_interval infl F i c s e = Ok (clip_filter s e vs)).

Check (C14_header_operation : forall ck fp kind o sizes input p,
  chunker_ok ck -> bw_parts fp kind o sizes input = Ok p ->
  nth_error (snd (bw_sink_run None ck fp kind o sizes input)) (header_index ck kind p)
    = Some (SWrite 0 (p_hdr p ++ p_zdir p))
  /\ firstn 4 (p_hdr p) = u32 BIGWIG_MAGIC /\ Nlen (p_hdr p ++ p_zdir p) <= 304).
Check (C14_prefix_rejected : forall ck fp kind o sizes input p n c,
  chunker_ok ck -> bw_parts fp kind o sizes input = Ok p ->
  (n < header_index ck kind p)%nat ->
  rejected (replay (cut_ops (snd (bw_sink_run None ck fp kind o sizes input)) n c))).
Check (C14_prefix_rejected_ops : forall ck fp kind o sizes input p n,
  chunker_ok ck -> bw_parts fp kind o sizes input = Ok p ->
  (n <= header_index ck kind p)%nat ->
  rejected (replay (firstn n (snd (bw_sink_run None ck fp kind o sizes input))))).
Check (C14_prefix_complete : forall ck fp kind o sizes input p n c,
  chunker_ok ck -> bw_parts fp kind o sizes input = Ok p ->
  (header_index ck kind p < n)%nat ->
  complete_state p (replay (cut_ops (snd (bw_sink_run None ck fp kind o sizes input)) n c))).
Check (C14_trace_is_file : forall ck fp o sizes input p,
  chunker_ok ck -> bw_parts fp 0 o sizes input = Ok p ->
  fst (bw_sink_run None ck fp 0 o sizes input) = Ok tt
  /\ bw_write fp o sizes input = Ok (replay (snd (bw_sink_run None ck fp 0 o sizes input)))).
Check (C14_trace_is_file_multipass : forall ck fp o sizes input p,
  chunker_ok ck -> bw_parts fp 1 o sizes input = Ok p ->
  fst (bw_sink_run None ck fp 1 o sizes input) = Ok tt
  /\ bw_write_multipass fp o sizes input = Ok (replay (snd (bw_sink_run None ck fp 1 o sizes input)))).
Check (C14_refused_input : forall ck fp kind o sizes input n c,
  chunker_ok ck -> (forall p, bw_parts fp kind o sizes input <> Ok p) ->
  fst (bw_sink_run None ck fp kind o sizes input) <> Ok tt
  /\ rejected (replay (cut_ops (snd (bw_sink_run None ck fp kind o sizes input)) n c))).
Check (C14_fault : forall ck fp kind o sizes input kd k,
  (k < count_kind kd (snd (bw_sink_run None ck fp kind o sizes input)))%nat ->
  fst (bw_sink_run (Some (kd, k)) ck fp kind o sizes input) <> Ok tt).
Check (C14_prefix_serves : forall ck fp kind o sizes input p n c,
  chunker_ok ck -> bw_parts fp kind o sizes input = Ok p -> kind = 0 \/ kind = 1 ->
  opts_ok o -> input_ok sizes input -> Nlen (final_bytes p) < U64 ->
  (header_index ck kind p < n)%nat ->
  let T := snd (bw_sink_run None ck fp kind o sizes input) in
  serves sizes input (replay T) (replay (cut_ops T n c))).
Check (C14_fault_state : forall f ck fp kind o sizes input,
  exists n, snd (bw_sink_run f ck fp kind o sizes input)
            = firstn n (snd (bw_sink_run None ck fp kind o sizes input))).
Check (C14_last_flush_refuted :
  count_kind 1 (snd (sink_run None ck_whole false false ieee 0 ex_o ex_sizes ex_input)) = 14%nat
  /\ fst (sink_run (Some (1, 13%nat)) ck_whole false false ieee 0 ex_o ex_sizes ex_input) = Ok tt
  /\ fst (sink_run (Some (1, 13%nat)) ck_whole false true ieee 0 ex_o ex_sizes ex_input) = Err E_IO).
Check (C14_debug_split_refuted :
  let T := snd (sink_run None ck_whole true true ieee 0 ex_o ex_sizes ex_input) in
  nth_error T 24 = Some (SWrite 0 (firstn 64 (replay T)))
  /\ nth_error T 26 = Some (SWrite 64 (firstn 24 (skipn 64 (replay T))))
  /\ (exists i j, read_info (replay (firstn 25 T)) = Ok i /\ read_info (replay T) = Ok j
                  /\ map zh_res (i_zooms i) = [0] /\ map zh_res (i_zooms j) = [10])
  /\ replay T = replay (ex_trace ck_whole)).
End PinC14.
