(* Statement pins: each property theorem is re-checked against the statement recorded here, so
   a theorem cannot be weakened in its own file without this file failing to compile. *)
From BT Require Import Base.Util.
From BT Require Base.LE Base.Float Generated.Consts Model.RTree Model.BBIFile Model.BigWigWrite Model.BBIRead Model.SinkTrace
  Proofs.BigWigFileRoundTrip Proofs.RTreeCodec Proofs.BigWigQuery
  Proofs.SinkBytes Proofs.SinkExec Proofs.SinkPhases Proofs.SinkServe Properties.C14.

Module PinC14.
Import Base.LE Base.Float Generated.Consts Model.RTree Model.BBIFile Model.BigWigWrite Model.BBIRead Model.SinkTrace
  Proofs.BigWigFileRoundTrip Proofs.RTreeCodec Proofs.BigWigQuery
  Proofs.SinkBytes Proofs.SinkExec Proofs.SinkPhases Proofs.SinkServe Properties.C14.
Local Open Scope N_scope.

(* the notions the statements use, pinned too *)
Check (eq_refl : chunker_ok = fun ck => forall r b, concat (map (fun pc => snd pc) (ck r b)) = b).
Check (eq_refl : rejected = fun bs => read_info bs = Err R_IO \/ read_info bs = Err R_MAGIC).
Check (eq_refl : complete_state = fun p X =>
  (length (body p) <= length X <= length (body p) + 4)%nat
  /\ forall i, (i < length (body p))%nat -> ~ (304 <= i < 352)%nat -> nth i X 0 = nth i (final_bytes p) 0).
Check (eq_refl : cut_ops = fun ops n c =>
  firstn n ops ++ match nth_error ops n with Some (SWrite p b) => [SWrite p (firstn c b)] | _ => [] end).

Check (eq_refl : serves = fun sizes inp F X =>
  exists i, read_info F = Ok i /\ read_info X = Ok i
    /\ forall infl c vs s e, In (c, vs) (runs inp) ->
         bw_interval infl X i c s e = Ok (clip_filter s e vs)
         /\ bw_interval infl F i c s e = Ok (clip_filter s e vs)).

Check (C14_header_operation : forall ck fp kind o sizes input p,
  chunker_ok ck -> bw_parts fp kind o sizes input = Ok p ->
  nth_error (snd (bw_sink_run None ck fp kind o sizes input)) (header_index ck kind p)
    = Some (SWrite 0 (p_hdr p ++ p_zdir p))
  /\ firstn 4 (p_hdr p) = u32 BIGWIG_MAGIC /\ Nlen (p_hdr p ++ p_zdir p) <= 304).
Check (C14_prefix_rejected : forall ck fp kind o sizes input p n c,
  chunker_ok ck -> bw_parts fp kind o sizes input = Ok p ->
  (n < header_index ck kind p)%nat ->
  rejected (replay (cut_ops (snd (bw_sink_run None ck fp kind o sizes input)) n c))).
Check (C14_prefix_rejected_ops : forall ck fp kind o sizes input p n,
  chunker_ok ck -> bw_parts fp kind o sizes input = Ok p ->
  (n <= header_index ck kind p)%nat ->
  rejected (replay (firstn n (snd (bw_sink_run None ck fp kind o sizes input))))).
Check (C14_prefix_complete : forall ck fp kind o sizes input p n c,
  chunker_ok ck -> bw_parts fp kind o sizes input = Ok p ->
  (header_index ck kind p < n)%nat ->
  complete_state p (replay (cut_ops (snd (bw_sink_run None ck fp kind o sizes input)) n c))).
Check (C14_trace_is_file : forall ck fp o sizes input p,
  chunker_ok ck -> bw_parts fp 0 o sizes input = Ok p ->
  fst (bw_sink_run None ck fp 0 o sizes input) = Ok tt
  /\ bw_write fp o sizes input = Ok (replay (snd (bw_sink_run None ck fp 0 o sizes input)))).
Check (C14_trace_is_file_multipass : forall ck fp o sizes input p,
  chunker_ok ck -> bw_parts fp 1 o sizes input = Ok p ->
  fst (bw_sink_run None ck fp 1 o sizes input) = Ok tt
  /\ bw_write_multipass fp o sizes input = Ok (replay (snd (bw_sink_run None ck fp 1 o sizes input)))).
Check (C14_refused_input : forall ck fp kind o sizes input n c,
  chunker_ok ck -> (forall p, bw_parts fp kind o sizes input <> Ok p) ->
  fst (bw_sink_run None ck fp kind o sizes input) <> Ok tt
  /\ rejected (replay (cut_ops (snd (bw_sink_run None ck fp kind o sizes input)) n c))).
Check (C14_fault : forall ck fp kind o sizes input kd k,
  (k < count_kind kd (snd (bw_sink_run None ck fp kind o sizes input)))%nat ->
  fst (bw_sink_run (Some (kd, k)) ck fp kind o sizes input) <> Ok tt).
Check (C14_prefix_serves : forall ck fp kind o sizes input p n c,
  chunker_ok ck -> bw_parts fp kind o sizes input = Ok p -> kind = 0 \/ kind = 1 ->
  opts_ok o -> input_ok sizes input -> Nlen (final_bytes p) < U64 ->
  (header_index ck kind p < n)%nat ->
  let T := snd (bw_sink_run None ck fp kind o sizes input) in
  serves sizes input (replay T) (replay (cut_ops T n c))).
Check (C14_fault_state : forall f ck fp kind o sizes input,
  exists n, snd (bw_sink_run f ck fp kind o sizes input)
            = firstn n (snd (bw_sink_run None ck fp kind o sizes input))).
Check (C14_last_flush_refuted :
  count_kind 1 (snd (sink_run None ck_whole false false ieee 0 ex_o ex_sizes ex_input)) = 14%nat
  /\ fst (sink_run (Some (1, 13%nat)) ck_whole false false ieee 0 ex_o ex_sizes ex_input) = Ok tt
  /\ fst (sink_run (Some (1, 13%nat)) ck_whole false true ieee 0 ex_o ex_sizes ex_input) = Err E_IO).
Check (C14_debug_split_refuted :
  let T := snd (sink_run None ck_whole true true ieee 0 ex_o ex_sizes ex_input) in
  nth_error T 24 = Some (SWrite 0 (firstn 64 (replay T)))
  /\ nth_error T 26 = Some (SWrite 64 (firstn 24 (skipn 64 (replay T))))
  /\ (exists i j, read_info (replay (firstn 25 T)) = Ok i /\ read_info (replay T) = Ok j
                  /\ map zh_res (i_zooms i) = [0] /\ map zh_res (i_zooms j) = [10])
  /\ replay T = replay (ex_trace ck_whole)).
End PinC14.

(* ---- the bigBed writer ---- *)
From BT Require Model.BigBedWrite Model.BBIReadBed Model.SinkTraceBed Proofs.BedQuery Proofs.BedCodec Proofs.BedReadInfo
  Proofs.BedEndToEnd Proofs.SinkBedPhases Proofs.SinkBedServe.

Module PinC14Bed.
Import Base.LE Base.Float Generated.Consts Model.RTree Model.BBIFile Model.BigWigWrite Model.BBIRead Model.SinkTrace
  Proofs.RTreeCodec Proofs.SinkBytes Proofs.SinkExec
  Model.BigBedWrite Model.BBIReadBed Model.SinkTraceBed Proofs.BedCodec Proofs.BedReadInfo Proofs.BedEndToEnd
  Proofs.SinkBedPhases Proofs.SinkBedServe Properties.C14.
Local Open Scope N_scope.

(* the notions the statements use, pinned too *)
Check (eq_refl : complete_at = fun so p X =>
  (length (body p) <= length X <= length (body p) + 4)%nat
  /\ forall i, (i < length (body p))%nat -> ~ (so <= i < so + 48)%nat -> nth i X 0 = nth i (final_bytes p) 0).
Check (eq_refl : bb_serves = fun autosql input F X =>
  exists i sql fc, read_info F = Ok i /\ read_info X = Ok i /\ bb_schema autosql = Ok (sql, fc)
    /\ (forall infl c es s e, In (c, es) (bruns input) ->
          bb_interval infl X i c s e = Ok (filter (bkeep s e) es)
          /\ bb_interval infl F i c s e = Ok (filter (bkeep s e) es))
    /\ bb_autosql X i = Ok (Some sql) /\ bb_autosql F i = Ok (Some sql)).
Check (eq_refl : file_hyps = fun o sizes input f =>
  o_bs o <= 65535 /\ Nlen (bruns input) < U16 /\ input_ok input
  /\ Forall (fun s => snd s < U32) sizes /\ Nlen f <= U64).
Check (eq_refl : input_ok = fun input =>
  Forall (fun it => no_nul_name (fst it) /\ Nlen (fst it) < U32 /\ entry_ok (snd it)) input).
Check (eq_refl : entry_ok = fun x =>
  e_start x < U32 /\ e_end x < U32 /\ no_nul (e_rest x) /\ ~ (e_start x = 0 /\ e_end x = 0)).
Check (eq_refl : bkeep = fun s e x => (s <=? e_end x) && (e_start x <=? e)).

Check (C14_bb_header_operation : forall ck fp kind o sizes autosql input sql p,
  chunker_ok ck -> bb_parts fp kind o sizes autosql input = Ok (sql, p) ->
  nth_error (snd (bb_sink_run None ck fp kind o sizes autosql input)) (bb_header_index ck kind sql p)
    = Some (SWrite 0 (p_hdr p ++ p_zdir p))
  /\ firstn 4 (p_hdr p) = u32 BIGBED_MAGIC /\ Nlen (p_hdr p ++ p_zdir p) <= 304).
Check (C14_bb_prefix_rejected : forall ck fp kind o sizes autosql input sql p n c,
  chunker_ok ck -> bb_parts fp kind o sizes autosql input = Ok (sql, p) ->
  (n < bb_header_index ck kind sql p)%nat ->
  rejected (replay (cut_ops (snd (bb_sink_run None ck fp kind o sizes autosql input)) n c))).
Check (C14_bb_prefix_rejected_ops : forall ck fp kind o sizes autosql input sql p n,
  chunker_ok ck -> bb_parts fp kind o sizes autosql input = Ok (sql, p) ->
  (n <= bb_header_index ck kind sql p)%nat ->
  rejected (replay (firstn n (snd (bb_sink_run None ck fp kind o sizes autosql input))))).
Check (C14_bb_prefix_complete : forall ck fp kind o sizes autosql input sql p n c,
  chunker_ok ck -> bb_parts fp kind o sizes autosql input = Ok (sql, p) ->
  (bb_header_index ck kind sql p < n)%nat ->
  complete_at (305 + length sql) p (replay (cut_ops (snd (bb_sink_run None ck fp kind o sizes autosql input)) n c))).
Check (C14_bb_trace_is_file : forall ck fp o sizes autosql input sql p,
  chunker_ok ck -> bb_parts fp 0 o sizes autosql input = Ok (sql, p) ->
  fst (bb_sink_run None ck fp 0 o sizes autosql input) = Ok tt
  /\ bb_write fp o sizes autosql input = Ok (replay (snd (bb_sink_run None ck fp 0 o sizes autosql input)))).
Check (C14_bb_trace_is_file_multipass : forall ck fp o sizes autosql input sql p,
  chunker_ok ck -> bb_parts fp 1 o sizes autosql input = Ok (sql, p) ->
  fst (bb_sink_run None ck fp 1 o sizes autosql input) = Ok tt
  /\ bb_write_multipass fp o sizes autosql input = Ok (replay (snd (bb_sink_run None ck fp 1 o sizes autosql input)))).
Check (C14_bb_prefix_serves : forall ck fp kind o sizes autosql input sql p n c,
  chunker_ok ck -> bb_parts fp kind o sizes autosql input = Ok (sql, p) ->
  file_hyps o sizes input (final_bytes p) ->
  (bb_header_index ck kind sql p < n)%nat ->
  let T := snd (bb_sink_run None ck fp kind o sizes autosql input) in
  bb_serves autosql input (replay T) (replay (cut_ops T n c))).
Check (C14_bb_refused_input : forall ck fp kind o sizes autosql input n c,
  chunker_ok ck -> (forall sp, bb_parts fp kind o sizes autosql input <> Ok sp) ->
  fst (bb_sink_run None ck fp kind o sizes autosql input) <> Ok tt
  /\ rejected (replay (cut_ops (snd (bb_sink_run None ck fp kind o sizes autosql input)) n c))).
Check (C14_bb_fault : forall ck fp kind o sizes autosql input kd k,
  (k < count_kind kd (snd (bb_sink_run None ck fp kind o sizes autosql input)))%nat ->
  fst (bb_sink_run (Some (kd, k)) ck fp kind o sizes autosql input) <> Ok tt).
Check (C14_bb_fault_state : forall f ck fp kind o sizes autosql input,
  exists n, snd (bb_sink_run f ck fp kind o sizes autosql input)
            = firstn n (snd (bb_sink_run None ck fp kind o sizes autosql input))).
End PinC14Bed.

(* ---- zoom queries at crash points ---- *)
From BT Require Proofs.ZoomFile Proofs.ZoomReadCodec Proofs.ZoomReadFile Proofs.SinkReadZoom.
Module PinC14Zoom.
Import Base.LE Base.Float Generated.Consts Model.RTree Model.BBIFile Model.BigWigWrite Model.BBIRead Model.SinkTrace
  Proofs.BigWigFileRoundTrip Proofs.RTreeCodec Proofs.BigWigQuery
  Proofs.SinkBytes Proofs.SinkExec Proofs.SinkPhases Proofs.SinkServe Properties.C14.
Local Open Scope N_scope.
Check (eq_refl : ZoomReadFile.ztouch = fun s e z => (s <=? z_end z) && (z_start z <=? e)).
Check (eq_refl : ZoomFile.manual_u32 = fun o =>
  match o_manual o with Some zs => Forall (fun z => z < U32) zs | None => True end).
Check (eq_refl : SinkReadZoom.serves_zoom = fun fp o sizes inp F X =>
  exists i, read_info F = Ok i /\ read_info X = Ok i /\
    forall (infl : list N -> list N) r c vs s e, In r (map zh_res (i_zooms i)) -> In (c, vs) (runs inp) ->
      exists id len st, chrom_id i c = Ok id /\ 1 <= r
        /\ lookup c sizes = Some len /\ wf_vals len vs
        /\ zoom_chrom fp (o_ips o) r id vs zstate0 = Ok st
        /\ zoom_interval infl X i c s e r
           = Ok (map (ZoomReadCodec.zrec_read fp) (filter (ZoomReadFile.ztouch s e) (concat (zs_out st))))
        /\ zoom_interval infl F i c s e r
           = Ok (map (ZoomReadCodec.zrec_read fp) (filter (ZoomReadFile.ztouch s e) (concat (zs_out st))))).
Check (C14_prefix_serves_zoom : forall ck fp kind o sizes input p n c,
  chunker_ok ck -> bw_parts fp kind o sizes input = Ok p ->
  (kind = 0 /\ Forall (fun z => z < U32) (zoom_sizes_single o)) \/ (kind = 1 /\ ZoomFile.manual_u32 o) ->
  opts_ok o -> input_ok sizes input -> Nlen (final_bytes p) < U64 ->
  (header_index ck kind p < n)%nat ->
  let T := snd (bw_sink_run None ck fp kind o sizes input) in
  SinkReadZoom.serves_zoom fp o sizes input (replay T) (replay (cut_ops T n c))).
End PinC14Zoom.

From BT Require Model.BedSweep Proofs.C08FileQuery Proofs.SinkBedReadZoom.
Module PinC14BedZoom.
Import Base.LE Base.Float Generated.Consts Model.RTree Model.BBIFile Model.BigWigWrite Model.BBIRead Model.SinkTrace
  Proofs.RTreeCodec Proofs.SinkBytes Proofs.SinkExec
  Model.BigBedWrite Model.BBIReadBed Model.SinkTraceBed Proofs.BedEndToEnd Proofs.SinkBedPhases Proofs.SinkBedServe Properties.C14.
Local Open Scope N_scope.
Check (eq_refl : C08FileQuery.zoom_res_u32 = fun (two_pass : bool) o =>
  if two_pass then ZoomFile.manual_u32 o else Forall (fun z => z < U32) (zoom_sizes_single o)).
Check (eq_refl : SinkBedReadZoom.bb_serves_zoom = fun fp o input F X =>
  exists i, read_info F = Ok i /\ read_info X = Ok i /\
    forall r, In r (map zh_res (i_zooms i)) -> 1 <= r /\
      forall infl c es s e, In (c, es) (bruns input) ->
        exists q secs, chrom_id i c = Ok q
          /\ BedSweep.bb_zoom_records fp (o_ips o) r q (map to_sw es) = Ok secs
          /\ zoom_interval infl X i c s e r
             = Ok (map (ZoomReadCodec.zrec_read fp) (filter (fun z => (s <=? z_end z) && (z_start z <=? e)) (concat secs)))
          /\ zoom_interval infl F i c s e r
             = Ok (map (ZoomReadCodec.zrec_read fp) (filter (fun z => (s <=? z_end z) && (z_start z <=? e)) (concat secs)))).
Check (C14_bb_prefix_serves_zoom : forall ck fp kind o sizes autosql input sql p n c,
  chunker_ok ck -> bb_parts fp kind o sizes autosql input = Ok (sql, p) ->
  file_hyps o sizes input (final_bytes p) ->
  C08FileQuery.zoom_res_u32 (negb (kind =? 0)) o ->
  (bb_header_index ck kind sql p < n)%nat ->
  let T := snd (bb_sink_run None ck fp kind o sizes autosql input) in
  SinkBedReadZoom.bb_serves_zoom fp o input (replay T) (replay (cut_ops T n c))).
End PinC14BedZoom.
