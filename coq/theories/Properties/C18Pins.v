(* Statement pins for C18: each property theorem is re-checked against the statement recorded
   here, so a theorem cannot be weakened in its own file without this file failing to compile. *)
From BT Require Import Base.Util.
From BT Require Model.FileView Model.Chunker Model.Indexer Properties.C18.
From BT Require Model.BBIFile Model.BigWigWrite Model.Accept Proofs.SliceStreamsAccept.
From BT Require Base.Float Model.BedStats Proofs.BedStatsRows.

Module PinC18.
Import Model.FileView Model.Chunker Model.Indexer Properties.C18.
Local Open Scope N_scope.
Check (C18_view_translation : forall (file : list N) (a b : N) (ops : list op),
  a <= b -> a <= Nlen file -> Nlen file < 2 ^ 63 ->
  run_view file a b ops = run_view (range file a b) 0 (b - a) ops).
Check (C18_view_eq_cursor : forall (file : list N) (a b : N) (ops : list op),
  a <= b -> a <= Nlen file -> Nlen file < 2 ^ 63 ->
  run_view file a b ops = cursor_run (range file a b) 0 ops).
Check (C18_view_read_all : forall (file : list N) (a b bufsize : N) (v : view),
  a <= b -> a <= Nlen file -> Nlen file < 2 ^ 63 -> 1 <= bufsize ->
  view_new (Nlen file) a b = Ok v ->
  exists fuel, read_all fuel file v bufsize = Ok (range file a b)).
Check (C18_chunks_partition : forall (file : list N) (n : N), 1 <= n ->
  exists cs, split_file_into_chunks_by_size file n = Ok cs /\
             chain 0 cs (Nlen file) /\
             Forall (fun ab => cut_ok file (fst ab)) cs /\
             (file <> [] -> Forall (fun ab => fst ab < snd ab) cs)).
Check (C18_chunks_lines : forall (file : list N) (n : N) (cs : list (N * N)),
  split_file_into_chunks_by_size file n = Ok cs ->
  concat (map (fun ab => split_lines (range file (fst ab) (snd ab))) cs) = split_lines file).
Check (C18_chunks_line_stream : forall (file : list N) (n : N) (cs : list (N * N)),
  split_file_into_chunks_by_size file n = Ok cs ->
  concat (map (fun ab => line_stream (range file (fst ab) (snd ab))) cs) = line_stream file).
Check (C18_index_grouped : forall (lim : nat) (f : file),
  f <> [] -> Forall wf_line f -> grouped f ->
  fsize f * fsize f < 2 ^ N.of_nat lim ->
  index_chroms (S lim) f = Ok (Some (run_starts f))).
Check (C18_index_grouped_100 : forall (f : file),
  f <> [] -> Forall wf_line f -> grouped f -> fsize f < 2 ^ 49 ->
  index_chroms depth_limit f = Ok (Some (run_starts f))).
Check (C18_index_grouped_if_ok : forall (limit : nat) (f : file) r,
  Forall (fun l => 1 <= snd l) f -> grouped f ->
  index_chroms limit f = Ok r -> r = Some (run_starts f)).
Check (C18_index_none_not_grouped : forall (limit : nat) (f : file),
  Forall (fun l => 1 <= snd l) f -> index_chroms limit f = Ok None -> ~ grouped f).
Check (C18_index_never_none : forall (limit : nat) (f : file),
  Forall (fun l => 1 <= snd l) f -> index_chroms limit f <> Ok None).
Check (C18_index_views_concat : forall (limit : nat) (f : file) (ix : list entry),
  Forall (fun l => 1 <= snd l) f ->
  index_chroms limit f = Ok (Some ix) -> concat (view_streams f ix) = f).
Check (C18_groupedb_iff : forall (f : file), groupedb f = true <-> grouped f).
(* the reference notions the statements rest on, pinned as well *)
Check (eq_refl : grouped = fun f : file =>
  forall p a m b s, f = p ++ a :: m ++ b :: s -> fst a = fst b -> forall x, In x m -> fst x = fst a).
Check (eq_refl : run_starts = fun f : file => dedup_chrom (entries 0 f)).
Check (eq_refl : wf_line = fun l : line => fst l <> 0 /\ 1 <= snd l).
Check (eq_refl : cut_ok = fun (file : list N) (p : N) =>
  p = 0 \/ exists pre post, file = pre ++ NL :: post /\ p = Nlen pre + 1).
Check (eq_refl : depth_limit = 100%nat).
(* ---- the consequence: lines through views ---- *)
Check (C18_view_lines : forall (file : list N) (a b : N) (sz : nat -> N) (fuel : nat),
  a <= b -> a <= Nlen file -> Nlen file < 2 ^ 63 -> (forall k, 1 <= sz k) ->
  (length file < fuel)%nat ->
  view_lines fuel file sz a b = Ok (split_lines (range file a b))).
Check (C18_line_offsets_are_byte_offsets : forall (key : list N -> N) (bytes : list N) p l s,
  split_lines bytes = p ++ l :: s ->
  fsize (lfile key bytes) = Nlen bytes /\
  entries 0 (lfile key bytes) =
    entries 0 (map (abs_line key) p) ++ (Nlen (concat p), key l)
      :: entries (Nlen (concat p) + Nlen l) (map (abs_line key) s) /\
  cut_ok bytes (Nlen (concat p)) /\
  range bytes (Nlen (concat p)) (Nlen (concat p) + Nlen l) = l).
Check (C18_parallel_stream_eq_serial : forall (key : list N -> N) (bytes : list N) (lim : nat)
    (sz : nat -> nat -> N) (fuel : nat),
  bytes <> [] -> (forall l, In l (split_lines bytes) -> key l <> 0) -> grouped (lfile key bytes) ->
  Nlen bytes * Nlen bytes < 2 ^ N.of_nat lim -> Nlen bytes < 2 ^ 63 ->
  (forall i k, 1 <= sz i k) -> (length bytes < fuel)%nat ->
  exists ix,
    index_chroms (S lim) (lfile key bytes) = Ok (Some ix) /\
    ix = run_starts (lfile key bytes) /\
    par_streams fuel bytes sz ix = map Ok (groups key (split_lines bytes)) /\
    map snd ix = map (ghd key) (groups key (split_lines bytes)) /\
    runs_ok key (groups key (split_lines bytes)) /\
    concat (groups key (split_lines bytes)) = split_lines bytes).
Check (C18_parallel_stream_eq_serial_100 : forall (key : list N -> N) (bytes : list N)
    (sz : nat -> nat -> N) (fuel : nat),
  bytes <> [] -> (forall l, In l (split_lines bytes) -> key l <> 0) -> grouped (lfile key bytes) ->
  Nlen bytes < 2 ^ 49 ->
  (forall i k, 1 <= sz i k) -> (length bytes < fuel)%nat ->
  exists ix,
    index_chroms depth_limit (lfile key bytes) = Ok (Some ix) /\
    ix = run_starts (lfile key bytes) /\
    par_streams fuel bytes sz ix = map Ok (groups key (split_lines bytes)) /\
    map snd ix = map (ghd key) (groups key (split_lines bytes)) /\
    runs_ok key (groups key (split_lines bytes)) /\
    concat (groups key (split_lines bytes)) = split_lines bytes).
Check (C18_index_streams : forall (key : list N -> N) (bytes : list N) (limit : nat) (ix : list entry)
    (sz : nat -> nat -> N) (fuel : nat),
  index_chroms limit (lfile key bytes) = Ok (Some ix) ->
  Nlen bytes < 2 ^ 63 -> (forall i k, 1 <= sz i k) -> (length bytes < fuel)%nat ->
  exists segs,
    par_streams fuel bytes sz ix = map Ok segs /\
    concat segs = split_lines bytes /\
    Forall (fun s => s <> []) segs /\
    ix = seg_starts key 0 segs /\
    view_streams (lfile key bytes) ix = map (map (abs_line key)) segs).
Check (C18_chunk_stream_eq_serial : forall (file : list N) (n : N) (cs : list (N * N))
    (sz : nat -> nat -> N) (fuel : nat),
  split_file_into_chunks_by_size file n = Ok cs ->
  Nlen file < 2 ^ 63 -> (forall i k, 1 <= sz i k) -> (length file < fuel)%nat ->
  exists streams,
    chunk_streams fuel file sz cs = map Ok streams /\
    streams = map (fun ab => split_lines (range file (fst ab) (snd ab))) cs /\
    concat streams = split_lines file /\
    concat (map (map trim_end) streams) = line_stream file).
Check (C18_chunks_cut_at_lines : forall (file : list N) (n : N) (cs : list (N * N)),
  split_file_into_chunks_by_size file n = Ok cs ->
  let pieces := map (fun ab => range file (fst ab) (snd ab)) cs in
  concat pieces = file /\
  Forall (fun c => c = [] \/ exists c', c = c' ++ [NL]) (removelast pieces)).
Check (C18_chunks_feed_C17 : forall (fp : Float.fpmode)
    (q : BBIFile.name -> N -> N -> res (list BigWigWrite.value)) (m : BedStats.name_mode) (minmax : bool)
    (file : list N) (n : N) (cs : list (N * N)) (sz : nat -> nat -> N) (fuel : nat),
  split_file_into_chunks_by_size file n = Ok cs ->
  Nlen file < 2 ^ 63 -> (forall i k, 1 <= sz i k) -> (length file < fuel)%nat ->
  let pieces := map (fun ab => range file (fst ab) (snd ab)) cs in
  concat pieces = file /\ BedStatsRows.cuts_at_lines pieces /\
  chunk_streams fuel file sz cs = map (fun c => Ok (BedStats.split_lines c)) pieces /\
  BedStats.avg_parallel fp q m minmax pieces = BedStats.avg_chunk fp q m minmax file /\
  (forall out, BedStats.avg_serial fp q m minmax file = Ok out ->
               BedStats.avg_parallel fp q m minmax pieces = Ok out)).
(* the reference notions the new statements rest on *)
Check (eq_refl : @lfile = fun key bytes => map (abs_line key) (split_lines bytes)).
Check (eq_refl : @abs_line = fun key l => (key l, Nlen l)).
Check (eq_refl : par_streams = par_streams_from O).
Check (eq_refl : chunk_streams = chunk_streams_from O).
Check (eq_refl : u64_max = 2 ^ 64 - 1).
Check (eq_refl : lines_fuel = fun file : list N => S (length file)).
End PinC18.

Module PinC18b.
Import Model.FileView Model.Chunker Model.Indexer Properties.C18.
Import Model.BBIFile Model.BigWigWrite Model.Accept Proofs.SliceStreamsAccept.
Local Open Scope N_scope.
Check (C18_parallel_source_eq_serial : forall (cid : name -> N) fok o sizes (text : list N) (lim : nat)
    (sz : nat -> nat -> N) (fuel : nat),
  let key := bed_key cid in
  text <> [] ->
  (forall l, In l (split_lines text) -> key l <> 0) ->
  (forall l1 l2, In l1 (split_lines text) -> In l2 (split_lines text) ->
     cid (chrom_of l1) = cid (chrom_of l2) -> chrom_of l1 = chrom_of l2) ->
  grouped (lfile key text) ->
  Nlen text * Nlen text < 2 ^ N.of_nat lim -> Nlen text < 2 ^ 63 ->
  (forall i k, 1 <= sz i k) -> (length text < fuel)%nat ->
  exists ix streams,
    index_chroms (S lim) (lfile key text) = Ok (Some ix) /\
    par_streams fuel text sz ix = map Ok streams /\
    concat streams = split_lines text /\
    tasks (bw_parse fok) streams = line_runs (bw_lines fok text) /\
    tasks bb_parse streams = line_runs (bb_lines text) /\
    parallel check_val (o_sort_all o) sizes (tasks (bw_parse fok) streams) = bw_text_parallel fok o sizes text /\
    parallel bb_check_val (o_sort_all o) sizes (tasks bb_parse streams) = bb_text_parallel o sizes text /\
    (bw_text_serial fok o sizes text = Ok tt <->
     parallel check_val (o_sort_all o) sizes (tasks (bw_parse fok) streams) = Ok tt) /\
    (bb_text_serial o sizes text = Ok tt <->
     parallel bb_check_val (o_sort_all o) sizes (tasks bb_parse streams) = Ok tt)).
Check (eq_refl : bed_key = fun (cid : name -> N) (l : list N) =>
  match snd (parse_bed_line l) with POk _ => cid (chrom_of l) | PErr _ => 0 end).
Check (eq_refl : chrom_of = fun l : list N => fst (parse_bed_line l)).
Check (eq_refl : @task_of = fun V (parse : list N -> pline V) (g : list (list N)) =>
  (chrom_of (hd [] g), map parse g)).
End PinC18b.
