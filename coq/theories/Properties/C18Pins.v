(* Statement pins for C18: each property theorem is re-checked against the statement recorded
   here, so a theorem cannot be weakened in its own file without this file failing to compile. *)
From BT Require Import Base.Util.
From BT Require Model.FileView Model.Chunker Model.Indexer Properties.C18.

Module PinC18.
Import Model.FileView Model.Chunker Model.Indexer Properties.C18.
Local Open Scope N_scope.
Check (C18_view_translation : forall (file : list N) (a b : N) (ops : list op),
  a <= b -> a <= Nlen file -> Nlen file < 2 ^ 63 ->
  run_view file a b ops = run_view (range file a b) 0 (b - a) ops).
Check (C18_view_eq_cursor : forall (file : list N) (a b : N) (ops : list op),
  a <= b -> a <= Nlen file -> Nlen file < 2 ^ 63 ->
  run_view file a b ops = cursor_run (range file a b) 0 ops).
Check (C18_view_read_all : forall (file : list N) (a b bufsize : N) (v : view),
  a <= b -> a <= Nlen file -> Nlen file < 2 ^ 63 -> 1 <= bufsize ->
  view_new (Nlen file) a b = Ok v ->
  exists fuel, read_all fuel file v bufsize = Ok (range file a b)).
Check (C18_chunks_partition : forall (file : list N) (n : N), 1 <= n ->
  exists cs, split_file_into_chunks_by_size file n = Ok cs /\
             chain 0 cs (Nlen file) /\
             Forall (fun ab => cut_ok file (fst ab)) cs /\
             (file <> [] -> Forall (fun ab => fst ab < snd ab) cs)).
Check (C18_chunks_lines : forall (file : list N) (n : N) (cs : list (N * N)),
  split_file_into_chunks_by_size file n = Ok cs ->
  concat (map (fun ab => split_lines (range file (fst ab) (snd ab))) cs) = split_lines file).
Check (C18_chunks_line_stream : forall (file : list N) (n : N) (cs : list (N * N)),
  split_file_into_chunks_by_size file n = Ok cs ->
  concat (map (fun ab => line_stream (range file (fst ab) (snd ab))) cs) = line_stream file).
Check (C18_index_grouped : forall (lim : nat) (f : file),
  f <> [] -> Forall wf_line f -> grouped f ->
  fsize f * fsize f < 2 ^ N.of_nat lim ->
  index_chroms (S lim) f = Ok (Some (run_starts f))).
Check (C18_index_grouped_100 : forall (f : file),
  f <> [] -> Forall wf_line f -> grouped f -> fsize f < 2 ^ 49 ->
  index_chroms depth_limit f = Ok (Some (run_starts f))).
Check (C18_index_grouped_if_ok : forall (limit : nat) (f : file) r,
  Forall (fun l => 1 <= snd l) f -> grouped f ->
  index_chroms limit f = Ok r -> r = Some (run_starts f)).
Check (C18_index_none_not_grouped : forall (limit : nat) (f : file),
  Forall (fun l => 1 <= snd l) f -> index_chroms limit f = Ok None -> ~ grouped f).
Check (C18_index_never_none : forall (limit : nat) (f : file),
  Forall (fun l => 1 <= snd l) f -> index_chroms limit f <> Ok None).
Check (C18_index_views_concat : forall (limit : nat) (f : file) (ix : list entry),
  Forall (fun l => 1 <= snd l) f ->
  index_chroms limit f = Ok (Some ix) -> concat (view_streams f ix) = f).
Check (C18_groupedb_iff : forall (f : file), groupedb f = true <-> grouped f).
(* the reference notions the statements rest on, pinned as well *)
Check (eq_refl : grouped = fun f : file =>
  forall p a m b s, f = p ++ a :: m ++ b :: s -> fst a = fst b -> forall x, In x m -> fst x = fst a).
Check (eq_refl : run_starts = fun f : file => dedup_chrom (entries 0 f)).
Check (eq_refl : wf_line = fun l : line => fst l <> 0 /\ 1 <= snd l).
Check (eq_refl : cut_ok = fun (file : list N) (p : N) =>
  p = 0 \/ exists pre post, file = pre ++ NL :: post /\ p = Nlen pre + 1).
Check (eq_refl : depth_limit = 100%nat).
End PinC18.
