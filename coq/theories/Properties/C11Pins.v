(* Statement pins for C11: each property theorem is re-checked against the statement recorded here, so a
   theorem cannot be weakened in its own file without this file failing to compile. *)
From BT Require Import Base.Util.
From BT Require Base.Float Model.RTree Model.BBIFile Model.BigWigWrite Model.Pipeline Model.TempBuf
  Model.BigBedWrite Proofs.BedZoomFit Proofs.PipelineInv Proofs.PipelineThms Proofs.PipelineConv Proofs.PipelineLanes
  Model.PipelineConc Proofs.PipelineRefine Proofs.PipelineRefineProgress Proofs.PipelineLanesProgress Model.PipelineZoom Proofs.PipelineZoom
  Proofs.PipelineZoomProgress Model.PipelineSeq Proofs.PipelineSeq Properties.C11.

Module PinC11.
Import Base.Float Model.RTree Model.BBIFile Model.BigWigWrite Model.Pipeline Proofs.PipelineInv Proofs.PipelineThms
  Proofs.PipelineConv Proofs.PipelineLanes Model.PipelineConc Proofs.PipelineRefine Proofs.PipelineRefineProgress Proofs.PipelineLanesProgress
  Model.PipelineZoom Proofs.PipelineZoom Proofs.PipelineZoomProgress Model.PipelineSeq Proofs.PipelineSeq Properties.C11.
Check (C11_fifo_order : forall g pre Ss sched, g_fifo g = true ->
  let s := run g sched (init pre Ss) in
  length (p_chroms s) = length Ss /\
  forall k c, nth_error (p_chroms s) k = Some c ->
    c_out c ++ map fst (c_fifo c) ++ c_todo c = nth k Ss [] /\
    (c_wdone c = true -> c_out c = nth k Ss []) /\
    (terminal s = true -> c_out c = nth k Ss [])).
Check (C11_splice : forall g pre Ss sched, g_fifo g = true ->
  let s := run g sched (init pre Ss) in
  terminal s = true ->
  sp_file s = seq_file pre Ss /\ final_index (Nlen pre) s = seq_index pre Ss).
Check (C11_file_prefix : forall g pre Ss sched, g_fifo g = true ->
  let s := run g sched (init pre Ss) in
  sp_file s = pre ++ data_bytes (concat (firstn (sp_k s) Ss))).
Check (C11_schedule_independent : forall g1 g2 pre Ss sched1 sched2,
  g_fifo g1 = true -> g_fifo g2 = true ->
  let s1 := run g1 sched1 (init pre Ss) in
  let s2 := run g2 sched2 (init pre Ss) in
  terminal s1 = true -> terminal s2 = true ->
  sp_file s1 = sp_file s2 /\ final_index (Nlen pre) s1 = final_index (Nlen pre) s2).
Check (C11_offsets_address_sections : forall g pre Ss sched (rest : bytes), g_fifo g = true ->
  let s := run g sched (init pre Ss) in
  terminal s = true ->
  slice_ok (sp_file s ++ rest) (final_index (Nlen pre) s) (concat Ss)).
Check (C11_splice_bigwig : forall fp o sizes input ids outs sum data,
  bw_collect fp o sizes input = Ok (ids, outs, sum, data) ->
  exists Ss,
    Forall2 (fun c S => data_sections (o_ips o) (co_id c) (co_vals c) = Ok S) outs Ss /\
    concat Ss = data /\
    forall g sched, g_fifo g = true ->
      let s := run g sched (init bw_pre Ss) in
      terminal s = true ->
      sp_file s = bw_pre ++ data_bytes data /\ final_index PRE_DATA s = place PRE_DATA data).
Check (C11_splice_bigbed : forall two_pass fp o sizes autosql input f,
  BedZoomFit.bb_write_either two_pass fp o sizes autosql input = Ok f ->
  exists sql fc ids outs data,
    BigBedWrite.bb_schema autosql = Ok (sql, fc) /\ BigBedWrite.bb_collect o sizes input = Ok (ids, outs)
    /\ BigBedWrite.bb_data o outs = Ok data /\
    (exists pre' rest, length pre' = length (BigBedWrite.bb_pre sql) /\ f = pre' ++ data_bytes data ++ rest) /\
    exists Ss,
      Forall2 (fun c S => BigBedWrite.bed_sections (o_ips o) (BigBedWrite.bc_id c) (BigBedWrite.bc_entries c) = Ok S) outs Ss /\
      concat Ss = data /\
      forall g sched, g_fifo g = true ->
        let s := run g sched (init (BigBedWrite.bb_pre sql) Ss) in
        terminal s = true ->
        sp_file s = BigBedWrite.bb_pre sql ++ data_bytes data /\
        final_index (Nlen (BigBedWrite.bb_pre sql)) s = place (Nlen (BigBedWrite.bb_pre sql)) data).
Check (C11_progress : forall g pre Ss sched, g_fifo g = true -> (1 <= g_cap g)%nat -> (1 <= g_win g)%nat ->
  let s := run g sched (init pre Ss) in
  terminal s = false -> exists t s', step g t s = Some s').
Check (C11_completion : forall g pre Ss sched, g_fifo g = true -> (1 <= g_cap g)%nat -> (1 <= g_win g)%nat ->
  exists more, terminal (run g (sched ++ more) (init pre Ss)) = true).
Check (C11_await_never_blocks : forall g pre Ss sched, g_fifo g = true ->
  let s := run g sched (init pre Ss) in
  sp_pc s = SAwaitFile ->
  (exists c, nth_error (p_chroms s) (sp_k s) = Some c /\ c_wdone c = true) /\
  exists s', step g TSplice s = Some s').
Check (C11_buffer_contract : forall (d0 : bytes) (secs : list sdata) (ws : list bytes) (npolls : nat) sched,
  concat ws = data_bytes secs ->
  let b := TempBuf.run d0 sched (TempBuf.init (map TempBuf.PWrite ws)
                                  (TempBuf.CSwitch :: repeat TempBuf.CReady npolls ++ [TempBuf.CAwait])) in
  TempBuf.terminal b = true -> TempBuf.c_dest b = Some (d0 ++ data_bytes secs)).
Check (C11_lanes_splice : forall g Ps Sss K sched, g_fifo g = true ->
  length Ps = length Sss -> (1 <= length Sss)%nat -> Forall (fun Ss => length Ss = K) Sss ->
  let s := lrun g sched (linit Ps Sss) in
  forall l, (l < length Sss)%nat ->
    (exists n, nth l (l_files s) [] = nth l Ps [] ++ data_bytes (concat (firstn n (nth l Sss [])))) /\
    (forall k c, nth_error (nth l (l_lanes s) []) k = Some c ->
       c_out c ++ map fst (c_fifo c) ++ c_todo c = nth k (nth l Sss []) []) /\
    (lterminal s = true ->
       nth l (l_files s) [] = seq_file (nth l Ps []) (nth l Sss []) /\
       place (Nlen (nth l Ps [])) (concat (map c_out (nth l (l_lanes s) []))) = seq_index (nth l Ps []) (nth l Sss []))).
Check (C11_converter_order : forall win out0 Ts sched,
  let s := vrun win sched (vinit out0 Ts) in
  (exists n, v_file s = out0 ++ concat (map (@concat N) (firstn n Ts))) /\
  (vterminal s = true -> v_file s = seq_text out0 Ts)).
Check (C11_converter_progress : forall win out0 Ts sched, (1 <= win)%nat ->
  let s := vrun win sched (vinit out0 Ts) in
  vterminal s = false -> exists t s', vstep win t s = Some s').
Check (C11_converter_completion : forall win out0 Ts sched, (1 <= win)%nat ->
  exists more, vterminal (vrun win (sched ++ more) (vinit out0 Ts)) = true).
Check (C11_converter_await_never_blocks : forall win out0 Ts sched,
  let s := vrun win sched (vinit out0 Ts) in
  v_pc s = VAwait -> exists s', vstep win VMain s = Some s').
Check (C11_refine_step : forall g np pre Ss opss sched t s', g_fifo g = true ->
  Forall2 (fun ops S => TempBuf.written ops = data_bytes S) opss Ss ->
  let s := crun g sched (cinit np pre Ss opss) in
  cstep g t s = Some s' ->
  cabs s' = cabs s \/ exists t', step g t' (cabs s) = Some (cabs s')).
Check (C11_refines : forall g np pre Ss opss sched, g_fifo g = true ->
  Forall2 (fun ops S => TempBuf.written ops = data_bytes S) opss Ss ->
  exists sched', cabs (crun g sched (cinit np pre Ss opss)) = run g sched' (init pre Ss)).
Check (C11_buffers_are_c12 : forall g np pre Ss opss sched, g_fifo g = true ->
  Forall2 (fun ops S => TempBuf.written ops = data_bytes S) opss Ss ->
  let s := crun g sched (cinit np pre Ss opss) in
  length (k_x s) = length Ss /\
  forall k x, nth_error (k_x s) k = Some x ->
    (exists sch, x_buf x = TempBuf.run (Dk pre Ss k) sch (TempBuf.init (nth k opss []) (cprog np))) /\
    TempBuf.panicked (x_buf x) = false /\
    (forall r, TempBuf.c_dest (x_buf x) = Some r -> r = Dk pre Ss (S k))).
Check (C11_splice_concrete : forall g np pre Ss opss sched, g_fifo g = true ->
  Forall2 (fun ops S => TempBuf.written ops = data_bytes S) opss Ss ->
  let s := crun g sched (cinit np pre Ss opss) in
  (forall k x, nth_error (k_x s) k = Some x -> TempBuf.panicked (x_buf x) = false) /\
  sp_file (cabs s) = pre ++ data_bytes (concat (firstn (sp_k (cabs s)) Ss)) /\
  (cterminal s = true ->
     sp_file (cabs s) = seq_file pre Ss /\ final_index (Nlen pre) (cabs s) = seq_index pre Ss)).
Check (C11_lanes_progress : forall g Ps Sss K sched, g_fifo g = true -> (1 <= g_cap g)%nat -> (1 <= g_win g)%nat ->
  length Ps = length Sss -> (1 <= length Sss)%nat -> Forall (fun Ss => length Ss = K) Sss ->
  let s := lrun g sched (linit Ps Sss) in
  lterminal s = false -> exists t s', lstep g t s = Some s').
Check (C11_lanes_completion : forall g Ps Sss K sched, g_fifo g = true -> (1 <= g_cap g)%nat -> (1 <= g_win g)%nat ->
  length Ps = length Sss -> (1 <= length Sss)%nat -> Forall (fun Ss => length Ss = K) Sss ->
  (forall t s', lstep g t (lrun g sched (linit Ps Sss)) = Some s' ->
                (lmeasure s' < lmeasure (lrun g sched (linit Ps Sss)))%nat) /\
  exists more, lterminal (lrun g (sched ++ more) (linit Ps Sss)) = true).
Check (C11_lanes_waits : forall g Ps Sss K sched, g_fifo g = true -> (1 <= g_cap g)%nat ->
  length Ps = length Sss -> (1 <= length Sss)%nat -> Forall (fun Ss => length Ss = K) Sss ->
  let s := lrun g sched (linit Ps Sss) in
  (l_ph s <> LRecv -> l_ph s <> LDone -> (l_k s < l_started s)%nat /\ (l_started s <= K)%nat) /\
  (forall j, l_ph s = LAwaitFile j -> exists s', lstep g LSplice s = Some s') /\
  (forall l k c, (l < length Sss)%nat -> (k < l_started s)%nat ->
     nth_error (nth l (l_lanes s) []) k = Some c -> c_todo c <> [] ->
     (exists s', lstep g (LProd l k) s = Some s') \/
     (exists t s', lstep g t s = Some s' /\ (t = LWrite l k \/ t = LEnc l k 0)))).
Check (C11_zoom_levels_splice : forall g o ress pre Sss K sched, g_fifo g = true ->
  length ress = length Sss -> (1 <= length Sss)%nat -> Forall (fun Ss => length Ss = K) Sss ->
  let s := zrun g o ress sched (zinit pre Sss) in
  forall l, (l < length Sss)%nat ->
    (exists sp, nth_error (z_sp s) l = Some sp /\
       zs_store sp = data_bytes (concat (firstn (zs_k sp) (nth l Sss []))) /\
       (zs_pc sp = SDone -> zs_store sp = data_bytes (concat (nth l Sss [])))) /\
    (forall k c, nth_error (nth l (z_lanes s) []) k = Some c ->
       c_out c ++ map fst (c_fifo c) ++ c_todo c = nth k (nth l Sss []) [])).
Check (C11_zoom_assembly : forall g o ress pre Sss K sched, g_fifo g = true ->
  length ress = length Sss -> (1 <= length Sss)%nat -> Forall (fun Ss => length Ss = K) Sss ->
  let s := zrun g o ress sched (zinit pre Sss) in
  (exists b, write_zooms_two_pass o (Nlen pre) (firstn (z_asm s) (zlevels ress Sss)) = Ok (b, z_hdrs s) /\
             z_file s = pre ++ b) /\
  (zterminal s = true ->
     exists zbytes, write_zooms_two_pass o (Nlen pre) (zlevels ress Sss) = Ok (zbytes, z_hdrs s) /\
                    z_file s = pre ++ zbytes)).
Check (C11_zoom_assembly_bigwig : forall fp o outs zsizes zooms,
  mapM (fun size => do secs <- concat_res (map (fun c => zoom_sections fp (o_ips o) size (co_id c) (co_vals c)) outs);
                    Ok {| zl_res := size; zl_secs := secs |}) zsizes = Ok zooms ->
  exists Sss,
    Forall2 (fun size Ss => Forall2 (fun c S => zoom_sections fp (o_ips o) size (co_id c) (co_vals c) = Ok S) outs Ss) zsizes Sss /\
    zooms = zlevels zsizes Sss /\
    forall g pre sched, g_fifo g = true -> (1 <= length zsizes)%nat ->
      let s := zrun g o zsizes sched (zinit pre Sss) in
      zterminal s = true ->
      exists zbytes, write_zooms_two_pass o (Nlen pre) zooms = Ok (zbytes, z_hdrs s) /\ z_file s = pre ++ zbytes).
Check (C11_zoom_progress : forall g o ress pre Sss K sched zb hs, g_fifo g = true -> (1 <= g_cap g)%nat -> (1 <= g_win g)%nat ->
  length ress = length Sss -> (1 <= length Sss)%nat -> Forall (fun Ss => length Ss = K) Sss ->
  write_zooms_two_pass o (Nlen pre) (zlevels ress Sss) = Ok (zb, hs) ->
  let s := zrun g o ress sched (zinit pre Sss) in
  zterminal s = false -> exists t s', zstep g o ress t s = Some s').
Check (C11_zoom_completion : forall g o ress pre Sss K sched zb hs, g_fifo g = true -> (1 <= g_cap g)%nat -> (1 <= g_win g)%nat ->
  length ress = length Sss -> (1 <= length Sss)%nat -> Forall (fun Ss => length Ss = K) Sss ->
  write_zooms_two_pass o (Nlen pre) (zlevels ress Sss) = Ok (zb, hs) ->
  exists more, let s := zrun g o ress (sched ++ more) (zinit pre Sss) in
    zterminal s = true /\ z_file s = pre ++ zb /\ z_hdrs s = hs).
Check (C11_seq_lanes_refines : forall g Ps Sss ords sched,
  exists sched', q_l (qrun g sched (qinit Ps Sss ords)) = lrun g sched' (linit Ps Sss)).
Check (C11_seq_lanes_progress : forall g Ps Sss K ords sched, g_fifo g = true -> (1 <= g_cap g)%nat -> (1 <= g_win g)%nat ->
  length Ps = length Sss -> (1 <= length Sss)%nat -> Forall (fun Ss => length Ss = K) Sss -> ord_ok Sss ords ->
  let s := qrun g sched (qinit Ps Sss ords) in
  qterminal s = false -> exists t s', qstep g t s = Some s').
Check (C11_seq_lanes_completion : forall g Ps Sss K ords sched, g_fifo g = true -> (1 <= g_cap g)%nat -> (1 <= g_win g)%nat ->
  length Ps = length Sss -> (1 <= length Sss)%nat -> Forall (fun Ss => length Ss = K) Sss -> ord_ok Sss ords ->
  exists more, qterminal (qrun g (sched ++ more) (qinit Ps Sss ords)) = true).
Check (C11_concrete_progress : forall g np pre Ss opss sched, g_fifo g = true -> (1 <= g_cap g)%nat -> (1 <= g_win g)%nat ->
  Forall2 (fun ops S => TempBuf.written ops = data_bytes S) opss Ss ->
  let s := crun g sched (cinit np pre Ss opss) in
  cterminal s = false -> exists t s', cstep g t s = Some s').
Check (C11_concrete_completion : forall g np pre Ss opss sched, g_fifo g = true -> (1 <= g_cap g)%nat -> (1 <= g_win g)%nat ->
  Forall2 (fun ops S => TempBuf.written ops = data_bytes S) opss Ss ->
  (forall t s', cstep g t (crun g sched (cinit np pre Ss opss)) = Some s' ->
                (conc_measure s' < conc_measure (crun g sched (cinit np pre Ss opss)))%nat) /\
  exists more, cterminal (crun g (sched ++ more) (cinit np pre Ss opss)) = true).
Check (C11_concrete_await_never_blocks : forall g np pre Ss opss sched, g_fifo g = true ->
  Forall2 (fun ops S => TempBuf.written ops = data_bytes S) opss Ss ->
  let s := crun g sched (cinit np pre Ss opss) in
  sp_pc (cabs s) = SAwaitFile -> exists s', cstep g CSplice s = Some s').
Check (C11_concrete_bytes : forall g np pre Ss opss sched, g_fifo g = true ->
  Forall2 (fun ops S => TempBuf.written ops = data_bytes S) opss Ss ->
  let s := crun g sched (cinit np pre Ss opss) in
  forall k c x, nth_error (p_chroms (cabs s)) k = Some c -> nth_error (k_x s) k = Some x ->
    exists fwd, fwd ++ x_bw x = data_bytes (c_out c) /\
                fwd ++ TempBuf.written (TempBuf.p_todo (x_buf x)) = data_bytes (nth k Ss [])).
Check (C11_zoom_outer_contract : forall (expect : bool) (d0 : bytes) (ws : list bytes) sched,
  let prog := if expect then [TempBuf.CExpect] else [TempBuf.CSwitch; TempBuf.CAwait] in
  let b := TempBuf.run d0 sched (TempBuf.init (map TempBuf.PWrite ws) prog) in
  TempBuf.panicked b = false /\
  (TempBuf.terminal b = true -> TempBuf.c_dest b = Some (d0 ++ concat ws))).
End PinC11.
