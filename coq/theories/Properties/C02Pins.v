From BT Require Import Base.Util Base.LE Base.Float Generated.Consts Model.RTree Model.BBIFile Model.BigWigWrite Model.BBIRead
  Model.BigBedWrite Model.BBIReadBed Model.EntryBBI Proofs.Chunks Proofs.RTreeCodec Proofs.BedQuery Proofs.BedCodec.
From BT Require Properties.C02.
Local Open Scope N_scope.
Check (C02.C02_accept_iff : forall len es, check_entries len es = Ok tt <-> wf_entries len es).
Check (C02.C02_sections_are_chunks : forall ips es, sections_loop ips [] es = chunks (slot ips) es).
Check (C02.C02_item_count : forall o sizes input ids outs, bb_collect o sizes input = Ok (ids, outs) ->
  untag (map (fun c => (bc_name c, bc_entries c)) outs) = input
  /\ Forall (fun c => lookup (bc_name c) sizes = Some (bc_len c) /\ wf_entries (bc_len c) (bc_entries c)) outs
  /\ bb_total_items outs = Nlen input).
Check (C02.C02_roundtrip : forall ips len es, wf_entries len es ->
  flat_map (filter (bkeep 0 len)) (filter (bchunk_hit 0 len) (sections_loop ips [] es)) = es).
Check (C02.C02_section_codec : forall chrom, chrom < U32 -> forall items fuel, Forall entry_ok items ->
  (length (flat_map (entry_bytes chrom) items) < fuel)%nat ->
  parse_entries fuel false chrom (flat_map (entry_bytes chrom) items) = Ok items).
Check (C02.C02_autosql_verbatim : forall autosql sql fc tail, bb_schema autosql = Ok (sql, fc) ->
  sql = match autosql with Some s => s | None => AUTOSQL_BED3 end
  /\ removelast (through_nul (sql ++ 0 :: tail)) = sql).
Check (C02.C02_autosql_nul_refused : forall s, ~ no_nul s -> forall r, bb_schema (Some s) <> Ok r).
Check (C02.C02_zero_zero_refuted :
  exists bs i, bb_write_nosweep C02.k2_opts [(C02.k2_name, 10)] None C02.k2_input = Ok bs /\ read_info bs = Ok i
               /\ bb_interval idf bs i C02.k2_name 0 10 = Err R_INVALID).
