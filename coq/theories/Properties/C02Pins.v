From BT Require Import Base.Util Base.LE Base.Float Generated.Consts Model.RTree Model.BBIFile Model.BigWigWrite Model.BBIRead
  Model.BigBedWrite Model.BBIReadBed Model.EntryBBI Proofs.Chunks Proofs.RTreeCodec Proofs.BedQuery Proofs.BedCodec
  Proofs.BedReadInfo Proofs.BedEndToEnd Proofs.BedZoomFit.
From BT Require Properties.C02.
Local Open Scope N_scope.
Check (C02.C02_accept_iff : forall len es, check_entries len es = Ok tt <-> wf_entries len es).
Check (C02.C02_sections_are_chunks : forall ips es, sections_loop ips [] es = chunks (slot ips) es).
Check (C02.C02_item_count : forall o sizes input ids outs, bb_collect o sizes input = Ok (ids, outs) ->
  untag (map (fun c => (bc_name c, bc_entries c)) outs) = input
  /\ Forall (fun c => lookup (bc_name c) sizes = Some (bc_len c) /\ wf_entries (bc_len c) (bc_entries c)) outs
  /\ bb_total_items outs = Nlen input).
Check (C02.C02_roundtrip : forall ips len es, wf_entries len es ->
  flat_map (filter (bkeep 0 len)) (filter (bchunk_hit 0 len) (sections_loop ips [] es)) = es).
Check (C02.C02_section_codec : forall chrom, chrom < U32 -> forall items fuel, Forall entry_ok items ->
  (length (flat_map (entry_bytes chrom) items) < fuel)%nat ->
  parse_entries fuel false chrom (flat_map (entry_bytes chrom) items) = Ok items).
Check (C02.C02_autosql_verbatim : forall autosql sql fc tail, bb_schema autosql = Ok (sql, fc) ->
  sql = match autosql with Some s => s | None => AUTOSQL_BED3 end
  /\ removelast (through_nul (sql ++ 0 :: tail)) = sql).
Check (C02.C02_autosql_nul_refused : forall s, ~ no_nul s -> forall r, bb_schema (Some s) <> Ok r).
Check (C02.C02_zero_zero_refuted :
  exists bs i, bb_write_nosweep C02.k2_opts [(C02.k2_name, 10)] None C02.k2_input = Ok bs /\ read_info bs = Ok i
               /\ bb_interval idf bs i C02.k2_name 0 10 = Err R_INVALID).
Check (C02.C02_file_roundtrip : forall (sweep : list bchrom -> summary)
    (zoom_part : list bchrom -> summary -> N -> N -> res (list N * list zoom_header)),
  (forall outs sum a b zb zh, zoom_part outs sum a b = Ok (zb, zh) -> (length zh <= 10)%nat) ->
  forall o sizes autosql input f, bb_write_gen sweep zoom_part o sizes autosql input = Ok f ->
  file_hyps o sizes input f ->
  exists i, read_info f = Ok i
    /\ (forall infl c es, In (c, es) (bruns input) ->
          exists len, lookup c sizes = Some len /\ bb_interval infl f i c 0 len = Ok es)
    /\ (Nlen input < U64 -> bb_item_count f i = Ok (Nlen input))
    /\ bb_autosql f i = Ok (Some (match autosql with Some s => s | None => AUTOSQL_BED3 end))
    /\ map (fun c => (ci_name c, ci_id c)) (i_chroms i) = combine (map fst (bruns input)) (seqN 0 (length (bruns input)))
    /\ Forall (fun c => lookup (ci_name c) sizes = Some (ci_len c)) (i_chroms i)).
Check (C02.C02_runs_are_input : forall input, untag (bruns input) = input).
Check (C02.C02_written_file_roundtrip : forall two_pass fp o sizes autosql input f,
  bb_write_either two_pass fp o sizes autosql input = Ok f -> file_hyps o sizes input f ->
  exists i, read_info f = Ok i
    /\ (forall infl c es, In (c, es) (bruns input) ->
          exists len, lookup c sizes = Some len /\ bb_interval infl f i c 0 len = Ok es)
    /\ (Nlen input < U64 -> bb_item_count f i = Ok (Nlen input))
    /\ bb_autosql f i = Ok (Some (match autosql with Some s => s | None => AUTOSQL_BED3 end))
    /\ map (fun c => (ci_name c, ci_id c)) (i_chroms i) = combine (map fst (bruns input)) (seqN 0 (length (bruns input)))
    /\ Forall (fun c => lookup (ci_name c) sizes = Some (ci_len c)) (i_chroms i)).

(* ---- compressed files ---- *)
From BT Require Import Model.BigWigWriteZ Model.BigBedWriteZ Proofs.BedFileZ Proofs.BedFileZThms.
Check (C02.C02_model_uncompressed : forall cmp fp o sizes autosql input, o_compress o = false ->
  bb_write_z cmp fp o sizes autosql input = bb_write fp o sizes autosql input
  /\ bb_write_multipass_z cmp fp o sizes autosql input = bb_write_multipass fp o sizes autosql input).
Check (C02.C02_written_file_roundtrip_compressed : forall cmp two_pass fp o sizes autosql input f,
  bb_write_either_z cmp two_pass fp o sizes autosql input = Ok f -> file_hyps o sizes input f -> ubuf_fits o input ->
  exists i, read_info f = Ok i
    /\ (h_ubuf (i_hdr i) = 0 <-> o_compress o = false) /\ h_ubuf (i_hdr i) < U32
    /\ (forall infl, (o_compress o = true -> forall b, infl (cmp b) = b) -> forall c es, In (c, es) (bruns input) ->
          exists len, lookup c sizes = Some len /\ bb_interval infl f i c 0 len = Ok es)
    /\ (Nlen input < U64 -> bb_item_count f i = Ok (Nlen input))
    /\ bb_autosql f i = Ok (Some (match autosql with Some s => s | None => AUTOSQL_BED3 end))
    /\ map (fun c => (ci_name c, ci_id c)) (i_chroms i) = combine (map fst (bruns input)) (seqN 0 (length (bruns input)))
    /\ Forall (fun c => lookup (ci_name c) sizes = Some (ci_len c)) (i_chroms i)).
Check (C02.C02_written_file_buf_size_compressed : forall cmp two_pass fp o sizes autosql input f,
  bb_write_either_z cmp two_pass fp o sizes autosql input = Ok f -> file_hyps o sizes input f -> ubuf_fits o input ->
  exists i, read_info f = Ok i /\ (o_compress o = true ->
    forall c es blk, In (c, es) (bruns input) -> In blk (sections_loop (o_ips o) [] es) ->
      Nlen (flat_map (entry_bytes 0) blk) <= h_ubuf (i_hdr i))).
Check (C02.C02_ubuf_fits_of_bounds : forall o input R, 1 <= o_ips o -> o_ips o * (13 + R) < U32 -> 32 * o_ips o < U32 ->
  Forall (fun it : bitem => Nlen (e_rest (snd it)) <= R) input -> ubuf_fits o input).
