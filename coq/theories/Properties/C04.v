(* C04 — bigBed range queries miss no overlapping entry and return no disjoint one.
   Statements only, each closed by [exact].

   List level: for every start-sorted entry list, every items_per_slot and every range, reading only
   the blocks whose span [first start, LARGEST end] meets the range inclusively and filtering them
   with the reader's test (end >= s && start <= e) gives exactly the filter of the whole list, in
   stored order, each entry once.  The index bytes -> block list step is Properties/C05.v
   (search = scan for spans that cover their contents), the section bytes -> entries step is
   C02_section_codec. *)
From Coq Require Import Sorting.Sorted.
From BT Require Import Base.Util Base.Float Model.RTree Model.BBIFile Model.BigWigWrite Model.BBIRead Model.CachedRead
  Model.BigBedWrite Model.BBIReadBed Proofs.Chunks Proofs.RTreeCodec Proofs.BedQuery Proofs.BedCached Proofs.BedEndToEnd Proofs.BedZoomFit.
Local Open Scope N_scope.

(* KEY LEMMA (what defect D2 broke): a block whose span [first start, largest end] does not meet
   [s,e] holds no entry the reader would keep *)
Theorem C04_skipped_block_empty : forall s e c, starts_sorted c -> bchunk_hit s e c = false -> filter (bkeep s e) c = [].
Proof. exact bmiss_empty. Qed.
Print Assumptions C04_skipped_block_empty.

(* exact characterisation, for every blocking of the list *)
Theorem C04_query_blocks : forall s e (cs : list (list entry)), starts_sorted (concat cs) ->
  flat_map (filter (bkeep s e)) (filter (bchunk_hit s e) cs) = filter (bkeep s e) (concat cs).
Proof. exact bquery_blocks. Qed.
Print Assumptions C04_query_blocks.

(* ... in particular for the writer's sections, for every items_per_slot *)
Theorem C04_query : forall ips s e es, starts_sorted es ->
  flat_map (filter (bkeep s e)) (filter (bchunk_hit s e) (sections_loop ips [] es)) = filter (bkeep s e) es.
Proof. exact bquery_sections. Qed.
Print Assumptions C04_query.

(* every stored entry overlapping [s,e) is returned *)
Theorem C04_no_miss : forall ips s e es x, starts_sorted es -> In x es -> e_start x < e -> s < e_end x ->
  In x (flat_map (filter (bkeep s e)) (filter (bchunk_hit s e) (sections_loop ips [] es))).
Proof. exact bquery_no_miss. Qed.
Print Assumptions C04_no_miss.

(* nothing wholly outside [s,e] is returned, and nothing that is not stored *)
Theorem C04_no_disjoint : forall ips s e es x, starts_sorted es ->
  In x (flat_map (filter (bkeep s e)) (filter (bchunk_hit s e) (sections_loop ips [] es))) ->
  In x es /\ s <= e_end x /\ e_start x <= e.
Proof. exact bquery_no_disjoint. Qed.
Print Assumptions C04_no_disjoint.

(* accepted input is start-sorted *)
Theorem C04_accepted_sorted : forall len es, check_entries len es = Ok tt -> starts_sorted es.
Proof. intros len es H. exact (wfe_sorted len es (check_entries_wf len es H)). Qed.
Print Assumptions C04_accepted_sorted.

(* with the block span end taken from the LAST entry (the code before the repair) the key lemma is
   false: witness [(0,1000); (10,20)], query [500,600] *)
Theorem C04_refuted_unrepaired :
  exists c s e, starts_sorted c /\ bchunk_hit_last s e c = false /\ filter (bkeep s e) c <> [].
Proof. exact last_end_refuted. Qed.
Print Assumptions C04_refuted_unrepaired.

(* THE FILE LEVEL: on the bytes of every file the writer model produces (any options, any summary
   sweep, any zoom part of at most 10 levels; hypotheses file_hyps as in Properties/C02.v), the
   reader model's interval query on any chromosome that had data returns exactly the entries with
   end >= s and start <= e, in stored order, each once.  Through read_info, the index search on the
   index bytes (C05), the block offsets and the record codec. *)
Theorem C04_file_query : forall (sweep : list bchrom -> summary)
    (zoom_part : list bchrom -> summary -> N -> N -> res (list N * list zoom_header)),
  (forall outs sum a b zb zh, zoom_part outs sum a b = Ok (zb, zh) -> (length zh <= 10)%nat) ->
  forall o sizes autosql input f, bb_write_gen sweep zoom_part o sizes autosql input = Ok f ->
  file_hyps o sizes input f ->
  exists i, read_info f = Ok i /\ forall infl c es s e, In (c, es) (bruns input) ->
    bb_interval infl f i c s e = Ok (filter (bkeep s e) es).
Proof. exact file_query. Qed.
Print Assumptions C04_file_query.

(* ... in particular for the two real write paths with the summary sweep and zoom levels of
   Model/BedSweep.v, in every floating-point mode (the writers never emit more than 10 levels) *)
Theorem C04_written_file_query : forall two_pass fp o sizes autosql input f,
  bb_write_either two_pass fp o sizes autosql input = Ok f -> file_hyps o sizes input f ->
  exists i, read_info f = Ok i /\ forall infl c es s e, In (c, es) (bruns input) ->
    bb_interval infl f i c s e = Ok (filter (bkeep s e) es).
Proof. exact written_file_query. Qed.
Print Assumptions C04_written_file_query.

(* Consequence for callers: on a written file, a query inside a wider one ([s',e'] contains [s,e]) returns
   exactly what filtering the wider answer again by the reader's own overlap test returns - same entries,
   same order - so narrowing client-side and asking again are interchangeable (Proofs/BedNarrow). *)
From BT Require Proofs.BedNarrow.
Theorem C04_written_file_narrow : forall two_pass fp o sizes autosql input f,
  bb_write_either two_pass fp o sizes autosql input = Ok f -> file_hyps o sizes input f ->
  exists i, read_info f = Ok i /\ forall infl c es s e s' e', In (c, es) (bruns input) ->
    s' <= s -> e <= e' ->
    exists wide, bb_interval infl f i c s' e' = Ok wide
      /\ bb_interval infl f i c s e = Ok (filter (bkeep s e) wide).
Proof. exact Proofs.BedNarrow.written_file_narrow. Qed.
Print Assumptions C04_written_file_narrow.

(* the property's own wording on the file *)
Theorem C04_file_no_miss_no_disjoint : forall (sweep : list bchrom -> summary)
    (zoom_part : list bchrom -> summary -> N -> N -> res (list N * list zoom_header)),
  (forall outs sum a b zb zh, zoom_part outs sum a b = Ok (zb, zh) -> (length zh <= 10)%nat) ->
  forall o sizes autosql input f, bb_write_gen sweep zoom_part o sizes autosql input = Ok f ->
  file_hyps o sizes input f ->
  exists i, read_info f = Ok i /\ forall infl c es s e, In (c, es) (bruns input) ->
    exists ans, bb_interval infl f i c s e = Ok ans
      /\ (forall x, In x es -> e_start x < e -> s < e_end x -> In x ans)
      /\ (forall x, In x ans -> In x es /\ s <= e_end x /\ e_start x <= e)
      /\ ans = filter (bkeep s e) es.
Proof. exact file_no_miss_no_disjoint. Qed.
Print Assumptions C04_file_no_miss_no_disjoint.

(* HISTORY: for ANY byte image and header info, every answer of every finite query history through
   one caching reader (node map, block map, reset of the block map at CACHE_LIMIT entries) equals the
   stateless reader's answer to that query; in particular earlier queries never change a later
   answer.  Invariant: every cached node / block equals a fresh read of its key. *)
Theorem C04_history : forall infl bs i qs,
  c_bb_history infl bs i cache0 qs = map (fun q => bb_interval infl bs i (fst (fst q)) (snd (fst q)) (snd q)) qs.
Proof. intros infl bs i qs. apply c_bb_history_ok. apply cache0_ok. Qed.
Print Assumptions C04_history.
(* ... and from any reachable cache state (e.g. a reopened reader that copied the maps) *)
Theorem C04_history_from : forall infl bs i c qs, cache_ok infl bs i c ->
  c_bb_history infl bs i c qs = map (fun q => bb_interval infl bs i (fst (fst q)) (snd (fst q)) (snd q)) qs.
Proof. intros infl bs i c qs H. apply c_bb_history_ok. exact H. Qed.
Print Assumptions C04_history_from.

(* Non-vacuity *)
Example C04_example : let es := [ {| e_start := 0; e_end := 1000; e_rest := [] |}; {| e_start := 10; e_end := 20; e_rest := [] |};
                                  {| e_start := 12; e_end := 13; e_rest := [] |} ] in
  starts_sorted es /\ filter (bkeep 500 600) es = [ {| e_start := 0; e_end := 1000; e_rest := [] |} ]
  /\ filter (bchunk_hit 500 600) (sections_loop 2 [] es) = [firstn 2 es].
Proof. cbv zeta. split; [repeat constructor; cbn; lia|]. split; vm_compute; reflexivity. Qed.

(* ---------------------------------------------------------------- COMPRESSED files
   The same on the bytes of the compressor-parametric writer model (Model/BigBedWriteZ.v: every data and zoom block
   through [cmp] when options.compress is set, uncompress_buf_size in the header, level selection on compressed sizes),
   for EVERY compressor and every decompressor with  infl (cmp b) = b  (asked only when options.compress is set).
   [ubuf_fits]: when blocks are compressed every block is shorter than 2^32 bytes before compression (u32 header field);
   see Properties/C02.v (C02_ubuf_fits_of_bounds). *)
From BT Require Import Model.BigWigWriteZ Model.BigBedWriteZ Proofs.BedFileZ Proofs.BedFileZThms.

Theorem C04_written_file_query_compressed : forall cmp two_pass fp o sizes autosql input f,
  bb_write_either_z cmp two_pass fp o sizes autosql input = Ok f -> file_hyps o sizes input f -> ubuf_fits o input ->
  exists i, read_info f = Ok i /\ forall infl, (o_compress o = true -> forall b, infl (cmp b) = b) ->
    forall c es s e, In (c, es) (bruns input) -> bb_interval infl f i c s e = Ok (filter (bkeep s e) es).
Proof. exact written_file_query_compressed. Qed.
Print Assumptions C04_written_file_query_compressed.

(* the property's own wording on the compressed file *)
Theorem C04_file_no_miss_no_disjoint_compressed : forall cmp two_pass fp o sizes autosql input f,
  bb_write_either_z cmp two_pass fp o sizes autosql input = Ok f -> file_hyps o sizes input f -> ubuf_fits o input ->
  exists i, read_info f = Ok i /\ forall infl, (o_compress o = true -> forall b, infl (cmp b) = b) ->
    forall c es s e, In (c, es) (bruns input) ->
    exists ans, bb_interval infl f i c s e = Ok ans
      /\ (forall x, In x es -> e_start x < e -> s < e_end x -> In x ans)
      /\ (forall x, In x ans -> In x es /\ s <= e_end x /\ e_start x <= e)
      /\ ans = filter (bkeep s e) es.
Proof. exact written_file_no_miss_no_disjoint_compressed. Qed.
Print Assumptions C04_file_no_miss_no_disjoint_compressed.

(* HISTORY on such files: through one caching reader - from the empty cache, or from any cache state satisfying the
   invariant (a reopened reader) - every answer of every finite query history equals the stateless answer, and every
   answer about a chromosome that had data is exactly the filter of its entries: earlier queries, cached index nodes
   and cached INFLATED blocks never change a later answer *)
Theorem C04_history_compressed : forall cmp two_pass fp o sizes autosql input f,
  bb_write_either_z cmp two_pass fp o sizes autosql input = Ok f -> file_hyps o sizes input f -> ubuf_fits o input ->
  exists i, read_info f = Ok i /\ forall infl, (o_compress o = true -> forall b, infl (cmp b) = b) ->
    forall c qs, cache_ok infl f i c ->
      c_bb_history infl f i c qs = map (fun q => bb_interval infl f i (fst (fst q)) (snd (fst q)) (snd q)) qs
      /\ Forall2 (fun q a => forall es, In (fst (fst q), es) (bruns input) -> a = Ok (filter (bkeep (snd (fst q)) (snd q)) es))
                 qs (c_bb_history infl f i c qs).
Proof. exact written_file_history_compressed. Qed.
Print Assumptions C04_history_compressed.

(* Non-vacuity: blocks whose largest end is not the last entry's end, written compressed with the toy compressor by
   both writers; a query that only the first entry of the first block meets; a history with repeats through the
   caching reader *)
Definition c04z_opts : opts := {| o_compress := true; o_ips := 2; o_bs := 2; o_izoom := 160; o_maxzooms := 10; o_manual := Some [64]; o_sort_all := true |}.
Definition c04z_name : name := [99; 49].
Definition c04z_entries : list entry :=
  [ {| e_start := 0; e_end := 1000; e_rest := [] |}; {| e_start := 10; e_end := 20; e_rest := [120] |};
    {| e_start := 12; e_end := 13; e_rest := [] |}; {| e_start := 700; e_end := 710; e_rest := [] |}; {| e_start := 900; e_end := 901; e_rest := [] |} ].
Definition c04z_input : list bitem := map (fun x => (c04z_name, x)) c04z_entries.
Example C04_compressed_example :
  (o_bs c04z_opts <= 65535 /\ Nlen (bruns c04z_input) < RTreeCodec.U16 /\ input_ok c04z_input
   /\ Forall (fun s : name * N => snd s < RTreeCodec.U32) [(c04z_name, 2000)])
  /\ ubuf_fits c04z_opts c04z_input /\ (forall b, toy_infl (toy_cmp b) = b)
  /\ match bb_write_z toy_cmp Float.ieee c04z_opts [(c04z_name, 2000)] None c04z_input,
           bb_write_multipass_z toy_cmp Float.ieee c04z_opts [(c04z_name, 2000)] None c04z_input with
     | Ok f, Ok f2 =>
         Nlen f <= RTreeCodec.U64 /\ Nlen f2 <= RTreeCodec.U64
         /\ match read_info f, read_info f2 with
            | Ok i, Ok i2 =>
                bb_interval toy_infl f i c04z_name 500 600 = Ok [ {| e_start := 0; e_end := 1000; e_rest := [] |} ]
                /\ bb_interval toy_infl f2 i2 c04z_name 500 600 = Ok [ {| e_start := 0; e_end := 1000; e_rest := [] |} ]
                /\ c_bb_history toy_infl f i cache0 [(c04z_name, 500, 600); (c04z_name, 0, 2000); (c04z_name, 500, 600); (c04z_name, 705, 900)]
                   = [Ok [ {| e_start := 0; e_end := 1000; e_rest := [] |} ]; Ok c04z_entries; Ok [ {| e_start := 0; e_end := 1000; e_rest := [] |} ];
                      Ok [ {| e_start := 0; e_end := 1000; e_rest := [] |}; {| e_start := 700; e_end := 710; e_rest := [] |};
                           {| e_start := 900; e_end := 901; e_rest := [] |} ]]
            | _, _ => False end
     | _, _ => False
     end.
Proof.
  split; [|split; [|split; [exact toy_rt|vm_compute; repeat split; try reflexivity; discriminate]]].
  - split; [cbn; lia|]. split; [vm_compute; reflexivity|]. split.
    + unfold input_ok, c04z_input, c04z_entries. repeat constructor; cbn [fst snd e_start e_end e_rest];
        try (unfold RTreeCodec.U32; vm_compute; reflexivity); try discriminate; try (intros [? ?]; discriminate).
    + repeat constructor; cbn; unfold RTreeCodec.U32; lia.
  - intros _. split; [cbn; unfold RTreeCodec.U32; lia|].
    apply (blocks_fit_of_bounds c04z_opts c04z_input 1); [cbn; lia|cbn; unfold RTreeCodec.U32; lia|].
    unfold c04z_input, c04z_entries. cbn [map]. repeat (constructor; [cbn; lia|]). constructor.
Qed.

(* the same file written with the zlib "stored" encoder of Spec/Inflate.v and read with the Gallina inflater *)
From BT Require Spec.Inflate Proofs.InflateStored.
Definition c04_zlib_infl (b : list N) : list N := match Inflate.zlib_decode b with Some x => x | None => b end.
Example C04_compressed_example_zlib :
  (forall b, c04_zlib_infl (Inflate.zlib_store b) = b)
  /\ match bb_write_z Inflate.zlib_store Float.ieee c04z_opts [(c04z_name, 2000)] None c04z_input with
     | Ok f =>
         Nlen f <= RTreeCodec.U64
         /\ match read_info f with
            | Ok i =>
                h_ubuf (i_hdr i) = 64
                /\ bb_interval c04_zlib_infl f i c04z_name 500 600 = Ok [ {| e_start := 0; e_end := 1000; e_rest := [] |} ]
                /\ c_bb_history c04_zlib_infl f i cache0 [(c04z_name, 705, 900); (c04z_name, 500, 600); (c04z_name, 705, 900)]
                   = [Ok [ {| e_start := 0; e_end := 1000; e_rest := [] |}; {| e_start := 700; e_end := 710; e_rest := [] |};
                           {| e_start := 900; e_end := 901; e_rest := [] |} ];
                      Ok [ {| e_start := 0; e_end := 1000; e_rest := [] |} ];
                      Ok [ {| e_start := 0; e_end := 1000; e_rest := [] |}; {| e_start := 700; e_end := 710; e_rest := [] |};
                           {| e_start := 900; e_end := 901; e_rest := [] |} ]]
            | _ => False end
     | _ => False
     end.
Proof.
  split; [intros b; unfold c04_zlib_infl; now rewrite InflateStored.zlib_decode_stored|].
  vm_compute. repeat split; try reflexivity; discriminate.
Qed.
