(* C11 — output bytes do not depend on threads, buffering or task timing.
   Only statements, closed by [exact], with Print Assumptions beneath each.

   A pure function is deterministic by construction, so these theorems are about the PROTOCOL:
   Model/Pipeline.v is a transition system with one task per chromosome producer, per encode task,
   per write task (write_data), the main thread (start_processing / advance in order, with a window)
   and the splice task (write_chroms_with/without_zooms); part 2 is the converters' pipeline
   (write_bg / write_bed).  A schedule is ANY list of task ids (a disabled step stutters); nothing
   bounds the number of chromosomes, of sections, the channel capacity [g_cap], the window [g_win]
   or the length of the schedule.  [g_fifo g = true] is the code as written (the write task takes
   the head of the handle channel and waits for it).

   What is NOT proved here and only validated by running the real code under many configurations
   and injected delays (tools/vlib/props/C11.py): that tokio, the futures/crossbeam channels,
   AtomicCell and Condvar implement these transitions. *)
From BT Require Import Base.Util Base.Float Model.RTree Model.BBIFile Model.BigWigWrite Model.Pipeline
  Proofs.PipelineInv Proofs.PipelineThms Proofs.PipelineConv Proofs.PipelineLanes.
From BT Require Model.TempBuf Model.BigBedWrite Proofs.BedZoomFit Proofs.PipelineBed.
From BT Require Import Model.PipelineConc Proofs.PipelineRefine Proofs.PipelineRefineProgress Proofs.PipelineLanesProgress
  Model.PipelineZoom Proofs.PipelineZoom Proofs.PipelineZoomProgress Model.PipelineSeq Proofs.PipelineSeq.

(* FIFO order.  In every reachable state, for every completion order of the encode tasks, what the
   write task of chromosome k has written, followed by what is queued, followed by what is not yet
   submitted, is the submission order; once the task has finished (and in every terminal state) it
   has written exactly the chromosome's sections in submission order. *)
Theorem C11_fifo_order : forall g pre Ss sched, g_fifo g = true ->
  let s := run g sched (init pre Ss) in
  length (p_chroms s) = length Ss /\
  forall k c, nth_error (p_chroms s) k = Some c ->
    c_out c ++ map fst (c_fifo c) ++ c_todo c = nth k Ss [] /\
    (c_wdone c = true -> c_out c = nth k Ss []) /\
    (terminal s = true -> c_out c = nth k Ss []).
Proof. exact pipeline_fifo_order. Qed.
Print Assumptions C11_fifo_order.

(* Splice order.  For every interleaving of the K producers, their encode and write tasks, the main
   thread and the splice task that reaches a terminal state, the file is the prelude followed by the
   sections of the chromosomes in start order, each chromosome's sections in submission order, and
   the section index carries the cumulative offsets: the sequential function's bytes and index. *)
Theorem C11_splice : forall g pre Ss sched, g_fifo g = true ->
  let s := run g sched (init pre Ss) in
  terminal s = true ->
  sp_file s = seq_file pre Ss /\ final_index (Nlen pre) s = seq_index pre Ss.
Proof. exact pipeline_splice. Qed.
Print Assumptions C11_splice.

(* At every moment of every run the real file holds a whole number of chromosomes, in order. *)
Theorem C11_file_prefix : forall g pre Ss sched, g_fifo g = true ->
  let s := run g sched (init pre Ss) in
  sp_file s = pre ++ data_bytes (concat (firstn (sp_k s) Ss)).
Proof. exact pipeline_file_prefix. Qed.
Print Assumptions C11_file_prefix.

(* The property as stated: any two finishing runs, under any two channel capacities, windows
   (serial or parallel source) and schedules, wrote the same bytes and the same index. *)
Theorem C11_schedule_independent : forall g1 g2 pre Ss sched1 sched2,
  g_fifo g1 = true -> g_fifo g2 = true ->
  let s1 := run g1 sched1 (init pre Ss) in
  let s2 := run g2 sched2 (init pre Ss) in
  terminal s1 = true -> terminal s2 = true ->
  sp_file s1 = sp_file s2 /\ final_index (Nlen pre) s1 = final_index (Nlen pre) s2.
Proof. exact pipeline_schedule_independent. Qed.
Print Assumptions C11_schedule_independent.

(* Every entry of the index addresses exactly its section's bytes in the finished file. *)
Theorem C11_offsets_address_sections : forall g pre Ss sched (rest : bytes), g_fifo g = true ->
  let s := run g sched (init pre Ss) in
  terminal s = true ->
  slice_ok (sp_file s ++ rest) (final_index (Nlen pre) s) (concat Ss).
Proof. exact pipeline_offsets_address_sections. Qed.
Print Assumptions C11_offsets_address_sections.

(* The sequential bigWig model (Model/BigWigWrite.v, shared by C01/C09: bw_write and
   bw_write_multipass both assemble  bw_pre ++ data_bytes data ++ ..  and  place PRE_DATA data  from
   bw_collect's [data]) is what every finishing run of the pipeline on the per-chromosome sections
   produces. *)
Theorem C11_splice_bigwig : forall fp o sizes input ids outs sum data,
  bw_collect fp o sizes input = Ok (ids, outs, sum, data) ->
  exists Ss,
    Forall2 (fun c S => data_sections (o_ips o) (co_id c) (co_vals c) = Ok S) outs Ss /\
    concat Ss = data /\
    forall g sched, g_fifo g = true ->
      let s := run g sched (init bw_pre Ss) in
      terminal s = true ->
      sp_file s = bw_pre ++ data_bytes data /\ final_index PRE_DATA s = place PRE_DATA data.
Proof. exact pipeline_bw_data. Qed.
Print Assumptions C11_splice_bigwig.

(* The same tie for bigBed.  Model/BigBedWrite.v's two write paths ([bb_write_either false] =
   bb_write = BigBedWrite::write, [true] = bb_write_multipass; the model whose bytes bin/check C02 and
   C11 compare with the real writer's) hand  bb_pre sql  (304 blank header bytes, the autoSql text,
   NUL, summary and count slots) and  data = bb_data o outs  to the shared assemble.  For every
   accepted call: the per-chromosome section lists  bed_sections  concatenate to  data ; every
   finishing run of the pipeline machine on them, whatever the capacity, window and schedule, yields
   the file  bb_pre sql ++ data_bytes data  and the index  place |bb_pre sql| data ; and the FILE the
   model returns is  pre' ++ data_bytes data ++ rest  with |pre'| = |bb_pre sql| (pre' = bb_pre sql
   after write_info's three patches, which stay in front of the data: at most 10 zoom levels). *)
Theorem C11_splice_bigbed : forall two_pass fp o sizes autosql input f,
  BedZoomFit.bb_write_either two_pass fp o sizes autosql input = Ok f ->
  exists sql fc ids outs data,
    BigBedWrite.bb_schema autosql = Ok (sql, fc) /\ BigBedWrite.bb_collect o sizes input = Ok (ids, outs)
    /\ BigBedWrite.bb_data o outs = Ok data /\
    (exists pre' rest, length pre' = length (BigBedWrite.bb_pre sql) /\ f = pre' ++ data_bytes data ++ rest) /\
    exists Ss,
      Forall2 (fun c S => BigBedWrite.bed_sections (o_ips o) (BigBedWrite.bc_id c) (BigBedWrite.bc_entries c) = Ok S) outs Ss /\
      concat Ss = data /\
      forall g sched, g_fifo g = true ->
        let s := run g sched (init (BigBedWrite.bb_pre sql) Ss) in
        terminal s = true ->
        sp_file s = BigBedWrite.bb_pre sql ++ data_bytes data /\
        final_index (Nlen (BigBedWrite.bb_pre sql)) s = place (Nlen (BigBedWrite.bb_pre sql)) data.
Proof. exact PipelineBed.pipeline_bb_file. Qed.
Print Assumptions C11_splice_bigbed.

(* No deadlock: with room for at least one handle and a window of at least one chromosome, every
   reachable state that is not terminal has an enabled transition. *)
Theorem C11_progress : forall g pre Ss sched, g_fifo g = true -> (1 <= g_cap g)%nat -> (1 <= g_win g)%nat ->
  let s := run g sched (init pre Ss) in
  terminal s = false -> exists t s', step g t s = Some s'.
Proof. exact pipeline_progress. Qed.
Print Assumptions C11_progress.

(* No livelock either: every enabled transition decreases a measure, so every schedule prefix can be
   completed into a finishing run. *)
Theorem C11_completion : forall g pre Ss sched, g_fifo g = true -> (1 <= g_cap g)%nat -> (1 <= g_win g)%nat ->
  exists more, terminal (run g (sched ++ more) (init pre Ss)) = true.
Proof. exact pipeline_completion. Qed.
Print Assumptions C11_completion.

(* When the splice task reaches await_real_file, the write task has returned and the buffer is
   closed: the blocking Condvar wait is never entered and the call is enabled. *)
Theorem C11_await_never_blocks : forall g pre Ss sched, g_fifo g = true ->
  let s := run g sched (init pre Ss) in
  sp_pc s = SAwaitFile ->
  (exists c, nth_error (p_chroms s) (sp_k s) = Some c /\ c_wdone c = true) /\
  exists s', step g TSplice s = Some s'.
Proof. exact pipeline_await_never_blocks. Qed.
Print Assumptions C11_await_never_blocks.

(* The abstraction of the staging buffer used by the model is C12's delivery theorem: for the
   consumer programs of the splice task (no polls) and of the converters (any number of polls), every
   schedule of the two threads and every cutting of the section bytes into write() calls, the
   destination handed back is d0 followed by the bytes of the sections. *)
Theorem C11_buffer_contract : forall (d0 : bytes) (secs : list sdata) (ws : list bytes) (npolls : nat) sched,
  concat ws = data_bytes secs ->
  let b := TempBuf.run d0 sched (TempBuf.init (map TempBuf.PWrite ws)
                                  (TempBuf.CSwitch :: repeat TempBuf.CReady npolls ++ [TempBuf.CAwait])) in
  TempBuf.terminal b = true -> TempBuf.c_dest b = Some (d0 ++ data_bytes secs).
Proof. exact buffer_contract. Qed.
Print Assumptions C11_buffer_contract.

(* Several lanes (write_chroms_with_zooms: lane 0 the data region, lane z the zoom level z whose
   destination is that level's own staging writer), sharing the main thread and the splice loop
   (switch all lanes; then per lane: await the write task, await_real_file).  The projection of every
   run onto a lane is a run of the single-lane machine (Proofs/PipelineLanes.v proj_run), hence for every
   lane of every run: the destination always holds whole chromosomes in order, every lane's write task
   keeps the submission order, and when the splice task has returned every lane holds the sequential
   bytes and index. *)
Theorem C11_lanes_splice : forall g Ps Sss K sched, g_fifo g = true ->
  length Ps = length Sss -> (1 <= length Sss)%nat -> Forall (fun Ss => length Ss = K) Sss ->
  let s := lrun g sched (linit Ps Sss) in
  forall l, (l < length Sss)%nat ->
    (exists n, nth l (l_files s) [] = nth l Ps [] ++ data_bytes (concat (firstn n (nth l Sss [])))) /\
    (forall k c, nth_error (nth l (l_lanes s) []) k = Some c ->
       c_out c ++ map fst (c_fifo c) ++ c_todo c = nth k (nth l Sss []) []) /\
    (lterminal s = true ->
       nth l (l_files s) [] = seq_file (nth l Ps []) (nth l Sss []) /\
       place (Nlen (nth l Ps [])) (concat (map c_out (nth l (l_lanes s) []))) = seq_index (nth l Ps []) (nth l Sss [])).
Proof. exact lanes_splice. Qed.
Print Assumptions C11_lanes_splice.

(* Converters (write_bg / write_bed): at every moment the output holds the text of a whole number of
   chromosomes in chromosome order, and every finishing run, for every interleaving of the driver, the
   K file tasks, the join task and the main loop, has written the single-threaded text. *)
Theorem C11_converter_order : forall win out0 Ts sched,
  let s := vrun win sched (vinit out0 Ts) in
  (exists n, v_file s = out0 ++ concat (map (@concat N) (firstn n Ts))) /\
  (vterminal s = true -> v_file s = seq_text out0 Ts).
Proof. exact converter_order. Qed.
Print Assumptions C11_converter_order.

Theorem C11_converter_progress : forall win out0 Ts sched, (1 <= win)%nat ->
  let s := vrun win sched (vinit out0 Ts) in
  vterminal s = false -> exists t s', vstep win t s = Some s'.
Proof. exact converter_progress. Qed.
Print Assumptions C11_converter_progress.

Theorem C11_converter_completion : forall win out0 Ts sched, (1 <= win)%nat ->
  exists more, vterminal (vrun win (sched ++ more) (vinit out0 Ts)) = true.
Proof. exact converter_completion. Qed.
Print Assumptions C11_converter_completion.

Theorem C11_converter_await_never_blocks : forall win out0 Ts sched,
  let s := vrun win sched (vinit out0 Ts) in
  v_pc s = VAwait -> exists s', vstep win VMain s = Some s'.
Proof. exact converter_await_never_blocks. Qed.
Print Assumptions C11_converter_await_never_blocks.

(* ---------------------------------------------------------------- refinement: the staging buffers in full
   Model/PipelineConc.v is the machine above in which the staging buffer of every chromosome is the C12
   machine itself (Model/TempBuf.v: one state per chromosome, one transition per shared-memory access):
   its producer is the write task through a BufWriter (ANY cutting [opss] of the chromosome's section bytes
   into write()/flush() calls; a write can only pass on bytes the BufWriter was given; the Drop comes after
   the loop), its consumer is the splice task (switch; [np] readiness polls, 0 in the writers; await_real_file
   = take [closed] - the Condvar wait - then swap the mailbox).  What await_real_file hands back is whatever
   the buffer machine delivers.  [cabs] forgets the buffers. *)

(* Forward simulation with stuttering: every transition of the concrete machine out of a reachable state is
   a transition of the abstract machine between the abstractions or leaves the abstraction unchanged. *)
Theorem C11_refine_step : forall g np pre Ss opss sched t s', g_fifo g = true ->
  Forall2 (fun ops S => TempBuf.written ops = data_bytes S) opss Ss ->
  let s := crun g sched (cinit np pre Ss opss) in
  cstep g t s = Some s' ->
  cabs s' = cabs s \/ exists t', step g t' (cabs s) = Some (cabs s').
Proof. exact pipeline_refine_step. Qed.
Print Assumptions C11_refine_step.

(* Hence every run of the concrete machine is, through the abstraction, a run of the abstract machine: all
   the theorems above about reachable abstract states hold of the concrete machine. *)
Theorem C11_refines : forall g np pre Ss opss sched, g_fifo g = true ->
  Forall2 (fun ops S => TempBuf.written ops = data_bytes S) opss Ss ->
  exists sched', cabs (crun g sched (cinit np pre Ss opss)) = run g sched' (init pre Ss).
Proof. exact pipeline_refines. Qed.
Print Assumptions C11_refines.

(* The other half of the simulation relation: in every reachable concrete state the buffer of chromosome k
   is a state of the C12 machine on a run from ITS initial state (the chromosome's write calls, the splice
   task's program) with the destination  pre ++ chromosomes 0..k-1 ; C12's theorems therefore apply to it
   (C12_no_panic, C12_delivery: no panic branch taken; a destination handed back holds chromosomes 0..k). *)
Theorem C11_buffers_are_c12 : forall g np pre Ss opss sched, g_fifo g = true ->
  Forall2 (fun ops S => TempBuf.written ops = data_bytes S) opss Ss ->
  let s := crun g sched (cinit np pre Ss opss) in
  length (k_x s) = length Ss /\
  forall k x, nth_error (k_x s) k = Some x ->
    (exists sch, x_buf x = TempBuf.run (Dk pre Ss k) sch (TempBuf.init (nth k opss []) (cprog np))) /\
    TempBuf.panicked (x_buf x) = false /\
    (forall r, TempBuf.c_dest (x_buf x) = Some r -> r = Dk pre Ss (S k)).
Proof. exact pipeline_buffers_c12. Qed.
Print Assumptions C11_buffers_are_c12.

(* K chromosomes, any schedule, any cutting of the bytes into write() calls: no reachable state of the
   concrete machine has a panicked buffer, the file always holds whole chromosomes in order, and every
   finishing run has written the sequential function's bytes and index. *)
Theorem C11_splice_concrete : forall g np pre Ss opss sched, g_fifo g = true ->
  Forall2 (fun ops S => TempBuf.written ops = data_bytes S) opss Ss ->
  let s := crun g sched (cinit np pre Ss opss) in
  (forall k x, nth_error (k_x s) k = Some x -> TempBuf.panicked (x_buf x) = false) /\
  sp_file (cabs s) = pre ++ data_bytes (concat (firstn (sp_k (cabs s)) Ss)) /\
  (cterminal s = true ->
     sp_file (cabs s) = seq_file pre Ss /\ final_index (Nlen pre) (cabs s) = seq_index pre Ss).
Proof. exact pipeline_splice_concrete. Qed.
Print Assumptions C11_splice_concrete.

(* The concrete machine has no deadlock either (simulation alone would not give that): every reachable state
   that is not terminal has an enabled step - the abstract "loop ends, writer dropped" is matched by write_data
   leaving its loop, the BufWriter's remaining write() calls (it holds exactly their bytes) and the Drop. *)
Theorem C11_concrete_progress : forall g np pre Ss opss sched, g_fifo g = true -> (1 <= g_cap g)%nat -> (1 <= g_win g)%nat ->
  Forall2 (fun ops S => TempBuf.written ops = data_bytes S) opss Ss ->
  let s := crun g sched (cinit np pre Ss opss) in
  cterminal s = false -> exists t s', cstep g t s = Some s'.
Proof. exact pipeline_concrete_progress. Qed.
Print Assumptions C11_concrete_progress.

(* every effective step decreases a measure, and every schedule prefix can be completed into a finishing run *)
Theorem C11_concrete_completion : forall g np pre Ss opss sched, g_fifo g = true -> (1 <= g_cap g)%nat -> (1 <= g_win g)%nat ->
  Forall2 (fun ops S => TempBuf.written ops = data_bytes S) opss Ss ->
  (forall t s', cstep g t (crun g sched (cinit np pre Ss opss)) = Some s' ->
                (conc_measure s' < conc_measure (crun g sched (cinit np pre Ss opss)))%nat) /\
  exists more, cterminal (crun g (sched ++ more) (cinit np pre Ss opss)) = true.
Proof. exact pipeline_concrete_completion. Qed.
Print Assumptions C11_concrete_completion.

(* Inside await_real_file the splice task's next shared access is always enabled: [closed] is set when it takes
   it, the Condvar wait of the real buffer machine is never entered (C11_await_never_blocks, now at the level
   of the buffer's own transitions). *)
Theorem C11_concrete_await_never_blocks : forall g np pre Ss opss sched, g_fifo g = true ->
  Forall2 (fun ops S => TempBuf.written ops = data_bytes S) opss Ss ->
  let s := crun g sched (cinit np pre Ss opss) in
  sp_pc (cabs s) = SAwaitFile -> exists s', cstep g CSplice s = Some s'.
Proof. exact pipeline_concrete_await_never_blocks. Qed.
Print Assumptions C11_concrete_await_never_blocks.

(* the BufWriter's bytes are accounted for at every moment *)
Theorem C11_concrete_bytes : forall g np pre Ss opss sched, g_fifo g = true ->
  Forall2 (fun ops S => TempBuf.written ops = data_bytes S) opss Ss ->
  let s := crun g sched (cinit np pre Ss opss) in
  forall k c x, nth_error (p_chroms (cabs s)) k = Some c -> nth_error (k_x s) k = Some x ->
    exists fwd, fwd ++ x_bw x = data_bytes (c_out c) /\
                fwd ++ TempBuf.written (TempBuf.p_todo (x_buf x)) = data_bytes (nth k Ss []).
Proof. exact pipeline_concrete_bytes. Qed.
Print Assumptions C11_concrete_bytes.

(* ---------------------------------------------------------------- the lanes together: no deadlock across lanes
   The multi-lane machine (data region + zoom levels; the main thread starts / advances a chromosome in all
   lanes at once and advances only when every lane's producer has submitted everything; one splice loop
   handles the lanes in a fixed order).  Invariant (Proofs/PipelineLanesProgress.v LGood): every lane's
   projection satisfies the single-lane invariant, and the phase of the splice loop is in range with the
   current chromosome started. *)

(* every reachable state that is not terminal has an enabled step *)
Theorem C11_lanes_progress : forall g Ps Sss K sched, g_fifo g = true -> (1 <= g_cap g)%nat -> (1 <= g_win g)%nat ->
  length Ps = length Sss -> (1 <= length Sss)%nat -> Forall (fun Ss => length Ss = K) Sss ->
  let s := lrun g sched (linit Ps Sss) in
  lterminal s = false -> exists t s', lstep g t s = Some s'.
Proof. exact lanes_progress. Qed.
Print Assumptions C11_lanes_progress.

(* every effective step decreases a measure, and every schedule prefix can be completed *)
Theorem C11_lanes_completion : forall g Ps Sss K sched, g_fifo g = true -> (1 <= g_cap g)%nat -> (1 <= g_win g)%nat ->
  length Ps = length Sss -> (1 <= length Sss)%nat -> Forall (fun Ss => length Ss = K) Sss ->
  (forall t s', lstep g t (lrun g sched (linit Ps Sss)) = Some s' ->
                (lmeasure s' < lmeasure (lrun g sched (linit Ps Sss)))%nat) /\
  exists more, lterminal (lrun g (sched ++ more) (linit Ps Sss)) = true.
Proof.
  intros g Ps Sss K sched Hg Hcap Hwin Hp H1 F. split.
  - intros t s'. exact (lanes_measure g Ps Sss K sched t s' Hg Hp H1 F).
  - exact (lanes_completion g Ps Sss K sched Hg Hcap Hwin Hp H1 F).
Qed.
Print Assumptions C11_lanes_completion.

(* what can be waited for: (1) after its receive the splice loop only ever waits for a chromosome that has
   been started (in every lane: start creates all lanes' tasks); (2) at await_real_file of lane j the
   buffer is closed - the blocking wait is never entered; (3) a producer with something left to submit can
   submit, or the write task / head encode task of ITS OWN lane can move: a producer serving the lanes one
   after the other (the real process_val does) is never blocked by another lane or by the splice loop. *)
Theorem C11_lanes_waits : forall g Ps Sss K sched, g_fifo g = true -> (1 <= g_cap g)%nat ->
  length Ps = length Sss -> (1 <= length Sss)%nat -> Forall (fun Ss => length Ss = K) Sss ->
  let s := lrun g sched (linit Ps Sss) in
  (l_ph s <> LRecv -> l_ph s <> LDone -> (l_k s < l_started s)%nat /\ (l_started s <= K)%nat) /\
  (forall j, l_ph s = LAwaitFile j -> exists s', lstep g LSplice s = Some s') /\
  (forall l k c, (l < length Sss)%nat -> (k < l_started s)%nat ->
     nth_error (nth l (l_lanes s) []) k = Some c -> c_todo c <> [] ->
     (exists s', lstep g (LProd l k) s = Some s') \/
     (exists t s', lstep g t s = Some s' /\ (t = LWrite l k \/ t = LEnc l k 0))).
Proof. exact lanes_waits. Qed.
Print Assumptions C11_lanes_waits.

(* The producer as it is in the code: ONE task per chromosome that serves the lanes one after the other
   (Model/PipelineSeq.v: [ords] k is the order in which producer k submits to the lanes - any interleaving of
   the lanes' section lists; while it waits for room in one lane's channel it sends nothing to the others).
   The machine is the lanes machine with fewer producer steps (every run of it is a run of the lanes machine,
   so C11_lanes_splice holds of it), and it has no deadlock either, and every prefix can be completed. *)
Theorem C11_seq_lanes_refines : forall g Ps Sss ords sched,
  exists sched', q_l (qrun g sched (qinit Ps Sss ords)) = lrun g sched' (linit Ps Sss).
Proof. exact seq_lanes_refines. Qed.
Print Assumptions C11_seq_lanes_refines.

Theorem C11_seq_lanes_progress : forall g Ps Sss K ords sched, g_fifo g = true -> (1 <= g_cap g)%nat -> (1 <= g_win g)%nat ->
  length Ps = length Sss -> (1 <= length Sss)%nat -> Forall (fun Ss => length Ss = K) Sss -> ord_ok Sss ords ->
  let s := qrun g sched (qinit Ps Sss ords) in
  qterminal s = false -> exists t s', qstep g t s = Some s'.
Proof. exact seq_lanes_progress. Qed.
Print Assumptions C11_seq_lanes_progress.

Theorem C11_seq_lanes_completion : forall g Ps Sss K ords sched, g_fifo g = true -> (1 <= g_cap g)%nat -> (1 <= g_win g)%nat ->
  length Ps = length Sss -> (1 <= length Sss)%nat -> Forall (fun Ss => length Ss = K) Sss -> ord_ok Sss ords ->
  exists more, qterminal (qrun g (sched ++ more) (qinit Ps Sss ords)) = true.
Proof. exact seq_lanes_completion. Qed.
Print Assumptions C11_seq_lanes_completion.

(* ---------------------------------------------------------------- the second pass: write_zoom_vals with its final assembly
   Model/PipelineZoom.v: L zoom levels x K chromosomes; per level one splice task of its own (it receives a
   chromosome when the main thread ADVANCES it) whose destination is the level's outer staging writer; after
   process_to_bbi the main thread assembles the levels in order: wait for the level's splice task, append the
   level's bytes to the file (await_real_file for level 0, expect_closed_write for the others), assign the
   section offsets, build and write the index, push the directory entry. *)

(* per level, at every moment of every run: the level's store holds whole chromosomes in order; FIFO order *)
Theorem C11_zoom_levels_splice : forall g o ress pre Sss K sched, g_fifo g = true ->
  length ress = length Sss -> (1 <= length Sss)%nat -> Forall (fun Ss => length Ss = K) Sss ->
  let s := zrun g o ress sched (zinit pre Sss) in
  forall l, (l < length Sss)%nat ->
    (exists sp, nth_error (z_sp s) l = Some sp /\
       zs_store sp = data_bytes (concat (firstn (zs_k sp) (nth l Sss []))) /\
       (zs_pc sp = SDone -> zs_store sp = data_bytes (concat (nth l Sss [])))) /\
    (forall k c, nth_error (nth l (z_lanes s) []) k = Some c ->
       c_out c ++ map fst (c_fifo c) ++ c_todo c = nth k (nth l Sss []) []).
Proof. exact zoom_levels_splice. Qed.
Print Assumptions C11_zoom_levels_splice.

(* The zoom region.  At every moment of every run the file is the file on entry followed by what the
   sequential model (Model/BigWigWrite.v write_zooms_two_pass, the zoom part of bw_write_multipass and
   bb_write_multipass) writes for the levels assembled so far, and the collected directory entries are its
   entries; every finishing run has written exactly the sequential zoom region and directory. *)
Theorem C11_zoom_assembly : forall g o ress pre Sss K sched, g_fifo g = true ->
  length ress = length Sss -> (1 <= length Sss)%nat -> Forall (fun Ss => length Ss = K) Sss ->
  let s := zrun g o ress sched (zinit pre Sss) in
  (exists b, write_zooms_two_pass o (Nlen pre) (firstn (z_asm s) (zlevels ress Sss)) = Ok (b, z_hdrs s) /\
             z_file s = pre ++ b) /\
  (zterminal s = true ->
     exists zbytes, write_zooms_two_pass o (Nlen pre) (zlevels ress Sss) = Ok (zbytes, z_hdrs s) /\
                    z_file s = pre ++ zbytes).
Proof. exact zoom_assembly. Qed.
Print Assumptions C11_zoom_assembly.

(* the tie to the bigWig model: whenever bw_write_multipass's zoom part computes its levels, they are the
   levels of the machine run on the per-level, per-chromosome zoom sections, and every finishing run from a
   file [pre] has written the model's zoom region at |pre| *)
Theorem C11_zoom_assembly_bigwig : forall fp o outs zsizes zooms,
  mapM (fun size => do secs <- concat_res (map (fun c => zoom_sections fp (o_ips o) size (co_id c) (co_vals c)) outs);
                    Ok {| zl_res := size; zl_secs := secs |}) zsizes = Ok zooms ->
  exists Sss,
    Forall2 (fun size Ss => Forall2 (fun c S => zoom_sections fp (o_ips o) size (co_id c) (co_vals c) = Ok S) outs Ss) zsizes Sss /\
    zooms = zlevels zsizes Sss /\
    forall g pre sched, g_fifo g = true -> (1 <= length zsizes)%nat ->
      let s := zrun g o zsizes sched (zinit pre Sss) in
      zterminal s = true ->
      exists zbytes, write_zooms_two_pass o (Nlen pre) zooms = Ok (zbytes, z_hdrs s) /\ z_file s = pre ++ zbytes.
Proof. exact zoom_assembly_bigwig. Qed.
Print Assumptions C11_zoom_assembly_bigwig.

(* What the second-pass machine assumes of a level's OUTER staging buffer (the assembly step appends the level's
   store to the file) is C12's delivery theorem for the two consumer programs write_zoom_vals runs on it: level 0
   `switch(file)` first .. `await_real_file()` after the drop; the others `expect_closed_write(&mut file)`. *)
Theorem C11_zoom_outer_contract : forall (expect : bool) (d0 : bytes) (ws : list bytes) sched,
  let prog := if expect then [TempBuf.CExpect] else [TempBuf.CSwitch; TempBuf.CAwait] in
  let b := TempBuf.run d0 sched (TempBuf.init (map TempBuf.PWrite ws) prog) in
  TempBuf.panicked b = false /\
  (TempBuf.terminal b = true -> TempBuf.c_dest b = Some (d0 ++ concat ws)).
Proof. exact zoom_outer_contract. Qed.
Print Assumptions C11_zoom_outer_contract.

(* no deadlock, final assembly included: when the sequential model can write the zoom region, every
   reachable state that is not terminal has an enabled step, and every schedule prefix can be completed into
   a run that ends with the sequential bytes and directory *)
Theorem C11_zoom_progress : forall g o ress pre Sss K sched zb hs, g_fifo g = true -> (1 <= g_cap g)%nat -> (1 <= g_win g)%nat ->
  length ress = length Sss -> (1 <= length Sss)%nat -> Forall (fun Ss => length Ss = K) Sss ->
  write_zooms_two_pass o (Nlen pre) (zlevels ress Sss) = Ok (zb, hs) ->
  let s := zrun g o ress sched (zinit pre Sss) in
  zterminal s = false -> exists t s', zstep g o ress t s = Some s'.
Proof. exact zoom_progress. Qed.
Print Assumptions C11_zoom_progress.

Theorem C11_zoom_completion : forall g o ress pre Sss K sched zb hs, g_fifo g = true -> (1 <= g_cap g)%nat -> (1 <= g_win g)%nat ->
  length ress = length Sss -> (1 <= length Sss)%nat -> Forall (fun Ss => length Ss = K) Sss ->
  write_zooms_two_pass o (Nlen pre) (zlevels ress Sss) = Ok (zb, hs) ->
  exists more, let s := zrun g o ress (sched ++ more) (zinit pre Sss) in
    zterminal s = true /\ z_file s = pre ++ zb /\ z_hdrs s = hs.
Proof. exact zoom_completion. Qed.
Print Assumptions C11_zoom_completion.

(* ---------------------------------------------------------------- non-vacuity *)
Local Open Scope N_scope.
Definition sec (c s e : N) (b : bytes) : sdata := {| sd_chrom := c; sd_start := s; sd_end := e; sd_bytes := b |}.
Definition ex_Ss : list (list sdata) :=
  [ [sec 0 0 5 [1; 2; 3]; sec 0 5 9 [4]; sec 0 9 20 [5; 6]];
    [sec 1 0 7 [7; 8]];
    [sec 2 3 4 [9]; sec 2 4 8 [10; 11; 12]] ].
Definition ex_g : params := mkg 2 5 true.

(* A finishing run in which chromosome 1 and chromosome 2 are produced, encoded and written into their
   staging buffers completely BEFORE chromosome 0 has written anything, chromosome 0's encode tasks
   complete in reverse order, and the splice task is polled throughout: the bytes are the sequential ones. *)
Definition ex_sched : list task :=
  [TMain; TMain; TMain; TSplice;
   TProd 2; TProd 2; TEnc 2 1; TEnc 2 0; TWrite 2; TWrite 2; TProd 1; TEnc 1 0; TWrite 1; TSplice;
   TProd 0; TProd 0; TProd 0 (* channel full: stutters *); TEnc 0 1; TWrite 0 (* head not completed: stutters *);
   TEnc 0 0; TWrite 0; TProd 0; TSplice; TWrite 0; TEnc 0 0; TWrite 0;
   TMain; TMain; TMain; TMain; TWrite 0; TWrite 1; TWrite 2; TSplice; TSplice; TSplice; TSplice; TSplice; TSplice;
   TSplice; TSplice; TSplice].
Example C11_example_run :
  let s := run ex_g ex_sched (init [100; 101] ex_Ss) in
  terminal s = true /\ sp_file s = [100; 101; 1; 2; 3; 4; 5; 6; 7; 8; 9; 10; 11; 12] /\
  map (fun x => (s_chrom x, s_off x, s_size x)) (final_index 2 s) = [(0, 2, 3); (0, 5, 1); (0, 6, 2); (1, 8, 2); (2, 10, 1); (2, 11, 3)].
Proof. vm_compute. repeat split. Qed.

(* the same input under the serial source (window 1), capacity 1, and a round-robin schedule *)
Example C11_example_round_robin :
  let s := run (mkg 1 1 true) (rounds 30 (all_tasks 3 1)) (init [100; 101] ex_Ss) in
  terminal s = true /\ sp_file s = seq_file [100; 101] ex_Ss.
Proof. vm_compute. repeat split. Qed.

(* a reachable state that is not terminal (hypothesis of C11_progress) and one in which the splice task is
   at await_real_file (hypothesis of C11_await_never_blocks) *)
Example C11_example_nonterminal :
  terminal (run ex_g [TMain; TSplice; TProd 0] (init [] ex_Ss)) = false /\
  sp_pc (run (mkg 1 1 true) [TMain; TProd 0; TEnc 0 0; TWrite 0; TProd 0; TEnc 0 0; TWrite 0; TProd 0; TEnc 0 0; TWrite 0;
                             TMain; TWrite 0; TSplice; TSplice] (init [] ex_Ss)) = SAwaitFile.
Proof. vm_compute. repeat split. Qed.

(* two lanes (data + one zoom level) over two chromosomes: the zoom lane of chromosome 1 is written before anything of
   chromosome 0, the data lane of chromosome 0 last *)
Definition ex_lanes : list (list (list sdata)) :=
  [ [[sec 0 0 5 [1; 2]; sec 0 5 9 [3]]; [sec 1 0 7 [4]]];
    [[sec 0 0 9 [50]];                  [sec 1 0 7 [51; 52]]] ].
Fixpoint lrounds (n : nat) (l : list ltask) : list ltask := match n with O => [] | S m => l ++ lrounds m l end.
Example C11_example_lanes :
  let s := lrun ex_g ([LMain; LMain; LProd 1 1; LEnc 1 1 0; LWrite 1 1; LSplice; LSplice; LProd 1 0; LEnc 1 0 0; LWrite 1 0;
                       LProd 0 1; LEnc 0 1 0; LWrite 0 1; LProd 0 0; LProd 0 0; LEnc 0 0 1; LEnc 0 0 0] ++
                      lrounds 16 [LMain; LSplice; LWrite 0 0; LWrite 0 1; LWrite 1 0; LWrite 1 1])
                (linit [[100]; [200]] ex_lanes) in
  lterminal s = true /\ l_files s = [[100; 1; 2; 3; 4]; [200; 50; 51; 52]].
Proof. vm_compute. repeat split. Qed.

(* The theorems depend on the protocol: if the write task takes whichever encode task has completed
   (g_fifo = false, FuturesUnordered instead of the FIFO), a finishing run writes other bytes. *)
Example C11_unordered_refuted :
  exists sched, let s := run (mkg 2 5 false) sched (init [100] ex_Ss) in
  terminal s = true /\ sp_file s <> seq_file [100] ex_Ss.
Proof.
  exists ([TMain; TProd 0; TProd 0; TEnc 0 1; TWrite 0] ++ rounds 30 (all_tasks 3 2)).
  vm_compute. split; [reflexivity|discriminate].
Qed.

(* the section data of a real bigWig input satisfy the hypothesis of C11_splice_bigwig *)
Example C11_example_bigwig_hyp :
  exists ids outs sum data,
    bw_collect ieee {| o_compress := false; o_ips := 2; o_bs := 4; o_izoom := 10; o_maxzooms := 2; o_manual := None; o_sort_all := true |}
      [([97], 100); ([98], 50)]
      [([97], {| v_start := 0; v_end := 5; v_bits := 1065353216 |}); ([97], {| v_start := 5; v_end := 9; v_bits := 1073741824 |});
       ([97], {| v_start := 20; v_end := 30; v_bits := 1065353216 |}); ([98], {| v_start := 1; v_end := 2; v_bits := 1065353216 |})]
    = Ok (ids, outs, sum, data) /\ length data = 3%nat.
Proof. eexists. eexists. eexists. eexists. vm_compute. split; reflexivity. Qed.

(* a real bigBed input (overlapping / nested / zero-length entries, an end beyond the chromosome, two
   chromosomes, items_per_slot 2: three data sections) satisfies the hypothesis of C11_splice_bigbed in
   both pass modes *)
Definition ex_bb_opts : opts := {| o_compress := false; o_ips := 2; o_bs := 4; o_izoom := 10; o_maxzooms := 2;
                                  o_manual := None; o_sort_all := true |}.
Definition ex_bb_input : list BigBedWrite.bitem :=
  let e s e r := {| BigBedWrite.e_start := s; BigBedWrite.e_end := e; BigBedWrite.e_rest := r |} in
  [([97], e 0 50 [120]); ([97], e 0 5 []); ([97], e 20 20 [121; 9; 43]); ([98], e 1 200 [])].
Example C11_example_bigbed_hyp :
  (exists f, BedZoomFit.bb_write_either false ieee ex_bb_opts [([97], 100); ([98], 50)] None ex_bb_input = Ok f) /\
  (exists f, BedZoomFit.bb_write_either true ieee ex_bb_opts [([97], 100); ([98], 50)] None ex_bb_input = Ok f) /\
  (exists ids outs data, BigBedWrite.bb_collect ex_bb_opts [([97], 100); ([98], 50)] ex_bb_input = Ok (ids, outs)
                         /\ BigBedWrite.bb_data ex_bb_opts outs = Ok data /\ length data = 3%nat).
Proof.
  split; [|split].
  - eexists. vm_compute. reflexivity.
  - eexists. vm_compute. reflexivity.
  - eexists. eexists. eexists. vm_compute. repeat split.
Qed.

(* converters: chromosome 1's text is complete before chromosome 0 has written a record *)
Example C11_example_converter :
  let s := vrun 2 [VDriver; VDriver; VDriver (* window full: stutters *); VFile 1; VFile 1; VFile 1; VMain; VMain (* not ready: stutters *);
                   VFile 0; VJoin; VFile 0; VFile 0; VMain; VJoin; VMain; VDriver; VMain; VMain; VJoin; VMain; VDriver; VFile 2; VFile 2;
                   VJoin; VJoin; VMain; VMain; VMain; VMain]
                (vinit [35] [[[1; 2]; [3]]; [[4]; [5; 6]]; [[7]]]) in
  vterminal s = true /\ v_file s = [35; 1; 2; 3; 4; 5; 6; 7].
Proof. vm_compute. repeat split. Qed.

Example C11_example_converter_nonterminal :
  vterminal (vrun 2 [VDriver; VFile 0; VMain] (vinit [] [[[1]]; [[2]]])) = false /\
  v_pc (vrun 1 [VDriver; VFile 0; VFile 0; VMain; VMain] (vinit [] [[[1]]; [[2]]])) = VAwait.
Proof. vm_compute. repeat split. Qed.

(* The concrete machine on the three chromosomes above.  The BufWriter of chromosome 0 cuts its six bytes
   as [1;2] [3;4;5] flush [6] (not at section boundaries).  Chromosomes 2 and 1 are staged completely
   first; the switch of chromosome 0 lands between update() and the local write of its first write() (the
   bytes [1;2] are staged and migrate on the next update()); a write(w) whose bytes the BufWriter does not
   hold yet stutters; the Drop before the loop has ended stutters; chromosomes 1 and 2 are switched after
   their writers were dropped (the splice task finishes the copy itself). *)
Definition ex_opss : list (list TempBuf.pop) :=
  [ [TempBuf.PWrite [1; 2]; TempBuf.PWrite [3; 4; 5]; TempBuf.PFlush; TempBuf.PWrite [6]];
    [TempBuf.PWrite [7; 8]]; [TempBuf.PWrite [9]; TempBuf.PWrite [10; 11; 12]] ].
Definition ex_csched : list ctask :=
  [CMain; CMain; CMain;
   CProd 2; CProd 2; CEnc 2 1; CEnc 2 0; CWrite 2; CBuf 2; CBuf 2; CWrite 2; CBuf 2; CBuf 2;
   CProd 1; CEnc 1 0; CWrite 1; CBuf 1; CBuf 1;
   CProd 0; CProd 0; CEnc 0 1; CWrite 0; CEnc 0 0; CWrite 0; CBuf 0; CSplice; CBuf 0; CWrite 0; CBuf 0;
   CProd 0; CEnc 0 0; CWrite 0; CBuf 0; CBuf 0; CBuf 0; CMain; CBuf 0; CBuf 0; CBuf 0; CWrite 0; CBuf 0;
   CSplice; CSplice; CSplice;
   CMain; CMain; CMain; CWrite 1; CBuf 1; CWrite 2; CBuf 2;
   CSplice; CSplice; CSplice; CSplice; CSplice; CSplice; CSplice; CSplice; CSplice].
Example C11_example_concrete :
  Forall2 (fun ops S => TempBuf.written ops = data_bytes S) ex_opss ex_Ss /\
  (let s := crun ex_g (firstn 27 ex_csched) (cinit 0 [100; 101] ex_Ss ex_opss) in
   sp_pc (cabs s) = SAwaitTask /\
   map (fun x => (x_bw x, TempBuf.mailbox (x_buf x), TempBuf.p_state (x_buf x))) (k_x s) =
     [([3], Some [100; 101], TempBuf.Staged [1; 2]); ([], None, TempBuf.Staged [7; 8]); ([], None, TempBuf.Staged [9; 10; 11; 12])]) /\
  (let s := crun ex_g ex_csched (cinit 0 [100; 101] ex_Ss ex_opss) in
   cterminal s = true /\ sp_file (cabs s) = [100; 101; 1; 2; 3; 4; 5; 6; 7; 8; 9; 10; 11; 12] /\
   map (fun x => TempBuf.c_dest (x_buf x)) (k_x s) =
     [Some [100; 101; 1; 2; 3; 4; 5; 6]; Some [100; 101; 1; 2; 3; 4; 5; 6; 7; 8];
      Some [100; 101; 1; 2; 3; 4; 5; 6; 7; 8; 9; 10; 11; 12]]).
Proof.
  split; [repeat constructor|]. vm_compute. repeat split.
Qed.

(* round-robin over all tasks, with two readiness polls per chromosome and one write() per section *)
Example C11_example_concrete_round_robin :
  let s := crun (mkg 1 1 true) (crounds 40 (all_ctasks 3 1)) (cinit 2 [100; 101] ex_Ss (map ops_per_section ex_Ss)) in
  cterminal s = true /\ sp_file (cabs s) = seq_file [100; 101] ex_Ss /\
  map (fun x => TempBuf.c_obs (x_buf x)) (k_x s) =
    [[TempBuf.OReady false; TempBuf.OReady false]; [TempBuf.OReady true; TempBuf.OReady true]; [TempBuf.OReady true; TempBuf.OReady true]].
Proof. vm_compute. repeat split. Qed.

(* lanes: a reachable state that is not terminal, with the splice loop waiting for lane 1 (zoom) of chromosome 0
   while lane 0 of chromosome 1 is still being produced (hypotheses of C11_lanes_progress / C11_lanes_waits) *)
Example C11_example_lanes_nonterminal :
  let s := lrun ex_g [LMain; LMain; LSplice; LSplice; LProd 0 0; LProd 0 0; LEnc 0 0 0; LEnc 0 0 1; LWrite 0 0; LWrite 0 0;
                      LProd 1 0; LMain; LWrite 0 0; LSplice; LSplice; LProd 0 1] (linit [[100]; [200]] ex_lanes) in
  lterminal s = false /\ l_ph s = LAwaitTask 1 /\ l_k s = 0%nat /\ l_files s = [[100; 1; 2; 3]; [200]].
Proof. vm_compute. repeat split. Qed.

(* the second pass: two levels, three chromosomes (level 1 has no section for chromosome 2), serial source, capacity 1,
   round-robin; the zoom region and the directory are the sequential model's *)
Definition ex_zoom : list (list (list sdata)) :=
  [ [[sec 0 0 5 [1; 2]; sec 0 5 9 [3]]; [sec 1 0 7 [4]];      [sec 2 0 9 [5; 6]]];
    [[sec 0 0 9 [50]];                  [sec 1 0 7 [51; 52]]; []] ].
Example C11_example_zoom :
  let s := zrun (mkg 1 1 true) ex_bb_opts [10; 40] (zrounds 30 (all_ztasks 2 3 1)) (zinit [100] ex_zoom) in
  zterminal s = true /\
  write_zooms_two_pass ex_bb_opts 1 (zlevels [10; 40] ex_zoom) = Ok (skipn 1 (z_file s), z_hdrs s) /\
  firstn 7 (z_file s) = [100; 1; 2; 3; 4; 5; 6] /\
  z_hdrs s = [{| zh_res := 10; zh_data := 1; zh_index := 7 |}; {| zh_res := 40; zh_data := 187; zh_index := 190 |}].
Proof. vm_compute. repeat split. Qed.

(* an interleaved schedule: level 1 is completely spliced for chromosome 0 before level 0 has written anything, the
   assembly is attempted too early (stutters), level 1's task finishes before level 0's *)
Example C11_example_zoom_interleaved :
  let s := zrun ex_g ex_bb_opts [10; 40]
             ([ZMain; ZMain; ZMain; ZProd 1 0; ZEnc 1 0 0; ZWrite 1 0; ZProd 1 1; ZSplice 1 (* not advanced: stutters *);
               ZProd 0 0; ZProd 0 0; ZEnc 0 0 1; ZMain; ZSplice 1; ZWrite 1 0; ZSplice 1; ZSplice 1; ZMain (* assembly: stutters *)]
              ++ zrounds 30 (all_ztasks 2 3 2)) (zinit [100] ex_zoom) in
  zterminal s = true /\ write_zooms_two_pass ex_bb_opts 1 (zlevels [10; 40] ex_zoom) = Ok (skipn 1 (z_file s), z_hdrs s).
Proof. vm_compute. repeat split. Qed.

(* a non-terminal state of the second-pass machine in the final assembly (level 0 assembled, level 1's task not done) *)
Example C11_example_zoom_nonterminal :
  let s := zrun (mkg 1 1 true) ex_bb_opts [10; 40]
             (zrounds 30 (filter (fun t => match t with ZSplice 1 => false | _ => true end) (all_ztasks 2 3 1))) (zinit [100] ex_zoom) in
  zterminal s = false /\ z_closed s = true /\ z_asm s = 1%nat.
Proof. vm_compute. repeat split. Qed.

(* the levels of a real bigWig input satisfy the hypothesis of C11_zoom_assembly_bigwig *)
Example C11_example_zoom_bigwig_hyp :
  exists ids outs sum data zooms,
    bw_collect ieee ex_bb_opts [([97], 100); ([98], 50)]
      [([97], {| v_start := 0; v_end := 5; v_bits := 1065353216 |}); ([97], {| v_start := 5; v_end := 9; v_bits := 1073741824 |});
       ([97], {| v_start := 20; v_end := 30; v_bits := 1065353216 |}); ([98], {| v_start := 1; v_end := 2; v_bits := 1065353216 |})]
    = Ok (ids, outs, sum, data) /\
    mapM (fun size => do secs <- concat_res (map (fun c => zoom_sections ieee (o_ips ex_bb_opts) size (co_id c) (co_vals c)) outs);
                      Ok {| zl_res := size; zl_secs := secs |}) [10; 40] = Ok zooms /\
    map (fun z => length (zl_secs z)) zooms = [2%nat; 2%nat].
Proof.
  eexists. eexists. eexists. eexists. eexists. split; [vm_compute; reflexivity|]. vm_compute. split; reflexivity.
Qed.

(* sequential producers on the two lanes above: producer 0 submits data, zoom, data; producer 1 zoom, data.  With capacity 1
   producer 0 is blocked on the DATA lane (its second data section) while nothing of chromosome 0 has been written: a
   reachable non-terminal state; and a complete round-robin run *)
Definition ex_ords : list (list nat) := [[0; 1; 0]; [1; 0]]%nat.
Example C11_example_seq_lanes :
  ord_ok ex_lanes ex_ords /\
  (let s := qrun (mkg 1 5 true) [QMain; QMain; QProd 0; QProd 0; QProd 0 (* data channel full: stutters *); QProd 1; QSplice]
                 (qinit [[100]; [200]] ex_lanes ex_ords) in
   qterminal s = false /\ q_ord s = [[0]; [0]]%nat) /\
  (let s := qrun (mkg 1 5 true) (qrounds 20 (all_qtasks 2 2 1)) (qinit [[100]; [200]] ex_lanes ex_ords) in
   qterminal s = true /\ l_files (q_l s) = [[100; 1; 2; 3; 4]; [200; 50; 51; 52]]).
Proof.
  split; [|vm_compute; repeat split].
  split; [repeat constructor|].
  intros l k Hl. destruct l as [|[|l]]; [| |cbn in Hl; lia]; destruct k as [|[|k]]; try reflexivity; destruct k; reflexivity.
Qed.

(* concrete machine: a reachable non-terminal state, and one inside await_real_file ([closed] taken, mailbox not yet
   swapped) - the hypotheses of C11_concrete_progress / C11_concrete_await_never_blocks *)
Example C11_example_concrete_nonterminal :
  cterminal (crun ex_g (firstn 27 ex_csched) (cinit 0 [100; 101] ex_Ss ex_opss)) = false /\
  (let s := crun ex_g (firstn 43 ex_csched) (cinit 0 [100; 101] ex_Ss ex_opss) in
   sp_pc (cabs s) = SAwaitFile /\
   map (fun x => TempBuf.c_mid (x_buf x)) (firstn 1 (k_x s)) = [TempBuf.CAwaitTaken (TempBuf.Real [100; 101; 1; 2; 3; 4; 5; 6])]).
Proof. vm_compute. repeat split. Qed.
