(* C15 — merging and gap filling preserve the per-base signal.
   Only statements, closed by [exact], with Print Assumptions beneath each. *)
From BT Require Import Base.Util Model.Merge Proofs.MergeSig Proofs.MergeInto.
Local Open Scope N_scope.

(* merge_into: for two non-empty overlapping values the call returns (no panic) pieces that are sorted,
   pairwise disjoint, start at the hull's start, and whose value at every base x is the sum of the inputs
   that contain x -- and nothing outside the hull ([cov] false => no value). *)
Theorem C15_merge_into : forall one two,
  v_start one < v_end one -> v_start two < v_end two ->
  v_start two < v_end one -> v_start one < v_end two ->
  exists r, merge_into one two = Ok r /\
    sorted_from (N.min (v_start one) (v_start two)) (pieces r) /\
    forall x, sig (pieces r) x = if cov [one; two] x then Some (sigz [one; two] x) else None.
Proof. exact merge_into_ok. Qed.
Print Assumptions C15_merge_into.

(* the documented contract for values that do not overlap (repaired, D6d) *)
Theorem C15_merge_into_no_overlap : forall one two,
  v_end one <= v_start two \/ v_end two <= v_start one -> merge_into one two = Panic.
Proof. exact merge_into_no_overlap. Qed.
Print Assumptions C15_merge_into_no_overlap.

Example C15_merge_into_example :
  let one := mkV 3 9 8%Z in let two := mkV 5 12 (-8)%Z in
  (v_start one < v_end one /\ v_start two < v_end two /\ v_start two < v_end one /\ v_start one < v_end two)
  /\ merge_into one two = Ok (mkV 3 5 8%Z, Some (mkV 5 9 0%Z), None, Some (mkV 9 12 (-8)%Z)).
Proof. cbv zeta. split; [cbn [v_start v_end]; lia|vm_compute; reflexivity]. Qed.
