(* C15 — merging and gap filling preserve the per-base signal.
   Only statements, closed by [exact], with Print Assumptions beneath each.
   Vocabulary (Model/Merge.v): a value is [mkV start end val] with [val] an exact number (eighths);
   [sig l x] = the value at base x of the first value of l containing x; [sigz l x] = the sum of all values of l
   containing x; [cov l x] = some value of l contains x; [sorted_from lo l] = values non-empty, in order, pairwise
   disjoint, none before lo; [ssum vss x] = the sum over the streams vss of their value at base x (0 where absent);
   [nz_opt z] = None when z = 0, Some z otherwise. *)
From BT Require Import Base.Util Model.Merge Model.Fill Model.MergeTool
  Proofs.MergeSig Proofs.MergeInto Proofs.MergeWin Proofs.MergeMany Proofs.FillOk Proofs.MergeToolOk Proofs.MergeToolRun Proofs.MergeManyCode Generated.Consts.
From BT Require Model.Entry_C15 Proofs.EighthsCodec.
Local Open Scope N_scope.

(* ------------------------------------------------------------------ merge_into *)
(* For two non-empty overlapping values the call returns (no panic) pieces that are sorted, pairwise disjoint,
   start at the hull's start, and whose value at every base x is the sum of the inputs that contain x -- and
   nothing outside the hull. *)
Theorem C15_merge_into : forall one two,
  v_start one < v_end one -> v_start two < v_end two ->
  v_start two < v_end one -> v_start one < v_end two ->
  exists r, merge_into one two = Ok r /\
    sorted_from (N.min (v_start one) (v_start two)) (pieces r) /\
    forall x, sig (pieces r) x = if cov [one; two] x then Some (sigz [one; two] x) else None.
Proof. exact merge_into_ok. Qed.
Print Assumptions C15_merge_into.

(* the documented contract for values that do not overlap (repaired, D6d) *)
Theorem C15_merge_into_no_overlap : forall one two,
  v_end one <= v_start two \/ v_end two <= v_start one -> merge_into one two = Panic.
Proof. exact merge_into_no_overlap. Qed.
Print Assumptions C15_merge_into_no_overlap.

Example C15_merge_into_example :
  let one := mkV 3 9 8%Z in let two := mkV 5 12 (-8)%Z in
  (v_start one < v_end one /\ v_start two < v_end two /\ v_start two < v_end one /\ v_start one < v_end two)
  /\ merge_into one two = Ok (mkV 3 5 8%Z, Some (mkV 5 9 0%Z), None, Some (mkV 9 12 (-8)%Z)).
Proof. cbv zeta. split; [cbn [v_start v_end]; lia|vm_compute; reflexivity]. Qed.

(* ------------------------------------------------------------------ merge_sections_many (ValueIter) *)
(* For EVERY window size W > 0 and ANY number of error-free streams, each sorted and disjoint (non-empty values):
   collecting the iterator terminates within the model's fuel without panic or error, and the values it yields are
   sorted, pairwise disjoint, none is zero, and at every base x the output carries the sum of the inputs' values
   at x when that sum is not zero and nothing otherwise.  Values crossing any number of window boundaries, values
   ending exactly on a boundary, cancelling values, explicit zeros, empty and early-ending streams are all
   instances.  (Adjacent equal runs may come out split at a window boundary; the property allows it.) *)
Theorem C15_merge_many : forall W vss, 0 < W -> Forall (sorted_from 0) vss ->
  exists out, merge_sections_many W (map (map IV) vss) = Ok (map IV out) /\
    sorted_from 0 out /\ Forall (fun v => v_val v <> 0%Z) out /\
    forall x, sig out x = nz_opt (ssum vss x).
Proof. exact merge_many_ok. Qed.
Print Assumptions C15_merge_many.

(* the instance the code runs: DATA_SIZE as translated from merge.rs on every run (re-checked when it changes) *)
Theorem C15_merge_many_code_window : forall vss, Forall (sorted_from 0) vss ->
  exists out, merge_sections_many MERGE_DATA_SIZE (map (map IV) vss) = Ok (map IV out) /\
    sorted_from 0 out /\ Forall (fun v => v_val v <> 0%Z) out /\
    forall x, sig out x = nz_opt (ssum vss x).
Proof. exact merge_many_code_window. Qed.
Print Assumptions C15_merge_many_code_window.

(* non-vacuity: three streams, W = 4: window crossings, a cancelling stretch [2,3), an explicit zero, a short stream;
   the run of -4 over [3,6) comes out split at the window boundary 4 *)
Example C15_merge_many_example :
  let vss := [[mkV 0 3 8%Z; mkV 3 9 4%Z]; [mkV 2 6 (-8)%Z; mkV 8 13 1%Z]; [mkV 7 8 0%Z]] in
  Forall (sorted_from 0) vss /\
  merge_sections_many 4 (map (map IV) vss) =
    Ok (map IV [mkV 0 2 8%Z; mkV 3 4 (-4)%Z; mkV 4 6 (-4)%Z; mkV 6 8 4%Z; mkV 8 9 5%Z; mkV 9 12 1%Z; mkV 12 13 1%Z]).
Proof. exact merge_many_example. Qed.

(* ------------------------------------------------------------------ fill / fill_start_to_end *)
(* [tiles s e l]: every value of l is non-empty and begins where the previous one ended, from s to e (gapless);
   [zeros_added ins outs]: outs is ins, unchanged and in order, with zero-valued values inserted;
   [end_from s l]: where the sorted list l ends (s when it is empty). *)
Theorem C15_fill : forall vs, sorted_from 0 vs ->
  exists out, fill (map IV vs) = Ok (map IV out) /\ tiles 0 (end_from 0 vs) out /\ zeros_added vs out.
Proof. exact fill_ok. Qed.
Print Assumptions C15_fill.

Theorem C15_fill_start_to_end : forall vs start end_, sorted_from start vs -> end_from start vs <= end_ ->
  exists out, fill_start_to_end (map IV vs) start end_ = Ok (map IV out) /\ tiles start end_ out /\ zeros_added vs out.
Proof. exact fill_start_to_end_ok. Qed.
Print Assumptions C15_fill_start_to_end.

(* consequence for the per-base signal: adding zeros changes no base's sum, and a tiling covers exactly [s, e) *)
Theorem C15_fill_signal : forall ins outs s e, zeros_added ins outs -> tiles s e outs ->
  forall x, sigz outs x = sigz ins x /\ cov outs x = (s <=? x) && (x <? e).
Proof. exact fill_signal. Qed.
Print Assumptions C15_fill_signal.

Example C15_fill_example :
  let vs := [mkV 10 15 4%Z; mkV 20 30 6%Z; mkV 30 35 7%Z] in
  sorted_from 5 vs /\ end_from 5 vs <= 40 /\
  fill (map IV vs) = Ok (map IV [mkV 0 10 0%Z; mkV 10 15 4%Z; mkV 15 20 0%Z; mkV 20 30 6%Z; mkV 30 35 7%Z]) /\
  fill_start_to_end (map IV vs) 5 40 =
    Ok (map IV [mkV 5 10 0%Z; mkV 10 15 4%Z; mkV 15 20 0%Z; mkV 20 30 6%Z; mkV 30 35 7%Z; mkV 35 40 0%Z]).
Proof. exact fill_example. Qed.

(* ------------------------------------------------------------------ the merge tool, one chromosome *)
(* [tool_chrom W maxfds size bws thr adj clip]: what get_merged_vals hands to the output writer for a chromosome of
   length [size] present in the inputs [bws] (each: the stored values).  With at most [maxfds] inputs:
   the values are exactly  filter (> threshold) (map (+adjust . min clip) merged)  where [merged] is the merge of
   the complete inputs (queried from base 0); they are sorted and disjoint; and at EVERY base x (base 0 included)
   the output is [tool_expected]: nothing where the per-base sum is zero/absent, otherwise
   min(clip, sum) + adjust if that exceeds the threshold, nothing if not. *)
Theorem C15_tool_pipeline : forall W maxfds size bws thr adj clip,
  0 < W -> Forall (sorted_from 0) bws -> Forall (fun vs => end_from 0 vs <= size) bws ->
  (length bws <= maxfds)%nat ->
  exists merged out, merge_sections_many W (map (map IV) bws) = Ok (map IV merged) /\
    out = filter (fun v => above (Some thr) (v_val v)) (map (clip_adjust clip (unwrap_or0 adj)) merged) /\
    tool_chrom W maxfds size bws thr adj clip = Ok (map IV out) /\
    sorted_from 0 out /\ forall x, sig out x = tool_expected bws thr adj clip x.
Proof. exact tool_chrom_direct. Qed.
Print Assumptions C15_tool_pipeline.

(* With more inputs than the descriptor budget (maxfds >= 2; 976 in the code) the inputs are merged in chunks,
   repeatedly, and clip/adjust/threshold are applied once, to the total (repaired, D6c): same per-base result. *)
Theorem C15_tool_chunked : forall W maxfds size bws thr adj clip,
  0 < W -> (2 <= maxfds)%nat -> Forall (sorted_from 0) bws -> Forall (fun vs => end_from 0 vs <= size) bws ->
  (maxfds < length bws)%nat ->
  exists out, tool_chrom W maxfds size bws thr adj clip = Ok (map IV out) /\
    sorted_from 0 out /\ forall x, sig out x = tool_expected bws thr adj clip x.
Proof. exact tool_chrom_chunked. Qed.
Print Assumptions C15_tool_chunked.

(* non-vacuity of both paths (budget 2): two inputs direct, three inputs chunked; base 0 is covered;
   sums 3.0 / 1.0(+0.5) / clip 2.0 ... in eighths *)
Example C15_tool_example :
  let a := [mkV 0 10 12%Z] in let b := [mkV 0 4 12%Z; mkV 6 10 (-12)%Z] in let c := [mkV 2 8 8%Z] in
  tool_chrom 4 2 1000 [a; b] 0 (Some 4%Z) (Some 16%Z) = Ok (map IV [mkV 0 4 20%Z; mkV 4 6 16%Z]) /\
  tool_chrom 4 2 1000 [a; b; c] 0 (Some 4%Z) (Some 16%Z) =
    Ok (map IV [mkV 0 2 20%Z; mkV 2 4 20%Z; mkV 4 6 20%Z; mkV 6 8 12%Z]).
Proof. cbv zeta. split; vm_compute; reflexivity. Qed.

(* ------------------------------------------------------------------ output names (repaired, D6b) *)
(* Whatever precedes the suffix, and in whatever letter case the suffix is written: .bw and .bigwig select bigWig,
   .bedgraph selects bedGraph; --output-type bigwig / bedgraph (any case) decides regardless of the name; in
   particular the three spellings of the help text are recognised. *)
Theorem C15_output_names : forall stem suf t name,
  (to_lower suf = s_dot_bw \/ to_lower suf = s_dot_bigwig -> detect_output None (stem ++ suf) = Some OBigWig) /\
  (to_lower suf = s_dot_bedgraph -> detect_output None (stem ++ suf) = Some OBedGraph) /\
  (to_lower t = s_bigwig -> detect_output (Some t) name = Some OBigWig) /\
  (to_lower t = s_bedgraph -> detect_output (Some t) name = Some OBedGraph) /\
  detect_output None (stem ++ [46; 98; 119]) = Some OBigWig /\
  detect_output None (stem ++ [46; 98; 105; 103; 87; 105; 103]) = Some OBigWig /\
  detect_output None (stem ++ [46; 98; 101; 100; 71; 114; 97; 112; 104]) = Some OBedGraph.
Proof. exact detect_all. Qed.
Print Assumptions C15_output_names.

(* ------------------------------------------------------------------ the merge tool, a whole run *)
(* Inputs: any number of files, each a list of chromosomes (name, length, stored values), every chromosome's values
   sorted, disjoint and inside [0, length) ([files_ok]).  For every window size and every descriptor budget >= 2:
   either two inputs disagree on a chromosome's length and the run is the MismatchedChroms error, or
   the chromosome table is built, every chromosome name occurring in ANY input is in it (chromosomes missing from
   some inputs included), each entry's inputs are exactly the inputs that have that chromosome ([chrom_inputs]),
   and -- when the output type is recognised -- the rows are, chromosome by chromosome in table order, sorted
   disjoint values whose per-base signal is [tool_expected] of those inputs at EVERY base (from base 0);
   an unrecognised output type writes nothing. *)
Theorem C15_tool_run : forall W maxfds files thr adj clip ty name,
  0 < W -> (2 <= maxfds)%nat -> files_ok files ->
  (exists table,
     chrom_table (all_names files) files [] = Ok table /\
     Forall (entry_ok files) table /\
     (forall f c, In f files -> In c f -> bt_has (fst (fst c)) table = true) /\
     match detect_output ty name with
     | None => tool_run W maxfds files thr adj clip ty name = Ok None
     | Some t => exists outs, tool_run W maxfds files thr adj clip ty name = Ok (Some (t, rows_spec table outs)) /\
                              Forall2 (out_ok thr adj clip) table outs
     end)
  \/ (chrom_table (all_names files) files [] = Err 1 /\ tool_run W maxfds files thr adj clip ty name = Err 1).
Proof. exact tool_run_ok. Qed.
Print Assumptions C15_tool_run.

(* the bedGraph writer and the bigWig writer are handed the same rows (what each writer then does with them is
   C01/C16 territory and is compared differentially through the real binaries) *)
Theorem C15_outputs_agree : forall W maxfds files thr adj clip ty1 name1 ty2 name2 t1 rows1 t2 rows2,
  tool_run W maxfds files thr adj clip ty1 name1 = Ok (Some (t1, rows1)) ->
  tool_run W maxfds files thr adj clip ty2 name2 = Ok (Some (t2, rows2)) -> rows1 = rows2.
Proof. exact outputs_agree. Qed.
Print Assumptions C15_outputs_agree.

(* non-vacuity: two files, chromosome "b" missing from the second; name "out.bedGraph"; on "a" the sum is 1.5 on
   [0,5) (split at the window boundary 4), 0 on [5,10) (absent) and -1.5 on [10,12) (below the threshold 0) *)
Example C15_tool_run_example :
  let files : list bwfile := [[([97], 20, [mkV 0 10 12%Z]); ([98], 9, [mkV 1 3 8%Z])]; [([97], 20, [mkV 5 12 (-12)%Z])]] in
  files_ok files /\
  tool_run 4 2 files 0 None None None [111; 117; 116; 46; 98; 101; 100; 71; 114; 97; 112; 104] =
    Ok (Some (OBedGraph, [([97], mkV 0 4 12%Z); ([97], mkV 4 5 12%Z); ([98], mkV 1 3 8%Z)])).
Proof.
  cbv zeta. split; [|vm_compute; reflexivity].
  repeat constructor; cbn [fst snd sorted_from end_from v_start v_end]; lia.
Qed.


(* ---------------------------------------------------------------- constants tied to the source
   The descriptor budget the check runs the model with and the suffixes the model recognises are those of
   bigwigmerge.rs as extracted into Generated/Consts.v on every run (tools/gen_consts_extra.py gen_merge_tool:
   MAX_FDS, PARALLEL_CHROMS, the shape of the max_bw_fds formula, the three ends_with literals). *)
From BT Require Import Generated.Consts Model.Entry_C15.
Theorem C15_constants_from_source :
  MAX_BW_FDS = 976%nat /\ (2 <= MAX_BW_FDS)%nat /\
  s_dot_bw = MERGE_SUFFIX_BW /\ s_dot_bigwig = MERGE_SUFFIX_BIGWIG /\ s_dot_bedgraph = MERGE_SUFFIX_BEDGRAPH.
Proof. vm_compute. repeat split; lia. Qed.
Print Assumptions C15_constants_from_source.

(* ================= the merge tool on FILES (Proofs/MergeToolFile.v) =================
   Above, an input of the tool is "what a reader answers" (per chromosome: name, length, values).  Here the inputs are
   byte images.  [MergeToolFile.file_view num infl bs] is the file-reading front of the tool: [read_info], then for every
   chromosome of the table, in table order, the full-span query FROM POSITION 0 ([bw_interval infl bs i c 0 len]);
   [tool_inputs_of_files] does it for every input and [tool_run_files] is [tool_run] behind that front.
   [written w bs]: [bs] is the byte image [bw_write] or [bw_write_multipass] returned for the input [w] (rounding mode,
   options, chromosome sizes, items) under C01's hypotheses (opts_ok, input_ok, file < 2^64 bytes).
   [num : N -> Z] is the number a value's bit pattern stands for (the merge model computes with exact numbers); every
   statement holds for every [num], every decompressor [infl], every window size W > 0, every descriptor budget >= 2. *)
From BT Require Proofs.RTreeCodec Proofs.BigWigQuery Proofs.BigWigFileChroms Proofs.BigWigFileRoundTrip Proofs.BigWigFileInput Proofs.MergeToolFile.

(* what the front returns for a written file IS the written data: the chromosomes with data in first-appearance order,
   the supplied lengths, and per chromosome the input's values in input order - positions and bit patterns unchanged -
   minus the zero-length values at position 0 / at the chromosome end (K1: [boundary_zero]; the reader never returns them) *)
Theorem C15_file_view : forall fp o sizes inp bs,
  BigWigFileRoundTrip.opts_ok o -> BigWigFileRoundTrip.input_ok sizes inp -> Nlen bs < RTreeCodec.U64 ->
  BigWigWrite.bw_write fp o sizes inp = Ok bs \/ BigWigWrite.bw_write_multipass fp o sizes inp = Ok bs ->
  forall num infl,
  MergeToolFile.file_view num infl bs =
  Ok (map (fun c => (c, BigWigFileChroms.len_of sizes c,
                     map (MergeToolFile.conv num)
                       (filter (fun v => negb (BigWigQuery.boundary_zero (BigWigFileChroms.len_of sizes c) v))
                          (BigWigFileInput.vals_of inp c))))
          (BigWigFileInput.first_app (map fst inp))).
Proof. exact MergeToolFile.file_view_written. Qed.
Print Assumptions C15_file_view.

Theorem C15_tool_inputs_of_files : forall num infl wl bss, Forall2 MergeToolFile.written wl bss ->
  MergeToolFile.tool_inputs_of_files num infl bss = Ok (MergeToolFile.read_files num wl).
Proof. exact MergeToolFile.tool_inputs_written. Qed.
Print Assumptions C15_tool_inputs_of_files.

(* THE TOOL ON WRITTEN FILES.  Every input is a written file, and its zero-length values (if any) sit at position 0 or at
   the end of their chromosome ([zero_only_at_boundary]; a zero-length value elsewhere is read back and is outside C15's
   hypotheses, whose streams hold non-empty values).  Then: the front succeeds with [read_files num wl]; the range query
   the tool model applies to each stream returns the stream itself (so the streams merged are exactly the written value
   lists minus K1 values); and C15_tool_run's conclusion holds with the per-base sum of the ORIGINAL inputs
   ([out_ok_orig] / [expected_of_inputs]: [tool_expected] over [chrom_inputs nm (orig_files num wl)], the inputs' complete
   value lists): either the table holds every chromosome of every input's data and the rows are, chromosome by
   chromosome, sorted disjoint values carrying at EVERY base  min(clip, sum of the written data) + adjust  where the sum is
   non-zero and the result exceeds the threshold, nothing elsewhere; or two inputs were written with different lengths
   for a common chromosome and the run is the MismatchedChroms error. *)
Theorem C15_tool_files : forall W maxfds num infl wl bss thr adj clip ty name,
  0 < W -> (2 <= maxfds)%nat -> Forall2 MergeToolFile.written wl bss ->
  Forall (fun w => MergeToolFile.zero_only_at_boundary (MergeToolFile.wi_sizes w) (MergeToolFile.wi_inp w)) wl ->
  let files := MergeToolFile.read_files num wl in
  MergeToolFile.tool_inputs_of_files num infl bss = Ok files /\
  (forall f c, In f files -> In c f -> query (snd c) 0 (snd (fst c)) = snd c) /\
  ((exists table,
      chrom_table (all_names files) files [] = Ok table /\
      Forall (fun e => snd e = chrom_inputs (fst (fst e)) files) table /\
      (forall w c, In w wl -> In c (map fst (MergeToolFile.wi_inp w)) -> bt_has c table = true) /\
      match detect_output ty name with
      | None => MergeToolFile.tool_run_files W maxfds num infl bss thr adj clip ty name = Ok None
      | Some t => exists outs,
          MergeToolFile.tool_run_files W maxfds num infl bss thr adj clip ty name = Ok (Some (t, rows_spec table outs)) /\
          Forall2 (MergeToolFile.out_ok_orig num wl thr adj clip) table outs
      end)
   \/ (chrom_table (all_names files) files [] = Err 1 /\
       MergeToolFile.tool_run_files W maxfds num infl bss thr adj clip ty name = Err 1 /\ ~ MergeToolFile.sizes_agree wl)).
Proof. exact MergeToolFile.tool_files. Qed.
Print Assumptions C15_tool_files.

(* inputs written with agreeing lengths (in particular: against one chrom.sizes, [MergeToolFile.same_sizes_agree]): no error case *)
Theorem C15_tool_files_sizes_agree : forall W maxfds num infl wl bss thr adj clip ty name,
  0 < W -> (2 <= maxfds)%nat -> Forall2 MergeToolFile.written wl bss ->
  Forall (fun w => MergeToolFile.zero_only_at_boundary (MergeToolFile.wi_sizes w) (MergeToolFile.wi_inp w)) wl ->
  MergeToolFile.sizes_agree wl ->
  exists table,
    chrom_table (all_names (MergeToolFile.read_files num wl)) (MergeToolFile.read_files num wl) [] = Ok table /\
    (forall w c, In w wl -> In c (map fst (MergeToolFile.wi_inp w)) -> bt_has c table = true) /\
    match detect_output ty name with
    | None => MergeToolFile.tool_run_files W maxfds num infl bss thr adj clip ty name = Ok None
    | Some t => exists outs,
        MergeToolFile.tool_run_files W maxfds num infl bss thr adj clip ty name = Ok (Some (t, rows_spec table outs)) /\
        Forall2 (MergeToolFile.out_ok_orig num wl thr adj clip) table outs
    end.
Proof. exact MergeToolFile.tool_files_sizes_agree. Qed.
Print Assumptions C15_tool_files_sizes_agree.

(* non-vacuity, computed from the inputs through the bytes (both writers, one chrom.sizes, a K1 value in each input, a
   chromosome missing from the second): hypotheses met; the front returns the written values minus the K1 values; the
   rows are those of C15_tool_run_example *)
Example C15_tool_files_example :
  Forall2 MergeToolFile.written [MergeToolFile.mf_w1; MergeToolFile.mf_w2] [MergeToolFile.mf_bs1; MergeToolFile.mf_bs2] /\
  Forall (fun w => MergeToolFile.zero_only_at_boundary (MergeToolFile.wi_sizes w) (MergeToolFile.wi_inp w))
    [MergeToolFile.mf_w1; MergeToolFile.mf_w2] /\
  MergeToolFile.sizes_agree [MergeToolFile.mf_w1; MergeToolFile.mf_w2] /\
  MergeToolFile.tool_inputs_of_files MergeToolFile.mf_num (fun x => x) [MergeToolFile.mf_bs1; MergeToolFile.mf_bs2] =
    Ok [[([97], 20, [mkV 0 10 12%Z]); ([98], 9, [mkV 1 3 8%Z])]; [([97], 20, [mkV 5 12 (-12)%Z])]] /\
  MergeToolFile.orig_files MergeToolFile.mf_num [MergeToolFile.mf_w1; MergeToolFile.mf_w2] =
    [[([97], 20, [mkV 0 10 12%Z; mkV 20 20 8%Z]); ([98], 9, [mkV 1 3 8%Z])]; [([97], 20, [mkV 0 0 8%Z; mkV 5 12 (-12)%Z])]] /\
  MergeToolFile.tool_run_files 4 2 MergeToolFile.mf_num (fun x => x) [MergeToolFile.mf_bs1; MergeToolFile.mf_bs2] 0 None None None
    MergeToolFile.mf_out_name =
    Ok (Some (OBedGraph, [([97], mkV 0 4 12%Z); ([97], mkV 4 5 12%Z); ([98], mkV 1 3 8%Z)])).
Proof. exact MergeToolFile.tool_files_example. Qed.

(* ------------------------------------------------------------------ the interchange codec of the correspondence check *)
(* Values travel between the harness and the model as f32 bit patterns; the model computes in exact eighths.  On every
   value whose magnitude fits the 24-bit significand, decoding the encoding gives the value back, so a difference
   the check reports is a difference of values, never one of the transport. *)
Theorem C15_value_codec_roundtrip : forall z : Z,
  (Z.abs z < 2 ^ 24)%Z -> Entry_C15.eighths_of_bits (Entry_C15.bits_of8 z) = Some z.
Proof. exact EighthsCodec.eighths_codec_roundtrip. Qed.
Print Assumptions C15_value_codec_roundtrip.
