From BT Require Import Properties.C09.
