(* Pins: the statements of Properties/C09.v cannot be weakened without this file failing.
   Generated from Properties/C09.v (same text). *)
From BT Require Import Base.Util Base.LE Base.Float Generated.Consts Model.RTree Model.BBIFile Model.BigWigWrite
  Proofs.RTreeCodec Proofs.RTreeBuild Proofs.FileRegions Spec.FormatDecode Proofs.C09Base Proofs.C09Codec Proofs.C09Chrom Proofs.C09RTree.
From BT Require Import Model.BigWigWriteZ Proofs.BigWigFileRoundTrip Proofs.BigWigFileData Proofs.ZoomBwLevels Proofs.C09Data Proofs.C09File Proofs.C09Levels
  Proofs.C09Whole Proofs.C09BufSize.
From BT Require Import Properties.C09.
Local Open Scope N_scope.

Check (C09_header_codec : forall img n magic nz ct dof ix fc dfc asql so ubuf,
  has_at img 0 (header_bytes magic nz ct dof ix fc dfc asql so ubuf) -> n = Nlen img ->
  nz < W16 -> ct < W64 -> dof < W64 -> ix < W64 -> fc < W16 -> dfc < W16 -> asql < W64 -> so < W64 -> ubuf < W32 ->
  parse_header img n false =
    Some {| fh_version := 4; fh_nzoom := nz; fh_ctoff := ct; fh_dataoff := dof; fh_ixoff := ix; fh_fc := fc;
            fh_dfc := dfc; fh_asql := asql; fh_sumoff := so; fh_ubuf := ubuf; fh_ext := 0 |}).
Check (C09_zoom_directory_codec : forall img n zs, has_at img 64 (flat_map zoom_header_bytes zs) -> n = Nlen img ->
  Forall zh_ok zs -> parse_zoomhdrs img n false (Nlen zs) = Some (map zh_view zs)).
Check (C09_summary_codec : forall img n off s, has_at img off (summary_bytes s) -> n = Nlen img -> su_bases s < W64 ->
  parse_summary img n false off = Some (sum_view s)).
Check (C09_section_codec : forall chrom items sd, encode_section chrom items = Ok sd ->
  chrom < W32 -> Forall val_ok items -> Nlen items < W16 ->
  parse_wig_section false (sd_bytes sd) = Some (sd_chrom sd, sd_start sd, sd_end sd, map (rec_of chrom) items)
  /\ sd_chrom sd = chrom /\ Nlen (sd_bytes sd) = 24 + 12 * Nlen items
  /\ exists f, hd_error items = Some f /\ sd_start sd = v_start f /\ sd_end sd = v_end (last items f)).
Check (C09_zoom_record_codec : forall fp recs, Forall zrec_ok recs ->
  parse_zoom_items false (length recs) (flat_map (zrec_bytes fp) recs) = map (zr_view fp) recs).
Check (C09_zoom_section_codec : forall fp recs sd, encode_zoom_section fp recs = Ok sd -> Forall zrec_ok recs ->
  Nlen (sd_bytes sd) = 32 * Nlen recs
  /\ parse_zoom_items false (N.to_nat (Nlen (sd_bytes sd) / 32)) (sd_bytes sd) = map (zr_view fp) recs
  /\ exists f, hd_error recs = Some f /\ sd_chrom sd = z_chrom f /\ sd_start sd = z_start f /\ sd_end sd = z_end (last recs f)).
Check (C09_chrom_tree_codec : forall img n off sizes (chroms : idmap) ct (strict : bool),
  chrom_tree_bytes sizes chroms = Ok ct -> has_at img off ct -> n = Nlen img ->
  chroms <> [] -> Nlen chroms < W16 ->
  Forall (fun c => name_ok (fst c) /\ Nlen (fst c) < W32 /\ size_of sizes c < W32) chroms ->
  map snd chroms = seqN 0 (length chroms) ->
  (strict = true -> names_increasing (map fst chroms)) ->
  parse_chrom_tree img n false strict off = Some (map (chrom_view sizes) chroms, off + Nlen ct)
  /\ Nlen ct = 36 + Nlen chroms * (N.of_nat (fold_left (fun a c => Nat.max a (length (fst c))) chroms 0%nat) + 8)).
Check (C09_rtree_codec : forall img n off lo hi b ips secs bs lv,
  write_index b ips off secs = Ok (bs, lv) -> has_at img off bs -> n = Nlen img -> n < W64 ->
  2 <= b <= 65535 -> 1 <= ips < W32 -> secs <> [] -> sorted_starts (map sect_span secs) -> Forall sect_ok secs ->
  Nlen secs <= n ->
  Forall (fun s => lo <= s_off s /\ s_off s + s_size s <= hi /\ 1 <= s_size s /\ s_start s <= s_end s) secs ->
  offs_chain secs ->
  exists h e, parse_index img n false off lo hi = Some (h, map lf_of secs, e)
    /\ ih_block h = b /\ ih_ips h = ips /\ ih_count h = Nlen secs /\ off + 48 <= e <= off + Nlen bs).
Check (C09_buf_size : forall compress fp o sizes inp bs,
  bw_write_z compress fp o sizes inp = Ok bs -> opts_ok o ->
  exists ids outs sum data zooms ubuf nz a b c d,
    bw_collect fp o sizes inp = Ok (ids, outs, sum, data)
    /\ bw_zoom_levels fp o outs (zoom_sizes_single o) = Ok zooms
    /\ has_at bs 0 (header_bytes BIGWIG_MAGIC nz a b c 0 0 0 d ubuf)
    /\ blocks_bound (o_compress o) ubuf (data ++ flat_map zl_secs zooms)
    /\ (ubuf = 0 <-> o_compress o = false)).
Check (C09_buf_size_multipass : forall compress fp o sizes inp bs,
  bw_write_multipass_z compress fp o sizes inp = Ok bs -> opts_ok o ->
  exists ids outs sum data zooms ubuf nz a b c d,
    bw_collect fp o sizes inp = Ok (ids, outs, sum, data)
    /\ has_at bs 0 (header_bytes BIGWIG_MAGIC nz a b c 0 0 0 d ubuf)
    /\ blocks_bound (o_compress o) ubuf (data ++ flat_map zl_secs zooms)
    /\ (ubuf = 0 <-> o_compress o = false)).
Check (C09_model_uncompressed : forall compress fp o sizes inp, o_compress o = false ->
  bw_write_z compress fp o sizes inp = bw_write fp o sizes inp
  /\ bw_write_multipass_z compress fp o sizes inp = bw_write_multipass fp o sizes inp).
Check (C09_decode_encode : forall fp o sizes inp bs inflate,
  bw_write fp o sizes inp = Ok bs -> opts_ok o -> input_ok sizes inp -> Nlen bs < U64 ->
  Forall (fun c : name => c <> []) (map fst (runs inp)) ->
  o_sort_all o = true ->
  Forall (fun z => z < W32) (zoom_sizes_single o) ->
  exists ids outs sum data kept,
    bw_collect fp o sizes inp = Ok (ids, outs, sum, data)
    /\ incl kept (zoom_sizes_single o) /\ inc_from 0 kept
    /\ decode bs inflate = Some (content_of fp o sizes ids outs sum 0 kept)).
Check (C09_decode_encode_multipass : forall fp o sizes inp bs inflate,
  bw_write_multipass fp o sizes inp = Ok bs -> opts_ok o -> input_ok sizes inp -> Nlen bs < U64 ->
  Forall (fun c : name => c <> []) (map fst (runs inp)) ->
  o_sort_all o = true ->
  manual_u32 o ->
  exists ids outs sum data kept,
    bw_collect fp o sizes inp = Ok (ids, outs, sum, data)
    /\ inc_from 0 kept
    /\ decode bs inflate = Some (content_of fp o sizes ids outs sum 0 kept)).
Check (C09_decode_encode_compressed : forall compress fp o sizes inp bs inflate,
  bw_write_z compress fp o sizes inp = Ok bs -> opts_ok o -> input_ok sizes inp -> Nlen bs < U64 ->
  Forall (fun c : name => c <> []) (map fst (runs inp)) ->
  o_sort_all o = true ->
  Forall (fun z => z < W32) (zoom_sizes_single o) ->
  (forall b, compress b <> []) -> (o_compress o = true -> inflate_ok compress bs inflate) ->
  exists ids outs sum data kept ubuf,
    bw_collect fp o sizes inp = Ok (ids, outs, sum, data)
    /\ incl kept (zoom_sizes_single o) /\ inc_from 0 kept /\ (ubuf = 0 <-> o_compress o = false)
    /\ decode bs inflate = Some (content_of fp o sizes ids outs sum ubuf kept)).
Check (C09_decode_encode_compressed_multipass : forall compress fp o sizes inp bs inflate,
  bw_write_multipass_z compress fp o sizes inp = Ok bs -> opts_ok o -> input_ok sizes inp -> Nlen bs < U64 ->
  Forall (fun c : name => c <> []) (map fst (runs inp)) ->
  o_sort_all o = true ->
  manual_u32 o ->
  (forall b, compress b <> []) -> (o_compress o = true -> inflate_ok compress bs inflate) ->
  exists ids outs sum data kept ubuf,
    bw_collect fp o sizes inp = Ok (ids, outs, sum, data)
    /\ inc_from 0 kept /\ (ubuf = 0 <-> o_compress o = false)
    /\ decode bs inflate = Some (content_of fp o sizes ids outs sum ubuf kept)).
Check (C09_decode_encode_lenient : forall fp o sizes inp bs inflate,
  bw_write fp o sizes inp = Ok bs \/ bw_write_multipass fp o sizes inp = Ok bs ->
  opts_ok o -> input_ok sizes inp -> Nlen bs < U64 ->
  Forall (fun c : name => c <> []) (map fst (runs inp)) ->
  Forall (fun z => z < W32) (zoom_sizes_single o) -> manual_u32 o ->
  exists ids outs sum data kept,
    bw_collect fp o sizes inp = Ok (ids, outs, sum, data)
    /\ inc_from 0 kept
    /\ decode_lenient bs inflate = Some (content_of fp o sizes ids outs sum 0 kept)).
Check (C09_records_are_input : forall fp o sizes inp ids outs sum data,
  bw_collect fp o sizes inp = Ok (ids, outs, sum, data) -> recs_of outs = input_records ids inp).
Check (C09_ids_first_appearance : forall fp o sizes inp ids outs sum data,
  bw_collect fp o sizes inp = Ok (ids, outs, sum, data) ->
  ids = BigWigFileChroms.number 0 (BigWigFileInput.first_app (map fst inp))).
Check (C09_summary_is_folded : forall fp o sizes inp ids outs sum data,
  bw_collect fp o sizes inp = Ok (ids, outs, sum, data) ->
  sum = match fold_left (summary_merge fp) (map (fun c => chrom_summary fp (co_vals c)) outs) None with
        | Some s => s | None => summary_zero end).
Check (C09_chrom_keys_refuted : exists bs, bw_write ieee c09_wit_opts c09_wit_sizes c09_wit_input = Ok bs
    /\ decode bs (fun _ _ => None) = None
    /\ exists c, decode_lenient bs (fun _ _ => None) = Some c /\ map fc_name (c_chroms c) = [[97]; [66]]).

(* ---- Part 4: bigBed ---- *)
From BT Require Import Model.BigBedWrite Proofs.C09BedBlock Proofs.C09BedFile Proofs.C09BedZoom Proofs.C09BedWhole.
From BT Require Model.BedSweep Proofs.BedQuery Proofs.BedImage Proofs.BedEndToEnd.
From BT Require Import Spec.Depth Proofs.C09BedStats.
From BT Require Proofs.BedSummary Proofs.BedTile Proofs.C06FileBed.
Check (C09_bb_block_codec : forall chrom, chrom < W32 -> forall items fuel, Forall bentry_ok items ->
  (length (flat_map (entry_bytes chrom) items) <= fuel)%nat ->
  parse_bed_items false fuel (flat_map (entry_bytes chrom) items) = Some (map (brec_of chrom) items)).
Check (C09_bb_decode_encode : forall fp o sizes autosql input bs inflate,
  bb_write fp o sizes autosql input = Ok bs -> bed_hyps o sizes input bs ->
  Forall (fun z => z < W32) (zoom_sizes_single o) ->
  o_sort_all o = true ->
  exists fc ids outs kept,
    bb_schema autosql = Ok (stored_autosql autosql, fc) /\ bb_collect o sizes input = Ok (ids, outs)
    /\ incl kept (zoom_sizes_single o) /\ inc_from 0 kept /\ Nlen kept <= 10
    /\ Forall (level_runs fp o outs) kept
    /\ decode bs inflate = Some (bed_content_of fp o sizes input (stored_autosql autosql) fc ids outs kept)).
Check (C09_bb_decode_encode_multipass : forall fp o sizes autosql input bs inflate,
  bb_write_multipass fp o sizes autosql input = Ok bs -> bed_hyps o sizes input bs ->
  manual_u32 o ->
  o_sort_all o = true ->
  exists fc ids outs kept,
    bb_schema autosql = Ok (stored_autosql autosql, fc) /\ bb_collect o sizes input = Ok (ids, outs)
    /\ inc_from 0 kept /\ Nlen kept <= 10
    /\ Forall (level_runs fp o outs) kept
    /\ decode bs inflate = Some (bed_content_of fp o sizes input (stored_autosql autosql) fc ids outs kept)).
Check (C09_bb_decode_encode_lenient : forall fp o sizes autosql input bs inflate,
  bb_write fp o sizes autosql input = Ok bs \/ bb_write_multipass fp o sizes autosql input = Ok bs ->
  bed_hyps o sizes input bs ->
  Forall (fun z => z < W32) (zoom_sizes_single o) -> manual_u32 o ->
  exists fc ids outs kept,
    bb_schema autosql = Ok (stored_autosql autosql, fc) /\ bb_collect o sizes input = Ok (ids, outs)
    /\ inc_from 0 kept /\ Nlen kept <= 10
    /\ Forall (level_runs fp o outs) kept
    /\ decode_lenient bs inflate = Some (bed_content_of fp o sizes input (stored_autosql autosql) fc ids outs kept)).
Check (C09_bb_records_are_input : forall o sizes input ids outs,
  bb_collect o sizes input = Ok (ids, outs) -> brecs_of outs = bed_input_records ids input).
Check (C09_bb_outs_are_runs : forall o sizes input ids outs, bb_collect o sizes input = Ok (ids, outs) ->
  map (fun c => (bc_name c, bc_entries c)) outs = bruns input
  /\ map bc_id outs = seqN 0 (length (bruns input))
  /\ ids = combine (map fst (bruns input)) (seqN 0 (length (bruns input)))
  /\ NoDup (map fst (bruns input))
  /\ BedQuery.untag (bruns input) = input
  /\ Forall (fun c => lookup (bc_name c) sizes = Some (bc_len c)) outs).
Check (C09_bb_blocks : forall ips (outs : list bchrom), 1 <= ips ->
  Forall (fun g : N * list entry => 1 <= Nlen (snd g) <= ips) (BedImage.gsecs ips (BedEndToEnd.groups_of outs))
  /\ concat (map (fun g : N * list entry => map (brec_of (fst g)) (snd g)) (BedImage.gsecs ips (BedEndToEnd.groups_of outs))) = brecs_of outs).
Check (C09_bb_summary_is_sweep : forall fp o sizes input ids outs, bb_collect o sizes input = Ok (ids, outs) ->
  bb_sweep fp outs = BedSweep.bb_total_summary fp (map (fun r : name * list entry => map to_sw (snd r)) (bruns input))).
Check (C09_bb_level_is_records : forall fp o outs size, level_runs fp o outs size ->
  exists per : list (list (list zrec)),
    Forall2 (fun c recs => BedSweep.bb_zoom_records fp (o_ips o) size (bc_id c) (sw_entries c) = Ok recs) outs per
    /\ bb_level_content fp o outs size = (size, map (zr_view fp) (concat (concat per)))).
Check (C09_bb_zoom_sections_sized : forall fp ips size chrom es secs, 1 <= ips ->
  BedSweep.bb_zoom_records fp ips size chrom es = Ok secs -> Forall (fun rs : list zrec => rs <> [] /\ Nlen rs <= ips) secs).
Check (C09_bb_summary_statistics : forall U o sizes input ids outs,
  bb_collect o sizes input = Ok (ids, outs) -> U <= BedSweep.U32_MAX -> Forall (fun it : bitem => e_end (snd it) <= U) input ->
  let chroms := C06FileBed.chroms_of input in
  BedSummary.sform (bb_sweep exact outs)
    (Nlen input) (sumN (map (BedSummary.c_cov U) chroms)) (sumN (map (BedSummary.c_sum U) chroms))
    (sumN (map (BedSummary.c_sumsq U) chroms))
    (fold_left (fun a es => opt_meet N.min a (BedSummary.c_min U es)) chroms None)
    (fold_left (fun a es => opt_meet N.max a (BedSummary.c_max U es)) chroms None)).
Check (C09_bb_level_statistics : forall o sizes input ids outs size c,
  bb_collect o sizes input = Ok (ids, outs) -> opts_ok o -> bed_input_ok input -> Nlen (bruns input) < W16 ->
  Forall (fun s : name * N => snd s < W32) sizes ->
  1 <= size -> In c outs ->
  exists secs, BedSweep.bb_zoom_records exact (o_ips o) size (bc_id c) (sw_entries c) = Ok secs
    /\ chrom_rsecs exact (o_ips o) size c = secs
    /\ Forall (BedTile.zstats_spec (depth (sw_entries c))) (concat secs)
    /\ (forall x, 0 < depth (sw_entries c) x -> BedTile.covered_by (concat secs) x)).

From BT Require Import Spec.Inflate Proofs.InflateFuel Proofs.InflateStored Proofs.InflateHuffman Proofs.InflateThms.
Check (C09.C09_inflate_never_fuel : forall input, inflate input <> Fuel /\ inflate input <> Panic).
Check (C09.C09_zlib_decode_res_total : forall input,
  (exists d, zlib_decode_res input = Ok d) \/ (exists e, zlib_decode_res input = Err e)).
Check (C09.C09_inflate_step_consumes : forall st st1, step st = Ok (inl st1) -> (blen (i_bs st1) < blen (i_bs st))%nat).
Check (C09.C09_adler32_closed_form : forall l,
  adler32 l = (sumN (prefix_sums 1 l)) mod 65521 * 65536 + (1 + sumN l) mod 65521).
Check (C09.C09_adler32_fits_u32 : forall l, adler32 l < 4294967296).
Check (C09.C09_adler32_streaming : forall a b,
  adler32 (a ++ b) = let st := fold_left adler_step b (adler_state a) in snd st * 65536 + fst st).
Check (C09.C09_lz_copy_correct : forall len dist out,
  len <= 258 -> 1 <= dist -> dist <= Nlen out ->
  lz_copy 258 len dist out = lz_copy_spec (N.to_nat len) dist out).
Check (C09.C09_length_codes_in_range : forall i s len s1, base_extra len_table E_CODE i s = Ok (len, s1) -> 3 <= len <= 258).
Check (C09.C09_distance_codes_in_range : forall i s d s1, base_extra dist_table E_DCODE i s = Ok (d, s1) -> 1 <= d <= 32768).
Check (C09.C09_huffman_tree_decodes_canonical_code : forall kind bad lens t, build kind bad lens = Ok t ->
  forall sym l, nth_error lens sym = Some l -> l <> 0 ->
  forall r rest, hwalk t (code_bits (N.to_nat l) (canonical_code lens sym) ++ r, rest) = Ok (N.of_nat sym, (r, rest))).
Check (C09.C09_huffman_canonical_code_prefix_free : forall kind bad lens t, build kind bad lens = Ok t ->
  forall s1 s2 l1 l2 tail, nth_error lens s1 = Some l1 -> nth_error lens s2 = Some l2 -> l1 <> 0 -> l2 <> 0 ->
  code_bits (N.to_nat l1) (canonical_code lens s1) ++ tail = code_bits (N.to_nat l2) (canonical_code lens s2) ->
  s1 = s2).
Check (C09.C09_stored_len_check_is_complement : forall len nlen, len < 65536 -> nlen < 65536 ->
  (len + nlen =? 65535) = (nlen =? N.lnot len 16)).
Check (C09.C09_zlib_decode_stored : forall b, zlib_decode (zlib_store b) = Some b).
Check (C09.C09_zlib_store_one_block : forall b, Nlen b < 65536 ->
  zlib_store b = [120; 1] ++ [1; Nlen b mod 256; Nlen b / 256; (65535 - Nlen b) mod 256; (65535 - Nlen b) / 256] ++ b
                 ++ be32 (adler32 b)).
Check (C09.C09_decode_encode_zlib_stored : forall fp o sizes inp bs,
  bw_write_z zlib_store fp o sizes inp = Ok bs -> opts_ok o -> input_ok sizes inp -> Nlen bs < U64 ->
  Forall (fun c : name => c <> []) (map fst (runs inp)) ->
  o_sort_all o = true ->
  Forall (fun z => z < W32) (zoom_sizes_single o) ->
  exists ids outs sum data kept ubuf,
    bw_collect fp o sizes inp = Ok (ids, outs, sum, data)
    /\ incl kept (zoom_sizes_single o) /\ inc_from 0 kept /\ (ubuf = 0 <-> o_compress o = false)
    /\ decode bs (zlib_inflate_at bs) = Some (content_of fp o sizes ids outs sum ubuf kept)).
Check (C09.C09_decode_encode_zlib_stored_multipass : forall fp o sizes inp bs,
  bw_write_multipass_z zlib_store fp o sizes inp = Ok bs -> opts_ok o -> input_ok sizes inp -> Nlen bs < U64 ->
  Forall (fun c : name => c <> []) (map fst (runs inp)) ->
  o_sort_all o = true ->
  manual_u32 o ->
  exists ids outs sum data kept ubuf,
    bw_collect fp o sizes inp = Ok (ids, outs, sum, data)
    /\ inc_from 0 kept /\ (ubuf = 0 <-> o_compress o = false)
    /\ decode bs (zlib_inflate_at bs) = Some (content_of fp o sizes ids outs sum ubuf kept)).

(* ---- bigBed, compressed files ---- *)
From BT Require Import Model.BigBedWriteZ Proofs.C09BedZFile Proofs.C09BedZWhole Proofs.C09BedZInflate.
From BT Require Proofs.BedFileZ Proofs.BedFileZThms.
Check (C09.C09_bb_model_uncompressed : forall compress fp o sizes autosql input, o_compress o = false ->
  bb_write_z compress fp o sizes autosql input = bb_write fp o sizes autosql input
  /\ bb_write_multipass_z compress fp o sizes autosql input = bb_write_multipass fp o sizes autosql input).
Check (C09.C09_bb_decode_encode_compressed : forall compress fp o sizes autosql input bs inflate,
  bb_write_z compress fp o sizes autosql input = Ok bs -> bed_hyps o sizes input bs ->
  Forall (fun z => z < W32) (zoom_sizes_single o) ->
  o_sort_all o = true ->
  (forall b, compress b <> []) -> (o_compress o = true -> inflate_ok compress bs inflate) ->
  ubuf_fits_dec o input ->
  exists fc ids outs kept ubuf,
    bb_schema autosql = Ok (stored_autosql autosql, fc) /\ bb_collect o sizes input = Ok (ids, outs)
    /\ incl kept (zoom_sizes_single o) /\ inc_from 0 kept /\ Nlen kept <= 10
    /\ Forall (level_runs fp o outs) kept
    /\ (ubuf = 0 <-> o_compress o = false) /\ ubuf < W32
    /\ decode bs inflate = Some (bed_content_of_z fp o sizes input (stored_autosql autosql) fc ids outs ubuf kept)).
Check (C09.C09_bb_decode_encode_compressed_multipass : forall compress fp o sizes autosql input bs inflate,
  bb_write_multipass_z compress fp o sizes autosql input = Ok bs -> bed_hyps o sizes input bs ->
  manual_u32 o ->
  o_sort_all o = true ->
  (forall b, compress b <> []) -> (o_compress o = true -> inflate_ok compress bs inflate) ->
  ubuf_fits_dec o input ->
  exists fc ids outs kept ubuf,
    bb_schema autosql = Ok (stored_autosql autosql, fc) /\ bb_collect o sizes input = Ok (ids, outs)
    /\ inc_from 0 kept /\ Nlen kept <= 10
    /\ Forall (level_runs fp o outs) kept
    /\ (ubuf = 0 <-> o_compress o = false) /\ ubuf < W32
    /\ decode bs inflate = Some (bed_content_of_z fp o sizes input (stored_autosql autosql) fc ids outs ubuf kept)).
Check (C09.C09_bb_decode_encode_compressed_lenient : forall compress two_pass fp o sizes autosql input bs inflate,
  BedFileZThms.bb_write_either_z compress two_pass fp o sizes autosql input = Ok bs -> bed_hyps o sizes input bs ->
  C08FileQuery.zoom_res_u32 two_pass o ->
  (forall b, compress b <> []) -> (o_compress o = true -> inflate_ok compress bs inflate) ->
  ubuf_fits_dec o input ->
  exists sql fc ids outs kept ubuf,
    bb_schema autosql = Ok (sql, fc) /\ bb_collect o sizes input = Ok (ids, outs)
    /\ inc_from 0 kept /\ Nlen kept <= 10
    /\ (ubuf = 0 <-> o_compress o = false) /\ ubuf < W32
    /\ decode_lenient bs inflate = Some (bed_content_of_z fp o sizes input sql fc ids outs ubuf kept)).
Check (C09.C09_bb_buf_size : forall compress fp o sizes autosql input bs,
  bb_write_z compress fp o sizes autosql input = Ok bs ->
  exists sql fc ids outs data zooms ubuf nz a1 a2 a3 a4,
    bb_schema autosql = Ok (sql, fc) /\ bb_collect o sizes input = Ok (ids, outs) /\ bb_data o outs = Ok data
    /\ mapM (bb_zoom_level fp o outs) (zoom_sizes_single o) = Ok zooms
    /\ has_at bs 0 (header_bytes BIGBED_MAGIC nz a1 a2 a3 fc fc ASQL_OFFSET a4 ubuf)
    /\ blocks_bound (o_compress o) ubuf (data ++ flat_map zl_secs zooms)
    /\ (ubuf = 0 <-> o_compress o = false)
    /\ (o_compress o = true -> BedFileZ.blocks_fit o input -> 32 * o_ips o < W32 -> ubuf < W32)).
Check (C09.C09_bb_buf_size_multipass : forall compress fp o sizes autosql input bs,
  bb_write_multipass_z compress fp o sizes autosql input = Ok bs ->
  exists sql fc ids outs data zooms ubuf nz a1 a2 a3 a4,
    bb_schema autosql = Ok (sql, fc) /\ bb_collect o sizes input = Ok (ids, outs) /\ bb_data o outs = Ok data
    /\ mapM (bb_zoom_level fp o outs)
         (zoom_sizes_two_pass o (bb_sweep fp outs) (total_zoom_counts (map chrom_out_of outs))
            (Nlen (data_bytes (map (zsec compress (o_compress o)) data)))) = Ok zooms
    /\ has_at bs 0 (header_bytes BIGBED_MAGIC nz a1 a2 a3 fc fc ASQL_OFFSET a4 ubuf)
    /\ blocks_bound (o_compress o) ubuf (data ++ flat_map zl_secs zooms)
    /\ (ubuf = 0 <-> o_compress o = false)
    /\ (o_compress o = true -> BedFileZ.blocks_fit o input -> 32 * o_ips o < W32 -> ubuf < W32)).
Check (C09.C09_bb_blocks_fit_of_bounds : forall o input R, 1 <= o_ips o -> o_ips o * (13 + R) < W32 ->
  Forall (fun it : bitem => Nlen (e_rest (snd it)) <= R) input -> BedFileZ.blocks_fit o input).
Check (C09.C09_bb_decode_encode_zlib_stored : forall fp o sizes autosql input bs,
  bb_write_z zlib_store fp o sizes autosql input = Ok bs -> bed_hyps o sizes input bs ->
  Forall (fun z => z < W32) (zoom_sizes_single o) -> o_sort_all o = true -> ubuf_fits_dec o input ->
  exists fc ids outs kept ubuf,
    bb_schema autosql = Ok (stored_autosql autosql, fc) /\ bb_collect o sizes input = Ok (ids, outs)
    /\ incl kept (zoom_sizes_single o) /\ inc_from 0 kept /\ Nlen kept <= 10
    /\ Forall (level_runs fp o outs) kept
    /\ (ubuf = 0 <-> o_compress o = false) /\ ubuf < W32
    /\ decode bs (zlib_inflate_at bs) = Some (bed_content_of_z fp o sizes input (stored_autosql autosql) fc ids outs ubuf kept)).
Check (C09.C09_bb_decode_encode_zlib_stored_multipass : forall fp o sizes autosql input bs,
  bb_write_multipass_z zlib_store fp o sizes autosql input = Ok bs -> bed_hyps o sizes input bs ->
  manual_u32 o -> o_sort_all o = true -> ubuf_fits_dec o input ->
  exists fc ids outs kept ubuf,
    bb_schema autosql = Ok (stored_autosql autosql, fc) /\ bb_collect o sizes input = Ok (ids, outs)
    /\ inc_from 0 kept /\ Nlen kept <= 10
    /\ Forall (level_runs fp o outs) kept
    /\ (ubuf = 0 <-> o_compress o = false) /\ ubuf < W32
    /\ decode bs (zlib_inflate_at bs) = Some (bed_content_of_z fp o sizes input (stored_autosql autosql) fc ids outs ubuf kept)).
