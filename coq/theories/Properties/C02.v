(* C02 — bigBed write/read round trip, item count, autoSql.  Statements only, each closed by [exact].

   Two levels.  (1) List level + section codec: what the writer's per-entry checks accept; that the
   accepted input is cut, per chromosome and in input order, into chunks of items_per_slot; that a
   full-span read over those chunks (block test with span [first start, LARGEST end], then the
   reader's per-entry filter) returns every entry in input order for every overlap pattern; that
   decoding an encoded section returns its entries (no NUL in rest, not [0,0)); the item count; the
   autoSql slot.  (2) The bytes of the written file (C02_file_roundtrip): for every file the writer
   model produces - any options, any summary sweep, any zoom part with at most 10 levels - the
   reader model opens it, and each chromosome's full-span query returns its entries in input order,
   item_count() is the number of entries, autosql() is the supplied text (or BED3), and the
   chromosome table lists exactly the chromosomes that had data, ids in first-appearance order,
   with the supplied sizes.  This goes through header, chromosome tree, index bytes (C05), block
   offsets and the record codec; it is tied to the real writer and reader by the byte-exact
   correspondence of Model/BigBedWrite.v / Model/BBIReadBed.v. *)
From BT Require Import Base.Util Base.LE Base.Float Generated.Consts Model.RTree Model.BBIFile Model.BigWigWrite Model.BBIRead
  Model.BigBedWrite Model.BBIReadBed Model.EntryBBI Proofs.Chunks Proofs.RTreeCodec Proofs.BedQuery Proofs.BedCodec
  Proofs.BedReadInfo Proofs.BedEndToEnd Proofs.BedZoomFit.
Local Open Scope N_scope.

(* the writer's per-chromosome checks accept exactly: start <= end, start < chromosome length
   (nothing is required of the end), starts non-decreasing *)
Theorem C02_accept_iff : forall len es, check_entries len es = Ok tt <-> wf_entries len es.
Proof. intros len es. split; [exact (check_entries_wf len es)|exact (wf_check_entries len es)]. Qed.
Print Assumptions C02_accept_iff.

(* the push/flush loop of process_val cuts a chromosome into consecutive chunks of
   max(1, items_per_slot) entries (the last one possibly shorter) *)
Theorem C02_sections_are_chunks : forall ips es, sections_loop ips [] es = chunks (slot ips) es.
Proof. exact sections_are_chunks. Qed.
Print Assumptions C02_sections_are_chunks.

(* accepted input: the per-chromosome lists, concatenated in file order, are the input (nothing
   lost, duplicated or reordered); each passed the checks against the supplied size; and the item
   count written to the file is the number of input entries (zero-length ones included) *)
Theorem C02_item_count : forall o sizes input ids outs, bb_collect o sizes input = Ok (ids, outs) ->
  untag (map (fun c => (bc_name c, bc_entries c)) outs) = input
  /\ Forall (fun c => lookup (bc_name c) sizes = Some (bc_len c) /\ wf_entries (bc_len c) (bc_entries c)) outs
  /\ bb_total_items outs = Nlen input.
Proof. exact collect_partition. Qed.
Print Assumptions C02_item_count.

(* full-span read of one chromosome, for every items_per_slot and every overlap pattern: the blocks
   the index test selects for [0,len], filtered by the reader's test, give back every entry in
   input order *)
Theorem C02_roundtrip : forall ips len es, wf_entries len es ->
  flat_map (filter (bkeep 0 len)) (filter (bchunk_hit 0 len) (sections_loop ips [] es)) = es.
Proof.
  intros ips len es Hwf. rewrite (bquery_sections ips 0 len es (wfe_sorted len es Hwf)). exact (bfull_span len es Hwf).
Qed.
Print Assumptions C02_roundtrip.

(* section codec: decoding what encode_section wrote returns the entries, bit for bit, provided no
   rest field holds a NUL, no entry is [0,0), and the fields fit 32 bits *)
Theorem C02_section_codec : forall chrom, chrom < U32 -> forall items fuel, Forall entry_ok items ->
  (length (flat_map (entry_bytes chrom) items) < fuel)%nat ->
  parse_entries fuel false chrom (flat_map (entry_bytes chrom) items) = Ok items.
Proof. exact section_roundtrip. Qed.
Print Assumptions C02_section_codec.

(* autoSql: write_pre stores exactly the supplied text (None: the library's BED3 text) and only
   accepts text without NUL; the reader's autosql() on a slot holding such text, NUL-terminated and
   followed by anything, returns it verbatim; a schema with a NUL is refused *)
Theorem C02_autosql_verbatim : forall autosql sql fc tail, bb_schema autosql = Ok (sql, fc) ->
  sql = match autosql with Some s => s | None => AUTOSQL_BED3 end
  /\ removelast (through_nul (sql ++ 0 :: tail)) = sql.
Proof.
  intros autosql sql fc tail H. destruct (bb_schema_verbatim autosql sql fc H) as [H1 H2].
  split; [exact H1|exact (autosql_slot sql tail H2)].
Qed.
Print Assumptions C02_autosql_verbatim.
Theorem C02_autosql_nul_refused : forall s, ~ no_nul s -> forall r, bb_schema (Some s) <> Ok r.
Proof. exact bb_schema_nul_refused. Qed.
Print Assumptions C02_autosql_nul_refused.

(* THE FILE LEVEL.  Hypotheses (file_hyps): block_size <= 65535 (block_size >= 2 and
   items_per_slot >= 1 are enforced by the writer, as is "one run per chromosome name");
   fewer than 65536 chromosomes; names without NUL and
   shorter than 2^32 bytes; every entry has start,end < 2^32, no NUL in rest and is not [0,0) (K2);
   supplied sizes < 2^32; the file is at most 2^64 bytes.  The summary sweep and the zoom part are
   arbitrary (a zoom part never yields more than 10 levels: zoom_levels_fit). *)
Theorem C02_file_roundtrip : forall (sweep : list bchrom -> summary)
    (zoom_part : list bchrom -> summary -> N -> N -> res (list N * list zoom_header)),
  (forall outs sum a b zb zh, zoom_part outs sum a b = Ok (zb, zh) -> (length zh <= 10)%nat) ->
  forall o sizes autosql input f, bb_write_gen sweep zoom_part o sizes autosql input = Ok f ->
  file_hyps o sizes input f ->
  exists i, read_info f = Ok i
    /\ (forall infl c es, In (c, es) (bruns input) ->
          exists len, lookup c sizes = Some len /\ bb_interval infl f i c 0 len = Ok es)
    /\ (Nlen input < U64 -> bb_item_count f i = Ok (Nlen input))
    /\ bb_autosql f i = Ok (Some (match autosql with Some s => s | None => AUTOSQL_BED3 end))
    /\ map (fun c => (ci_name c, ci_id c)) (i_chroms i) = combine (map fst (bruns input)) (seqN 0 (length (bruns input)))
    /\ Forall (fun c => lookup (ci_name c) sizes = Some (ci_len c)) (i_chroms i).
Proof. exact file_roundtrip. Qed.
Print Assumptions C02_file_roundtrip.

(* ... in particular for the two real write paths (BigBedWrite::write / write_multipass with the
   summary sweep and zoom levels of Model/BedSweep.v), in every floating-point mode: no side condition
   on the zoom part is left, the writers never emit more than MAX_ZOOM_LEVELS levels *)
Theorem C02_written_file_roundtrip : forall two_pass fp o sizes autosql input f,
  bb_write_either two_pass fp o sizes autosql input = Ok f -> file_hyps o sizes input f ->
  exists i, read_info f = Ok i
    /\ (forall infl c es, In (c, es) (bruns input) ->
          exists len, lookup c sizes = Some len /\ bb_interval infl f i c 0 len = Ok es)
    /\ (Nlen input < U64 -> bb_item_count f i = Ok (Nlen input))
    /\ bb_autosql f i = Ok (Some (match autosql with Some s => s | None => AUTOSQL_BED3 end))
    /\ map (fun c => (ci_name c, ci_id c)) (i_chroms i) = combine (map fst (bruns input)) (seqN 0 (length (bruns input)))
    /\ Forall (fun c => lookup (ci_name c) sizes = Some (ci_len c)) (i_chroms i).
Proof. exact written_file_roundtrip. Qed.
Print Assumptions C02_written_file_roundtrip.

(* the runs of the input are its entries grouped by chromosome, in input order *)
Theorem C02_runs_are_input : forall input, untag (bruns input) = input.
Proof. exact bruns_untag. Qed.
Print Assumptions C02_runs_are_input.

(* K2 (known finding bb-entry-0-0): the entry [0,0) is accepted by the writer model, and the
   full-span read of the written file is refused with InvalidFile ("Chrom start and end both
   equal 0.").  Computed on the whole writer + reader model. *)
Definition k2_name : name := [99; 104; 114; 49].
Definition k2_opts : opts := {| o_compress := false; o_ips := 1024; o_bs := 256; o_izoom := 160; o_maxzooms := 0;
                                o_manual := None; o_sort_all := true |}.
Definition k2_input : list bitem := [(k2_name, {| e_start := 0; e_end := 0; e_rest := [] |})].
Lemma k2_computed :
  match bb_write_nosweep k2_opts [(k2_name, 10)] None k2_input with
  | Ok bs => match read_info bs with
             | Ok i => bb_interval idf bs i k2_name 0 10 = Err R_INVALID
             | _ => False end
  | _ => False
  end.
Proof. vm_compute. reflexivity. Qed.
Theorem C02_zero_zero_refuted :
  exists bs i, bb_write_nosweep k2_opts [(k2_name, 10)] None k2_input = Ok bs /\ read_info bs = Ok i
               /\ bb_interval idf bs i k2_name 0 10 = Err R_INVALID.
Proof.
  pose proof k2_computed as H.
  destruct (bb_write_nosweep k2_opts [(k2_name, 10)] None k2_input) as [bs| | |]; try contradiction.
  destruct (read_info bs) as [i| | |] eqn:Ei; try contradiction.
  exists bs, i. repeat split; [exact Ei|exact H].
Qed.
Print Assumptions C02_zero_zero_refuted.

(* Non-vacuity: a nested / identical / zero-length / long-then-short chromosome meets the hypotheses,
   and the whole model reads it back. *)
Definition ex_entries : list entry :=
  [ {| e_start := 0; e_end := 1000; e_rest := [97] |}; {| e_start := 10; e_end := 20; e_rest := [] |};
    {| e_start := 10; e_end := 20; e_rest := [] |}; {| e_start := 15; e_end := 15; e_rest := [195; 169; 9; 43] |};
    {| e_start := 30; e_end := 2000; e_rest := [98] |} ].
Example C02_example_hyps : wf_entries 40 ex_entries /\ Forall entry_ok ex_entries
  /\ sections_loop 2 [] ex_entries = [firstn 2 ex_entries; firstn 2 (skipn 2 ex_entries); skipn 4 ex_entries].
Proof.
  split; [|split].
  - unfold ex_entries. repeat (constructor; cbn [e_start e_end]; try lia).
  - unfold ex_entries. repeat constructor; cbn [e_start e_end e_rest]; try (unfold U32; lia); try (intros [? ?]; discriminate);
      try discriminate.
  - vm_compute. reflexivity.
Qed.
Example C02_example_run :
  match bb_write_nosweep {| o_compress := false; o_ips := 2; o_bs := 2; o_izoom := 160; o_maxzooms := 0; o_manual := None; o_sort_all := true |}
                         [(k2_name, 40)] None (map (fun x => (k2_name, x)) ex_entries) with
  | Ok bs => match read_info bs with
             | Ok i => bb_interval idf bs i k2_name 0 40 = Ok ex_entries /\ bb_item_count bs i = Ok 5
                       /\ bb_autosql bs i = Ok (Some AUTOSQL_BED3)
             | _ => False end
  | _ => False
  end.
Proof. vm_compute. repeat split; reflexivity. Qed.

(* the hypotheses of the file-level theorem are met by the example (the last one computed) *)
Example C02_file_example_hyps :
  let o := {| o_compress := false; o_ips := 2; o_bs := 2; o_izoom := 160; o_maxzooms := 0; o_manual := None; o_sort_all := true |} in
  let input := map (fun x => (k2_name, x)) ex_entries in
  (o_bs o <= 65535 /\ Nlen (bruns input) < U16 /\ input_ok input
   /\ Forall (fun s : name * N => snd s < U32) [(k2_name, 40)])
  /\ match bb_write_nosweep o [(k2_name, 40)] None input with
     | Ok f => Nlen f <= U64
     | _ => False
     end.
Proof.
  cbv zeta. split; [|vm_compute; discriminate].
  split; [cbn; lia|].
  split; [vm_compute; reflexivity|]. split.
  - unfold input_ok, ex_entries. repeat constructor; cbn [fst snd e_start e_end e_rest];
      try (unfold U32; vm_compute; reflexivity); try discriminate; try (intros [? ?]; discriminate).
  - repeat constructor; cbn; unfold U32; lia.
Qed.

(* ---------------------------------------------------------------- COMPRESSED files
   Model/BigBedWriteZ.v is the bigBed writer model with the block compressor as a parameter [cmp] (every data and
   zoom section goes through it when options.compress is set; uncompress_buf_size, write_zooms' skipping rules and the
   two-pass level selection as the code computes them, i.e. on COMPRESSED sizes).  The file-level round trip holds for
   EVERY compressor and every decompressor with  infl (cmp b) = b  (asked only when options.compress is set): that is
   the only hypothesis on the pair.  [ubuf_fits] is a field width: when blocks are compressed, every block is shorter
   than 2^32 bytes BEFORE compression (uncompress_buf_size is a u32 header field; data blocks hold at most
   items_per_slot entries but a rest-of-line has no length limit, zoom blocks are 32 * items_per_slot bytes).
   With options.compress = false the model is Model/BigBedWrite.v and these are the statements above. *)
From BT Require Import Model.BigWigWriteZ Model.BigBedWriteZ Proofs.BedFileZ Proofs.BedFileZThms.
From BT Require Spec.Inflate Proofs.InflateStored.

Theorem C02_model_uncompressed : forall cmp fp o sizes autosql input, o_compress o = false ->
  bb_write_z cmp fp o sizes autosql input = bb_write fp o sizes autosql input
  /\ bb_write_multipass_z cmp fp o sizes autosql input = bb_write_multipass fp o sizes autosql input.
Proof. exact bb_write_z_uncompressed. Qed.
Print Assumptions C02_model_uncompressed.

(* both writers (two_pass = false: BigBedWrite::write, true: write_multipass), every floating-point mode, every
   option combination including compression: the reader opens the file, sees uncompress_buf_size = 0 iff the blocks
   are raw, every chromosome's full-span read returns its entries in input order; item count, autoSql verbatim,
   chromosome table *)
Theorem C02_written_file_roundtrip_compressed : forall cmp two_pass fp o sizes autosql input f,
  bb_write_either_z cmp two_pass fp o sizes autosql input = Ok f -> file_hyps o sizes input f -> ubuf_fits o input ->
  exists i, read_info f = Ok i
    /\ (h_ubuf (i_hdr i) = 0 <-> o_compress o = false) /\ h_ubuf (i_hdr i) < U32
    /\ (forall infl, (o_compress o = true -> forall b, infl (cmp b) = b) -> forall c es, In (c, es) (bruns input) ->
          exists len, lookup c sizes = Some len /\ bb_interval infl f i c 0 len = Ok es)
    /\ (Nlen input < U64 -> bb_item_count f i = Ok (Nlen input))
    /\ bb_autosql f i = Ok (Some (match autosql with Some s => s | None => AUTOSQL_BED3 end))
    /\ map (fun c => (ci_name c, ci_id c)) (i_chroms i) = combine (map fst (bruns input)) (seqN 0 (length (bruns input)))
    /\ Forall (fun c => lookup (ci_name c) sizes = Some (ci_len c)) (i_chroms i).
Proof. exact written_file_roundtrip_compressed. Qed.
Print Assumptions C02_written_file_roundtrip_compressed.

(* the uncompress_buf_size the READER sees is at least the uncompressed length of every data block of the file
   (the blocks are the sections of the runs; the chromosome id does not change a record's length) *)
Theorem C02_written_file_buf_size_compressed : forall cmp two_pass fp o sizes autosql input f,
  bb_write_either_z cmp two_pass fp o sizes autosql input = Ok f -> file_hyps o sizes input f -> ubuf_fits o input ->
  exists i, read_info f = Ok i /\ (o_compress o = true ->
    forall c es blk, In (c, es) (bruns input) -> In blk (sections_loop (o_ips o) [] es) ->
      Nlen (flat_map (entry_bytes 0) blk) <= h_ubuf (i_hdr i)).
Proof. exact written_file_buf_size_compressed. Qed.
Print Assumptions C02_written_file_buf_size_compressed.

(* [ubuf_fits] from field sizes alone: rest-of-line at most R bytes, items_per_slot * (13 + R) < 2^32 *)
Theorem C02_ubuf_fits_of_bounds : forall o input R, 1 <= o_ips o -> o_ips o * (13 + R) < U32 -> 32 * o_ips o < U32 ->
  Forall (fun it : bitem => Nlen (e_rest (snd it)) <= R) input -> ubuf_fits o input.
Proof. intros o input R Hi Hb H32 Hall _. split; [exact H32|exact (blocks_fit_of_bounds o input R Hi Hb Hall)]. Qed.
Print Assumptions C02_ubuf_fits_of_bounds.

(* Non-vacuity: the example chromosome written COMPRESSED by both writers with a toy compressor ([toy_cmp]: two
   marker bytes + the block reversed) and with the zlib "stored" encoder of Spec/Inflate.v, zoom levels 4 and 64:
   every hypothesis is met, the file is longer than the uncompressed one (2 bytes per block), the header buffer size is 64, and the reader
   with the matching decompressor returns the entries while the identity does not. *)
Definition exz_opts : opts := {| o_compress := true; o_ips := 2; o_bs := 2; o_izoom := 160; o_maxzooms := 10; o_manual := Some [4; 64]; o_sort_all := true |}.
Definition exz_input : list bitem := map (fun x => (k2_name, x)) ex_entries.
Definition zlib_infl (b : list N) : list N := match Inflate.zlib_decode b with Some x => x | None => b end.
Lemma zlib_rt : forall b, zlib_infl (Inflate.zlib_store b) = b.
Proof. intros b. unfold zlib_infl. now rewrite InflateStored.zlib_decode_stored. Qed.
Example C02_compressed_example_hyps :
  (o_bs exz_opts <= 65535 /\ Nlen (bruns exz_input) < U16 /\ input_ok exz_input
   /\ Forall (fun s : name * N => snd s < U32) [(k2_name, 40)])
  /\ ubuf_fits exz_opts exz_input
  /\ (forall b, toy_infl (toy_cmp b) = b) /\ (forall b, zlib_infl (Inflate.zlib_store b) = b)
  /\ match bb_write_z toy_cmp ieee exz_opts [(k2_name, 40)] None exz_input,
           bb_write_multipass_z toy_cmp ieee exz_opts [(k2_name, 40)] None exz_input,
           bb_write_z Inflate.zlib_store ieee exz_opts [(k2_name, 40)] None exz_input with
     | Ok f, Ok f2, Ok f3 => Nlen f <= U64 /\ Nlen f2 <= U64 /\ Nlen f3 <= U64
     | _, _, _ => False
     end.
Proof.
  split; [|split; [|split; [exact toy_rt|split; [exact zlib_rt|vm_compute; repeat split; discriminate]]]].
  - split; [cbn; lia|]. split; [vm_compute; reflexivity|]. split.
    + unfold input_ok, exz_input, ex_entries. repeat constructor; cbn [fst snd e_start e_end e_rest];
        try (unfold U32; vm_compute; reflexivity); try discriminate; try (intros [? ?]; discriminate).
    + repeat constructor; cbn; unfold U32; lia.
  - apply (C02_ubuf_fits_of_bounds exz_opts exz_input 4); [cbn; lia|cbn; unfold U32; lia|cbn; unfold U32; lia|].
    unfold exz_input, ex_entries. cbn [map]. repeat (constructor; [cbn; lia|]). constructor.
Qed.
Example C02_compressed_example_run :
  match bb_write_z toy_cmp ieee exz_opts [(k2_name, 40)] None exz_input,
        bb_write_multipass_z toy_cmp ieee exz_opts [(k2_name, 40)] None exz_input,
        bb_write_z Inflate.zlib_store ieee exz_opts [(k2_name, 40)] None exz_input,
        bb_write ieee {| o_compress := false; o_ips := 2; o_bs := 2; o_izoom := 160; o_maxzooms := 10; o_manual := Some [4; 64]; o_sort_all := true |}
                 [(k2_name, 40)] None exz_input with
  | Ok f, Ok f2, Ok f3, Ok g =>
      Nlen g < Nlen f
      /\ match read_info f, read_info f2, read_info f3 with
         | Ok i, Ok i2, Ok i3 =>
             h_ubuf (i_hdr i) = 64 /\ Nlen (i_zooms i) = 2 /\ h_ubuf (i_hdr i2) = 64 /\ h_ubuf (i_hdr i3) = 64
             /\ bb_interval toy_infl f i k2_name 0 40 = Ok ex_entries
             /\ bb_interval toy_infl f2 i2 k2_name 0 40 = Ok ex_entries
             /\ bb_interval zlib_infl f3 i3 k2_name 0 40 = Ok ex_entries
             /\ bb_interval toy_infl f i k2_name 12 18 = Ok (firstn 4 ex_entries)
             /\ bb_interval idf f i k2_name 0 40 <> Ok ex_entries
             /\ bb_item_count f i = Ok 5 /\ bb_autosql f i = Ok (Some AUTOSQL_BED3)
         | _, _, _ => False end
  | _, _, _, _ => False
  end.
Proof. vm_compute. repeat split; try reflexivity; discriminate. Qed.
