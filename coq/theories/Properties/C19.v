(* C19 — placeholder while the proofs are being written *)
From BT Require Import Base.Util Generated.Consts Model.AutoSql.
Theorem C19_default_schema : write_pre_schema None = Ok (AUTOSQL_BED3, 3%N).
Proof. vm_compute. reflexivity. Qed.
Print Assumptions C19_default_schema.
