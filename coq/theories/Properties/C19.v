(* C19 — the stored autoSql always matches the data; the schema parser is total.
   Only statements, closed by [exact], with Print Assumptions beneath each; the proofs are in
   Proofs/AutoSqlLex.v, AutoSqlTotal.v, AutoSqlGen.v, AutoSqlParseGen.v, AutoSqlStore.v.
   Model: Model/AutoSql.v ([bed_autosql], [parse_autosql], the schema part of [write_pre]) over the
   tables translated from bigtools/src/bed/autosql.rs into Generated/Consts.v. *)
From Coq Require Import String.
From BT Require Import Base.Util Generated.Consts Model.AutoSql Proofs.AutoSqlLex Proofs.AutoSqlTotal
  Proofs.AutoSqlGen Proofs.AutoSqlParseGen Proofs.AutoSqlStore Proofs.AutoSqlFuel Proofs.AutoSqlD9.
Local Open Scope nat_scope.

(* ------------------------------------------------------------------ the parser is total *)

(* For every text s and every budget of at least [parse_fuel s] = |s| + cap + 2 loop turns the
   parser returns declarations or an error value: it never runs out of fuel (= never hangs) and
   never panics.  (Before the repair of D9 this was false: see corpus/C19.) *)
Theorem C19_parser_total : forall (s : list N) (fuel : nat), parse_fuel s <= fuel ->
  (exists ds, parse_autosql fuel s = Ok ds) \/ (exists c, parse_autosql fuel s = Err c).
Proof. exact parser_total. Qed.
Print Assumptions C19_parser_total.

(* What it returns does not grow without bound: at most cap+1 declarations, and declarations +
   fields + enum/set values together number at most the characters of the input. *)
Theorem C19_parser_output_bounded : forall (s : list N) (fuel : nat) ds, parse_fuel s <= fuel ->
  parse_autosql fuel s = Ok ds ->
  length ds <= N.to_nat AUTOSQL_DECL_CAP + 1 /\ decls_weight ds <= length s.
Proof. exact parser_output_bounded. Qed.
Print Assumptions C19_parser_output_bounded.

(* The outcome does not depend on the budget once it is sufficient: [parse s] is THE answer, and
   "out of fuel" can only mean a loop that does not end. *)
Theorem C19_parser_fuel_independent : forall s f1 f2, parse_fuel s <= f1 -> parse_fuel s <= f2 ->
  parse_autosql f1 s = parse_autosql f2 s.
Proof. exact parser_fuel_independent. Qed.
Print Assumptions C19_parser_fuel_independent.

(* D9, for the record (repaired in /repo commit 034426d; the model above follows the repaired
   code): the value loop of enum( / set( WITHOUT the empty-value exit never returns on the text
   after `enum(` in  table t "c" ( enum(a, b , whatever the budget. *)
Theorem C19_enum_loop_unrepaired_diverges : forall lf fuel, 4 < fuel ->
  values_loop_unrepaired lf fuel (mkP (bs "a, b") 0) [] = Fuel.
Proof. exact unrepaired_loop_witness. Qed.
Print Assumptions C19_enum_loop_unrepaired_diverges.

(* Non-vacuity: a two-declaration schema with an enum, a set, a sized array and an index parses;
   the D9 witness (unterminated value list) is an error, not a hang. *)
Example C19_example_parse :
  let s := bs "table t ""c"" ( enum(a, b) e; ""x"" set(u,v,) f primary; int[3] g index[2] auto; ) simple p ""q"" ( uint x; )" in
  parse_fuel s <= parse_fuel s /\
  exists d1 d2, parse s = Ok [d1; d2] /\ length (d_fields d1) = 3 /\ length (d_fields d2) = 1
                /\ decls_weight [d1; d2] = 10.
Proof. split; [apply Nat.le_refl|]. eexists. eexists. vm_compute. repeat split. Qed.
Example C19_example_d9 :
  parse (bs "table t ""c"" ( enum(a, b") = Err E_InvalidFieldValuesBrackets
  /\ parse (bs "table t ""c"" ( set(") = Err E_InvalidFieldValuesBrackets.
Proof. split; vm_compute; reflexivity. Qed.

(* ------------------------------------------------------------------ the generator *)

(* For EVERY number n of extra columns the generated text declares exactly 3 + n fields
   ([declared_fields]: field terminators outside quoted comments; no parser involved). *)
Theorem C19_generated_field_count : forall n, declared_fields (bed_autosql_n n) = 3 + n.
Proof. exact generated_field_count. Qed.
Print Assumptions C19_generated_field_count.

(* The same from the BED line: a non-empty rest made of separator-free columns joined by the
   column separator yields 3 + (number of columns) fields; the empty rest yields 3. *)
Theorem C19_generated_field_count_rest : forall cols, Forall no_sep cols -> join_cols cols <> [] ->
  declared_fields (bed_autosql (join_cols cols)) = 3 + length cols.
Proof. exact generated_field_count_rest. Qed.
Print Assumptions C19_generated_field_count_rest.
Theorem C19_generated_field_count_bed3_line : declared_fields (bed_autosql []) = 3.
Proof. exact generated_field_count_bed3_line. Qed.
Print Assumptions C19_generated_field_count_bed3_line.

Example C19_example_rest :
  let cols := [bs "name"; bs "0,1,"; bs ""; bs "+"] in
  Forall no_sep cols /\ join_cols cols <> [] /\ join_cols cols = bs "name	0,1,		+"
  /\ declared_fields (bed_autosql (join_cols cols)) = 7.
Proof.
  cbv zeta. split; [repeat constructor|]. split; [discriminate|]. split; vm_compute; reflexivity.
Qed.

(* The parser parses EVERY generated schema (all n, not only the property's 0..40) to exactly one
   declaration, `table bed`, with 3 + n fields. *)
Theorem C19_parse_generated : forall n, exists d,
  parse (bed_autosql_n n) = Ok [d] /\ length (d_fields d) = 3 + n
  /\ d_type d = Table /\ dn_name (d_name d) = [98; 101; 100]%N.
Proof. exact parse_generated. Qed.
Print Assumptions C19_parse_generated.

Example C19_example_parse_generated_13 :
  exists d, parse (bed_autosql_n 13) = Ok [d] /\ length (d_fields d) = 16
  /\ map f_name (skipn 14 (d_fields d)) = [bs "expScores"; bs "field16"].
Proof. eexists. vm_compute. repeat split. Qed.

(* ------------------------------------------------------------------ what write_pre stores *)

(* The header's field count for the schema generated from a line with n extra columns is 3 + n
   (the field is a u16: stated for 3 + n < 65536), and the schema is stored as generated. *)
Theorem C19_header_field_count : forall n, (N.of_nat (3 + n) < 65536)%N ->
  write_pre_schema (Some (bed_autosql_n n)) = Ok (bed_autosql_n n, N.of_nat (3 + n)).
Proof. exact header_field_count_generated. Qed.
Print Assumptions C19_header_field_count.

(* ... and through the tool, from the rest of the first BED line: text and header agree. *)
Theorem C19_header_field_count_tool : forall cols, Forall no_sep cols -> join_cols cols <> [] ->
  (N.of_nat (3 + length cols) < 65536)%N ->
  write_pre_schema (Some (bed_autosql (join_cols cols)))
  = Ok (bed_autosql (join_cols cols), N.of_nat (3 + length cols))
  /\ declared_fields (bed_autosql (join_cols cols)) = 3 + length cols.
Proof. exact header_field_count_tool. Qed.
Print Assumptions C19_header_field_count_tool.

(* A supplied schema is stored verbatim with the field count of the last declaration the parser
   returns (3 when it does not parse or declares nothing); the only refusal is a NUL byte. *)
Theorem C19_supplied_schema_verbatim : forall s,
  (has_nul s = true -> write_pre_schema (Some s) = Err E_NulInSchema) /\
  (has_nul s = false -> write_pre_schema (Some s) = Ok (s, (count_of (parse s) mod 65536)%N)).
Proof. exact write_pre_supplied. Qed.
Print Assumptions C19_supplied_schema_verbatim.

Theorem C19_stored_is_supplied : forall s stored fc,
  write_pre_schema (Some s) = Ok (stored, fc) -> stored = s /\ has_nul s = false /\ (fc < 65536)%N.
Proof. exact supplied_schema_verbatim. Qed.
Print Assumptions C19_stored_is_supplied.

(* write_pre's schema step returns on every input: a value, or the NUL refusal. *)
Theorem C19_write_pre_total : forall o,
  (exists v, write_pre_schema o = Ok v) \/ write_pre_schema o = Err E_NulInSchema.
Proof. exact write_pre_total. Qed.
Print Assumptions C19_write_pre_total.

(* The library default is the three-field BED schema. *)
Theorem C19_default_schema :
  write_pre_schema None = Ok (AUTOSQL_BED3, 3%N) /\ declared_fields AUTOSQL_BED3 = 3.
Proof. exact default_schema. Qed.
Print Assumptions C19_default_schema.

Example C19_example_supplied :
  let s := bs "table a ""x"" ( int p; ""1"" int q; ""2"" ) table b ""y"" ( int r; ""3"" int s; ""4"" int t; ""5"" int u; ""6"" )" in
  has_nul s = false /\ write_pre_schema (Some s) = Ok (s, 4%N)
  /\ write_pre_schema (Some (bs "table a ""x"" ( int p ")) = Ok (bs "table a ""x"" ( int p ", 3%N)
  /\ has_nul [116; 0]%N = true.
Proof. cbv zeta. repeat split; vm_compute; reflexivity. Qed.
