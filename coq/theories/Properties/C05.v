(* C05 — the on-disk R-tree finds exactly what a linear scan finds.
   Only statements, closed by [exact], with Print Assumptions beneath each. *)
From BT Require Import Base.Util Model.RTree Proofs.RTreeAbs Proofs.RTreeBuild.
Local Open Scope N_scope.

(* Search on any tree whose recorded spans cover what lies beneath them returns exactly the
   overlapping sections, in order. *)
Theorem C05_search_tree_eq_scan : forall q qs qe t, covered t ->
  search_tree q qs qe t = filter (fun s => overlaps q qs qe (sect_span s)) (leaves t).
Proof. exact search_tree_eq_scan. Qed.
Print Assumptions C05_search_tree_eq_scan.

(* For every fan-out b >= 2 and every non-empty start-sorted section list, building the index
   terminates (never Fuel, never Panic), the tree's leaves are the sections in file order, all
   recorded spans cover, and the root span (the index header's bounds) contains every section. *)
Theorem C05_build_ok : forall b secs, (2 <= b)%nat -> secs <> [] -> sorted_starts (map sect_span secs) ->
  exists t lv, build b secs = Ok (t, lv) /\ covered t /\ leaves t = secs
               /\ Forall (fun s => inside (sect_span s) (span_of t)) secs.
Proof. exact build_ok. Qed.
Print Assumptions C05_build_ok.

(* Hence: the search of the built tree equals the linear scan, for every query. *)
Theorem C05_search_built_eq_scan : forall b secs, (2 <= b)%nat -> secs <> [] -> sorted_starts (map sect_span secs) ->
  exists t lv, build b secs = Ok (t, lv) /\
    forall q qs qe, map (fun s => (s_off s, s_size s)) (search_tree q qs qe t) = scan secs q qs qe.
Proof.
  intros b secs Hb Hne Hs. destruct (build_ok b secs Hb Hne Hs) as [t [lv [Hbuild [Hc [Hl _]]]]].
  exists t, lv. split; [exact Hbuild|]. intros q qs qe. rewrite search_tree_eq_scan by exact Hc.
  rewrite Hl. reflexivity.
Qed.
Print Assumptions C05_search_built_eq_scan.

(* The empty section list yields the empty index (after the repair; it had no measure before). *)
Theorem C05_build_empty : forall b, (0 < b)%nat -> build b [] = Ok (Leaf [], 0%nat).
Proof. exact build_empty. Qed.
Print Assumptions C05_build_empty.

(* Non-vacuity: a concrete three-level instance meets the hypotheses. *)
Definition ex_secs : list sect :=
  map (fun i => {| s_chrom := N.of_nat (i / 4); s_start := N.of_nat (10 * (i mod 4)); s_end := N.of_nat (10 * (i mod 4) + 7);
                   s_off := N.of_nat (100 + i); s_size := 1 |}) (seq 0 9).
Example C05_example_hyps : (2 <= 2)%nat /\ ex_secs <> [] /\ sorted_starts (map sect_span ex_secs)
  /\ exists t, build 2 ex_secs = Ok (t, 3%nat).
Proof.
  split; [lia|]. split; [discriminate|]. split.
  - unfold ex_secs. cbn. repeat (constructor; [|repeat constructor; unfold start_le, ple; cbn; lia]). constructor.
  - eexists. vm_compute. reflexivity.
Qed.
